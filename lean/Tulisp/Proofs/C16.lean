/-
  Proofs/C16.lean — parser side of C16: which tokens a syntax tree was parsed from (`Parsed`),
  the joint invariant showing that every tree the parser returns is `Parsed` from exactly the
  tokens it consumed, sub-forms (`Sub`) and their token segments.
-/
import Tulisp.Proofs.C16Defs
namespace Tulisp.C16
open Tulisp Tulisp.C09

mutual
/-- `Parsed s seg`: the tree `s`, spans included, is what the parser builds from exactly the
    token segment `seg`: an atom from its one token (and carries that token's span), a list from
    `(` … `)` with the span running from the start of that `(` to the end of that `)` and the
    items / dotted tail parsed from consecutive segments in between, a shorthand from its
    shorthand token (whose span it carries) followed by the tokens of the wrapped form. -/
def Parsed : Sx → List Token → Prop
  | .int sp n, seg => seg = [⟨.int n, sp⟩]
  | .float sp t, seg => seg = [⟨.float t, sp⟩]
  | .str sp s, seg => seg = [⟨.str s, sp⟩]
  | .ident sp s, seg => seg = [⟨.ident s, sp⟩]
  | .list sp items tail, seg => ∃ o c iseg tseg, seg = o :: (iseg ++ (tseg ++ [c])) ∧
      o.tok = .open ∧ c.tok = .close ∧ sp = ⟨o.sp.file, o.sp.s, c.sp.e⟩ ∧
      ParsedL items iseg ∧ ParsedO tail tseg
  | .quote sp x, seg => ∃ tk xs, seg = tk :: xs ∧ (tk.tok = .quote ∨ tk.tok = .sharpquote) ∧
      tk.sp = sp ∧ Parsed x xs
  | .backquote sp x, seg => ∃ tk xs, seg = tk :: xs ∧ tk.tok = .backtick ∧ tk.sp = sp ∧ Parsed x xs
  | .unquote sp x, seg => ∃ tk xs, seg = tk :: xs ∧ tk.tok = .comma ∧ tk.sp = sp ∧ Parsed x xs
  | .splice sp x, seg => ∃ tk xs, seg = tk :: xs ∧ tk.tok = .splice ∧ tk.sp = sp ∧ Parsed x xs
/-- consecutive forms from consecutive segments -/
def ParsedL : List Sx → List Token → Prop
  | [], seg => seg = []
  | x :: xs, seg => ∃ s1 s2, seg = s1 ++ s2 ∧ Parsed x s1 ∧ ParsedL xs s2
/-- a dotted tail: `.` and the tail form -/
def ParsedO : Option Sx → List Token → Prop
  | none, seg => seg = []
  | some x, seg => ∃ d xs, seg = d :: xs ∧ d.tok = .dot ∧ Parsed x xs
end

theorem parsedL_append {xs ys : List Sx} {a b : List Token} (h1 : ParsedL xs a)
    (h2 : ParsedL ys b) : ParsedL (xs ++ ys) (a ++ b) := by
  induction xs generalizing a with
  | nil => simp only [ParsedL] at h1; subst h1; simpa using h2
  | cons x xs ih =>
    simp only [ParsedL] at h1
    obtain ⟨s1, s2, rfl, hx, hxs⟩ := h1
    simp only [List.cons_append, ParsedL]
    exact ⟨s1, s2 ++ b, by simp, hx, ih hxs⟩

theorem parsedL_single {x : Sx} {a : List Token} (h : Parsed x a) : ParsedL [x] a := by
  simp only [ParsedL]
  exact ⟨a, [], by simp, h, rfl⟩

/-! ## The joint invariant -/

def QV (f : Nat) : Prop := ∀ (st : PState) (s : Sx) (st' : PState),
  parseValue f st = (.ok s, st') → ∃ seg, st.toks = seg ++ st'.toks ∧ Parsed s seg

def QW (f : Nat) : Prop := ∀ (sp : Span) (mk : Sx → Sx) (st : PState) (s : Sx) (st' : PState),
  wrap f sp mk st = (.ok s, st') → ∃ x seg, s = mk x ∧ st.toks = seg ++ st'.toks ∧ Parsed x seg

def QL (f : Nat) : Prop := ∀ (start : Span) (acc : List Sx) (st : PState) (s : Sx) (st' : PState),
  parseListItems f start acc st = (.ok s, st') →
  ∃ ss tl c iseg tseg, s = .list ⟨start.file, start.s, c.sp.e⟩ (acc.reverse ++ ss) tl ∧
    st.toks = iseg ++ (tseg ++ [c]) ++ st'.toks ∧ c.tok = .close ∧ ParsedL ss iseg ∧ ParsedO tl tseg

theorem qv_step {f : Nat} (hW : QW f) (hL : QL f) : QV (f + 1) := by
  intro st s st' h
  rcases st with ⟨toks, ev⟩
  cases toks with
  | nil => simp [parseValue] at h
  | cons tk rest =>
    rcases tk with ⟨tok, sp⟩
    cases tok <;> simp only [parseValue, Prod.mk.injEq, PRes.ok.injEq, reduceCtorEq, false_and] at h
    case «open» =>
      obtain ⟨ss, tl, c, iseg, tseg, rfl, h2, hc, h4, h5⟩ := hL sp [] ⟨rest, ev⟩ s st' h
      simp only at h2
      refine ⟨⟨.open, sp⟩ :: (iseg ++ (tseg ++ [c])), by simp [h2], ?_⟩
      simp only [Parsed, List.reverse_nil, List.nil_append]
      exact ⟨_, c, iseg, tseg, rfl, rfl, hc, rfl, h4, h5⟩
    case quote =>
      obtain ⟨x, seg, rfl, h2, h3⟩ := hW sp _ ⟨rest, ev⟩ s st' h
      simp only at h2
      exact ⟨⟨.quote, sp⟩ :: seg, by simp [h2], by simp only [Parsed]; exact ⟨_, seg, rfl, Or.inl rfl, rfl, h3⟩⟩
    case sharpquote =>
      obtain ⟨x, seg, rfl, h2, h3⟩ := hW sp _ ⟨rest, ev⟩ s st' h
      simp only at h2
      exact ⟨⟨.sharpquote, sp⟩ :: seg, by simp [h2], by simp only [Parsed]; exact ⟨_, seg, rfl, Or.inr rfl, rfl, h3⟩⟩
    case backtick =>
      obtain ⟨x, seg, rfl, h2, h3⟩ := hW sp _ ⟨rest, ev⟩ s st' h
      simp only at h2
      exact ⟨⟨.backtick, sp⟩ :: seg, by simp [h2], by simp only [Parsed]; exact ⟨_, seg, rfl, rfl, rfl, h3⟩⟩
    case comma =>
      obtain ⟨x, seg, rfl, h2, h3⟩ := hW sp _ ⟨rest, ev⟩ s st' h
      simp only at h2
      exact ⟨⟨.comma, sp⟩ :: seg, by simp [h2], by simp only [Parsed]; exact ⟨_, seg, rfl, rfl, rfl, h3⟩⟩
    case splice =>
      obtain ⟨x, seg, rfl, h2, h3⟩ := hW sp _ ⟨rest, ev⟩ s st' h
      simp only at h2
      exact ⟨⟨.splice, sp⟩ :: seg, by simp [h2], by simp only [Parsed]; exact ⟨_, seg, rfl, rfl, rfl, h3⟩⟩
    all_goals
      obtain ⟨rfl, rfl⟩ := h
      exact ⟨[_], rfl, by simp only [Parsed]⟩

theorem qw_step {f : Nat} (hV : QV f) : QW (f + 1) := by
  intro sp mk st s st' h
  simp only [wrap] at h
  rcases hr : parseValue f st with ⟨r, st2⟩
  rw [hr] at h
  cases r <;> simp only [Prod.mk.injEq, PRes.ok.injEq, reduceCtorEq, false_and] at h
  obtain ⟨rfl, rfl⟩ := h
  obtain ⟨seg, h1, h2⟩ := hV st _ _ hr
  exact ⟨_, seg, rfl, h1, h2⟩


theorem ql_step {f : Nat} (hV : QV f) (hL : QL f) : QL (f + 1) := by
  intro start acc st s st' h
  rcases st with ⟨toks, ev⟩
  cases toks with
  | nil => simp [parseListItems] at h
  | cons tk rest =>
    cases htok : tk.tok
    case close =>
      simp only [parseListItems, htok, Prod.mk.injEq, PRes.ok.injEq] at h
      obtain ⟨rfl, rfl⟩ := h
      refine ⟨[], none, tk, [], [], by simp, ?_, htok, rfl, rfl⟩
      simp only [List.nil_append, List.cons_append]
      split <;> rfl
    case dot =>
      simp only [parseListItems, htok] at h
      rcases hr : parseValue f ⟨rest, ev⟩ with ⟨r, st2⟩
      rw [hr] at h
      cases r <;> simp only [Prod.mk.injEq, reduceCtorEq, false_and] at h
      rename_i x
      rcases st2 with ⟨toks2, ev2⟩
      cases toks2 with
      | nil => simp at h
      | cons tk2 rest2 =>
        simp only at h
        by_cases hc : tk2.tok = .close
        · simp only [hc, if_true, Prod.mk.injEq, PRes.ok.injEq] at h
          obtain ⟨rfl, rfl⟩ := h
          obtain ⟨seg, h1, h2⟩ := hV _ _ _ hr
          simp only at h1
          refine ⟨[], some x, tk2, [], tk :: seg, by simp, ?_, hc, rfl, ?_⟩
          · simp only [List.nil_append, List.cons_append, h1, List.append_assoc]
            split <;> rfl
          · simp only [ParsedO]; exact ⟨tk, seg, rfl, htok, h2⟩
        · simp [hc] at h
    all_goals
      simp only [parseListItems, htok] at h
      rcases hr : parseValue f ⟨tk :: rest, ev⟩ with ⟨r, st2⟩
      rw [hr] at h
      cases r <;> simp only [Prod.mk.injEq, reduceCtorEq, false_and] at h
      rename_i x
      obtain ⟨seg, h1, h2⟩ := hV _ _ _ hr
      obtain ⟨ss, tl, c, iseg, tseg, rfl, h4, hc, h5, h6⟩ := hL _ _ _ _ _ h
      simp only at h1
      refine ⟨x :: ss, tl, c, seg ++ iseg, tseg, by simp, ?_, hc, ?_, h6⟩
      · rw [h1, h4]; simp
      · simp only [ParsedL]; exact ⟨seg, iseg, rfl, h2, h5⟩

theorem q_all (f : Nat) : QV f ∧ QW f ∧ QL f := by
  induction f with
  | zero =>
    refine ⟨?_, ?_, ?_⟩
    · intro st s st' h; simp [parseValue] at h
    · intro sp mk st s st' h; simp [wrap] at h
    · intro start acc st s st' h; simp [parseListItems] at h
  | succ f ih => exact ⟨qv_step ih.2.1 ih.2.2, qw_step ih.1, ql_step ih.1 ih.2.2⟩

theorem qv_all (f : Nat) : QV f := (q_all f).1

/-- `parse_value` answers `eof` only on an empty token list, which it leaves as it is. -/
theorem parseValue_eof {f : Nat} {st st' : PState} (h : parseValue f st = (.eof, st')) :
    st'.toks = [] := by
  cases f with
  | zero => simp [parseValue] at h
  | succ f =>
    rcases st with ⟨toks, ev⟩
    cases toks with
    | nil => simp only [parseValue, Prod.mk.injEq, true_and] at h; subst h; rfl
    | cons tk rest =>
      have := C08.parseValue_eof_only_at_end (f + 1) ⟨tk :: rest, ev⟩ (by rw [h])
      simp at this

/-- The top-level loop: the forms it returns are parsed from consecutive segments that together
    are all the tokens. -/
theorem qa_all (f : Nat) : ∀ (acc : List Sx) (st : PState) (forms : List Sx) (st' : PState),
    parseAll f acc st = (.ok forms, st') →
    ∃ ss, forms = acc.reverse ++ ss ∧ ParsedL ss st.toks := by
  induction f with
  | zero => intro acc st forms st' h; simp [parseAll] at h
  | succ f ih =>
    intro acc st forms st' h
    simp only [parseAll] at h
    rcases hr : parseValue f st with ⟨r, st2⟩
    rw [hr] at h
    cases r <;> simp only [Prod.mk.injEq, PRes.ok.injEq, reduceCtorEq, false_and] at h
    · rename_i x
      obtain ⟨seg, h1, h2⟩ := qv_all f _ _ _ hr
      obtain ⟨ss, rfl, h4⟩ := ih _ _ _ _ h
      refine ⟨x :: ss, by simp, ?_⟩
      rw [h1]; simp only [ParsedL]; exact ⟨seg, st2.toks, rfl, h2, h4⟩
    · obtain ⟨rfl, rfl⟩ := h
      have h1 := C08.parseValue_eof_only_at_end f st (by rw [hr])
      exact ⟨[], by simp, by rw [h1]; rfl⟩

/-- Everything `parseTokens` returns is parsed from the token list, segment by segment. -/
theorem parseTokens_parsed {toks : List Token} {forms : List Sx}
    (h : (parseTokens toks).res = .ok forms) : ParsedL forms toks := by
  unfold parseTokens at h
  rcases hr : parseAll (2 * toks.length + 2) [] { toks := toks } with ⟨r, st'⟩
  rw [hr] at h
  simp only at h
  subst h
  obtain ⟨ss, h1, h2⟩ := qa_all _ _ _ _ _ hr
  simp only [List.reverse_nil, List.nil_append] at h1
  subst h1
  exact h2


/-! ## Sub-forms and their token segments -/

/-- `Sub y s`: the form `y` occurs in `s`, at any depth (`s` itself included). -/
inductive Sub : Sx → Sx → Prop
  | refl (s : Sx) : Sub s s
  | item {y x : Sx} {sp : Span} {items : List Sx} {tail : Option Sx} :
      x ∈ items → Sub y x → Sub y (.list sp items tail)
  | tail {y x : Sx} {sp : Span} {items : List Sx} : Sub y x → Sub y (.list sp items (some x))
  | quote {y x : Sx} {sp : Span} : Sub y x → Sub y (.quote sp x)
  | backquote {y x : Sx} {sp : Span} : Sub y x → Sub y (.backquote sp x)
  | unquote {y x : Sx} {sp : Span} : Sub y x → Sub y (.unquote sp x)
  | splice {y x : Sx} {sp : Span} : Sub y x → Sub y (.splice sp x)

theorem parsedL_mem {items : List Sx} {iseg : List Token} {x : Sx} (h : ParsedL items iseg)
    (hx : x ∈ items) : ∃ xs, xs <:+: iseg ∧ Parsed x xs := by
  induction items generalizing iseg with
  | nil => simp at hx
  | cons a items ih =>
    simp only [ParsedL] at h
    obtain ⟨s1, s2, rfl, ha, hr⟩ := h
    rcases List.mem_cons.mp hx with rfl | hx
    · exact ⟨s1, (List.prefix_append s1 s2).isInfix, ha⟩
    · obtain ⟨xs, h1, h2⟩ := ih hr hx
      exact ⟨xs, h1.trans (List.suffix_append s1 s2).isInfix, h2⟩

/-- The tokens of a sub-form are a contiguous segment of the tokens of the form. -/
theorem sub_parsed {y s : Sx} (h : Sub y s) : ∀ seg, Parsed s seg → ∃ ys, ys <:+: seg ∧ Parsed y ys := by
  induction h with
  | refl => intro seg hs; exact ⟨seg, List.infix_refl seg, hs⟩
  | item hx _ ih =>
    intro seg hs
    simp only [Parsed] at hs
    obtain ⟨o, c, iseg, tseg, rfl, _, _, _, hi, _⟩ := hs
    obtain ⟨xs, h1, h2⟩ := parsedL_mem hi hx
    obtain ⟨ys, h3, h4⟩ := ih xs h2
    refine ⟨ys, h3.trans (h1.trans ?_), h4⟩
    exact (List.prefix_append iseg (tseg ++ [c])).isInfix.trans (List.suffix_cons o _).isInfix
  | tail _ ih =>
    intro seg hs
    simp only [Parsed, ParsedO] at hs
    obtain ⟨o, c, iseg, tseg, rfl, _, _, _, _, d, xs, rfl, _, hx⟩ := hs
    obtain ⟨ys, h3, h4⟩ := ih xs hx
    refine ⟨ys, h3.trans ?_, h4⟩
    refine List.IsInfix.trans ?_ (List.suffix_cons o _).isInfix
    refine List.IsInfix.trans ?_ (List.suffix_append iseg _).isInfix
    exact ⟨[d], [c], by simp⟩
  | quote _ ih =>
    intro seg hs
    simp only [Parsed] at hs
    obtain ⟨tk, xs, rfl, _, _, hx⟩ := hs
    obtain ⟨ys, h3, h4⟩ := ih xs hx
    exact ⟨ys, h3.trans (List.suffix_cons tk xs).isInfix, h4⟩
  | backquote _ ih =>
    intro seg hs
    simp only [Parsed] at hs
    obtain ⟨tk, xs, rfl, _, _, hx⟩ := hs
    obtain ⟨ys, h3, h4⟩ := ih xs hx
    exact ⟨ys, h3.trans (List.suffix_cons tk xs).isInfix, h4⟩
  | unquote _ ih =>
    intro seg hs
    simp only [Parsed] at hs
    obtain ⟨tk, xs, rfl, _, _, hx⟩ := hs
    obtain ⟨ys, h3, h4⟩ := ih xs hx
    exact ⟨ys, h3.trans (List.suffix_cons tk xs).isInfix, h4⟩
  | splice _ ih =>
    intro seg hs
    simp only [Parsed] at hs
    obtain ⟨tk, xs, rfl, _, _, hx⟩ := hs
    obtain ⟨ys, h3, h4⟩ := ih xs hx
    exact ⟨ys, h3.trans (List.suffix_cons tk xs).isInfix, h4⟩

/-- A form inside a list (an item, the dotted tail, or anything inside those) is parsed from a
    segment of the tokens strictly between the list's `(` and `)`. -/
theorem list_inner {sp : Span} {items : List Sx} {tail : Option Sx} {seg : List Token} {x y : Sx}
    (hs : Parsed (.list sp items tail) seg) (hx : x ∈ items ∨ tail = some x) (hy : Sub y x) :
    ∃ o c mid ys, seg = o :: (mid ++ [c]) ∧ o.tok = .open ∧ c.tok = .close ∧
      sp = ⟨o.sp.file, o.sp.s, c.sp.e⟩ ∧ ys <:+: mid ∧ Parsed y ys := by
  simp only [Parsed] at hs
  obtain ⟨o, c, iseg, tseg, rfl, ho, hc, hsp, hi, ht⟩ := hs
  refine ⟨o, c, iseg ++ tseg, ?_⟩
  rcases hx with hx | rfl
  · obtain ⟨xs, h1, h2⟩ := parsedL_mem hi hx
    obtain ⟨ys, h3, h4⟩ := sub_parsed hy xs h2
    exact ⟨ys, by simp, ho, hc, hsp,
      h3.trans (h1.trans (List.prefix_append iseg tseg).isInfix), h4⟩
  · simp only [ParsedO] at ht
    obtain ⟨d, xs, rfl, _, h2⟩ := ht
    obtain ⟨ys, h3, h4⟩ := sub_parsed hy xs h2
    exact ⟨ys, by simp, ho, hc, hsp,
      h3.trans ((List.suffix_cons d xs).isInfix.trans (List.suffix_append iseg _).isInfix), h4⟩

/-- The span of a parsed form starts where its first token starts and ends where one of its
    tokens ends (an atom: its token; a list: the closing parenthesis; a shorthand: the shorthand
    token). -/
theorem parsed_span_ends {y : Sx} {ys : List Token} (h : Parsed y ys) :
    ∃ hd tl l, ys = hd :: tl ∧ y.span.s = hd.sp.s ∧ l ∈ ys ∧ y.span.e = l.sp.e := by
  cases y <;> simp only [Parsed] at h
  case list sp items tail =>
    obtain ⟨o, c, iseg, tseg, rfl, _, _, rfl, _, _⟩ := h
    exact ⟨o, _, c, rfl, rfl, by simp, rfl⟩
  case quote sp x => obtain ⟨tk, xs, rfl, _, rfl, _⟩ := h; exact ⟨tk, xs, tk, rfl, rfl, by simp, rfl⟩
  case backquote sp x => obtain ⟨tk, xs, rfl, _, rfl, _⟩ := h; exact ⟨tk, xs, tk, rfl, rfl, by simp, rfl⟩
  case unquote sp x => obtain ⟨tk, xs, rfl, _, rfl, _⟩ := h; exact ⟨tk, xs, tk, rfl, rfl, by simp, rfl⟩
  case splice sp x => obtain ⟨tk, xs, rfl, _, rfl, _⟩ := h; exact ⟨tk, xs, tk, rfl, rfl, by simp, rfl⟩
  all_goals (subst h; exact ⟨_, [], _, rfl, rfl, List.mem_singleton.mpr rfl, rfl⟩)

end Tulisp.C16
