/-
  Proofs/C20Sym.lean — the symbol API (`set`, `set_scope`, `unset`, `get`, `boundp`) refines a stack
  machine (helper lemmas for C20).
-/
import Tulisp.Model.Api
namespace Tulisp.C20
open Tulisp Tulisp.Api Tulisp.Api.State

theorem stackOf_setStack_same (s : State) (n : String) (l : List Nat) :
    (s.setStack n l).stackOf n = l := by
  simp [State.stackOf, State.setStack]

theorem find_filter_ne (syms : List (String × List Nat)) {n m : String} (hne : m ≠ n) :
    (syms.filter (·.1 != n)).find? (·.1 == m) = syms.find? (·.1 == m) := by
  induction syms with
  | nil => rfl
  | cons p ps ih =>
    by_cases hp : p.1 = n
    · have h1 : (p.1 != n) = false := by simp [hp]
      have h2 : (p.1 == m) = false := by rw [hp]; simp [Ne.symm hne]
      simp only [List.filter_cons, List.find?_cons, h1, h2, Bool.false_eq_true, ↓reduceIte]
      exact ih
    · have h1 : (p.1 != n) = true := by simp [hp]
      simp only [List.filter_cons, h1, ↓reduceIte, List.find?_cons]
      rw [ih]

theorem stackOf_setStack_other (s : State) {n m : String} (l : List Nat) (hne : m ≠ n) :
    (s.setStack n l).stackOf m = s.stackOf m := by
  unfold State.stackOf State.setStack
  simp only
  rw [List.find?_cons_of_neg (by simp [Ne.symm hne]), find_filter_ne _ hne]

theorem heap_setStack (s : State) (n : String) (l : List Nat) : (s.setStack n l).heap = s.heap := rfl
theorem handles_setStack (s : State) (n : String) (l : List Nat) : (s.setStack n l).handles = s.handles := rfl

/-! ## the abstract machine -/

/-- abstract state: one stack of references per name -/
abbrev Stacks := String → List Nat

def Stacks.upd (σ : Stacks) (n : String) (l : List Nat) : Stacks := fun m => if m = n then l else σ m

theorem stackOf_setStack (s : State) (n : String) (l : List Nat) :
    (s.setStack n l).stackOf = Stacks.upd s.stackOf n l := by
  funext m
  unfold Stacks.upd
  by_cases h : m = n
  · subst h; simp [stackOf_setStack_same]
  · simp [h, stackOf_setStack_other s l h]

inductive StackOp where
  | set (n : String) (v : Nat)      -- `set`
  | push (n : String) (v : Nat)     -- `set_scope`
  | pop (n : String)                -- `unset`
  | get (n : String)                -- `get`
  | boundp (n : String)             -- `boundp`

/-- the name an operation works on -/
def StackOp.name : StackOp → String
  | .set n _ | .push n _ | .pop n | .get n | .boundp n => n

/-- what a call answers -/
inductive Out where
  | done                            -- `Ok(())`
  | val (r : Option Nat)            -- `Ok(value)`; `none`: a keyword, which is its own value
  | bool (b : Bool)
  | err (e : AErr)
deriving DecidableEq, Repr

/-- one step of the `List`-based stack machine -/
def stepStack (σ : Stacks) : StackOp → Stacks × Out
  | .set n v =>
    if isKeyword n then (σ, .err .undefined) else
    match σ n with
    | [] => (σ.upd n [v], .done)
    | _ :: rest => (σ.upd n (v :: rest), .done)
  | .push n v => if isKeyword n then (σ, .err .undefined) else (σ.upd n (v :: σ n), .done)
  | .pop n =>
    match σ n with
    | [] => (σ, .err .uninitialized)
    | _ :: rest => (σ.upd n rest, .done)
  | .get n =>
    if isKeyword n then (σ, .val none) else
    match σ n with
    | [] => (σ, .err .typeMismatch)
    | v :: _ => (σ, .val (some v))
  | .boundp n => (σ, .bool !(σ n).isEmpty)

def runStack (σ : Stacks) : List StackOp → Stacks × List Out
  | [] => (σ, [])
  | op :: ops =>
    let (σ1, o) := stepStack σ op
    let (σ2, os) := runStack σ1 ops
    (σ2, o :: os)

/-- one call of the model's symbol API (an error leaves the state as it was, as in the driver) -/
def stepModel (s : State) : StackOp → State × Out
  | .set n v => match s.symSet n v with | .ok s' => (s', .done) | .error e => (s, .err e)
  | .push n v => match s.symPush n v with | .ok s' => (s', .done) | .error e => (s, .err e)
  | .pop n => match s.symPop n with | .ok s' => (s', .done) | .error e => (s, .err e)
  | .get n => match s.symGet n with | .ok r => (s, .val r) | .error e => (s, .err e)
  | .boundp n => (s, .bool (s.symBoundp n))

def runModel (s : State) : List StackOp → State × List Out
  | [] => (s, [])
  | op :: ops =>
    let (s1, o) := stepModel s op
    let (s2, os) := runModel s1 ops
    (s2, o :: os)

theorem step_refines (s : State) (op : StackOp) :
    (stepModel s op).1.stackOf = (stepStack s.stackOf op).1 ∧
    (stepModel s op).2 = (stepStack s.stackOf op).2 ∧
    (stepModel s op).1.heap = s.heap := by
  cases op with
  | set n v =>
    simp only [stepModel, stepStack, State.symSet]
    by_cases hk : isKeyword n = true
    · simp [hk]
    · simp only [hk, Bool.false_eq_true, if_false]
      cases hs : s.stackOf n with
      | nil => simp [stackOf_setStack, heap_setStack]
      | cons x rest => simp [stackOf_setStack, heap_setStack]
  | push n v =>
    simp only [stepModel, stepStack, State.symPush]
    by_cases hk : isKeyword n = true
    · simp [hk]
    · simp [hk, stackOf_setStack, heap_setStack]
  | pop n =>
    simp only [stepModel, stepStack, State.symPop]
    cases hs : s.stackOf n with
    | nil => simp
    | cons x rest => simp [stackOf_setStack, heap_setStack]
  | get n =>
    simp only [stepModel, stepStack, State.symGet]
    by_cases hk : isKeyword n = true
    · simp [hk]
    · simp only [hk, Bool.false_eq_true, if_false]
      cases hs : s.stackOf n with
      | nil => simp
      | cons x rest => simp
  | boundp n => simp [stepModel, stepStack, State.symBoundp]

theorem run_refines (ops : List StackOp) : ∀ (s : State),
    (runModel s ops).1.stackOf = (runStack s.stackOf ops).1 ∧
    (runModel s ops).2 = (runStack s.stackOf ops).2 ∧
    (runModel s ops).1.heap = s.heap := by
  induction ops with
  | nil => intro s; exact ⟨rfl, rfl, rfl⟩
  | cons op ops ih =>
    intro s
    obtain ⟨h1, h2, h3⟩ := step_refines s op
    obtain ⟨i1, i2, i3⟩ := ih (stepModel s op).1
    simp only [runModel, runStack]
    rw [← h1, ← h2]
    refine ⟨i1, ?_, i3.trans h3⟩
    simp [i2]

/-- keywords are never bound -/
def KwFree (σ : Stacks) : Prop := ∀ n, isKeyword n = true → σ n = []

theorem kwFree_step {σ : Stacks} (hk : KwFree σ) (op : StackOp) : KwFree (stepStack σ op).1 := by
  intro m hm
  have hupd : ∀ (n : String) (l : List Nat), isKeyword n = false → (σ.upd n l) m = [] := by
    intro n l hn
    unfold Stacks.upd
    by_cases e : m = n
    · subst e; rw [hm] at hn; cases hn
    · simp [e, hk m hm]
  cases op with
  | set n v =>
    simp only [stepStack]
    by_cases hn : isKeyword n = true
    · simp [hn, hk m hm]
    · simp only [hn, Bool.false_eq_true, if_false]
      cases σ n <;> exact hupd n _ (by simpa using hn)
  | push n v =>
    simp only [stepStack]
    by_cases hn : isKeyword n = true
    · simp [hn, hk m hm]
    · simp only [hn, Bool.false_eq_true, if_false]
      exact hupd n _ (by simpa using hn)
  | pop n =>
    simp only [stepStack]
    cases hs : σ n with
    | nil => exact hk m hm
    | cons x rest =>
      simp only
      unfold Stacks.upd
      by_cases e : m = n
      · subst e; rw [hk m hm] at hs; cases hs
      · simp [e, hk m hm]
  | get n =>
    simp only [stepStack]
    by_cases hn : isKeyword n = true
    · simp [hn, hk m hm]
    · simp only [hn, Bool.false_eq_true, if_false]
      cases σ n <;> exact hk m hm
  | boundp n => exact hk m hm

theorem kwFree_run {σ : Stacks} (hk : KwFree σ) (ops : List StackOp) : KwFree (runStack σ ops).1 := by
  induction ops generalizing σ with
  | nil => exact hk
  | cons op ops ih => simp only [runStack]; exact ih (kwFree_step hk op)

end Tulisp.C20
