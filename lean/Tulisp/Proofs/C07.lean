/-
  Proofs/C07.lean — helper definitions and lemmas for property C07 (backquote).

  * `bqItem`        : what `evalBackquote` / `bqRest` do with one element of a template; the
                      unfolding equations of the two mutually recursive functions in terms of it.
  * `NoUnq`         : templates without `unquote` / `splice`; literal templates (`bq_literal_aux`).
  * `Rec.Mono`      : the evaluator handed to backquote never decreases the allocation counter;
                      monotonicity and freshness of `evalBackquote` (`bq_mono`, `bq_spineIn`).
  * `bqSpec`        : the specification "list / cons / append construction" and the refinement
                      theorem (`bq_refines`).
  * `unquoted`      : the unquoted forms of a template in evaluation order, and the logging
                      theorem (`bq_log_aux`).
-/
import Tulisp.Proofs.Fresh
set_option linter.constructorNameAsVariable false
namespace Tulisp.C07
open Tulisp Tulisp.Fresh

/-! ## unfolding equations -/

/-- what the loop of `evalBackquote` does with one element `first` of the template -/
def bqItem (r : Rec) (first : Val) (acc : Acc) : M Acc :=
  match first with
  | .unquote v => do let x ← r.eval v; acc.push x
  | .splice v => do let x ← r.eval v; let x ← deepCopy x; acc.append x
  | other => do let x ← evalBackquote r other; acc.push x

theorem evalBackquote_unquote (r : Rec) (v : Val) : evalBackquote r (.unquote v) = r.eval v := by
  rw [evalBackquote]

theorem evalBackquote_splice (r : Rec) (v : Val) :
    evalBackquote r (.splice v) = (do let x ← r.eval v; deepCopy x) := by
  rw [evalBackquote]

theorem evalBackquote_quote (r : Rec) (v : Val) :
    evalBackquote r (.quote v) = (do let x ← evalBackquote r v; pure (.quote x)) := by
  rw [evalBackquote]

theorem evalBackquote_cons (r : Rec) (i : Nat) (first rest : Val) :
    evalBackquote r (.cons i first rest) = (do
      let acc ← bqItem r first {}
      let acc ← bqRest r rest acc
      acc.build) := by
  cases first <;> simp only [evalBackquote, bqItem, bind_assoc]

/-- everything else (nil, t, numbers, strings, symbols, nested backquotes, functions, tables) is
    literal -/
theorem evalBackquote_atom (r : Rec) (v : Val) (h1 : v.isCons = false)
    (h2 : ∀ x, v ≠ .unquote x) (h3 : ∀ x, v ≠ .splice x) (h4 : ∀ x, v ≠ .quote x) :
    evalBackquote r v = pure v := by
  cases v <;> first
    | (simp only [evalBackquote]; done)
    | (simp [Val.isCons] at h1; done)
    | exact absurd rfl (h2 _)
    | exact absurd rfl (h3 _)
    | exact absurd rfl (h4 _)

theorem bqRest_unquote (r : Rec) (v : Val) (acc : Acc) :
    bqRest r (.unquote v) acc = (do let x ← r.eval v; acc.append x) := by
  rw [bqRest]

theorem bqRest_cons (r : Rec) (i : Nat) (first rest : Val) (acc : Acc) :
    bqRest r (.cons i first rest) acc = (do
      let acc ← bqItem r first acc
      bqRest r rest acc) := by
  cases first <;> simp only [bqRest, bqItem, bind_assoc]

/-- a dotted tail that is not an `unquote` is literal -/
theorem bqRest_other (r : Rec) (v : Val) (acc : Acc) (h1 : v.isCons = false)
    (h2 : ∀ x, v ≠ .unquote x) : bqRest r v acc = acc.append v := by
  cases v <;> first
    | (simp only [bqRest]; done)
    | (simp [Val.isCons] at h1; done)
    | exact absurd rfl (h2 _)

theorem bqItem_unquote (r : Rec) (v : Val) (acc : Acc) :
    bqItem r (.unquote v) acc = (do let x ← r.eval v; acc.push x) := rfl

theorem bqItem_splice (r : Rec) (v : Val) (acc : Acc) :
    bqItem r (.splice v) acc = (do let x ← r.eval v; let x ← deepCopy x; acc.append x) := rfl

theorem bqItem_other (r : Rec) (first : Val) (acc : Acc) (h2 : ∀ x, first ≠ .unquote x)
    (h3 : ∀ x, first ≠ .splice x) :
    bqItem r first acc = (do let x ← evalBackquote r first; acc.push x) := by
  cases first <;> first | rfl | exact absurd rfl (h2 _) | exact absurd rfl (h3 _)

/-! ## literal templates -/

/-- no `unquote` / `splice` anywhere in the template -/
def NoUnq : Val → Prop
  | .unquote _ | .splice _ => False
  | .quote v => NoUnq v
  | .cons _ a d => NoUnq a ∧ NoUnq d
  | _ => True

theorem NoUnq.not_unquote {v : Val} (h : NoUnq v) : ∀ x, v ≠ .unquote x := by
  intro x hx; subst hx; exact h
theorem NoUnq.not_splice {v : Val} (h : NoUnq v) : ∀ x, v ≠ .splice x := by
  intro x hx; subst hx; exact h

/-- appending a non-cons value to a non-empty accumulator without tail -/
theorem append_nonCons (a : Acc) (v : Val) (c : Ctx) (h : a.tail = .nil) (hne : a.rev ≠ [])
    (hv : v.isCons = false) :
    a.append v c = (.ok (if v.isNil then a else { a with tail := v }), c) := by
  cases hn : v.isNil with
  | true =>
    have : v = .nil := by cases v <;> first | rfl | simp [Val.isNil] at hn
    subst this
    rw [C12.Acc.append_list a .nil c h rfl]
    obtain ⟨rev, tail⟩ := a
    simp only at h; subst h
    simp [Val.spine]
  | false =>
    have hl : v.isList = false := by simp [Val.isList, hn, hv]
    rw [C12.Acc.append_atom a v c h hl hne]
    simp

theorem eraseIds_atom {v : Val} (h1 : v.isCons = false) (h2 : ∀ x, v ≠ .unquote x)
    (h3 : ∀ x, v ≠ .splice x) (h4 : ∀ x, v ≠ .quote x) (h5 : ∀ x, v ≠ .backquote x) :
    eraseIds v = v := by
  cases v <;> first
    | rfl
    | (simp [Val.isCons] at h1; done)
    | exact absurd rfl (h2 _)
    | exact absurd rfl (h3 _)
    | exact absurd rfl (h4 _)
    | exact absurd rfl (h5 _)

/-- the two statements proved together by induction on the template -/
def LitP (r : Rec) (t : Val) : Prop :=
  NoUnq t → ∀ c, ∃ w c', evalBackquote r t c = (.ok w, c') ∧ eraseIds w = eraseIds t ∧
    OnlyNextId c c'

def LitQ (r : Rec) (t : Val) : Prop :=
  NoUnq t → ∀ (acc : Acc) c, acc.tail = .nil → acc.rev ≠ [] →
    ∃ acc' c', bqRest r t acc c = (.ok acc', c') ∧ OnlyNextId c c' ∧ acc'.tail.isCons = false ∧
      consList (acc'.rev.reverse.map eraseIds) (eraseIds acc'.tail)
        = consList (acc.rev.reverse.map eraseIds) (eraseIds t)

theorem litQ_nonCons (r : Rec) (t : Val) (h1 : t.isCons = false) (h2 : ∀ x, t ≠ .unquote x) :
    LitQ r t := by
  intro _ acc c htl hne
  rw [bqRest_other r t acc h1 h2, append_nonCons acc t c htl hne h1]
  refine ⟨_, c, rfl, OnlyNextId.refl c, ?_, ?_⟩
  · split
    · rw [htl]; rfl
    · exact h1
  · cases hn : t.isNil with
    | true =>
      have : t = .nil := by cases t <;> first | rfl | simp [Val.isNil] at hn
      subst this
      simp [htl]
    | false => simp

theorem litP_atom (r : Rec) (v : Val) (h1 : v.isCons = false)
    (h2 : ∀ x, v ≠ .unquote x) (h3 : ∀ x, v ≠ .splice x) (h4 : ∀ x, v ≠ .quote x) :
    LitP r v := by
  intro _ c
  rw [evalBackquote_atom r v h1 h2 h3 h4]
  exact ⟨v, c, rfl, rfl, OnlyNextId.refl c⟩

theorem bq_literal_aux (r : Rec) (t : Val) : LitP r t ∧ LitQ r t := by
  induction t with
  | cons i a d iha ihd =>
    constructor
    · intro hn c
      obtain ⟨hna, hnd⟩ := hn
      obtain ⟨x, c1, hx, hex, ho1⟩ := iha.1 hna c
      obtain ⟨acc', c2, hq, ho2, htl, hcl⟩ :=
        ihd.2 hnd { rev := [x], tail := .nil } c1 rfl (by simp)
      obtain ⟨w, c3, hb, ho3, _, _, hew⟩ := Acc.build_fresh acc' htl c2
      refine ⟨w, c3, ?_, ?_, (ho1.trans ho2).trans ho3⟩
      · rw [evalBackquote_cons, bqItem_other r a _ hna.not_unquote hna.not_splice, bind_assoc,
          C12.bind_ok _ hx, C12.bind_ok _ (C12.Acc.push_ok {} x c1 rfl), C12.bind_ok _ hq, hb]
      · rw [hew, hcl]
        simp [eraseIds, hex]
    · intro hn acc c htl hne
      obtain ⟨hna, hnd⟩ := hn
      obtain ⟨x, c1, hx, hex, ho1⟩ := iha.1 hna c
      obtain ⟨acc', c2, hq, ho2, htl', hcl⟩ :=
        ihd.2 hnd { rev := x :: acc.rev, tail := .nil } c1 rfl (by simp)
      refine ⟨acc', c2, ?_, ho1.trans ho2, htl', ?_⟩
      · rw [bqRest_cons, bqItem_other r a _ hna.not_unquote hna.not_splice, bind_assoc,
          C12.bind_ok _ hx, C12.bind_ok _ (C12.Acc.push_ok acc x c1 htl), hq]
      · rw [hcl]
        simp [eraseIds, hex, consList_append]
  | quote v ih =>
    constructor
    · intro hn c
      obtain ⟨x, c1, hx, hex, ho1⟩ := ih.1 hn c
      refine ⟨.quote x, c1, ?_, ?_, ho1⟩
      · rw [evalBackquote_quote, C12.bind_ok _ hx]; rfl
      · simp [eraseIds, hex]
    · exact litQ_nonCons r _ rfl (by intro x h; cases h)
  | unquote v _ => exact ⟨fun h => h.elim, fun h => h.elim⟩
  | splice v _ => exact ⟨fun h => h.elim, fun h => h.elim⟩
  | nil => exact ⟨litP_atom r _ rfl (by intro x h; cases h) (by intro x h; cases h)
      (by intro x h; cases h), litQ_nonCons r _ rfl (by intro x h; cases h)⟩
  | t => exact ⟨litP_atom r _ rfl (by intro x h; cases h) (by intro x h; cases h)
      (by intro x h; cases h), litQ_nonCons r _ rfl (by intro x h; cases h)⟩
  | int n => exact ⟨litP_atom r _ rfl (by intro x h; cases h) (by intro x h; cases h)
      (by intro x h; cases h), litQ_nonCons r _ rfl (by intro x h; cases h)⟩
  | float b => exact ⟨litP_atom r _ rfl (by intro x h; cases h) (by intro x h; cases h)
      (by intro x h; cases h), litQ_nonCons r _ rfl (by intro x h; cases h)⟩
  | str i s => exact ⟨litP_atom r _ rfl (by intro x h; cases h) (by intro x h; cases h)
      (by intro x h; cases h), litQ_nonCons r _ rfl (by intro x h; cases h)⟩
  | sym n => exact ⟨litP_atom r _ rfl (by intro x h; cases h) (by intro x h; cases h)
      (by intro x h; cases h), litQ_nonCons r _ rfl (by intro x h; cases h)⟩
  | backquote v _ => exact ⟨litP_atom r _ rfl (by intro x h; cases h) (by intro x h; cases h)
      (by intro x h; cases h), litQ_nonCons r _ rfl (by intro x h; cases h)⟩
  | lambda i ps b _ => exact ⟨litP_atom r _ rfl (by intro x h; cases h) (by intro x h; cases h)
      (by intro x h; cases h), litQ_nonCons r _ rfl (by intro x h; cases h)⟩
  | defmacro i ps b _ => exact ⟨litP_atom r _ rfl (by intro x h; cases h) (by intro x h; cases h)
      (by intro x h; cases h), litQ_nonCons r _ rfl (by intro x h; cases h)⟩
  | builtin b => exact ⟨litP_atom r _ rfl (by intro x h; cases h) (by intro x h; cases h)
      (by intro x h; cases h), litQ_nonCons r _ rfl (by intro x h; cases h)⟩
  | table i => exact ⟨litP_atom r _ rfl (by intro x h; cases h) (by intro x h; cases h)
      (by intro x h; cases h), litQ_nonCons r _ rfl (by intro x h; cases h)⟩
  | bounce => exact ⟨litP_atom r _ rfl (by intro x h; cases h) (by intro x h; cases h)
      (by intro x h; cases h), litQ_nonCons r _ rfl (by intro x h; cases h)⟩

/-- a literal template is evaluated without consulting the evaluator at all -/
theorem bq_literal_indep_aux (r r' : Rec) (t : Val) :
    (NoUnq t → evalBackquote r t = evalBackquote r' t) ∧
    (NoUnq t → ∀ acc, bqRest r t acc = bqRest r' t acc) := by
  induction t with
  | cons i a d iha ihd =>
    constructor
    · intro hn
      obtain ⟨hna, hnd⟩ := hn
      rw [evalBackquote_cons, evalBackquote_cons,
        bqItem_other r a _ hna.not_unquote hna.not_splice,
        bqItem_other r' a _ hna.not_unquote hna.not_splice, iha.1 hna]
      simp only [ihd.2 hnd]
    · intro hn acc
      obtain ⟨hna, hnd⟩ := hn
      rw [bqRest_cons, bqRest_cons,
        bqItem_other r a _ hna.not_unquote hna.not_splice,
        bqItem_other r' a _ hna.not_unquote hna.not_splice, iha.1 hna]
      simp only [ihd.2 hnd]
  | quote v ih =>
    refine ⟨fun hn => ?_, fun _ acc => ?_⟩
    · rw [evalBackquote_quote, evalBackquote_quote, ih.1 hn]
    · rw [bqRest_other r _ acc rfl (by intro x h; cases h),
        bqRest_other r' _ acc rfl (by intro x h; cases h)]
  | unquote v _ => exact ⟨fun h => h.elim, fun h => h.elim⟩
  | splice v _ => exact ⟨fun h => h.elim, fun h => h.elim⟩
  | _ =>
    refine ⟨fun _ => ?_, fun _ acc => ?_⟩
    · rw [evalBackquote_atom r _ rfl (by intro x h; cases h) (by intro x h; cases h)
        (by intro x h; cases h), evalBackquote_atom r' _ rfl (by intro x h; cases h)
        (by intro x h; cases h) (by intro x h; cases h)]
    · rw [bqRest_other r _ acc rfl (by intro x h; cases h),
        bqRest_other r' _ acc rfl (by intro x h; cases h)]


/-! ## monotone counter, fresh spine -/

/-- the evaluator handed to backquote never decreases the allocation counter -/
def RecMono (r : Rec) : Prop := ∀ v, MonoM (r.eval v)

theorem bqItem_mono (r : Rec) (hr : RecMono r) (first : Val) (h : MonoM (evalBackquote r first))
    (acc : Acc) : MonoM (bqItem r first acc) := by
  cases first <;> first
    | exact MonoM.bind (hr _) (fun _ => (IdOnly.push _ _).mono)
    | exact MonoM.bind (hr _) (fun _ => MonoM.bind (IdOnly.deepCopy _).mono
        (fun _ => (IdOnly.append _ _).mono))
    | exact MonoM.bind h (fun _ => (IdOnly.push _ _).mono)

theorem bq_mono_aux (r : Rec) (hr : RecMono r) (t : Val) :
    MonoM (evalBackquote r t) ∧ ∀ acc, MonoM (bqRest r t acc) := by
  induction t with
  | cons i a d iha ihd =>
    constructor
    · rw [evalBackquote_cons]
      exact MonoM.bind (bqItem_mono r hr a iha.1 _)
        (fun _ => MonoM.bind (ihd.2 _) (fun _ => (IdOnly.build _).mono))
    · intro acc
      rw [bqRest_cons]
      exact MonoM.bind (bqItem_mono r hr a iha.1 _) (fun _ => ihd.2 _)
  | quote v ih =>
    refine ⟨?_, fun acc => ?_⟩
    · rw [evalBackquote_quote]; exact MonoM.bind ih.1 (fun _ => MonoM.pure _)
    · rw [bqRest_other r _ acc rfl (by intro x h; cases h)]; exact (IdOnly.append _ _).mono
  | unquote v _ =>
    refine ⟨?_, fun acc => ?_⟩
    · rw [evalBackquote_unquote]; exact hr v
    · rw [bqRest_unquote]; exact MonoM.bind (hr v) (fun _ => (IdOnly.append _ _).mono)
  | splice v _ =>
    refine ⟨?_, fun acc => ?_⟩
    · rw [evalBackquote_splice]; exact MonoM.bind (hr v) (fun _ => (IdOnly.deepCopy _).mono)
    · rw [bqRest_other r _ acc rfl (by intro x h; cases h)]; exact (IdOnly.append _ _).mono
  | _ =>
    refine ⟨?_, fun acc => ?_⟩
    · rw [evalBackquote_atom r _ rfl (by intro x h; cases h) (by intro x h; cases h)
        (by intro x h; cases h)]
      exact MonoM.pure _
    · rw [bqRest_other r _ acc rfl (by intro x h; cases h)]; exact (IdOnly.append _ _).mono

/-- whatever `bqRest` returns has a tail that is not a cons -/
theorem bqRest_tail (r : Rec) (d : Val) :
    ∀ (acc : Acc) (c : Ctx) (acc' : Acc) (c' : Ctx), bqRest r d acc c = (.ok acc', c') →
      acc'.tail.isCons = false := by
  induction d with
  | cons i a d _ ihd =>
    intro acc c acc' c' h
    rw [bqRest_cons] at h
    obtain ⟨a1, c1, _, h2⟩ := bind_ok_inv h
    exact ihd a1 c1 acc' c' h2
  | unquote v _ =>
    intro acc c acc' c' h
    rw [bqRest_unquote] at h
    obtain ⟨x, c1, _, h2⟩ := bind_ok_inv h
    exact (Acc.append_tail_notCons h2).1
  | _ =>
    intro acc c acc' c' h
    rw [bqRest_other r _ acc rfl (by intro x h; cases h)] at h
    exact (Acc.append_tail_notCons h).1

/-- The value of a template that is a cons: its whole spine is allocated during the evaluation. -/
theorem bq_spineIn (r : Rec) (hr : RecMono r) (i : Nat) (a d : Val) (c c' : Ctx) (w : Val)
    (h : evalBackquote r (.cons i a d) c = (.ok w, c')) :
    SpineIn c.nextId c'.nextId w ∧ c.nextId ≤ c'.nextId := by
  have hmono := (bq_mono_aux r hr (.cons i a d)).1 c
  rw [h] at hmono
  refine ⟨?_, hmono⟩
  rw [evalBackquote_cons] at h
  obtain ⟨a1, c1, h1, h⟩ := bind_ok_inv h
  obtain ⟨a2, c2, h2, h⟩ := bind_ok_inv h
  have ht := bqRest_tail r d a1 c1 a2 c2 h2
  obtain ⟨w', c3, hb, _, hsp, _, _⟩ := Acc.build_fresh a2 ht c2
  rw [hb] at h
  injection h with hw hc
  injection hw with hw
  subst hw; subst hc
  have m1 := bqItem_mono r hr a (bq_mono_aux r hr a).1 {} c
  rw [h1] at m1
  have m2 := (bq_mono_aux r hr d).2 a1 c1
  rw [h2] at m2
  exact hsp.mono (Nat.le_trans m1 m2) (Nat.le_refl _)

/-! ## the specification: list / cons / append construction -/

/-- the elements a spliced value contributes: it has to be a proper list (nil included) -/
def properElems (x : Val) : M (List Val) :=
  if x.spine.2.isNil then pure x.spine.1 else M.throw .typeMismatch

/-- build the result from all its elements and the final tail.  (One corner of the
    implementation: when nothing at all precedes a non-nil atomic tail, the tail becomes the
    only element: `` `(,@nil . 5) `` is `(5)`.) -/
def finish (xs : List Val) (tl : Val) : M Val :=
  if xs.isEmpty && !tl.isNil then mkListM [tl] .nil else mkListM xs tl

mutual
/-- the value of a template, as the equivalent construction -/
def bqSpec (ev : Val → M Val) : Val → M Val
  | .unquote v => ev v
  | .splice v => do let x ← ev v; deepCopy x
  | .quote v => do let x ← bqSpec ev v; pure (.quote x)
  | .cons _ first rest => do
    let xs ← match first with
      | .unquote v => do let x ← ev v; pure [x]
      | .splice v => do let x ← ev v; let x ← deepCopy x; properElems x
      | other => do let x ← bqSpec ev other; pure [x]
    let p ← bqSpecTail ev rest
    finish (xs ++ p.1) p.2
  | other => pure other

/-- elements and final tail contributed by the rest of a template -/
def bqSpecTail (ev : Val → M Val) : Val → M (List Val × Val)
  | .unquote v => do let x ← ev v; pure (x.spine.1, x.spine.2)
  | .cons _ first rest => do
    let xs ← match first with
      | .unquote v => do let x ← ev v; pure [x]
      | .splice v => do let x ← ev v; let x ← deepCopy x; properElems x
      | other => do let x ← bqSpec ev other; pure [x]
    let p ← bqSpecTail ev rest
    pure (xs ++ p.1, p.2)
  | other => pure ([], other)
end

/-- what one element of a template contributes to the result: `,e` its value, `,@e` the
    elements of (a copy of) its value, anything else its own value as a template -/
def bqContrib (ev : Val → M Val) (first : Val) : M (List Val) :=
  match first with
  | .unquote v => do let x ← ev v; pure [x]
  | .splice v => do let x ← ev v; let x ← deepCopy x; properElems x
  | other => do let x ← bqSpec ev other; pure [x]

theorem bqSpec_unquote (ev : Val → M Val) (v : Val) : bqSpec ev (.unquote v) = ev v := by
  rw [bqSpec]
theorem bqSpec_splice (ev : Val → M Val) (v : Val) :
    bqSpec ev (.splice v) = (do let x ← ev v; deepCopy x) := by
  rw [bqSpec]
theorem bqSpec_quote (ev : Val → M Val) (v : Val) :
    bqSpec ev (.quote v) = (do let x ← bqSpec ev v; pure (.quote x)) := by
  rw [bqSpec]
theorem bqSpec_cons (ev : Val → M Val) (i : Nat) (first rest : Val) :
    bqSpec ev (.cons i first rest) = (do
      let xs ← bqContrib ev first
      let p ← bqSpecTail ev rest
      finish (xs ++ p.1) p.2) := by
  cases first <;> simp only [bqSpec, bqContrib, bind_assoc]
theorem bqSpec_atom (ev : Val → M Val) (v : Val) (h1 : v.isCons = false)
    (h2 : ∀ x, v ≠ .unquote x) (h3 : ∀ x, v ≠ .splice x) (h4 : ∀ x, v ≠ .quote x) :
    bqSpec ev v = pure v := by
  cases v <;> first
    | (simp only [bqSpec]; done)
    | (simp [Val.isCons] at h1; done)
    | exact absurd rfl (h2 _)
    | exact absurd rfl (h3 _)
    | exact absurd rfl (h4 _)
theorem bqSpecTail_unquote (ev : Val → M Val) (v : Val) :
    bqSpecTail ev (.unquote v) = (do let x ← ev v; pure (x.spine.1, x.spine.2)) := by
  rw [bqSpecTail]
theorem bqSpecTail_cons (ev : Val → M Val) (i : Nat) (first rest : Val) :
    bqSpecTail ev (.cons i first rest) = (do
      let xs ← bqContrib ev first
      let p ← bqSpecTail ev rest
      pure (xs ++ p.1, p.2)) := by
  cases first <;> simp only [bqSpecTail, bqContrib, bind_assoc]
theorem bqSpecTail_other (ev : Val → M Val) (v : Val) (h1 : v.isCons = false)
    (h2 : ∀ x, v ≠ .unquote x) : bqSpecTail ev v = pure ([], v) := by
  cases v <;> first
    | (simp only [bqSpecTail]; done)
    | (simp [Val.isCons] at h1; done)
    | exact absurd rfl (h2 _)

/-- `spec` describes `impl` in every state, except where `spec` answers TypeMismatch (the cases
    the specification leaves open: a spliced value that is not a proper list) -/
def Refines {α} (spec impl : M α) : Prop :=
  ∀ c, spec c = impl c ∨ ∃ c', spec c = (.err .typeMismatch, c')

theorem Refines.refl {α} (m : M α) : Refines m m := fun _ => Or.inl rfl

theorem Refines.of_eq {α} {m m' : M α} (h : m = m') : Refines m m' := h ▸ Refines.refl m

theorem Refines.bind {α β} {s m : M α} {f g : α → M β} (h : Refines s m)
    (hf : ∀ a, Refines (f a) (g a)) : Refines (s >>= f) (m >>= g) := by
  intro c
  rcases h c with h1 | ⟨c', h1⟩
  · rw [bind_run, bind_run, ← h1]
    rcases hs : s c with ⟨res, c1⟩
    cases res with
    | ok a => exact hf a c1
    | err k => exact Or.inl rfl
    | panic s => exact Or.inl rfl
    | fuel => exact Or.inl rfl
  · right
    exact ⟨c', by rw [bind_run, h1]⟩

/-- the accumulator after the rest of the template contributed `ys` and the tail `tl` -/
def combine (acc : Acc) (ys : List Val) (tl : Val) : Acc :=
  if acc.rev.isEmpty && ys.isEmpty && !tl.isNil then { rev := [tl], tail := .nil }
  else { rev := ys.reverse ++ acc.rev, tail := tl }

theorem append_eq_combine (acc : Acc) (x : Val) (h : acc.tail = .nil) :
    acc.append x = pure (combine acc x.spine.1 x.spine.2) := by
  obtain ⟨rev, tail⟩ := acc
  simp only at h; subst h
  funext c
  cases x <;> first
    | (cases rev <;> rfl)
    | (simp [Acc.append, combine, Val.isNil, Val.spine, pure, M.pure]; done)

theorem combine_combine (acc : Acc) (xs ys : List Val) (tl : Val) :
    combine { rev := xs.reverse ++ acc.rev, tail := .nil } ys tl = combine acc (xs ++ ys) tl := by
  unfold combine
  cases xs <;> cases ys <;> simp

theorem build_combine (xs ys : List Val) (tl : Val) :
    (combine { rev := xs.reverse, tail := .nil } ys tl).build = finish (xs ++ ys) tl := by
  unfold combine finish Acc.build
  cases xs <;> cases ys <;> cases h : tl.isNil <;> simp_all

theorem push_eq_pure (acc : Acc) (x : Val) (h : acc.tail = .nil) :
    acc.push x = pure { rev := [x].reverse ++ acc.rev, tail := .nil } := by
  funext c
  rw [C12.Acc.push_ok acc x c h]; rfl

theorem bqItem_refines (r : Rec) (first : Val)
    (hP : Refines (bqSpec r.eval first) (evalBackquote r first)) (acc : Acc) (h : acc.tail = .nil) :
    Refines (bqContrib r.eval first >>= fun xs =>
        pure ({ rev := xs.reverse ++ acc.rev, tail := .nil } : Acc)) (bqItem r first acc) := by
  have hother : Refines ((bqSpec r.eval first >>= fun x => pure [x]) >>= fun xs =>
        pure ({ rev := xs.reverse ++ acc.rev, tail := .nil } : Acc))
        (evalBackquote r first >>= fun x => acc.push x) := by
    rw [bind_assoc]
    refine Refines.bind hP (fun x => ?_)
    rw [pure_bind, push_eq_pure acc x h]
    exact Refines.refl _
  cases first with
  | unquote v =>
    show Refines ((r.eval v >>= fun x => pure [x]) >>= _) (r.eval v >>= fun x => acc.push x)
    rw [bind_assoc]
    refine Refines.bind (Refines.refl _) (fun x => ?_)
    rw [pure_bind, push_eq_pure acc x h]
    exact Refines.refl _
  | splice v =>
    show Refines ((r.eval v >>= fun x => deepCopy x >>= fun x => properElems x) >>= _)
      (r.eval v >>= fun x => deepCopy x >>= fun x => acc.append x)
    rw [bind_assoc]
    refine Refines.bind (Refines.refl _) (fun x => ?_)
    rw [bind_assoc]
    refine Refines.bind (Refines.refl _) (fun x => ?_)
    unfold properElems
    cases hn : x.spine.2.isNil with
    | false =>
      intro c
      exact Or.inr ⟨c, rfl⟩
    | true =>
      have hnil : x.spine.2 = .nil := by
        cases hh : x.spine.2 <;> simp_all [Val.isNil]
      rw [append_eq_combine acc x h, hnil]
      simp only [if_true, pure_bind]
      have : combine acc x.spine.1 .nil = { rev := x.spine.1.reverse ++ acc.rev, tail := .nil } := by
        simp [combine, Val.isNil]
      rw [this]
      exact Refines.refl _
  | _ => exact hother

/-- `Refines.bind` where the continuation only has to be related on what the specification can
    return -/
theorem Refines.bind_of {α β} {s m : M α} {f g : α → M β} (P : α → Prop) (h : Refines s m)
    (hs : ∀ c a c1, s c = (.ok a, c1) → P a)
    (hf : ∀ a, P a → Refines (f a) (g a)) : Refines (s >>= f) (m >>= g) := by
  intro c
  rcases h c with h1 | ⟨c', h1⟩
  · rw [bind_run, bind_run, ← h1]
    rcases hs' : s c with ⟨res, c1⟩
    cases res with
    | ok a => exact hf a (hs c a c1 hs') c1
    | err k => exact Or.inl rfl
    | panic s => exact Or.inl rfl
    | fuel => exact Or.inl rfl
  · right
    exact ⟨c', by rw [bind_run, h1]⟩

theorem bind_pure_ok {α β} {m : M α} {F : α → β} {c c1 : Ctx} {b : β}
    (h : (m >>= fun x => pure (F x)) c = (.ok b, c1)) : ∃ x, b = F x := by
  obtain ⟨x, c2, _, h2⟩ := bind_ok_inv h
  refine ⟨x, ?_⟩
  injection h2 with h2 _
  injection h2 with h2
  exact h2.symm

theorem bq_refines_aux (r : Rec) (t : Val) :
    Refines (bqSpec r.eval t) (evalBackquote r t) ∧
    ∀ acc : Acc, acc.tail = .nil →
      Refines (bqSpecTail r.eval t >>= fun p => pure (combine acc p.1 p.2)) (bqRest r t acc) := by
  induction t with
  | cons i a d iha ihd =>
    constructor
    · rw [bqSpec_cons, evalBackquote_cons]
      have h2 : Refines
          ((bqContrib r.eval a >>= fun xs => pure ({ rev := xs.reverse ++ [], tail := .nil } : Acc))
            >>= fun a1 => (bqSpecTail r.eval d >>= fun p => pure (combine a1 p.1 p.2))
            >>= fun a2 => a2.build)
          (bqItem r a {} >>= fun a1 => bqRest r d a1 >>= fun a2 => a2.build) := by
        refine Refines.bind_of (fun a1 => a1.tail = .nil) (bqItem_refines r a iha.1 {} rfl)
          (fun c a1 c1 h => ?_) (fun a1 ht => ?_)
        · obtain ⟨xs, hx⟩ := bind_pure_ok h
          rw [hx]
        · exact Refines.bind (ihd.2 a1 ht) (fun a2 => Refines.refl _)
      have e : (bqContrib r.eval a >>= fun xs => bqSpecTail r.eval d >>= fun p =>
            finish (xs ++ p.1) p.2)
          = ((bqContrib r.eval a >>= fun xs =>
              pure ({ rev := xs.reverse ++ [], tail := .nil } : Acc))
            >>= fun a1 => (bqSpecTail r.eval d >>= fun p => pure (combine a1 p.1 p.2))
            >>= fun a2 => a2.build) := by
        simp only [bind_assoc, pure_bind, List.append_nil, build_combine]
      rw [e]
      exact h2
    · intro acc hacc
      rw [bqSpecTail_cons, bqRest_cons]
      have h2 : Refines
          ((bqContrib r.eval a >>= fun xs =>
              pure ({ rev := xs.reverse ++ acc.rev, tail := .nil } : Acc))
            >>= fun a1 => (bqSpecTail r.eval d >>= fun p => pure (combine a1 p.1 p.2)))
          (bqItem r a acc >>= fun a1 => bqRest r d a1) := by
        refine Refines.bind_of (fun a1 => a1.tail = .nil) (bqItem_refines r a iha.1 acc hacc)
          (fun c a1 c1 h => ?_) (fun a1 ht => ihd.2 a1 ht)
        obtain ⟨xs, hx⟩ := bind_pure_ok h
        rw [hx]
      have e : ((bqContrib r.eval a >>= fun xs => bqSpecTail r.eval d >>= fun p =>
            pure (xs ++ p.1, p.2)) >>= fun p => pure (combine acc p.1 p.2))
          = ((bqContrib r.eval a >>= fun xs =>
              pure ({ rev := xs.reverse ++ acc.rev, tail := .nil } : Acc))
            >>= fun a1 => (bqSpecTail r.eval d >>= fun p => pure (combine a1 p.1 p.2))) := by
        simp only [bind_assoc, pure_bind, combine_combine]
      rw [e]
      exact h2
  | quote v ih =>
    refine ⟨?_, fun acc hacc => ?_⟩
    · rw [bqSpec_quote, evalBackquote_quote]
      exact Refines.bind ih.1 (fun _ => Refines.refl _)
    · rw [bqSpecTail_other _ _ rfl (by intro x h; cases h),
        bqRest_other r _ acc rfl (by intro x h; cases h), pure_bind, append_eq_combine acc _ hacc]
      exact Refines.refl _
  | unquote v _ =>
    refine ⟨?_, fun acc hacc => ?_⟩
    · rw [bqSpec_unquote, evalBackquote_unquote]; exact Refines.refl _
    · rw [bqSpecTail_unquote, bqRest_unquote, bind_assoc]
      refine Refines.bind (Refines.refl _) (fun x => ?_)
      rw [pure_bind, append_eq_combine acc x hacc]
      exact Refines.refl _
  | splice v _ =>
    refine ⟨?_, fun acc hacc => ?_⟩
    · rw [bqSpec_splice, evalBackquote_splice]; exact Refines.refl _
    · rw [bqSpecTail_other _ _ rfl (by intro x h; cases h),
        bqRest_other r _ acc rfl (by intro x h; cases h), pure_bind, append_eq_combine acc _ hacc]
      exact Refines.refl _
  | _ =>
    refine ⟨?_, fun acc hacc => ?_⟩
    · rw [bqSpec_atom _ _ rfl (by intro x h; cases h) (by intro x h; cases h)
        (by intro x h; cases h), evalBackquote_atom r _ rfl (by intro x h; cases h)
        (by intro x h; cases h) (by intro x h; cases h)]
      exact Refines.refl _
    · rw [bqSpecTail_other _ _ rfl (by intro x h; cases h),
        bqRest_other r _ acc rfl (by intro x h; cases h), pure_bind, append_eq_combine acc _ hacc]
      exact Refines.refl _

/-! ## proper templates: the elements of the result are the concatenation of the contributions -/

theorem finish_nil (xs : List Val) : finish xs .nil = mkListM xs .nil := by
  simp [finish, Val.isNil]

theorem bqSpecTail_proper (ev : Val → M Val) (d : Val) (h : d.spine.2 = .nil) :
    bqSpecTail ev d = (do
      let parts ← d.spine.1.mapM (bqContrib ev)
      pure (parts.flatten, .nil)) := by
  induction d with
  | cons i a d _ ihd =>
    rw [C12.spine_cons] at h
    rw [bqSpecTail_cons, ihd h, C12.spine_cons]
    simp only [List.mapM_cons, bind_assoc, pure_bind, List.flatten_cons]
  | nil =>
    rw [bqSpecTail_other _ _ rfl (by intro x h; cases h)]
    simp [Val.spine]
  | _ => simp [Val.spine] at h

/-- For a template that is a proper list of items, the specification is literally
    "`append` the contributions of the items, left to right". -/
theorem bqSpec_proper (ev : Val → M Val) (i : Nat) (a d : Val) (h : d.spine.2 = .nil) :
    bqSpec ev (.cons i a d) = (do
      let parts ← (a :: d.spine.1).mapM (bqContrib ev)
      mkListM parts.flatten .nil) := by
  rw [bqSpec_cons, bqSpecTail_proper ev d h]
  simp only [List.mapM_cons, bind_assoc, pure_bind, List.flatten_cons, finish_nil]

/-! ## evaluation order: each unquoted form once, left to right -/

mutual
/-- the forms under `,` and `,@` of a template, in the order in which they are evaluated -/
def unquoted : Val → List Val
  | .unquote v => [v]
  | .splice v => [v]
  | .quote v => unquoted v
  | .cons _ first rest =>
    (match first with
      | .unquote v => [v]
      | .splice v => [v]
      | other => unquoted other) ++ unqRest rest
  | _ => []

def unqRest : Val → List Val
  | .unquote v => [v]
  | .cons _ first rest =>
    (match first with
      | .unquote v => [v]
      | .splice v => [v]
      | other => unquoted other) ++ unqRest rest
  | _ => []
end

def unqItem (first : Val) : List Val :=
  match first with
  | .unquote v => [v]
  | .splice v => [v]
  | other => unquoted other

theorem unquoted_cons (i : Nat) (first rest : Val) :
    unquoted (.cons i first rest) = unqItem first ++ unqRest rest := by
  cases first <;> simp only [unquoted, unqItem]

theorem unqRest_cons (i : Nat) (first rest : Val) :
    unqRest (.cons i first rest) = unqItem first ++ unqRest rest := by
  cases first <;> simp only [unqRest, unqItem]

theorem unqRest_other (v : Val) (h1 : v.isCons = false) (h2 : ∀ x, v ≠ .unquote x) :
    unqRest v = [] := by
  cases v <;> first
    | (simp only [unqRest]; done)
    | (simp [Val.isCons] at h1; done)
    | exact absurd rfl (h2 _)

theorem unquoted_atom (v : Val) (h1 : v.isCons = false)
    (h2 : ∀ x, v ≠ .unquote x) (h3 : ∀ x, v ≠ .splice x) (h4 : ∀ x, v ≠ .quote x) :
    unquoted v = [] := by
  cases v <;> first
    | (simp only [unquoted]; done)
    | (simp [Val.isCons] at h1; done)
    | exact absurd rfl (h2 _)
    | exact absurd rfl (h3 _)
    | exact absurd rfl (h4 _)

/-- An evaluator that always succeeds with a proper list and records the form it was given in
    a log (`log` reads the log off the state; `key` is what is recorded for a form); the log
    does not depend on the allocation counter. -/
structure Logging {α : Type} (r : Rec) (log : Ctx → List α) (key : Val → α) : Prop where
  eval : ∀ v c, ∃ x c1, r.eval v c = (.ok x, c1) ∧ log c1 = key v :: log c ∧ x.spine.2 = .nil
  alloc : ∀ c c', OnlyNextId c c' → log c' = log c

theorem isList_of_spine_nil {x : Val} (h : x.spine.2 = .nil) : x.isList = true := by
  rw [C12.isList_iff_spine]; exact Or.inr h

theorem bqItem_log {α : Type} (r : Rec) (log : Ctx → List α) (key : Val → α)
    (hl : Logging r log key) (first : Val)
    (hP : ∀ c, ∃ w c', evalBackquote r first c = (.ok w, c') ∧
      log c' = ((unquoted first).map key).reverse ++ log c)
    (acc : Acc) (c : Ctx) (hacc : acc.tail = .nil) :
    ∃ acc' c', bqItem r first acc c = (.ok acc', c') ∧ acc'.tail = .nil ∧
      log c' = ((unqItem first).map key).reverse ++ log c := by
  have hother : ∃ acc' c', (evalBackquote r first >>= fun x => acc.push x) c = (.ok acc', c') ∧
      acc'.tail = .nil ∧ log c' = ((unquoted first).map key).reverse ++ log c := by
    obtain ⟨w, c1, h1, h2⟩ := hP c
    exact ⟨_, c1, by rw [C12.bind_ok _ h1, C12.Acc.push_ok acc w c1 hacc], rfl, h2⟩
  cases first with
  | unquote v =>
    obtain ⟨x, c1, h1, h2, _⟩ := hl.eval v c
    refine ⟨{ rev := x :: acc.rev, tail := .nil }, c1, ?_, rfl, ?_⟩
    · rw [bqItem_unquote, C12.bind_ok _ h1, C12.Acc.push_ok acc x c1 hacc]
    · simp [unqItem, h2]
  | splice v =>
    obtain ⟨x, c1, h1, h2, h3⟩ := hl.eval v c
    obtain ⟨x', c2, h4, h5, _, h6, _⟩ := deepCopy_fresh x c1
    have hx' : x'.spine.2 = .nil := by rw [h6]; exact h3
    refine ⟨{ rev := x'.spine.1.reverse ++ acc.rev, tail := x'.spine.2 }, c2, ?_, hx', ?_⟩
    · rw [bqItem_splice, C12.bind_ok _ h1, C12.bind_ok _ h4,
        C12.Acc.append_list acc x' c2 hacc (isList_of_spine_nil hx')]
    · rw [hl.alloc c1 c2 h5]
      simp [unqItem, h2]
  | _ => exact hother

theorem bq_log_aux {α : Type} (r : Rec) (log : Ctx → List α) (key : Val → α)
    (hl : Logging r log key) (t : Val) :
    (∀ c, ∃ w c', evalBackquote r t c = (.ok w, c') ∧
      log c' = ((unquoted t).map key).reverse ++ log c) ∧
    (∀ (acc : Acc) c, acc.tail = .nil → ∃ acc' c', bqRest r t acc c = (.ok acc', c') ∧
      log c' = ((unqRest t).map key).reverse ++ log c) := by
  induction t with
  | cons i a d iha ihd =>
    constructor
    · intro c
      obtain ⟨a1, c1, h1, ht, hl1⟩ := bqItem_log r log key hl a iha.1 {} c rfl
      obtain ⟨a2, c2, h2, hl2⟩ := ihd.2 a1 c1 ht
      obtain ⟨w, c3, h3, ho, _⟩ := mkListM_fresh a2.rev.reverse a2.tail c2
      refine ⟨w, c3, ?_, ?_⟩
      · rw [evalBackquote_cons, C12.bind_ok _ h1, C12.bind_ok _ h2]; exact h3
      · rw [hl.alloc c2 c3 ho, hl2, hl1, unquoted_cons]; simp
    · intro acc c hacc
      obtain ⟨a1, c1, h1, ht, hl1⟩ := bqItem_log r log key hl a iha.1 acc c hacc
      obtain ⟨a2, c2, h2, hl2⟩ := ihd.2 a1 c1 ht
      refine ⟨a2, c2, ?_, ?_⟩
      · rw [bqRest_cons, C12.bind_ok _ h1, h2]
      · rw [hl2, hl1, unqRest_cons]; simp
  | quote v ih =>
    refine ⟨fun c => ?_, fun acc c hacc => ?_⟩
    · obtain ⟨w, c1, h1, h2⟩ := ih.1 c
      refine ⟨.quote w, c1, ?_, ?_⟩
      · rw [evalBackquote_quote, C12.bind_ok _ h1]; rfl
      · rw [h2]; simp only [unquoted]
    · rw [bqRest_other r _ acc rfl (by intro x h; cases h), append_eq_combine acc _ hacc,
        unqRest_other _ rfl (by intro x h; cases h)]
      exact ⟨_, c, rfl, by simp⟩
  | unquote v _ =>
    refine ⟨fun c => ?_, fun acc c hacc => ?_⟩
    · obtain ⟨x, c1, h1, h2, _⟩ := hl.eval v c
      exact ⟨x, c1, by rw [evalBackquote_unquote, h1], by simp [unquoted, h2]⟩
    · obtain ⟨x, c1, h1, h2, _⟩ := hl.eval v c
      refine ⟨combine acc x.spine.1 x.spine.2, c1, ?_, ?_⟩
      · rw [bqRest_unquote, C12.bind_ok _ h1, append_eq_combine acc _ hacc]; rfl
      · simp [unqRest, h2]
  | splice v _ =>
    refine ⟨fun c => ?_, fun acc c hacc => ?_⟩
    · obtain ⟨x, c1, h1, h2, _⟩ := hl.eval v c
      obtain ⟨x', c2, h4, h5, _⟩ := deepCopy_fresh x c1
      refine ⟨x', c2, by rw [evalBackquote_splice, C12.bind_ok _ h1, h4], ?_⟩
      rw [hl.alloc c1 c2 h5]; simp [unquoted, h2]
    · rw [bqRest_other r _ acc rfl (by intro x h; cases h), append_eq_combine acc _ hacc,
        unqRest_other _ rfl (by intro x h; cases h)]
      exact ⟨_, c, rfl, by simp⟩
  | _ =>
    refine ⟨fun c => ?_, fun acc c hacc => ?_⟩
    · rw [evalBackquote_atom r _ rfl (by intro x h; cases h) (by intro x h; cases h)
        (by intro x h; cases h), unquoted_atom _ rfl (by intro x h; cases h)
        (by intro x h; cases h) (by intro x h; cases h)]
      exact ⟨_, c, rfl, by simp⟩
    · rw [bqRest_other r _ acc rfl (by intro x h; cases h), append_eq_combine acc _ hacc,
        unqRest_other _ rfl (by intro x h; cases h)]
      exact ⟨_, c, rfl, by simp⟩

end Tulisp.C07
