/-
  Proofs/SafeAttr.lean — the simp set used to normalise symbol-bound side conditions.
-/
import Lean
register_simp_attr bnd_simp
