/-
  Proofs/C04.lean — helper definitions and lemmas for property C04 (tail-call optimisation).

  Part A: the trampoline (`bounceLoop`, `evalLambda`), constant depth, contrast with plain calls.
  Part B: the rewritten tail form `(<evalEach> <bounce> a1 … an)` and argument collection.
  Part C: `markTailCalls`: a pure specification `markS` (no monad, all ids erased), the
          simulation theorem, and the structural facts.
-/
import Tulisp.Model.Load
import Tulisp.Proofs.C12
import Tulisp.Proofs.C13
namespace Tulisp.C04
open Tulisp
open Tulisp.C12 (mkListM_run mkList_spine mkList_next spine_cons spine_fst elems_ofList)
open Tulisp.C13 (bind_apply pure_apply)

/-! ## vocabulary -/

/-- All allocation identities set to 0: equality of `eraseIds` images is structural equality
    up to cell identity. -/
def eraseIds : Val → Val
  | .nil => .nil
  | .t => .t
  | .int n => .int n
  | .float b => .float b
  | .str _ s => .str 0 s
  | .sym n => .sym n
  | .cons _ a d => .cons 0 (eraseIds a) (eraseIds d)
  | .quote v => .quote (eraseIds v)
  | .backquote v => .backquote (eraseIds v)
  | .unquote v => .unquote (eraseIds v)
  | .splice v => .splice (eraseIds v)
  | .lambda _ ps b => .lambda 0 ps (eraseIds b)
  | .defmacro _ ps b => .defmacro 0 ps (eraseIds b)
  | .builtin b => .builtin b
  | .table _ => .table 0
  | .bounce => .bounce

/-- A bounce request: a list whose head is the `bounce` marker (`(bounce v1 … vn)`). -/
def isBounce : Val → Bool
  | .cons _ .bounce _ => true
  | _ => false

/-- `evalLambda` with an explicit iteration budget. -/
def evalLambdaK (r : Rec) (evaluate : Bool) (ps : Params) (body args : Val) (k : Nat) : M Val :=
  evalFunction r evaluate ps body args >>= bounceLoop r ps body k

/-! ## Part A: the trampoline -/

theorem bounceLoop_zero (r : Rec) (ps : Params) (body res : Val) :
    bounceLoop r ps body 0 res = M.outOfFuel := by
  cases res <;> rfl

theorem bounceLoop_bounce_eq (r : Rec) (ps : Params) (body : Val) (k i : Nat) (vals : Val) :
    bounceLoop r ps body (k + 1) (.cons i .bounce vals)
      = (evalFunction r false ps body vals >>= bounceLoop r ps body k) := rfl

theorem bounceLoop_done_eq (r : Rec) (ps : Params) (body : Val) (k : Nat) (res : Val)
    (h : isBounce res = false) : bounceLoop r ps body (k + 1) res = pure res := by
  unfold bounceLoop
  split
  · simp [isBounce] at h
  · rfl

/-- the identity of the cell carrying a bounce request is irrelevant -/
theorem bounceLoop_id_irrel (r : Rec) (ps : Params) (body : Val) (k i j : Nat) (vals : Val) :
    bounceLoop r ps body k (.cons i .bounce vals) = bounceLoop r ps body k (.cons j .bounce vals) := by
  cases k <;> rfl

theorem evalLambda_unfold_eq (r : Rec) (ev : Bool) (ps : Params) (body args : Val) :
    evalLambda r ev ps body args
      = (evalFunction r ev ps body args >>= bounceLoop r ps body loopBudget) := rfl

theorem evalLambda_eq_K (r : Rec) (ev : Bool) (ps : Params) (body args : Val) :
    evalLambda r ev ps body args = evalLambdaK r ev ps body args loopBudget := rfl

theorem funcallVal_lambda (r : Rec) (ev : Bool) (id : Nat) (ps : Params) (body args : Val) :
    funcallVal r ev (.lambda id ps body) args = evalLambda r ev ps body args := rfl

/-- `n` successive passes through the body, each of which succeeds with a bounce request:
    from argument list `vals` in state `c` to argument list `vals'` in state `c'`.
    All passes use the SAME `r`. -/
inductive Bounces (r : Rec) (ps : Params) (body : Val) : Nat → Val → Ctx → Val → Ctx → Prop
  | zero (vals : Val) (c : Ctx) : Bounces r ps body 0 vals c vals c
  | step {n i : Nat} {vals vals1 vals' : Val} {c c1 c' : Ctx} :
      evalFunction r false ps body vals c = (.ok (.cons i .bounce vals1), c1) →
      Bounces r ps body n vals1 c1 vals' c' →
      Bounces r ps body (n + 1) vals c vals' c'

theorem Bounces.snoc {r : Rec} {ps : Params} {body : Val} {n i : Nat} {vals vals1 vals2 : Val}
    {c c1 c2 : Ctx} (h : Bounces r ps body n vals c vals1 c1)
    (hp : evalFunction r false ps body vals1 c1 = (.ok (.cons i .bounce vals2), c2)) :
    Bounces r ps body (n + 1) vals c vals2 c2 := by
  induction h with
  | zero vals c => exact .step hp (.zero _ _)
  | step h1 _ ih => exact .step h1 (ih hp)

/-- a prefix of a run of bounces is a run of bounces -/
theorem Bounces.prefix {r : Rec} {ps : Params} {body : Val} {n : Nat} {vals vals' : Val}
    {c c' : Ctx} (h : Bounces r ps body n vals c vals' c') (m : Nat) (hm : m ≤ n) :
    ∃ vals1 c1, Bounces r ps body m vals c vals1 c1 := by
  induction h generalizing m with
  | zero vals c =>
    have : m = 0 := by omega
    subst this; exact ⟨_, _, .zero _ _⟩
  | step h1 _ ih =>
    cases m with
    | zero => exact ⟨_, _, .zero _ _⟩
    | succ m =>
      obtain ⟨v1, c1, hb⟩ := ih m (by omega)
      exact ⟨v1, c1, .step h1 hb⟩

/-- `n` iterations of the trampoline need no more depth than one: all of them run with the same
    `r`; only the iteration budget decreases. -/
theorem depth_constant_aux {r : Rec} {ps : Params} {body : Val} {n : Nat} {vals vals' : Val}
    {c c' : Ctx} (h : Bounces r ps body n vals c vals' c') :
    ∀ (k i j : Nat), n ≤ k →
      bounceLoop r ps body k (.cons i .bounce vals) c
        = bounceLoop r ps body (k - n) (.cons j .bounce vals') c' := by
  induction h with
  | zero vals c =>
    intro k i j _
    rw [bounceLoop_id_irrel r ps body k i j]; rfl
  | @step n i1 vals vals1 vals' c c1 c' h1 _ ih =>
    intro k i j hk
    obtain ⟨k', rfl⟩ : ∃ k', k = k' + 1 := ⟨k - 1, by omega⟩
    rw [bounceLoop_bounce_eq]
    show M.bind (evalFunction r false ps body vals) (bounceLoop r ps body k') c = _
    rw [C13.M.bind_ok h1, ih k' i1 j (by omega), show k' + 1 - (n + 1) = k' - n by omega]

/-- a run of `n` bounces followed by a pass with a final (non-bounce) value completes within an
    iteration budget of `n + 2`, with that value and state -/
theorem bounceLoop_terminates_aux {r : Rec} {ps : Params} {body : Val} {n : Nat}
    {vals vals' v : Val} {c c' c'' : Ctx} (h : Bounces r ps body n vals c vals' c')
    (hfin : evalFunction r false ps body vals' c' = (.ok v, c'')) (hv : isBounce v = false)
    (k i : Nat) (hk : n + 2 ≤ k) :
    bounceLoop r ps body k (.cons i .bounce vals) c = (.ok v, c'') := by
  rw [depth_constant_aux h k i 0 (by omega)]
  obtain ⟨k', hk'⟩ : ∃ k', k - n = k' + 2 := ⟨k - n - 2, by omega⟩
  rw [hk', bounceLoop_bounce_eq]
  show M.bind (evalFunction r false ps body vals') (bounceLoop r ps body (k' + 1)) c' = _
  rw [C13.M.bind_ok hfin, bounceLoop_done_eq _ _ _ _ _ hv]; rfl

/-- Under an invariant `S` on (argument list, state) such that one pass from `S` succeeds with
    either a bounce request back into `S` or a final value, the trampoline with budget `k` either
    completes with a final value, or runs out of its ITERATION budget after at least `k - 1`
    complete bounce iterations.  No error, no panic, and no `.fuel` before the budget is used up:
    whatever depth `r` stands for suffices for any number of iterations. -/
theorem bounceLoop_invariant_aux (r : Rec) (ps : Params) (body : Val) (S : Val → Ctx → Prop)
    (hS : ∀ vals c, S vals c →
      (∃ i vals' c', evalFunction r false ps body vals c = (.ok (.cons i .bounce vals'), c') ∧ S vals' c')
      ∨ (∃ v c', evalFunction r false ps body vals c = (.ok v, c') ∧ isBounce v = false)) :
    ∀ (k i : Nat) (vals : Val) (c : Ctx), S vals c →
      (∃ v c', bounceLoop r ps body k (.cons i .bounce vals) c = (.ok v, c') ∧ isBounce v = false)
      ∨ (∃ c', bounceLoop r ps body k (.cons i .bounce vals) c = (.fuel, c') ∧
          ∃ vals1 c1, Bounces r ps body (k - 1) vals c vals1 c1) := by
  intro k
  induction k with
  | zero =>
    intro i vals c _
    exact .inr ⟨c, rfl, _, _, .zero _ _⟩
  | succ k ih =>
    intro i vals c hs
    rw [bounceLoop_bounce_eq]
    show (_ ∨ ∃ c', M.bind (evalFunction r false ps body vals) (bounceLoop r ps body k) c = _ ∧ _)
    rcases hS vals c hs with ⟨i1, vals1, c1, h1, hs1⟩ | ⟨v, c1, h1, hv⟩
    · rw [show (evalFunction r false ps body vals >>= bounceLoop r ps body k) c
          = bounceLoop r ps body k (.cons i1 .bounce vals1) c1 from C13.M.bind_ok h1,
        C13.M.bind_ok h1]
      rcases ih i1 vals1 c1 hs1 with hok | ⟨c2, hf, w, cw, hb⟩
      · exact .inl hok
      · refine .inr ⟨c2, hf, ?_⟩
        cases k with
        | zero => exact ⟨_, _, .zero _ _⟩
        | succ k => exact ⟨w, cw, .step h1 hb⟩
    · rw [show (evalFunction r false ps body vals >>= bounceLoop r ps body k) c
          = bounceLoop r ps body k v c1 from C13.M.bind_ok h1, C13.M.bind_ok h1]
      cases k with
      | zero =>
        refine .inr ⟨c1, by rw [bounceLoop_zero]; rfl, _, _, .zero _ _⟩
      | succ k =>
        rw [bounceLoop_done_eq _ _ _ _ _ hv]
        exact .inl ⟨v, c1, rfl, hv⟩

/-! ## Part B: the rewritten tail form and argument collection -/

/-- the form a tail self-call `(f a1 … an)` is rewritten to: `(<evalEach> <bounce> a1 … an)` -/
def tailForm (i j : Nat) (args : Val) : Val := .cons i (.builtin .evalEach) (.cons j .bounce args)

/-- the two facts about `r` that the evaluation of the rewritten form relies on -/
structure SelfEval (r : Rec) : Prop where
  builtin : ∀ b, r.eval (.builtin b) = pure (.builtin b)
  bounce : r.eval .bounce = pure .bounce

theorem selfEval_ofDepth (d : Nat) : SelfEval (Rec.ofDepth (d + 1)) := ⟨fun _ => rfl, rfl⟩

theorem callBuiltin_evalEach (r : Rec) (args : Val) :
    callBuiltin r .evalEach args = (evalEach r args >>= fun vs => mkListM vs) := rfl

theorem evalEach_cons (r : Rec) (i : Nat) (a d : Val) :
    evalEach r (.cons i a d) = (r.eval a >>= fun v => evalEach r d >>= fun vs => pure (v :: vs)) := rfl

theorem evalEach_atom (r : Rec) {v : Val} (h : v.isCons = false) : evalEach r v = pure [] := by
  cases v <;> first | rfl | simp [Val.isCons] at h

/-- Item 3: the rewritten form evaluates its argument forms once each, left to right, exactly
    as `evalEach` does, and returns the fresh list `(bounce v1 … vn)`. -/
theorem evalStep_tailForm (r : Rec) (hr : SelfEval r) (i j : Nat) (args : Val) :
    evalStep r (tailForm i j args) = (evalEach r args >>= fun vs => mkListM (.bounce :: vs)) := by
  show (r.eval (.builtin .evalEach) >>= fun f => _) = _
  rw [hr.builtin]
  show callBuiltin r .evalEach (.cons j .bounce args) = _
  rw [callBuiltin_evalEach, evalEach_cons, hr.bounce]
  simp only [bind_assoc, pure_bind]

theorem mkList_bounce (n : Nat) (vs : List Val) :
    (Val.mkList n (.bounce :: vs) .nil).1 = .cons n .bounce (Val.mkList (n + 1) vs .nil).1 := rfl

theorem elems_mkList (n : Nat) (xs : List Val) : (Val.mkList n xs .nil).1.elems = xs := by
  rw [← spine_fst, mkList_spine]; simp [Val.spine]

/-- run-level form of `evalStep_tailForm`: when the argument forms evaluate to `vs` (state `c'`),
    the rewritten form yields the bounce request `(bounce . vals)` with `vals.elems = vs`, and
    only allocates the `n + 1` cells of that list. -/
theorem evalStep_tailForm_ok (r : Rec) (hr : SelfEval r) (i j : Nat) (args : Val) (c c' : Ctx)
    (vs : List Val) (h : evalEach r args c = (.ok vs, c')) :
    evalStep r (tailForm i j args) c
      = (.ok (.cons c'.nextId .bounce (Val.mkList (c'.nextId + 1) vs .nil).1),
         { c' with nextId := c'.nextId + (vs.length + 1) }) := by
  rw [evalStep_tailForm r hr]
  show M.bind (evalEach r args) _ c = _
  rw [C13.M.bind_ok h, mkListM_run]; rfl

/-- …and when the evaluation of an argument fails, the form fails in the same way, in the same state -/
theorem evalStep_tailForm_fail (r : Rec) (hr : SelfEval r) (i j : Nat) (args : Val) (c c' : Ctx)
    (x : Res (List Val)) (h : evalEach r args c = (x, c')) (hx : ∀ vs, x ≠ .ok vs) :
    (evalStep r (tailForm i j args) c).2 = c' ∧
    (match x, (evalStep r (tailForm i j args) c).1 with
      | .err k, .err k' => k = k'
      | .panic s, .panic s' => s = s'
      | .fuel, .fuel => True
      | _, _ => False) := by
  rw [evalStep_tailForm r hr]
  show (M.bind (evalEach r args) _ c).2 = c' ∧ _
  cases x with
  | ok vs => exact absurd rfl (hx vs)
  | err k => simp [M.bind, h]
  | panic s => simp [M.bind, h]
  | fuel => simp [M.bind, h]

/-! ### argument collection on values -/

/-- distribution of argument VALUES (a Lean list) over the parameters: what `collectArgs … false`
    does; structurally recursive -/
def collectRest : Option Nat → List Val → M (List Val)
  | some _, args => do
    let l ← mkListM args
    return [l]
  | none, _ :: _ => M.throw .typeMismatch
  | none, [] => pure []

def collectOpt : List Nat → Option Nat → List Val → M (List Val)
  | [], rest, args => collectRest rest args
  | _ :: opt, rest, a :: d => do
    let vs ← collectOpt opt rest d
    return a :: vs
  | _ :: opt, rest, [] => do
    let vs ← collectOpt opt rest []
    return .nil :: vs

def collectVals : List Nat → List Nat → Option Nat → List Val → M (List Val)
  | [], opt, rest, args => collectOpt opt rest args
  | _ :: req, opt, rest, a :: d => do
    let vs ← collectVals req opt rest d
    return a :: vs
  | _ :: _, _, _, [] => M.throw .typeMismatch

theorem elems_atom {v : Val} (h : v.isCons = false) : v.elems = [] := by
  cases v <;> first | rfl | simp [Val.isCons] at h

theorem collectArgs_req_cons_false (r : Rec) (p : Nat) (req opt : List Nat) (rest : Option Nat)
    (i : Nat) (a d : Val) :
    collectArgs r false (p :: req) opt rest (.cons i a d)
      = (collectArgs r false req opt rest d >>= fun vs => pure (a :: vs)) := by
  rw [collectArgs]; rfl

theorem collectArgs_req_cons_true (r : Rec) (p : Nat) (req opt : List Nat) (rest : Option Nat)
    (i : Nat) (a d : Val) :
    collectArgs r true (p :: req) opt rest (.cons i a d)
      = (r.eval a >>= fun v => collectArgs r true req opt rest d >>= fun vs => pure (v :: vs)) := by
  rw [collectArgs]; rfl

theorem collectArgs_opt_cons_false (r : Rec) (p : Nat) (opt : List Nat) (rest : Option Nat)
    (i : Nat) (a d : Val) :
    collectArgs r false [] (p :: opt) rest (.cons i a d)
      = (collectArgs r false [] opt rest d >>= fun vs => pure (a :: vs)) := by
  rw [collectArgs]; rfl

theorem collectArgs_opt_cons_true (r : Rec) (p : Nat) (opt : List Nat) (rest : Option Nat)
    (i : Nat) (a d : Val) :
    collectArgs r true [] (p :: opt) rest (.cons i a d)
      = (r.eval a >>= fun v => collectArgs r true [] opt rest d >>= fun vs => pure (v :: vs)) := by
  rw [collectArgs]; rfl

theorem collectArgs_req_atom (r : Rec) (ev : Bool) (p : Nat) (req opt : List Nat) (rest : Option Nat)
    {v : Val} (h : v.isCons = false) :
    collectArgs r ev (p :: req) opt rest v = M.throw .typeMismatch := by
  cases v <;> first | (simp [Val.isCons] at h; done) | (rw [collectArgs]; simp)

theorem collectArgs_opt_atom (r : Rec) (ev : Bool) (p : Nat) (opt : List Nat) (rest : Option Nat)
    {v : Val} (h : v.isCons = false) :
    collectArgs r ev [] (p :: opt) rest v
      = (collectArgs r ev [] opt rest v >>= fun vs => pure (.nil :: vs)) := by
  cases v <;> first | (simp [Val.isCons] at h; done) | (rw [collectArgs]; simp)

theorem collectArgs_none_atom (r : Rec) (ev : Bool) {v : Val} (h : v.isCons = false) :
    collectArgs r ev [] [] none v = pure [] := by
  cases v <;> first | (simp [Val.isCons] at h; done) | (rw [collectArgs]; simp)

theorem collectArgs_none_cons (r : Rec) (ev : Bool) (i : Nat) (a d : Val) :
    collectArgs r ev [] [] none (.cons i a d) = M.throw .typeMismatch := by
  rw [collectArgs]

theorem collectArgs_rest (r : Rec) (ev : Bool) (p : Nat) (v : Val) :
    collectArgs r ev [] [] (some p) v
      = ((if ev then evalEach r v else pure v.elems) >>= fun vs => mkListM vs >>= fun l => pure [l]) := by
  rw [collectArgs]
  cases ev <;> rfl

/-- with `evaluate = false` only the elements of the argument list matter -/
theorem collectArgs_false (r : Rec) (req opt : List Nat) (rest : Option Nat) (v : Val) :
    collectArgs r false req opt rest v = collectVals req opt rest v.elems := by
  induction req generalizing v with
  | cons p req ih =>
    by_cases hv : v.isCons = true
    · obtain ⟨i, a, d, rfl⟩ : ∃ i a d, v = .cons i a d := by
        cases v <;> simp [Val.isCons] at hv
        exact ⟨_, _, _, rfl⟩
      rw [collectArgs_req_cons_false, ih]; rfl
    · have hv' : v.isCons = false := by simpa using hv
      rw [collectArgs_req_atom _ _ _ _ _ _ hv', elems_atom hv']; rfl
  | nil =>
    induction opt generalizing v with
    | cons p opt ih =>
      by_cases hv : v.isCons = true
      · obtain ⟨i, a, d, rfl⟩ : ∃ i a d, v = .cons i a d := by
          cases v <;> simp [Val.isCons] at hv
          exact ⟨_, _, _, rfl⟩
        rw [collectArgs_opt_cons_false, ih]; rfl
      · have hv' : v.isCons = false := by simpa using hv
        rw [collectArgs_opt_atom _ _ _ _ _ hv', ih, elems_atom hv']; rfl
    | nil =>
      cases rest with
      | some p => rw [collectArgs_rest]; cases v <;> rfl
      | none =>
        by_cases hv : v.isCons = true
        · obtain ⟨i, a, d, rfl⟩ : ∃ i a d, v = .cons i a d := by
            cases v <;> simp [Val.isCons] at hv
            exact ⟨_, _, _, rfl⟩
          rw [collectArgs_none_cons]; rfl
        · have hv' : v.isCons = false := by simpa using hv
          rw [collectArgs_none_atom _ _ hv', elems_atom hv']; rfl

/-- a call supplies more arguments than the parameter list can take -/
def TooMany (ps : Params) (n : Nat) : Prop := ps.rest = none ∧ ps.req.length + ps.opt.length < n

/-- with `evaluate = true`, unless there are too many arguments, the argument forms are evaluated
    once each, left to right (`evalEach`), and the values are then distributed as for
    `evaluate = false` -/
theorem collectArgs_true (r : Rec) (req opt : List Nat) (rest : Option Nat) (v : Val)
    (h : rest = none → v.elems.length ≤ req.length + opt.length) :
    collectArgs r true req opt rest v = (evalEach r v >>= collectVals req opt rest) := by
  induction req generalizing v with
  | cons p req ih =>
    by_cases hv : v.isCons = true
    · obtain ⟨i, a, d, rfl⟩ : ∃ i a d, v = .cons i a d := by
        cases v <;> simp [Val.isCons] at hv
        exact ⟨_, _, _, rfl⟩
      rw [collectArgs_req_cons_true, evalEach_cons, ih d (fun hr => by have := h hr; simp [Val.elems] at this ⊢; omega)]
      simp only [bind_assoc, pure_bind]
      rfl
    · have hv' : v.isCons = false := by simpa using hv
      rw [collectArgs_req_atom _ _ _ _ _ _ hv', evalEach_atom _ hv', pure_bind]; rfl
  | nil =>
    induction opt generalizing v with
    | cons p opt ih =>
      by_cases hv : v.isCons = true
      · obtain ⟨i, a, d, rfl⟩ : ∃ i a d, v = .cons i a d := by
          cases v <;> simp [Val.isCons] at hv
          exact ⟨_, _, _, rfl⟩
        rw [collectArgs_opt_cons_true, evalEach_cons, ih d (fun hr => by have := h hr; simp [Val.elems] at this ⊢; omega)]
        simp only [bind_assoc, pure_bind]
        rfl
      · have hv' : v.isCons = false := by simpa using hv
        rw [collectArgs_opt_atom _ _ _ _ _ hv', ih v (fun _ => by simp [elems_atom hv']),
          evalEach_atom _ hv', pure_bind, pure_bind]; rfl
    | nil =>
      cases rest with
      | some p =>
        rw [collectArgs_rest]
        simp only [if_true]
        congr 1
      | none =>
        have : v.elems = [] := by
          have := h rfl
          simpa using this
        have hv' : v.isCons = false := by cases v <;> simp [Val.elems] at this <;> rfl
        rw [collectArgs_none_atom _ _ hv', evalEach_atom _ hv', pure_bind]; rfl

/-- A function (parameter list `ps`, body `body`) applied to a Lean list of argument VALUES:
    distribute over the parameters, bind, run the body, unbind on every exit. -/
def applyFn (r : Rec) (ps : Params) (body : Val) (vs : List Val) : M Val := do
  let vals ← collectVals ps.req ps.opt ps.rest vs
  bindParams ps.all vals []
  M.finally' (evalProgn r body) (fun c => ps.all.foldl popSymCtx c)

/-- re-entry with values: only the elements of the value list matter (not its cells) -/
theorem evalFunction_false (r : Rec) (ps : Params) (body v : Val) :
    evalFunction r false ps body v = applyFn r ps body v.elems := by
  unfold evalFunction applyFn
  rw [collectArgs_false]

/-- an ordinary call: evaluate the argument forms once each, left to right, then apply -/
theorem evalFunction_true (r : Rec) (ps : Params) (body forms : Val)
    (h : ¬ TooMany ps forms.elems.length) :
    evalFunction r true ps body forms = (evalEach r forms >>= applyFn r ps body) := by
  unfold evalFunction applyFn
  rw [collectArgs_true r _ _ _ _ (fun hr => by
    simp only [TooMany, hr, true_and, Nat.not_lt] at h; exact h)]
  simp only [bind_assoc]

/-- The trampoline step on the value of the rewritten tail form: evaluate the argument forms
    (`evalEach`), allocate the bounce list, then apply the function to the values with the
    remaining iteration budget. -/
theorem tailForm_then_bounce (r : Rec) (hr : SelfEval r) (ps : Params) (body : Val) (k i j : Nat)
    (args : Val) :
    (evalStep r (tailForm i j args) >>= bounceLoop r ps body (k + 1))
      = (evalEach r args >>= fun vs => mkListM (.bounce :: vs) >>= fun _ =>
          applyFn r ps body vs >>= bounceLoop r ps body k) := by
  rw [evalStep_tailForm r hr, bind_assoc]
  congr 1
  funext vs
  funext c
  show M.bind (mkListM (.bounce :: vs)) _ c = M.bind (mkListM (.bounce :: vs)) _ c
  simp only [M.bind, mkListM_run, mkList_bounce, bounceLoop_bounce_eq, evalFunction_false, elems_mkList]

/-- The ordinary call of the same lambda with the same argument forms: evaluate the argument
    forms (`evalEach`), then apply the function to the values. -/
theorem ordinary_call_aux (r : Rec) (id : Nat) (ps : Params) (body args : Val)
    (h : ¬ TooMany ps args.elems.length) :
    funcallVal r true (.lambda id ps body) args
      = (evalEach r args >>= fun vs => applyFn r ps body vs >>= bounceLoop r ps body loopBudget) := by
  rw [funcallVal_lambda, evalLambda_unfold_eq, evalFunction_true r ps body args h, bind_assoc]

/-- a call with values (`funcall::<DummyEval>`, what `mapcar`, `sort`, … and the trampoline use) -/
theorem value_call_aux (r : Rec) (id : Nat) (ps : Params) (body vals : Val) :
    funcallVal r false (.lambda id ps body) vals
      = (applyFn r ps body vals.elems >>= bounceLoop r ps body loopBudget) := by
  rw [funcallVal_lambda, evalLambda_unfold_eq, evalFunction_false]

/-! ### contrast: ordinary calls consume depth -/

theorem ofDepth_zero_eval (e : Val) : (Rec.ofDepth 0).eval e = M.outOfFuel := rfl

theorem ofDepth_succ_eval (d : Nat) (e : Val) :
    (Rec.ofDepth (d + 1)).eval e = evalStep (Rec.ofDepth d) e := rfl

/-- a call form evaluates its head, and then its arguments, with the SMALLER evaluator `r` -/
theorem evalStep_call (r : Rec) (i : Nat) (head args : Val) :
    evalStep r (.cons i head args) = (r.eval head >>= fun f =>
      match f with
      | .builtin b => if b.isMacro then funcallVal r true f args else callBuiltin r b args
      | _ => funcallVal r true f args) := rfl

/-- the body `((f))` of a parameterless function `f` that only calls itself, NOT marked -/
def loopBody (i j f : Nat) : Val := .cons i (.cons j (.sym f) .nil) .nil

/-- the same body after `markTailCalls`: `((<evalEach> <bounce>))` -/
def loopBodyMarked (i j k : Nat) : Val := .cons i (tailForm j k .nil) .nil

def noParams : Params := ⟨[], [], none⟩

theorem getSym_bound {c : Ctx} {f : Nat} {v : Val} (h1 : (c.symD f).constant = false)
    (h2 : (c.symD f).get = some v) : getSym f c = (.ok v, c) := by
  simp [getSym, h1, h2]

/-- one ordinary self-call = one level of depth: the call `(f)` at depth `d + 2` is the call `(f)`
    at depth `d + 1` (and nothing else happens) -/
theorem plain_call_step (c : Ctx) (f id i j j' : Nat)
    (h1 : (c.symD f).constant = false)
    (h2 : (c.symD f).get = some (.lambda id noParams (loopBody i j f))) (d : Nat) :
    (Rec.ofDepth (d + 2)).eval (.cons j' (.sym f) .nil) c
      = (match (Rec.ofDepth (d + 1)).eval (.cons j (.sym f) .nil) c with
         | (.ok res, c') => bounceLoop (Rec.ofDepth (d + 1)) noParams (loopBody i j f) loopBudget res c'
         | (.err k, c') => (.err k, c')
         | (.panic s, c') => (.panic s, c')
         | (.fuel, c') => (.fuel, c')) := by
  rw [ofDepth_succ_eval, evalStep_call]
  show M.bind ((Rec.ofDepth (d + 1)).eval (.sym f)) _ c = _
  have hs : (Rec.ofDepth (d + 1)).eval (.sym f) c = (.ok (.lambda id noParams (loopBody i j f)), c) :=
    getSym_bound h1 h2
  rw [C13.M.bind_ok hs]
  show evalLambda (Rec.ofDepth (d + 1)) true noParams (loopBody i j f) .nil c = _
  rw [evalLambda_unfold_eq]
  show M.bind (evalFunction (Rec.ofDepth (d + 1)) true noParams (loopBody i j f) .nil) _ c = _
  have he : evalFunction (Rec.ofDepth (d + 1)) true noParams (loopBody i j f) .nil c
      = (Rec.ofDepth (d + 1)).eval (.cons j (.sym f) .nil) c := by
    unfold evalFunction
    rw [show collectArgs (Rec.ofDepth (d + 1)) true noParams.req noParams.opt noParams.rest .nil
        = pure [] from collectArgs_none_atom _ _ rfl]
    rw [pure_bind]
    show M.finally' ((Rec.ofDepth (d + 1)).eval (.cons j (.sym f) .nil))
      (fun c => ([] : List Nat).foldl popSymCtx c) c = _
    simp only [M.finally', List.foldl_nil]
  simp only [M.bind, he]
  rcases (Rec.ofDepth (d + 1)).eval (.cons j (.sym f) .nil) c with ⟨x, c'⟩
  cases x <;> rfl

/-- Contrast (non-vacuity of the depth claim): without tail-call marking the function
    `(defun f () (f))` exhausts EVERY depth budget: the result of `(f)` at any depth is `.fuel`,
    coming from the depth (the state is untouched, no iteration happened). -/
theorem plain_recursion_exhausts_depth_aux (c : Ctx) (f id i j : Nat)
    (h1 : (c.symD f).constant = false)
    (h2 : (c.symD f).get = some (.lambda id noParams (loopBody i j f))) :
    ∀ d j', (Rec.ofDepth d).eval (.cons j' (.sym f) .nil) c = (.fuel, c) := by
  intro d
  induction d with
  | zero => intro _; rfl
  | succ d ih =>
    intro j'
    cases d with
    | zero => rfl
    | succ d => rw [plain_call_step c f id i j j' h1 h2 d, ih j]

/-- forms nested in head position: `nest n = ((…(nil)…))` -/
def nest : Nat → Val
  | 0 => .nil
  | n + 1 => .cons 0 (nest n) .nil

/-- each level of nesting of ordinary evaluation needs one level of depth -/
theorem nest_needs_depth_aux (d n : Nat) (h : d ≤ n) (c : Ctx) :
    (Rec.ofDepth d).eval (nest n) c = (.fuel, c) := by
  induction d generalizing n with
  | zero => rfl
  | succ d ih =>
    obtain ⟨m, rfl⟩ : ∃ m, n = m + 1 := ⟨n - 1, by omega⟩
    rw [ofDepth_succ_eval]
    show M.bind ((Rec.ofDepth d).eval (nest m)) _ c = _
    simp only [M.bind, ih m (by omega)]

/-! ## Part C: `markTailCalls` -/

def isSelfHead (c : Ctx) (fname : Nat) : Val → Bool
  | .sym n => symEq c n fname
  | _ => false

def carOrNil : Val → Val
  | .cons _ x _ => x
  | _ => .nil

/-- the then-form and the else-forms of `(if cond . rest)` -/
def thenOf : Val → Val
  | .cons _ tf _ => tf
  | _ => .nil
def elseOf : Val → Val
  | .cons _ _ e => e
  | _ => .nil

/-- a proper continuation of a list: a cons cell or nil (not a dotted atom) -/
def consOrNil : Val → Bool
  | .cons .. => true
  | .nil => true
  | _ => false

/-- the argument list of the bounce form a self-call `(f . targs)` is rewritten to (ids erased):
    `targs` itself when it is a list, and the one-element list `(atom)` for the dotted call
    `(f . atom)` (Rust: `nil.append(targs)`) -/
def selfArgs : Val → Val
  | .cons i a d => eraseIds (.cons i a d)
  | .nil => .nil
  | atom => .cons 0 (eraseIds atom) .nil

theorem selfArgs_of_consOrNil {targs : Val} (h : consOrNil targs = true) :
    selfArgs targs = eraseIds targs := by
  cases targs <;> first | rfl | simp [consOrNil] at h

theorem selfArgs_of_atom {targs : Val} (h : consOrNil targs = false) :
    selfArgs targs = .cons 0 (eraseIds targs) .nil := by
  cases targs <;> first | rfl | simp [consOrNil] at h

/-- the rewriting of a last form `tail = (th . targs)` exactly as `markTailCalls` does it, the
    recursive calls being made with `fuel` -/
def newTailM (fname fuel : Nat) (c : Ctx) (tail th targs : Val) : M Val :=
  let hn := headName c th
  if isSelfHead c fname th then do
    let argsCopy ← match targs with
      | .cons .. => deepCopy targs
      | .nil => pure Val.nil
      | atom => mkListM [atom]
    let l ← mkListM [.builtin .evalEach, .bounce]
    match l with
    | .cons i1 x (.cons i2 y _) => pure (.cons i1 x (.cons i2 y argsCopy))
    | _ => pure l
  else if hn = "progn" then do
    let b ← markTailCalls fname fuel targs
    mkCons th b
  else if hn = "let" || hn = "let*" then
    match targs with
    | .cons _ varlist lbody => do
      let b ← markTailCalls fname fuel lbody
      let b' ← mkCons varlist b
      mkCons th b'
    | .nil => do
      mkListM [th, .nil]
    | _ => M.throw .typeMismatch
  else if hn = "if" then
    match targs with
    | .cons _ cond rest => do
      let (thenF, elseB) ← (match rest with
        | .cons _ tf e => pure (tf, e)
        | .nil => pure (Val.nil, Val.nil)
        | _ => M.throw .typeMismatch : M (Val × Val))
      do
        let tl ← mkListM [thenF]
        let tm ← markTailCalls fname fuel tl
        let thenF' := match tm with | .cons _ x _ => x | _ => Val.nil
        let e' ← markTailCalls fname fuel elseB
        let l3 ← mkCons thenF' e'
        let l2 ← mkCons cond l3
        mkCons th l2
    | .nil => mkListM [th, .nil, .nil]
    | _ => M.throw .typeMismatch
  else if hn = "cond" then do
    let clauses ← markClauses fname fuel targs
    mkCons th clauses
  else pure tail

theorem markTailCalls_zero (fname : Nat) (body : Val) : markTailCalls fname 0 body = M.outOfFuel := by
  rw [markTailCalls]

theorem markTailCalls_succ_cons (fname fuel i : Nat) (a d : Val) :
    markTailCalls fname (fuel + 1) (.cons i a d) = fun c =>
      match splitLast (Val.cons i a d).elems with
      | none => (.ok (.cons i a d), c)
      | some (ini, tail) =>
        match tail with
        | .cons _ th targs => (newTailM fname fuel c tail th targs >>= fun nt => mkListM (ini ++ [nt])) c
        | _ => (.ok (.cons i a d), c) := by
  funext c
  rw [markTailCalls]
  simp only [bind, M.bind, M.get]
  cases splitLast (Val.cons i a d).elems with
  | none => rfl
  | some p =>
    obtain ⟨ini, tail⟩ := p
    cases tail <;> rfl

theorem markTailCalls_succ_atom (fname fuel : Nat) (v : Val) (h : v.isCons = false) :
    markTailCalls fname (fuel + 1) v = pure v := by
  cases v <;> first | rfl | simp [Val.isCons] at h

theorem markClauses_zero (fname : Nat) (v : Val) : markClauses fname 0 v = M.outOfFuel := by
  rw [markClauses]

theorem markClauses_succ_cons (fname fuel i : Nat) (clause rest : Val) :
    markClauses fname (fuel + 1) (.cons i clause rest) = (do
      let cl' ← match clause with
        | .cons _ cond body => do
          let b ← markTailCalls fname fuel body
          mkCons cond b
        | .nil => mkListM [Val.nil]
        | _ => M.throw .typeMismatch
      let rest' ← markClauses fname fuel rest
      mkCons cl' rest') := rfl

theorem markClauses_succ_atom (fname fuel : Nat) (v : Val) (h : v.isCons = false) :
    markClauses fname (fuel + 1) v = pure .nil := by
  cases v <;> first | rfl | simp [Val.isCons] at h

/-! ### the pure specification -/

def mapR {α β} (f : α → β) : Res α → Res β
  | .ok a => .ok (f a)
  | .err k => .err k
  | .panic s => .panic s
  | .fuel => .fuel

def bindR {α β} (s : Res α) (g : α → Res β) : Res β :=
  match s with
  | .ok a => g a
  | .err k => .err k
  | .panic s => .panic s
  | .fuel => .fuel

/-- Specification of the rewriting of a last form `tail = (th . targs)`; `self` recognises the
    function's own name in head position, `hname` gives the name of a head symbol, `recB` /
    `recC` are the markings of a nested body / of `cond` clauses.  All ids of the result are 0. -/
def formS (self : Val → Bool) (hname : Val → String) (recB recC : Val → Res Val)
    (tail th targs : Val) : Res Val :=
  if self th then .ok (.cons 0 (.builtin .evalEach) (.cons 0 .bounce (selfArgs targs)))
  else if hname th = "progn" then bindR (recB targs) fun b => .ok (.cons 0 (eraseIds th) b)
  else if hname th = "let" || hname th = "let*" then
    match targs with
    | .cons _ varlist lbody =>
      bindR (recB lbody) fun b => .ok (.cons 0 (eraseIds th) (.cons 0 (eraseIds varlist) b))
    | .nil => .ok (Val.ofList [eraseIds th, .nil])
    | _ => .err .typeMismatch
  else if hname th = "if" then
    match targs with
    | .cons _ cond rest =>
      if consOrNil rest then
        bindR (recB (.cons 0 (thenOf rest) .nil)) fun tm =>
        bindR (recB (elseOf rest)) fun e' =>
        .ok (.cons 0 (eraseIds th) (.cons 0 (eraseIds cond) (.cons 0 (carOrNil tm) e')))
      else .err .typeMismatch
    | .nil => .ok (Val.ofList [eraseIds th, .nil, .nil])
    | _ => .err .typeMismatch
  else if hname th = "cond" then bindR (recC targs) fun cl => .ok (.cons 0 (eraseIds th) cl)
  else .ok (eraseIds tail)

mutual
/-- Pure specification of `markTailCalls` (same fuel discipline, result with all ids 0). -/
def markS (self : Val → Bool) (hname : Val → String) : Nat → Val → Res Val
  | 0, _ => .fuel
  | fuel + 1, .cons i a d =>
    match splitLast (Val.cons i a d).elems with
    | none => .ok (eraseIds (.cons i a d))
    | some (ini, tail) =>
      match tail with
      | .cons _ th targs =>
        bindR (formS self hname (markS self hname fuel) (markClausesS self hname fuel) tail th targs)
          fun nt => .ok (Val.ofList (ini.map eraseIds ++ [nt]))
      | _ => .ok (eraseIds (.cons i a d))
  | _ + 1, other => .ok (eraseIds other)

def markClausesS (self : Val → Bool) (hname : Val → String) : Nat → Val → Res Val
  | 0, _ => .fuel
  | fuel + 1, .cons _ clause rest =>
    match clause with
    | .cons _ cond body =>
      bindR (markS self hname fuel body) fun b =>
      bindR (markClausesS self hname fuel rest) fun rest' =>
      .ok (.cons 0 (.cons 0 (eraseIds cond) b) rest')
    | .nil =>
      bindR (markClausesS self hname fuel rest) fun rest' =>
      .ok (.cons 0 (Val.ofList [Val.nil]) rest')
    | _ => .err .typeMismatch
  | _ + 1, _ => .ok .nil
end

/-! ### frames and simulation -/

/-- `c'` differs from `c` at most in the id counter -/
def Fr (c c' : Ctx) : Prop := ∃ n, c' = { c with nextId := n }

theorem Fr.refl (c : Ctx) : Fr c c := ⟨c.nextId, rfl⟩
theorem Fr.trans {c c' c'' : Ctx} (h1 : Fr c c') (h2 : Fr c' c'') : Fr c c'' := by
  obtain ⟨n, rfl⟩ := h1
  obtain ⟨m, rfl⟩ := h2
  exact ⟨m, rfl⟩

theorem symRootAux_frame (c : Ctx) (n : Nat) (fuel a : Nat) :
    symRootAux { c with nextId := n } fuel a = symRootAux c fuel a := by
  induction fuel generalizing a with
  | zero => rfl
  | succ k ih =>
    show (match (c.symD a).base with | some b => symRootAux { c with nextId := n } k b | none => a) = _
    rw [symRootAux]
    cases (c.symD a).base with
    | none => rfl
    | some b => exact ih b

theorem symEq_frame (c : Ctx) (n a b : Nat) : symEq { c with nextId := n } a b = symEq c a b := by
  simp only [symEq, symRoot, symRootAux_frame]

theorem isSelfHead_frame {c c' : Ctx} (h : Fr c c') (fname : Nat) :
    isSelfHead c' fname = isSelfHead c fname := by
  obtain ⟨n, rfl⟩ := h
  funext v; cases v <;> first | rfl | exact symEq_frame _ _ _ _

theorem headName_frame {c c' : Ctx} (h : Fr c c') : headName c' = headName c := by
  obtain ⟨n, rfl⟩ := h
  funext v; cases v <;> rfl

/-- the monadic computation `m`, run in `c`, changes only the id counter and its outcome is `s`
    up to cell identities -/
structure Sim (m : M Val) (c : Ctx) (s : Res Val) : Prop where
  frame : Fr c (m c).2
  res : mapR eraseIds (m c).1 = s

theorem Sim.congr {m : M Val} {c : Ctx} {s s' : Res Val} (h : Sim m c s) (e : s = s') : Sim m c s' :=
  e ▸ h

theorem Sim.of_eq {m m' : M Val} {c : Ctx} {s : Res Val} (e : m c = m' c) (h : Sim m' c s) : Sim m c s :=
  ⟨by rw [e]; exact h.frame, by rw [e]; exact h.res⟩

theorem Sim.bind {m : M Val} {f : Val → M Val} {c : Ctx} {s : Res Val} {g : Val → Res Val}
    (hm : Sim m c s) (hf : ∀ w c', Fr c c' → Sim (f w) c' (g (eraseIds w))) :
    Sim (m >>= f) c (bindR s g) := by
  obtain ⟨hfr, hres⟩ := hm
  have e : (m >>= f) c = M.bind m f c := rfl
  rcases h : m c with ⟨r, c1⟩
  rw [h] at hfr hres
  cases r with
  | ok a =>
    have e2 : (m >>= f) c = f a c1 := by rw [e]; simp only [M.bind, h]
    have := hf a c1 hfr
    subst hres
    exact ⟨by rw [e2]; exact hfr.trans this.frame, by rw [e2]; exact this.res⟩
  | err k =>
    have e2 : (m >>= f) c = (.err k, c1) := by rw [e]; simp only [M.bind, h]
    subst hres
    exact ⟨by rw [e2]; exact hfr, by rw [e2]; rfl⟩
  | panic p =>
    have e2 : (m >>= f) c = (.panic p, c1) := by rw [e]; simp only [M.bind, h]
    subst hres
    exact ⟨by rw [e2]; exact hfr, by rw [e2]; rfl⟩
  | fuel =>
    have e2 : (m >>= f) c = (.fuel, c1) := by rw [e]; simp only [M.bind, h]
    subst hres
    exact ⟨by rw [e2]; exact hfr, by rw [e2]; rfl⟩

theorem Sim.pure (w : Val) (c : Ctx) : Sim (pure w) c (.ok (eraseIds w)) :=
  ⟨Fr.refl c, rfl⟩

theorem Sim.throw (k : ErrKind) (c : Ctx) : Sim (M.throw k) c (.err k) := ⟨Fr.refl c, rfl⟩
theorem Sim.outOfFuel (c : Ctx) : Sim M.outOfFuel c .fuel := ⟨Fr.refl c, rfl⟩

theorem mkCons_run (a d : Val) (c : Ctx) :
    mkCons a d c = (.ok (.cons c.nextId a d), { c with nextId := c.nextId + 1 }) := rfl

theorem Sim.mkCons (a d : Val) (c : Ctx) :
    Sim (mkCons a d) c (.ok (.cons 0 (eraseIds a) (eraseIds d))) :=
  ⟨⟨_, rfl⟩, rfl⟩

/-- list with all cell ids 0 and a given tail -/
def ofListTl : List Val → Val → Val
  | [], tl => tl
  | x :: xs, tl => .cons 0 x (ofListTl xs tl)

theorem ofListTl_nil (xs : List Val) : ofListTl xs .nil = Val.ofList xs := by
  induction xs with
  | nil => rfl
  | cons x xs ih => simp [ofListTl, Val.ofList, ih]

theorem eraseIds_mkList (n : Nat) (xs : List Val) (tl : Val) :
    eraseIds (Val.mkList n xs tl).1 = ofListTl (xs.map eraseIds) (eraseIds tl) := by
  induction xs generalizing n with
  | nil => rfl
  | cons x xs ih => simp [Val.mkList, eraseIds, ofListTl, ih]

theorem eraseIds_ofSpine (v : Val) : ofListTl (v.spine.1.map eraseIds) (eraseIds v.spine.2) = eraseIds v := by
  induction v with
  | cons i a d _ ihd => simp [spine_cons, ofListTl, eraseIds, ihd]
  | _ => rfl

theorem Sim.mkListM (xs : List Val) (c : Ctx) :
    Sim (mkListM xs) c (.ok (Val.ofList (xs.map eraseIds))) := by
  refine ⟨⟨_, by rw [mkListM_run]⟩, ?_⟩
  rw [mkListM_run]
  simp [mapR, eraseIds_mkList, eraseIds, ofListTl_nil]

theorem deepCopy_run (v : Val) (c : Ctx) :
    ∃ w n, deepCopy v c = (.ok w, { c with nextId := n }) ∧ eraseIds w = eraseIds v := by
  cases v with
  | cons i a d =>
    refine ⟨_, _, (mkListM_run (Val.cons i a d).spine.1 (Val.cons i a d).spine.2 c :
      deepCopy (Val.cons i a d) c = _), ?_⟩
    rw [eraseIds_mkList, eraseIds_ofSpine]
  | _ => exact ⟨_, c.nextId, rfl, rfl⟩

theorem Sim.deepCopy (v : Val) (c : Ctx) : Sim (deepCopy v) c (.ok (eraseIds v)) := by
  obtain ⟨w, n, h, e⟩ := deepCopy_run v c
  exact ⟨⟨n, by rw [h]⟩, by rw [h]; simp [mapR, e]⟩

/-- `mkListM` followed by a continuation that may inspect the cells it allocated -/
theorem Sim.bind_mkListM {xs : List Val} {f : Val → M Val} {c : Ctx} {s : Res Val}
    (hf : ∀ n c', Fr c c' → Sim (f (Val.mkList n xs .nil).1) c' s) :
    Sim (Tulisp.mkListM xs >>= f) c s := by
  have e : (Tulisp.mkListM xs >>= f) c = f (Val.mkList c.nextId xs .nil).1 { c with nextId := c.nextId + xs.length } := by
    show M.bind (Tulisp.mkListM xs) f c = _
    simp only [M.bind, mkListM_run]
  have h := hf c.nextId { c with nextId := c.nextId + xs.length } ⟨_, rfl⟩
  exact ⟨by rw [e]; exact Fr.trans ⟨_, rfl⟩ h.frame, by rw [e]; exact h.res⟩

theorem eraseIds_carOrNil (v : Val) : eraseIds (carOrNil v) = carOrNil (eraseIds v) := by
  cases v <;> rfl

/-! ### the simulation theorem -/

def MarkOK (fname fuel : Nat) : Prop :=
  ∀ body c0 c, Fr c0 c →
    Sim (markTailCalls fname fuel body) c (markS (isSelfHead c0 fname) (headName c0) fuel body)

def ClausesOK (fname fuel : Nat) : Prop :=
  ∀ cls c0 c, Fr c0 c →
    Sim (markClauses fname fuel cls) c (markClausesS (isSelfHead c0 fname) (headName c0) fuel cls)

/-- the id of the cell of the singleton list built around the then-form is irrelevant -/
theorem markS_singleton (self : Val → Bool) (hname : Val → String) (fuel n : Nat) (x : Val)
    (G : Val → Res Val) :
    bindR (markS self hname fuel (.cons n x .nil)) (fun tm => G (carOrNil tm))
      = bindR (markS self hname fuel (.cons 0 x .nil)) (fun tm => G (carOrNil tm)) := by
  cases fuel with
  | zero => rfl
  | succ f => cases x <;> rfl

theorem carMatch_eq (tm : Val) :
    (match tm with | .cons _ x _ => x | _ => Val.nil) = carOrNil tm := by
  cases tm <;> rfl

/-- the part of the `if` case after the destructuring of `(cond then . else)` -/
theorem if_body_sim {fname fuel : Nat} (ihB : MarkOK fname fuel) (c0 c : Ctx) (hfr : Fr c0 c)
    (th cond thenF elseB : Val) :
    Sim (do
        let tl ← mkListM [thenF]
        let tm ← markTailCalls fname fuel tl
        let thenF' := match tm with | .cons _ x _ => x | _ => Val.nil
        let e' ← markTailCalls fname fuel elseB
        let l3 ← mkCons thenF' e'
        let l2 ← mkCons cond l3
        mkCons th l2) c
      (bindR (markS (isSelfHead c0 fname) (headName c0) fuel (.cons 0 thenF .nil)) fun tm =>
        bindR (markS (isSelfHead c0 fname) (headName c0) fuel elseB) fun e' =>
        .ok (.cons 0 (eraseIds th) (.cons 0 (eraseIds cond) (.cons 0 (carOrNil tm) e')))) := by
  simp only [carMatch_eq]
  refine Sim.bind_mkListM (fun n c1 hf1 => ?_)
  refine Sim.congr ?_ (markS_singleton _ _ fuel n thenF (fun x =>
    bindR (markS (isSelfHead c0 fname) (headName c0) fuel elseB) fun e' =>
      .ok (.cons 0 (eraseIds th) (.cons 0 (eraseIds cond) (.cons 0 x e')))))
  refine Sim.bind (ihB (.cons n thenF .nil) c0 c1 (hfr.trans hf1)) (fun tm c2 hf2 => ?_)
  rw [← eraseIds_carOrNil]
  refine Sim.bind (ihB elseB c0 c2 ((hfr.trans hf1).trans hf2)) (fun e' c3 hf3 => ?_)
  exact Sim.bind (g := fun l3 => .ok (.cons 0 (eraseIds th) (.cons 0 (eraseIds cond) l3)))
    (Sim.mkCons _ _ _) (fun l3 c4 _ =>
      Sim.bind (g := fun b => .ok (.cons 0 (eraseIds th) b)) (Sim.mkCons _ _ _)
        (fun b c5 _ => Sim.mkCons _ _ _))

theorem form_sim {fname fuel : Nat} (ihB : MarkOK fname fuel) (ihC : ClausesOK fname fuel)
    (c0 c : Ctx) (hfr : Fr c0 c) (tail th targs : Val) :
    Sim (newTailM fname fuel c tail th targs) c
      (formS (isSelfHead c0 fname) (headName c0) (markS (isSelfHead c0 fname) (headName c0) fuel)
        (markClausesS (isSelfHead c0 fname) (headName c0) fuel) tail th targs) := by
  unfold newTailM formS
  rw [isSelfHead_frame hfr, headName_frame hfr]
  by_cases h1 : isSelfHead c0 fname th = true
  · simp only [h1, if_true]
    have key : ∀ (m : M Val) (x : Val), Sim m c (.ok x) →
        Sim (m >>= fun argsCopy => mkListM [.builtin .evalEach, .bounce] >>= fun l =>
              match l with
              | .cons i1 x (.cons i2 y _) => pure (.cons i1 x (.cons i2 y argsCopy))
              | _ => pure l) c
          (.ok (.cons 0 (.builtin .evalEach) (.cons 0 .bounce x))) := fun m x hm =>
      Sim.bind (g := fun a => .ok (.cons 0 (.builtin .evalEach) (.cons 0 .bounce a))) hm
        (fun w c' _ => Sim.bind_mkListM (fun n c'' _ => Sim.pure _ _))
    cases targs with
    | cons i a d => exact key _ _ (Sim.deepCopy _ c)
    | nil => exact key _ _ (Sim.pure _ c)
    | _ => exact key _ _ ((Sim.mkListM _ c).congr rfl)
  · simp only [h1, if_false, Bool.false_eq_true]
    by_cases h2 : headName c0 th = "progn"
    · simp only [h2, if_true]
      exact Sim.bind (ihB targs c0 c hfr) (fun w c' _ => Sim.mkCons _ _ _)
    · simp only [h2, if_false]
      by_cases h3 : (decide (headName c0 th = "let") || decide (headName c0 th = "let*")) = true
      · simp only [h3, if_true]
        cases targs with
        | cons j varlist lbody =>
          exact Sim.bind (ihB lbody c0 c hfr) (fun w c' _ =>
            Sim.bind (g := fun b' => .ok (.cons 0 (eraseIds th) b')) (Sim.mkCons _ _ _)
              (fun w' c'' _ => Sim.mkCons _ _ _))
        | nil => exact Sim.mkListM _ _
        | _ => exact Sim.throw _ _
      · simp only [h3, if_false, Bool.false_eq_true]
        by_cases h4 : headName c0 th = "if"
        · simp only [h4, if_true]
          cases targs with
          | cons j cond rest =>
            cases rest with
            | cons k tf e => exact if_body_sim ihB c0 c hfr th cond tf e
            | nil => exact if_body_sim ihB c0 c hfr th cond .nil .nil
            | _ => exact Sim.throw _ _
          | nil => exact Sim.mkListM _ _
          | _ => exact Sim.throw _ _
        · simp only [h4, if_false]
          by_cases h5 : headName c0 th = "cond"
          · simp only [h5, if_true]
            exact Sim.bind (ihC targs c0 c hfr) (fun w c' _ => Sim.mkCons _ _ _)
          · simp only [h5, if_false]
            exact Sim.pure _ _

theorem markClausesS_cons_cons (self : Val → Bool) (hname : Val → String) (fuel i j : Nat)
    (cond body rest : Val) :
    markClausesS self hname (fuel + 1) (.cons i (.cons j cond body) rest) =
      bindR (markS self hname fuel body) fun b =>
      bindR (markClausesS self hname fuel rest) fun rest' =>
      .ok (.cons 0 (.cons 0 (eraseIds cond) b) rest') := rfl

theorem markClausesS_cons_nil (self : Val → Bool) (hname : Val → String) (fuel i : Nat)
    (rest : Val) :
    markClausesS self hname (fuel + 1) (.cons i .nil rest) =
      bindR (markClausesS self hname fuel rest) fun rest' =>
      .ok (.cons 0 (Val.ofList [Val.nil]) rest') := rfl

theorem mark_sim (fname : Nat) : ∀ fuel, MarkOK fname fuel ∧ ClausesOK fname fuel := by
  intro fuel
  induction fuel with
  | zero =>
    constructor
    · intro body c0 c _
      rw [markTailCalls_zero, markS]
      exact Sim.outOfFuel c
    · intro cls c0 c _
      rw [markClauses_zero, markClausesS]
      exact Sim.outOfFuel c
  | succ fuel ih =>
    obtain ⟨ihB, ihC⟩ := ih
    constructor
    · intro body c0 c hfr
      by_cases hb : body.isCons = true
      · obtain ⟨i, a, d, rfl⟩ : ∃ i a d, body = .cons i a d := by
          cases body <;> simp [Val.isCons] at hb
          exact ⟨_, _, _, rfl⟩
        rw [markTailCalls_succ_cons, markS]
        cases hs : splitLast (Val.cons i a d).elems with
        | none => exact ⟨Fr.refl _, rfl⟩
        | some p =>
          obtain ⟨ini, tail⟩ := p
          cases tail with
          | cons j th targs =>
            refine Sim.of_eq (m' := newTailM fname fuel c (.cons j th targs) th targs >>=
              fun nt => mkListM (ini ++ [nt])) rfl ?_
            refine Sim.bind (form_sim ihB ihC c0 c hfr _ th targs) (fun nt c' _ => ?_)
            refine (Sim.mkListM _ _).congr ?_
            simp
          | _ => exact ⟨Fr.refl _, rfl⟩
      · have hb' : body.isCons = false := by simpa using hb
        rw [markTailCalls_succ_atom _ _ _ hb']
        have : markS (isSelfHead c0 fname) (headName c0) (fuel + 1) body = .ok (eraseIds body) := by
          cases body <;> first | rfl | simp [Val.isCons] at hb'
        rw [this]
        exact Sim.pure _ _
    · intro cls c0 c hfr
      by_cases hb : cls.isCons = true
      · obtain ⟨i, clause, rest, rfl⟩ : ∃ i a d, cls = .cons i a d := by
          cases cls <;> simp [Val.isCons] at hb
          exact ⟨_, _, _, rfl⟩
        rw [markClauses_succ_cons]
        cases clause with
        | cons j cond body =>
          rw [markClausesS_cons_cons]
          refine Sim.bind (ihB body c0 c hfr) (fun b c1 hf1 => ?_)
          refine Sim.bind (g := fun cl' => bindR (markClausesS (isSelfHead c0 fname) (headName c0) fuel rest)
            fun rest' => .ok (.cons 0 cl' rest')) (Sim.mkCons _ _ _) (fun cl' c2 hf2 => ?_)
          exact Sim.bind (ihC rest c0 c2 ((hfr.trans hf1).trans hf2)) (fun r' c3 _ => Sim.mkCons _ _ _)
        | nil =>
          rw [markClausesS_cons_nil]
          refine Sim.bind (g := fun cl' => bindR (markClausesS (isSelfHead c0 fname) (headName c0) fuel rest)
            fun rest' => .ok (.cons 0 cl' rest')) (Sim.mkListM _ _) (fun cl' c2 hf2 => ?_)
          exact Sim.bind (ihC rest c0 c2 (hfr.trans hf2)) (fun r' c3 _ => Sim.mkCons _ _ _)
        | _ => exact ⟨Fr.refl _, rfl⟩
      · have hb' : cls.isCons = false := by simpa using hb
        rw [markClauses_succ_atom _ _ _ hb']
        have : markClausesS (isSelfHead c0 fname) (headName c0) (fuel + 1) cls = .ok .nil := by
          cases cls <;> first | rfl | simp [Val.isCons] at hb'
        rw [this]
        exact Sim.pure _ _
/-! ### consequences for `markTailCalls` -/

/-- `markTailCalls` changes only the id counter, and its outcome is `markS` up to cell ids. -/
theorem markTailCalls_sim (fname fuel : Nat) (body : Val) (c : Ctx) :
    Sim (markTailCalls fname fuel body) c (markS (isSelfHead c fname) (headName c) fuel body) :=
  (mark_sim fname fuel).1 body c c (Fr.refl c)

theorem markClauses_sim (fname fuel : Nat) (cls : Val) (c : Ctx) :
    Sim (markClauses fname fuel cls) c (markClausesS (isSelfHead c fname) (headName c) fuel cls) :=
  (mark_sim fname fuel).2 cls c c (Fr.refl c)

theorem markTailCalls_ok {fname fuel : Nat} {body w : Val} {c c' : Ctx}
    (h : markTailCalls fname fuel body c = (.ok w, c')) :
    markS (isSelfHead c fname) (headName c) fuel body = .ok (eraseIds w) ∧ Fr c c' := by
  have hs := markTailCalls_sim fname fuel body c
  obtain ⟨hfr, hres⟩ := hs
  rw [h] at hfr hres
  exact ⟨hres.symm, hfr⟩

/-! ### pure facts about the specification -/

theorem bindR_eq_ok {α β} {s : Res α} {g : α → Res β} {v : β} (h : bindR s g = .ok v) :
    ∃ a, s = .ok a ∧ g a = .ok v := by
  cases s with
  | ok a => exact ⟨a, rfl, h⟩
  | _ => simp [bindR] at h

theorem splitLast_eq_some {xs ini : List Val} {l : Val} (h : splitLast xs = some (ini, l)) :
    xs = ini ++ [l] := by
  induction xs generalizing ini with
  | nil => simp [splitLast] at h
  | cons x xs ih =>
    cases xs with
    | nil =>
      simp [splitLast] at h
      obtain ⟨rfl, rfl⟩ := h; rfl
    | cons y ys =>
      rw [splitLast] at h
      · cases hs : splitLast (y :: ys) with
        | none => simp [hs] at h
        | some p =>
          obtain ⟨ini', l'⟩ := p
          simp [hs] at h
          obtain ⟨rfl, rfl⟩ := h
          simp [ih hs]
      · simp

theorem splitLast_append (ini : List Val) (l : Val) : splitLast (ini ++ [l]) = some (ini, l) := by
  induction ini with
  | nil => rfl
  | cons x xs ih =>
    cases h : xs ++ [l] with
    | nil => simp at h
    | cons y ys =>
      show splitLast (x :: (xs ++ [l])) = _
      rw [h, splitLast]
      · rw [← h, ih]
      · simp

theorem splitLast_eq_none {xs : List Val} (h : splitLast xs = none) : xs = [] := by
  cases xs with
  | nil => rfl
  | cons x xs =>
    have : x :: xs ≠ [] := by simp
    obtain ⟨ini, l, e⟩ : ∃ ini l, x :: xs = ini ++ [l] :=
      ⟨(x :: xs).dropLast, (x :: xs).getLast this, (List.dropLast_concat_getLast this).symm⟩
    rw [e, splitLast_append] at h
    cases h

theorem elems_eraseIds (v : Val) : (eraseIds v).elems = v.elems.map eraseIds := by
  induction v with
  | cons i a d _ ihd => simp [eraseIds, Val.elems, ihd]
  | _ => rfl

theorem eraseIds_ofList (xs : List Val) : eraseIds (Val.ofList xs) = Val.ofList (xs.map eraseIds) := by
  induction xs with
  | nil => rfl
  | cons x xs ih => simp [Val.ofList, eraseIds, ih]

theorem eraseIds_idem (v : Val) : eraseIds (eraseIds v) = eraseIds v := by
  induction v <;> simp_all [eraseIds]

/-- One level of the specification, for a body that is a list of forms. -/
theorem markS_cons_ok {self : Val → Bool} {hname : Val → String} {fuel i : Nat} {a d v : Val}
    (h : markS self hname (fuel + 1) (.cons i a d) = .ok v) :
    ∃ ini tail, (Val.cons i a d).elems = ini ++ [tail] ∧
      ((tail.isCons = false ∧ v = eraseIds (.cons i a d)) ∨
       (∃ j th targs nt, tail = .cons j th targs ∧
          formS self hname (markS self hname fuel) (markClausesS self hname fuel) tail th targs = .ok nt ∧
          v = Val.ofList (ini.map eraseIds ++ [nt]))) := by
  rw [markS] at h
  cases hs : splitLast (Val.cons i a d).elems with
  | none => have := splitLast_eq_none hs; simp [Val.elems] at this
  | some p =>
    obtain ⟨ini, tail⟩ := p
    rw [hs] at h
    refine ⟨ini, tail, splitLast_eq_some hs, ?_⟩
    cases tail with
    | cons j th targs =>
      right
      obtain ⟨nt, h1, h2⟩ := bindR_eq_ok h
      exact ⟨j, th, targs, nt, rfl, h1, by cases h2; rfl⟩
    | _ => left; cases h; exact ⟨rfl, rfl⟩

/-! #### the cases of `formS` -/
section formS
variable {self : Val → Bool} {hname : Val → String} {recB recC : Val → Res Val}

theorem formS_self {th : Val} (h : self th = true) (tail targs : Val) :
    formS self hname recB recC tail th targs
      = .ok (.cons 0 (.builtin .evalEach) (.cons 0 .bounce (selfArgs targs))) := by
  simp [formS, h]

theorem formS_progn {th : Val} (h1 : self th = false) (h2 : hname th = "progn") (tail targs : Val) :
    formS self hname recB recC tail th targs
      = bindR (recB targs) fun b => .ok (.cons 0 (eraseIds th) b) := by
  simp [formS, h1, h2]

theorem formS_let {th : Val} (h1 : self th = false) (h2 : hname th = "let" ∨ hname th = "let*")
    (tail : Val) (k : Nat) (varlist lbody : Val) :
    formS self hname recB recC tail th (.cons k varlist lbody)
      = bindR (recB lbody) fun b => .ok (.cons 0 (eraseIds th) (.cons 0 (eraseIds varlist) b)) := by
  rcases h2 with h2 | h2 <;> simp [formS, h1, h2]

theorem formS_let_empty {th : Val} (h1 : self th = false) (h2 : hname th = "let" ∨ hname th = "let*")
    (tail : Val) :
    formS self hname recB recC tail th .nil = .ok (Val.ofList [eraseIds th, .nil]) := by
  rcases h2 with h2 | h2 <;> simp [formS, h1, h2]

/-- `(let . atom)`: `car` of an atom -/
theorem formS_let_dotted {th : Val} (h1 : self th = false) (h2 : hname th = "let" ∨ hname th = "let*")
    (tail : Val) {targs : Val} (h3 : consOrNil targs = false) :
    formS self hname recB recC tail th targs = .err .typeMismatch := by
  rcases h2 with h2 | h2 <;> cases targs <;> simp [formS, h1, h2, consOrNil] at h3 ⊢

theorem formS_if {th : Val} (h1 : self th = false) (h2 : hname th = "if")
    (tail : Val) (k : Nat) (cond : Val) {rest : Val} (hr : consOrNil rest = true) :
    formS self hname recB recC tail th (.cons k cond rest)
      = bindR (recB (.cons 0 (thenOf rest) .nil)) fun tm =>
        bindR (recB (elseOf rest)) fun e' =>
        .ok (.cons 0 (eraseIds th) (.cons 0 (eraseIds cond) (.cons 0 (carOrNil tm) e'))) := by
  simp [formS, h1, h2, hr]

/-- `(if c . atom)`: `car` of an atom -/
theorem formS_if_rest_dotted {th : Val} (h1 : self th = false) (h2 : hname th = "if")
    (tail : Val) (k : Nat) (cond : Val) {rest : Val} (hr : consOrNil rest = false) :
    formS self hname recB recC tail th (.cons k cond rest) = .err .typeMismatch := by
  simp [formS, h1, h2, hr]

theorem formS_if_empty {th : Val} (h1 : self th = false) (h2 : hname th = "if") (tail : Val) :
    formS self hname recB recC tail th .nil = .ok (Val.ofList [eraseIds th, .nil, .nil]) := by
  simp [formS, h1, h2]

/-- `(if . atom)` -/
theorem formS_if_dotted {th : Val} (h1 : self th = false) (h2 : hname th = "if")
    (tail : Val) {targs : Val} (h3 : consOrNil targs = false) :
    formS self hname recB recC tail th targs = .err .typeMismatch := by
  cases targs <;> simp [formS, h1, h2, consOrNil] at h3 ⊢

theorem formS_cond {th : Val} (h1 : self th = false) (h2 : hname th = "cond") (tail targs : Val) :
    formS self hname recB recC tail th targs
      = bindR (recC targs) fun cl => .ok (.cons 0 (eraseIds th) cl) := by
  simp [formS, h1, h2]

/-- head names that make `markTailCalls` descend into a form -/
def specialName (s : String) : Bool :=
  s = "progn" || s = "let" || s = "let*" || s = "if" || s = "cond"

theorem formS_other {th : Val} (h1 : self th = false) (h2 : specialName (hname th) = false)
    (tail targs : Val) :
    formS self hname recB recC tail th targs = .ok (eraseIds tail) := by
  simp [specialName] at h2
  simp [formS, h1, h2]

end formS

/-! #### body level -/
section body
variable {self : Val → Bool} {hname : Val → String}

theorem markS_zero (body : Val) : markS self hname 0 body = .fuel := by rw [markS]

theorem markS_atom {body : Val} (hb : body.isCons = false) (fuel : Nat) :
    markS self hname (fuel + 1) body = .ok (eraseIds body) := by
  cases body <;> first | rfl | simp [Val.isCons] at hb

theorem concat_inj {α} {xs ys : List α} {x y : α} (h : xs ++ [x] = ys ++ [y]) : xs = ys ∧ x = y := by
  have := List.append_inj' h rfl
  exact ⟨this.1, by simpa using this.2⟩

/-- A body whose last form is the list `(th . targs)`: the other forms are copied, the last one
    is rewritten by `formS`, and the result is a proper list. -/
theorem markS_body {fuel : Nat} {body v : Val} {ini : List Val} {j : Nat} {th targs : Val}
    (h : markS self hname (fuel + 1) body = .ok v) (he : body.elems = ini ++ [.cons j th targs]) :
    ∃ nt, formS self hname (markS self hname fuel) (markClausesS self hname fuel)
            (.cons j th targs) th targs = .ok nt ∧
          v = Val.ofList (ini.map eraseIds ++ [nt]) := by
  cases body with
  | cons i a d =>
    obtain ⟨ini', tail', he', hc⟩ := markS_cons_ok h
    rw [he] at he'
    obtain ⟨rfl, rfl⟩ := concat_inj he'
    rcases hc with ⟨hc, _⟩ | ⟨j', th', targs', nt, e, hf, hv⟩
    · simp [Val.isCons] at hc
    · cases e
      exact ⟨nt, hf, hv⟩
  | _ => simp [Val.elems] at he

/-- one level of the specification on a body whose last form is the list `(th . targs)`,
    whatever the outcome -/
theorem markS_body_eq {fuel : Nat} {body : Val} {ini : List Val} {j : Nat} {th targs : Val}
    (he : body.elems = ini ++ [.cons j th targs]) :
    markS self hname (fuel + 1) body
      = bindR (formS self hname (markS self hname fuel) (markClausesS self hname fuel)
          (.cons j th targs) th targs) fun nt => .ok (Val.ofList (ini.map eraseIds ++ [nt])) := by
  cases body with
  | cons i a d => rw [markS, he, splitLast_append]
  | _ => simp [Val.elems] at he

/-- A body whose last form is not a list is returned as it is. -/
theorem markS_body_atom {fuel : Nat} {body v tail : Val} {ini : List Val}
    (h : markS self hname (fuel + 1) body = .ok v) (he : body.elems = ini ++ [tail])
    (ht : tail.isCons = false) : v = eraseIds body := by
  cases body with
  | cons i a d =>
    obtain ⟨ini', tail', he', hc⟩ := markS_cons_ok h
    rw [he] at he'
    obtain ⟨rfl, rfl⟩ := concat_inj he'
    rcases hc with ⟨_, hv⟩ | ⟨j', th', targs', nt, e, hf, hv⟩
    · exact hv
    · subst e; simp [Val.isCons] at ht
  | _ => simp [Val.elems] at he

theorem markS_ok_fuel_pos {fuel : Nat} {body v : Val} (h : markS self hname fuel body = .ok v) :
    ∃ f, fuel = f + 1 := by
  cases fuel with
  | zero => rw [markS_zero] at h; cases h
  | succ f => exact ⟨f, rfl⟩

/-- 4a: the number of forms is unchanged and every form but the last is copied. -/
theorem markS_forms {fuel : Nat} {body v : Val} (h : markS self hname fuel body = .ok v) :
    v.elems.length = body.elems.length ∧ v.elems.dropLast = body.elems.dropLast.map eraseIds := by
  obtain ⟨f, rfl⟩ := markS_ok_fuel_pos h
  have key : ∀ v : Val, v = eraseIds body →
      v.elems.length = body.elems.length ∧ v.elems.dropLast = body.elems.dropLast.map eraseIds := by
    intro v e
    subst e
    rw [elems_eraseIds]
    exact ⟨by simp, by simp [List.map_dropLast]⟩
  by_cases hb : body.isCons = true
  · obtain ⟨i, a, d, rfl⟩ : ∃ i a d, body = .cons i a d := by
      cases body <;> simp [Val.isCons] at hb
      exact ⟨_, _, _, rfl⟩
    obtain ⟨ini, tail, he, hc⟩ := markS_cons_ok h
    rcases hc with ⟨_, hv⟩ | ⟨j, th, targs, nt, _, _, hv⟩
    · exact key _ hv
    · subst hv
      rw [he, elems_ofList]
      simp
  · have hb' : body.isCons = false := by simpa using hb
    rw [markS_atom hb'] at h
    cases h
    exact key _ rfl

end body

/-! #### fuel -/

/-- an outcome that is a value or the `TypeMismatch` error of a malformed `cond` clause or of a
    dotted `(let . atom)`, `(if . atom)`, `(if c . atom)` -/
def Good (s : Res Val) : Prop := (∃ v, s = .ok v) ∨ s = .err .typeMismatch

theorem Good.ok (v : Val) : Good (.ok v) := .inl ⟨v, rfl⟩

theorem Good.bind {s : Res Val} {g : Val → Res Val} (hs : Good s) (hg : ∀ a, Good (g a)) :
    Good (bindR s g) := by
  rcases hs with ⟨v, rfl⟩ | rfl
  · exact hg v
  · exact .inr rfl

theorem size_pos (v : Val) : 1 ≤ v.size := by
  cases v <;> simp [Val.size]

theorem size_lt_of_mem_elems {x v : Val} (h : x ∈ v.elems) : x.size < v.size := by
  induction v with
  | cons i a d _ ihd =>
    simp only [Val.elems, List.mem_cons] at h
    rcases h with rfl | h
    · simp only [Val.size]; omega
    · have := ihd h; simp only [Val.size]; omega
  | _ => simp [Val.elems] at h

theorem size_thenOf_le (rest : Val) : (thenOf rest).size ≤ rest.size := by
  cases rest <;> simp [thenOf, Val.size]
  omega

theorem size_elseOf_le (rest : Val) : (elseOf rest).size ≤ rest.size := by
  cases rest <;> simp [elseOf, Val.size]
  omega

theorem formS_good {self : Val → Bool} {hname : Val → String} {recB recC : Val → Res Val}
    {fuel : Nat} (hB : ∀ b : Val, b.size ≤ fuel → Good (recB b))
    (hC : ∀ b : Val, b.size ≤ fuel → Good (recC b)) (j : Nat) (th targs : Val)
    (hsz : (Val.cons j th targs).size ≤ fuel) :
    Good (formS self hname recB recC (.cons j th targs) th targs) := by
  have h1 := size_pos th
  simp only [Val.size] at hsz
  unfold formS
  split
  · exact .ok _
  split
  · exact (hB _ (by omega)).bind (fun _ => .ok _)
  split
  · split
    · rename_i k varlist lbody
      simp only [Val.size] at hsz
      exact (hB _ (by omega)).bind (fun _ => .ok _)
    · exact .ok _
    · exact .inr rfl
  split
  · split
    · rename_i k cond rest
      simp only [Val.size] at hsz
      have h2 := size_thenOf_le rest
      have h3 := size_elseOf_le rest
      have h4 := size_pos cond
      split
      · refine (hB _ ?_).bind (fun _ => (hB _ (by omega)).bind (fun _ => .ok _))
        simp only [Val.size]; omega
      · exact .inr rfl
    · exact .ok _
    · exact .inr rfl
  split
  · exact (hC _ (by omega)).bind (fun _ => .ok _)
  · exact .ok _

theorem markS_good (self : Val → Bool) (hname : Val → String) : ∀ fuel,
    (∀ body : Val, body.size ≤ fuel → Good (markS self hname fuel body)) ∧
    (∀ cls : Val, cls.size ≤ fuel → Good (markClausesS self hname fuel cls)) := by
  intro fuel
  induction fuel with
  | zero =>
    exact ⟨fun b h => by have := size_pos b; omega, fun b h => by have := size_pos b; omega⟩
  | succ fuel ih =>
    obtain ⟨ihB, ihC⟩ := ih
    constructor
    · intro body hsz
      by_cases hb : body.isCons = true
      · obtain ⟨i, a, d, rfl⟩ : ∃ i a d, body = .cons i a d := by
          cases body <;> simp [Val.isCons] at hb
          exact ⟨_, _, _, rfl⟩
        rw [markS]
        cases hs : splitLast (Val.cons i a d).elems with
        | none => exact .ok _
        | some p =>
          obtain ⟨ini, tail⟩ := p
          have hmem : tail ∈ (Val.cons i a d).elems := by rw [splitLast_eq_some hs]; simp
          have hlt := size_lt_of_mem_elems hmem
          cases tail with
          | cons j th targs =>
            exact (formS_good ihB ihC j th targs (by omega)).bind (fun _ => .ok _)
          | _ => exact .ok _
      · rw [markS_atom (by simpa using hb)]
        exact .ok _
    · intro cls hsz
      cases cls with
      | cons i clause rest =>
        simp only [Val.size] at hsz
        cases clause with
        | cons j cond body =>
          simp only [Val.size] at hsz
          rw [markClausesS_cons_cons]
          exact (ihB _ (by omega)).bind (fun _ => (ihC _ (by omega)).bind (fun _ => .ok _))
        | nil =>
          rw [markClausesS_cons_nil]
          exact (ihC _ (by omega)).bind (fun _ => .ok _)
        | _ => exact .inr rfl
      | _ => exact .ok _

/-- 4e for the specification: with `fuel ≥ body.size` the marking does not run out of fuel. -/
theorem markS_fuel (self : Val → Bool) (hname : Val → String) {fuel : Nat} {body : Val}
    (h : body.size ≤ fuel) : Good (markS self hname fuel body) :=
  (markS_good self hname fuel).1 body h

theorem good_of_mapR {r : Res Val} (h : Good (mapR eraseIds r)) :
    (∃ w, r = .ok w) ∨ r = .err .typeMismatch := by
  cases r with
  | ok w => exact .inl ⟨w, rfl⟩
  | err k => rcases h with ⟨v, h⟩ | h <;> simp [mapR] at h; subst h; exact .inr rfl
  | panic s => rcases h with ⟨v, h⟩ | h <;> simp [mapR] at h
  | fuel => rcases h with ⟨v, h⟩ | h <;> simp [mapR] at h

theorem err_of_mapR {r : Res Val} {k : ErrKind} (h : mapR eraseIds r = .err k) : r = .err k := by
  cases r <;> simp [mapR] at h ⊢
  exact h

/-! ### 4d: tail positions as an inductive relation -/

mutual
/-- `FormR self hname form out`: `out` is `form`, a form in TAIL POSITION, with every self-call in
    tail position replaced by its bounce form and everything else copied (ids erased).
    Tail positions: the form itself; the last form of a `progn` / `let` / `let*` body; the
    then-form and the last else-form of an `if`; the last form of every `cond` clause body.
    A dotted self-call `(f . atom)` becomes `(<evalEach> <bounce> atom)` (`selfArgs`); the dotted
    forms `(let . atom)`, `(if . atom)`, `(if c . atom)` have NO output (the marking fails). -/
inductive FormR (self : Val → Bool) (hname : Val → String) : Val → Val → Prop
  | atom {x : Val} : x.isCons = false → FormR self hname x (eraseIds x)
  | selfCall {j : Nat} {th targs : Val} : self th = true →
      FormR self hname (.cons j th targs)
        (.cons 0 (.builtin .evalEach) (.cons 0 .bounce (selfArgs targs)))
  | progn {j : Nat} {th targs b : Val} : self th = false → hname th = "progn" →
      BodyR self hname targs b →
      FormR self hname (.cons j th targs) (.cons 0 (eraseIds th) b)
  | let_ {j k : Nat} {th varlist lbody b : Val} : self th = false →
      (hname th = "let" ∨ hname th = "let*") → BodyR self hname lbody b →
      FormR self hname (.cons j th (.cons k varlist lbody))
        (.cons 0 (eraseIds th) (.cons 0 (eraseIds varlist) b))
  | letEmpty {j : Nat} {th : Val} : self th = false →
      (hname th = "let" ∨ hname th = "let*") →
      FormR self hname (.cons j th .nil) (Val.ofList [eraseIds th, .nil])
  | if_ {j k : Nat} {th cond rest t' e' : Val} : self th = false → hname th = "if" →
      consOrNil rest = true →
      FormR self hname (thenOf rest) t' → BodyR self hname (elseOf rest) e' →
      FormR self hname (.cons j th (.cons k cond rest))
        (.cons 0 (eraseIds th) (.cons 0 (eraseIds cond) (.cons 0 t' e')))
  | ifEmpty {j : Nat} {th : Val} : self th = false → hname th = "if" →
      FormR self hname (.cons j th .nil) (Val.ofList [eraseIds th, .nil, .nil])
  | cond_ {j : Nat} {th targs cl : Val} : self th = false → hname th = "cond" →
      ClausesR self hname targs cl →
      FormR self hname (.cons j th targs) (.cons 0 (eraseIds th) cl)
  | other {j : Nat} {th targs : Val} : self th = false → specialName (hname th) = false →
      FormR self hname (.cons j th targs) (eraseIds (.cons j th targs))

/-- `BodyR self hname body out`: a list of forms; only the LAST form is in tail position. -/
inductive BodyR (self : Val → Bool) (hname : Val → String) : Val → Val → Prop
  | atom {body : Val} : body.isCons = false → BodyR self hname body (eraseIds body)
  | lastAtom {body tail : Val} {ini : List Val} : body.elems = ini ++ [tail] →
      tail.isCons = false → BodyR self hname body (eraseIds body)
  | last {body tail nt : Val} {ini : List Val} : body.elems = ini ++ [tail] →
      tail.isCons = true → FormR self hname tail nt →
      BodyR self hname body (Val.ofList (ini.map eraseIds ++ [nt]))

/-- the clauses `(condition . body)` of a `cond` in tail position -/
inductive ClausesR (self : Val → Bool) (hname : Val → String) : Val → Val → Prop
  | done {cls : Val} : cls.isCons = false → ClausesR self hname cls .nil
  | clause {i j : Nat} {cond body rest b rest' : Val} : BodyR self hname body b →
      ClausesR self hname rest rest' →
      ClausesR self hname (.cons i (.cons j cond body) rest)
        (.cons 0 (.cons 0 (eraseIds cond) b) rest')
  | nilClause {i : Nat} {rest rest' : Val} : ClausesR self hname rest rest' →
      ClausesR self hname (.cons i .nil rest) (.cons 0 (Val.ofList [Val.nil]) rest')
end

section rel
variable {self : Val → Bool} {hname : Val → String}

theorem specialName_false_iff (s : String) :
    specialName s = false ↔ (s ≠ "progn" ∧ s ≠ "let" ∧ s ≠ "let*" ∧ s ≠ "if" ∧ s ≠ "cond") := by
  simp [specialName, and_assoc]

/-- the then-form of an `if`, seen as the body `(then-form)` that the implementation builds -/
theorem FormR_of_singleton {x tm : Val} (h : BodyR self hname (.cons 0 x .nil) tm) :
    FormR self hname x (carOrNil tm) := by
  cases h with
  | atom h => simp [Val.isCons] at h
  | @lastAtom _ tail ini he ht =>
    have : ([] : List Val) ++ [x] = ini ++ [tail] := he
    obtain ⟨rfl, rfl⟩ := concat_inj this
    exact .atom ht
  | @last _ tail nt ini he ht hf =>
    have : ([] : List Val) ++ [x] = ini ++ [tail] := he
    obtain ⟨rfl, rfl⟩ := concat_inj this
    exact hf

theorem singleton_of_FormR {x t' : Val} (h : FormR self hname x t') :
    ∃ tm, BodyR self hname (.cons 0 x .nil) tm ∧ carOrNil tm = t' := by
  by_cases hx : x.isCons = true
  · exact ⟨_, .last (ini := []) (tail := x) rfl hx h, rfl⟩
  · have hx' : x.isCons = false := by simpa using hx
    refine ⟨_, .lastAtom (ini := []) (tail := x) rfl hx', ?_⟩
    cases h with
    | atom _ => rfl
    | _ => simp [Val.isCons] at hx'

/-- soundness of one level -/
theorem formS_sound {recB recC : Val → Res Val}
    (hB : ∀ b v, recB b = .ok v → BodyR self hname b v)
    (hC : ∀ b v, recC b = .ok v → ClausesR self hname b v)
    {j : Nat} {th targs nt : Val}
    (h : formS self hname recB recC (.cons j th targs) th targs = .ok nt) :
    FormR self hname (.cons j th targs) nt := by
  by_cases h1 : self th = true
  · rw [formS_self h1] at h; cases h; exact .selfCall h1
  have h1' : self th = false := by simpa using h1
  by_cases h2 : hname th = "progn"
  · rw [formS_progn h1' h2] at h
    obtain ⟨b, hb, e⟩ := bindR_eq_ok h
    cases e; exact .progn h1' h2 (hB _ _ hb)
  by_cases h3 : hname th = "let" ∨ hname th = "let*"
  · by_cases ht : targs.isCons = true
    · obtain ⟨k, varlist, lbody, rfl⟩ : ∃ i a d, targs = .cons i a d := by
        cases targs <;> simp [Val.isCons] at ht
        exact ⟨_, _, _, rfl⟩
      rw [formS_let h1' h3] at h
      obtain ⟨b, hb, e⟩ := bindR_eq_ok h
      cases e; exact .let_ h1' h3 (hB _ _ hb)
    · by_cases hn : targs = .nil
      · subst hn
        rw [formS_let_empty h1' h3] at h
        cases h; exact .letEmpty h1' h3
      · have hd : consOrNil targs = false := by
          cases targs <;> simp [consOrNil, Val.isCons] at ht hn ⊢
        rw [formS_let_dotted h1' h3 _ hd] at h
        cases h
  by_cases h4 : hname th = "if"
  · by_cases ht : targs.isCons = true
    · obtain ⟨k, cond, rest, rfl⟩ : ∃ i a d, targs = .cons i a d := by
        cases targs <;> simp [Val.isCons] at ht
        exact ⟨_, _, _, rfl⟩
      by_cases hr : consOrNil rest = true
      · rw [formS_if h1' h4 _ _ _ hr] at h
        obtain ⟨tm, htm, h⟩ := bindR_eq_ok h
        obtain ⟨e', he', e⟩ := bindR_eq_ok h
        cases e
        exact .if_ h1' h4 hr (FormR_of_singleton (hB _ _ htm)) (hB _ _ he')
      · rw [formS_if_rest_dotted h1' h4 _ _ _ (by simpa using hr)] at h
        cases h
    · by_cases hn : targs = .nil
      · subst hn
        rw [formS_if_empty h1' h4] at h
        cases h; exact .ifEmpty h1' h4
      · have hd : consOrNil targs = false := by
          cases targs <;> simp [consOrNil, Val.isCons] at ht hn ⊢
        rw [formS_if_dotted h1' h4 _ hd] at h
        cases h
  by_cases h5 : hname th = "cond"
  · rw [formS_cond h1' h5] at h
    obtain ⟨cl, hcl, e⟩ := bindR_eq_ok h
    cases e; exact .cond_ h1' h5 (hC _ _ hcl)
  · have hsp : specialName (hname th) = false := by
      rw [specialName_false_iff]
      exact ⟨h2, fun e => h3 (.inl e), fun e => h3 (.inr e), h4, h5⟩
    rw [formS_other h1' hsp] at h
    cases h; exact .other h1' hsp

theorem markS_sound : ∀ fuel,
    (∀ body v, markS self hname fuel body = .ok v → BodyR self hname body v) ∧
    (∀ cls v, markClausesS self hname fuel cls = .ok v → ClausesR self hname cls v) := by
  intro fuel
  induction fuel with
  | zero =>
    constructor
    · intro b v h; rw [markS_zero] at h; cases h
    · intro b v h; rw [markClausesS] at h; cases h
  | succ fuel ih =>
    obtain ⟨ihB, ihC⟩ := ih
    constructor
    · intro body v h
      by_cases hb : body.isCons = true
      · obtain ⟨i, a, d, rfl⟩ : ∃ i a d, body = .cons i a d := by
          cases body <;> simp [Val.isCons] at hb
          exact ⟨_, _, _, rfl⟩
        obtain ⟨ini, tail, he, hc⟩ := markS_cons_ok h
        rcases hc with ⟨ht, rfl⟩ | ⟨j, th, targs, nt, rfl, hf, rfl⟩
        · exact .lastAtom he ht
        · exact .last he rfl (formS_sound ihB ihC hf)
      · have hb' : body.isCons = false := by simpa using hb
        rw [markS_atom hb'] at h
        cases h; exact .atom hb'
    · intro cls v h
      cases cls with
      | cons i clause rest =>
        cases clause with
        | cons j cond body =>
          rw [markClausesS_cons_cons] at h
          obtain ⟨b, hb, h⟩ := bindR_eq_ok h
          obtain ⟨r', hr', e⟩ := bindR_eq_ok h
          cases e
          exact .clause (ihB _ _ hb) (ihC _ _ hr')
        | nil =>
          rw [markClausesS_cons_nil] at h
          obtain ⟨r', hr', e⟩ := bindR_eq_ok h
          cases e
          exact .nilClause (ihC _ _ hr')
        | _ => cases h
      | _ => cases h; exact .done rfl

/-- completeness of one level -/
theorem formS_complete {recB recC : Val → Res Val} {fuel : Nat}
    (hB : ∀ b v, BodyR self hname b v → b.size ≤ fuel → recB b = .ok v)
    (hC : ∀ b v, ClausesR self hname b v → b.size ≤ fuel → recC b = .ok v)
    {j : Nat} {th targs nt : Val} (h : FormR self hname (.cons j th targs) nt)
    (hsz : (Val.cons j th targs).size ≤ fuel) :
    formS self hname recB recC (.cons j th targs) th targs = .ok nt := by
  have hth := size_pos th
  simp only [Val.size] at hsz
  cases h with
  | atom h => simp [Val.isCons] at h
  | selfCall h1 => exact formS_self h1 _ _
  | progn h1 h2 hb =>
    rw [formS_progn h1 h2, hB _ _ hb (by omega)]; rfl
  | let_ h1 h2 hb =>
    simp only [Val.size] at hsz
    rw [formS_let h1 h2, hB _ _ hb (by omega)]; rfl
  | letEmpty h1 h2 => exact formS_let_empty h1 h2 _
  | @if_ _ k _ cond rest t' e' h1 h2 hr ht he =>
    simp only [Val.size] at hsz
    have s1 := size_thenOf_le rest
    have s2 := size_elseOf_le rest
    have s3 := size_pos cond
    obtain ⟨tm, hb, rfl⟩ := singleton_of_FormR ht
    rw [formS_if h1 h2 _ _ _ hr, hB _ _ hb (by simp only [Val.size]; omega), hB _ _ he (by omega)]; rfl
  | ifEmpty h1 h2 => exact formS_if_empty h1 h2 _
  | cond_ h1 h2 hc =>
    rw [formS_cond h1 h2, hC _ _ hc (by omega)]; rfl
  | other h1 h2 => exact formS_other h1 h2 _ _

theorem markS_complete : ∀ fuel,
    (∀ body v, BodyR self hname body v → body.size ≤ fuel → markS self hname fuel body = .ok v) ∧
    (∀ cls v, ClausesR self hname cls v → cls.size ≤ fuel →
      markClausesS self hname fuel cls = .ok v) := by
  intro fuel
  induction fuel with
  | zero =>
    exact ⟨fun b _ _ h => by have := size_pos b; omega, fun b _ _ h => by have := size_pos b; omega⟩
  | succ fuel ih =>
    obtain ⟨ihB, ihC⟩ := ih
    constructor
    · intro body v h hsz
      cases h with
      | atom hb => exact markS_atom hb _
      | @lastAtom _ tail ini he ht =>
        cases body with
        | cons i a d =>
          rw [markS, he, splitLast_append]
          cases tail <;> first | rfl | simp [Val.isCons] at ht
        | _ => simp [Val.elems] at he
      | @last _ tail nt ini he ht hf =>
        cases body with
        | cons i a d =>
          obtain ⟨j, th, targs, rfl⟩ : ∃ i a d, tail = .cons i a d := by
            cases tail <;> simp [Val.isCons] at ht
            exact ⟨_, _, _, rfl⟩
          have hmem : (Val.cons j th targs) ∈ (Val.cons i a d).elems := by rw [he]; simp
          have hlt := size_lt_of_mem_elems hmem
          rw [markS, he, splitLast_append]
          show bindR (formS self hname (markS self hname fuel) (markClausesS self hname fuel)
            (.cons j th targs) th targs) _ = _
          rw [formS_complete ihB ihC hf (by omega)]; rfl
        | _ => simp [Val.elems] at he
    · intro cls v h hsz
      cases h with
      | done hc =>
        cases cls <;> first | rfl | simp [Val.isCons] at hc
      | clause hb hr =>
        simp only [Val.size] at hsz
        rw [markClausesS_cons_cons, ihB _ _ hb (by omega), ihC _ _ hr (by omega)]; rfl
      | nilClause hr =>
        simp only [Val.size] at hsz
        rw [markClausesS_cons_nil, ihC _ _ hr (by omega)]; rfl

/-- 4d: with enough fuel the specification computes exactly the relation "every self-call in
    tail position is replaced, everything else is copied". -/
theorem markS_iff_BodyR_aux {fuel : Nat} {body : Val} (hsz : body.size ≤ fuel) (v : Val) :
    markS self hname fuel body = .ok v ↔ BodyR self hname body v :=
  ⟨(markS_sound fuel).1 body v, fun h => (markS_complete fuel).1 body v h hsz⟩

end rel

/-! ### the marked version of `(defun f () (f))` runs at constant depth -/

/-- one pass through the marked body, at any depth ≥ 2: a bounce request, one cell allocated -/
theorem marked_loop_pass (d i j k : Nat) (c : Ctx) :
    evalFunction (Rec.ofDepth (d + 2)) false noParams (loopBodyMarked i j k) .nil c
      = (.ok (.cons c.nextId .bounce .nil), { c with nextId := c.nextId + 1 }) := by
  unfold evalFunction
  rw [show collectArgs (Rec.ofDepth (d + 2)) false noParams.req noParams.opt noParams.rest .nil
      = pure [] from collectArgs_none_atom _ _ rfl, pure_bind]
  show M.finally' (evalStep (Rec.ofDepth (d + 1)) (tailForm j k .nil))
    (fun c => ([] : List Nat).foldl popSymCtx c) c = _
  have h := evalStep_tailForm_ok (Rec.ofDepth (d + 1)) (selfEval_ofDepth d) j k .nil c c [] rfl
  simp only [M.finally', h, List.foldl_nil]
  rfl

/-- `marking` of the body of `(defun f () (f))` -/
theorem mark_loopBody (f i j fuel : Nat) (c : Ctx) :
    markTailCalls f (fuel + 1) (loopBody i j f) c
      = (.ok (loopBodyMarked (c.nextId + 2) c.nextId (c.nextId + 1)), { c with nextId := c.nextId + 3 }) := by
  unfold loopBody
  rw [markTailCalls_succ_cons]
  show (newTailM f fuel c (.cons j (.sym f) .nil) (.sym f) .nil >>= fun nt => mkListM ([] ++ [nt])) c = _
  have : newTailM f fuel c (.cons j (.sym f) .nil) (.sym f) .nil c
      = (.ok (tailForm c.nextId (c.nextId + 1) .nil), { c with nextId := c.nextId + 2 }) := by
    unfold newTailM
    have hs : isSelfHead c f (.sym f) = true := by simp [isSelfHead, symEq]
    simp only [hs, if_true]
    rfl
  show M.bind _ _ c = _
  rw [C13.M.bind_ok this]
  rfl

/-- The marked function loops at CONSTANT depth: with iteration budget `k` it performs exactly
    `k` iterations (one cell each) and then reports the exhausted ITERATION budget; depth 2
    suffices for every `k`.  Compare `plain_recursion_exhausts_depth_aux`. -/
theorem marked_loop_constant_depth_aux (d i j k' : Nat) : ∀ (k n : Nat) (c : Ctx),
    bounceLoop (Rec.ofDepth (d + 2)) noParams (loopBodyMarked i j k') k (.cons n .bounce .nil) c
      = (.fuel, { c with nextId := c.nextId + k }) := by
  intro k
  induction k with
  | zero => intro n c; rfl
  | succ k ih =>
    intro n c
    rw [bounceLoop_bounce_eq]
    show M.bind _ _ c = _
    rw [C13.M.bind_ok (marked_loop_pass d i j k' c), ih]
    simp only [Nat.add_assoc, Nat.add_comm 1 k]

/-- …and `n` bounces are indeed performed at that depth, for every `n` -/
theorem marked_loop_bounces (d i j k' : Nat) : ∀ (n : Nat) (c : Ctx),
    Bounces (Rec.ofDepth (d + 2)) noParams (loopBodyMarked i j k') n .nil c .nil
      { c with nextId := c.nextId + n } := by
  intro n
  induction n with
  | zero => intro c; exact .zero _ _
  | succ n ih =>
    intro c
    have := ih { c with nextId := c.nextId + 1 }
    simp only [Nat.add_assoc, Nat.add_comm 1 n] at this
    exact .step (marked_loop_pass d i j k' c) this

end Tulisp.C04
