/-
  Proofs/C09Shortest.lean — C09, float part, the shortest round-trip printer (`f64ShortestAbs`,
  `shortestFrom`): (1) `ratToF64Abs` is exact on integral floats (the integer value of a float reads
  back as its own bits), (2) the structure of `shortestFrom`: what it prints is the text of a
  candidate that reads back as the float (`shortestFrom_roundtrip`), no shorter candidate did, and
  (3) for an integral float the printed text is a plain digit string.
-/
import Tulisp.Model.Num
namespace Tulisp.C09
open Tulisp

/-! ## `ratToF64Abs` is exact on integral floats -/

theorem pow2_eq (k : Nat) : pow2 k = 2 ^ k := by
  simp [pow2, Nat.shiftLeft_eq]

theorem divRoundEven_exact (q d : Nat) (hd : 0 < d) : divRoundEven (q * d) d = q := by
  unfold divRoundEven
  simp [Nat.mul_mod_left, hd, Nat.mul_div_cancel _ hd]

/-- `ratToF64Abs` is exact on a value `V` that is `m * 2^k` with a 53-bit normalised `m` -/
theorem ratToF64Abs_exact (V m : Nat) (k : Int) (hV : V ≠ 0) (h1 : 2 ^ 52 ≤ m) (h2 : m < 2 ^ 53)
    (hk : -1074 ≤ k) (hk2 : k + 1075 < 2047) (hlog : (V.log2 : Int) - 52 = k)
    (d : Nat) (hd : 0 < d) (hsf : scaleFrac V 1 k = (m * d, d)) :
    ratToF64Abs V 1 = (((k + 1075).toNat <<< 52) + (m - 2 ^ 52)).toUInt64 := by
  have hl1 : Nat.log2 1 = 0 := by decide
  unfold ratToF64Abs
  rw [if_neg hV]
  have hk0 : (V.log2 : Int) - ((Nat.log2 1 : Nat) : Int) - 52 = k := by rw [hl1]; omega
  simp only [hk0, hsf]
  have hq0 : m * d / d = m := Nat.mul_div_cancel _ hd
  simp only [hq0, pow2_eq]
  rw [if_neg (Nat.not_lt.2 h1), if_neg (Nat.not_le.2 h2)]
  rw [if_neg (show ¬ (k < -1074) by omega)]
  simp only [hsf, divRoundEven_exact _ _ hd]
  rw [if_neg (Nat.not_le.2 h2)]
  simp only []
  rw [if_neg (Nat.not_lt.2 h1), if_neg (show ¬ (k + 52 + 1023 ≥ 2047) by omega)]
  rw [show k + 52 + 1023 = k + 1075 by omega]

theorem ratToF64Abs_exact_pos (m e : Nat) (h1 : 2 ^ 52 ≤ m) (h2 : m < 2 ^ 53) (he : e + 1075 < 2047) :
    ratToF64Abs (m * 2 ^ e) 1 = (((e + 1075) <<< 52) + (m - 2 ^ 52)).toUInt64 := by
  have hV : m * 2 ^ e ≠ 0 := by
    have : 0 < m * 2 ^ e := Nat.mul_pos (by omega) (Nat.pow_pos (by decide))
    omega
  have hlog : (m * 2 ^ e).log2 = 52 + e := by
    rw [Nat.log2_eq_iff hV]
    constructor
    · rw [Nat.pow_add]; exact Nat.mul_le_mul_right _ h1
    · rw [show 52 + e + 1 = 53 + e by omega, Nat.pow_add]; exact Nat.mul_lt_mul_of_pos_right h2 (Nat.pow_pos (by decide))
  have := ratToF64Abs_exact (m * 2 ^ e) m (e : Int) hV h1 h2 (by omega) (by omega) (by rw [hlog]; omega)
    (2 ^ e) (Nat.pow_pos (by decide)) (by simp [scaleFrac, pow2_eq])
  rw [this]
  congr 3

theorem ratToF64Abs_exact_neg (m j : Nat) (h1 : 2 ^ 52 ≤ m) (h2 : m < 2 ^ 53) (hj : j ≤ 52)
    (hdiv : m % 2 ^ j = 0) :
    ratToF64Abs (m / 2 ^ j) 1 = (((1075 - j) <<< 52) + (m - 2 ^ 52)).toUInt64 := by
  have hp : 0 < 2 ^ j := Nat.pow_pos (by decide)
  have hm : m / 2 ^ j * 2 ^ j = m := Nat.div_mul_cancel (Nat.dvd_of_mod_eq_zero hdiv)
  have hle : 2 ^ j ≤ 2 ^ 52 := Nat.pow_le_pow_right (by decide) hj
  have hV : m / 2 ^ j ≠ 0 := by
    have : 0 < m / 2 ^ j := Nat.div_pos (by omega) hp
    omega
  have hlog : (m / 2 ^ j).log2 = 52 - j := by
    rw [Nat.log2_eq_iff hV]
    constructor
    · rw [Nat.le_div_iff_mul_le hp, ← Nat.pow_add, show 52 - j + j = 52 by omega]; exact h1
    · rw [Nat.div_lt_iff_lt_mul hp, ← Nat.pow_add, show 52 - j + 1 + j = 53 by omega]; exact h2
  by_cases hj0 : j = 0
  · subst hj0
    have := ratToF64Abs_exact (m / 2 ^ 0) m 0 hV h1 h2 (by omega) (by omega) (by rw [hlog]; omega)
      1 (by decide) (by simp [scaleFrac, pow2_eq])
    rw [this]; rfl
  · have := ratToF64Abs_exact (m / 2 ^ j) m (-(j : Int)) hV h1 h2 (by omega) (by omega) (by rw [hlog]; omega)
      1 (by decide) (by
        simp [scaleFrac, pow2_eq, hm, hj0])
    rw [this]
    congr 3
    omega

/-! ## the bit fields of a float -/

theorem expField_toNat (b : UInt64) : ((b >>> 52) &&& 0x7FF).toNat = b.toNat / 2 ^ 52 % 2 ^ 11 := by
  rw [UInt64.toNat_and, UInt64.toNat_shiftRight]
  have : (2047 : UInt64).toNat = 2 ^ 11 - 1 := by decide
  rw [this, Nat.and_two_pow_sub_one_eq_mod, Nat.shiftRight_eq_div_pow]
  rfl

theorem fracField_toNat (b : UInt64) : (b &&& 0xFFFFFFFFFFFFF).toNat = b.toNat % 2 ^ 52 := by
  rw [UInt64.toNat_and]
  have : (0xFFFFFFFFFFFFF : UInt64).toNat = 2 ^ 52 - 1 := by decide
  rw [this, Nat.and_two_pow_sub_one_eq_mod]

theorem absBits_toNat (b : UInt64) : (b &&& ~~~signBit).toNat = b.toNat % 2 ^ 63 := by
  rw [UInt64.toNat_and]
  have : (~~~signBit : UInt64).toNat = 2 ^ 63 - 1 := by decide
  rw [this, Nat.and_two_pow_sub_one_eq_mod]

theorem absBits_eq (b : UInt64) :
    b &&& ~~~signBit =
      ((((b >>> 52) &&& 0x7FF).toNat <<< 52) + (b &&& 0xFFFFFFFFFFFFF).toNat).toUInt64 := by
  apply UInt64.toNat_inj.1
  rw [absBits_toNat, expField_toNat, fracField_toNat, Nat.shiftLeft_eq]
  simp only [Nat.toUInt64, UInt64.toNat_ofNat']
  have := b.toNat_lt
  omega

/-- what `f64Decode` returns, in terms of the two fields -/
theorem decode_cases {b : UInt64} {neg : Bool} {m : Nat} {e : Int} (hd : f64Decode b = some (neg, m, e)) :
    let E := ((b >>> 52) &&& 0x7FF).toNat
    let F := (b &&& 0xFFFFFFFFFFFFF).toNat
    E < 2047 ∧ F < 2 ^ 52 ∧ ((E = 0 ∧ m = F ∧ e = -1074) ∨ (E ≠ 0 ∧ m = F + 2 ^ 52 ∧ e = (E : Int) - 1075)) := by
  intro E F
  have hE : E < 2048 := by show ((b >>> 52) &&& 0x7FF).toNat < 2048; rw [expField_toNat]; omega
  have hF : F < 2 ^ 52 := by show (b &&& 0xFFFFFFFFFFFFF).toNat < 2 ^ 52; rw [fracField_toNat]; omega
  unfold f64Decode at hd
  simp only [] at hd
  split at hd
  · cases hd
  · rename_i h47
    refine ⟨by omega, hF, ?_⟩
    split at hd
    · rename_i h0
      left
      simp only [Option.some.injEq, Prod.mk.injEq] at hd
      exact ⟨h0, hd.2.1.symm, hd.2.2.symm⟩
    · rename_i h0
      right
      simp only [Option.some.injEq, Prod.mk.injEq, pow2_eq] at hd
      exact ⟨h0, hd.2.1.symm, hd.2.2.symm⟩

/-- **reading is exact on integral floats**: the integer value of a non-zero integral float is
    converted back to its own bit pattern (without sign) -/
theorem ratToF64Abs_integral {b : UInt64} {neg : Bool} {m : Nat} {e : Int}
    (hd : f64Decode b = some (neg, m, e)) (hm : m ≠ 0)
    (hc : e ≥ 0 ∨ m % pow2 (-e).toNat = 0) :
    ratToF64Abs (if e ≥ 0 then m * pow2 e.toNat else m / pow2 (-e).toNat) 1 = b &&& ~~~signBit := by
  obtain ⟨hE, hF, hcase⟩ := decode_cases hd
  rw [absBits_eq b]
  generalize ((b >>> 52) &&& 0x7FF).toNat = E at *
  generalize (b &&& 0xFFFFFFFFFFFFF).toNat = F at *
  rcases hcase with ⟨h0, rfl, rfl⟩ | ⟨h0, rfl, rfl⟩
  · -- subnormal: cannot be integral and non-zero
    exfalso
    rcases hc with hc | hc
    · omega
    · rw [pow2_eq] at hc
      have h1074 : (- (-1074 : Int)).toNat = 1074 := by decide
      rw [h1074] at hc
      have : (2:Nat) ^ 52 ≤ 2 ^ 1074 := Nat.pow_le_pow_right (by decide) (by decide)
      rw [Nat.mod_eq_of_lt (Nat.lt_of_lt_of_le hF this)] at hc
      exact hm hc
  · by_cases he : (E : Int) - 1075 ≥ 0
    · rw [if_pos he, pow2_eq]
      have : ((E : Int) - 1075).toNat = E - 1075 := by omega
      rw [this, ratToF64Abs_exact_pos _ _ (by omega) (by omega) (by omega)]
      rw [show E - 1075 + 1075 = E by omega, Nat.add_sub_cancel]
    · rw [if_neg he, pow2_eq]
      have hj : (-((E : Int) - 1075)).toNat = 1075 - E := by omega
      rw [hj]
      rcases hc with hc | hc
      · exact absurd hc he
      · rw [pow2_eq, hj] at hc
        have hle : 1075 - E ≤ 52 := by
          apply Decidable.byContradiction
          intro hgt
          have : (2:Nat) ^ 53 ≤ 2 ^ (1075 - E) := Nat.pow_le_pow_right (by decide) (by omega)
          rw [Nat.mod_eq_of_lt (by omega)] at hc
          omega
        rw [ratToF64Abs_exact_neg _ _ (by omega) (by omega) hle hc]
        rw [show 1075 - (1075 - E) = E by omega, Nat.add_sub_cancel]

/-! ## the structure of `shortestFrom` -/

/-- the value `num/den` scaled by `10^sh`, as a fraction -/
def scaled (num den : Nat) (sh : Int) : Nat × Nat :=
  if sh ≥ 0 then (num * 10 ^ sh.toNat, den) else (num, den * 10 ^ (-sh).toNat)

/-- the float (without sign) that the decimal `c * 10^(-sh)` reads as -/
def readCand (sh : Int) (c : Nat) : UInt64 :=
  if sh ≥ 0 then ratToF64Abs c (10 ^ sh.toNat) else ratToF64Abs (c * 10 ^ (-sh).toNat) 1

/-- the `back` test of `shortestFrom`: the candidate is positive and reads back as `bits` -/
def backOk (bits : UInt64) (sh : Int) (c : Nat) : Bool := decide (c > 0) && (readCand sh c == bits)

/-- the candidate `shortestFrom` takes at scale `sh`, if any -/
def pickAt (bits : UInt64) (num den : Nat) (sh : Int) : Option Nat :=
  let n := (scaled num den sh).1
  let d := (scaled num den sh).2
  let lo := n / d
  let hi := lo + 1
  if backOk bits sh lo && backOk bits sh hi then (if 2 * (n % d) < d then some lo else some hi)
  else if backOk bits sh lo then some lo else if backOk bits sh hi then some hi else none

/-- the text of the candidate `c` at scale `sh` -/
def renderCand (sh : Int) (c : Nat) : String :=
  if sh ≥ 0 then positional 400 c sh.toNat else natDigits (c * 10 ^ (-sh).toNat)

theorem shortestFrom_succ (bits : UInt64) (num den : Nat) (t : Int) (fuel p : Nat) :
    shortestFrom bits num den t (fuel + 1) p =
      match pickAt bits num den ((p : Int) - 1 - t) with
      | some c => some (renderCand ((p : Int) - 1 - t) c)
      | none => shortestFrom bits num den t fuel (p + 1) := by
  rw [shortestFrom]
  by_cases h : (p : Int) - 1 - t ≥ 0
  · simp only [pickAt, scaled, backOk, readCand, renderCand, if_pos h]
    rfl
  · simp only [pickAt, scaled, backOk, readCand, renderCand, if_neg h]
    rfl

/-- a picked candidate is one of the two neighbours of the exact value and reads back as `bits` -/
theorem pickAt_some {bits : UInt64} {num den : Nat} {sh : Int} {c : Nat}
    (h : pickAt bits num den sh = some c) :
    (c = (scaled num den sh).1 / (scaled num den sh).2 ∨ c = (scaled num den sh).1 / (scaled num den sh).2 + 1) ∧
      0 < c ∧ readCand sh c = bits := by
  unfold pickAt at h
  simp only [] at h
  have key : ∀ x, backOk bits sh x = true → 0 < x ∧ readCand sh x = bits := by
    intro x hx
    simpa [backOk] using hx
  split at h
  · rename_i hb
    rw [Bool.and_eq_true] at hb
    split at h
    · cases h; exact ⟨Or.inl rfl, key _ hb.1⟩
    · cases h; exact ⟨Or.inr rfl, key _ hb.2⟩
  · split at h
    · rename_i hb; cases h; exact ⟨Or.inl rfl, key _ hb⟩
    · split at h
      · rename_i hb; cases h; exact ⟨Or.inr rfl, key _ hb⟩
      · cases h

/-- if the lower neighbour reads back, some candidate is picked -/
theorem pickAt_ne_none {bits : UInt64} {num den : Nat} {sh : Int}
    (h : backOk bits sh ((scaled num den sh).1 / (scaled num den sh).2) = true) :
    pickAt bits num den sh ≠ none := by
  unfold pickAt
  simp only [h, Bool.true_and, if_true]
  split
  · split <;> simp
  · simp

/-- **Shortest printing round-trips.**  Whatever `shortestFrom` prints is the text of a candidate
    `c` with `q` digits' precision (`p ≤ q < p + fuel`) that is a neighbour of the exact value at
    that precision, is positive and READS BACK (under the correctly rounded `ratToF64Abs`) as
    `bits`; and at no smaller precision from `p` on did either neighbour read back. -/
theorem shortestFrom_roundtrip (bits : UInt64) (num den : Nat) (t : Int) (fuel p : Nat) (s : String)
    (h : shortestFrom bits num den t fuel p = some s) :
    ∃ (q c : Nat), p ≤ q ∧ q < p + fuel ∧
      pickAt bits num den ((q : Int) - 1 - t) = some c ∧
      s = renderCand ((q : Int) - 1 - t) c ∧ 0 < c ∧ readCand ((q : Int) - 1 - t) c = bits ∧
      ∀ q', p ≤ q' → q' < q → pickAt bits num den ((q' : Int) - 1 - t) = none := by
  induction fuel generalizing p with
  | zero => rw [shortestFrom] at h; cases h
  | succ fuel ih =>
    rw [shortestFrom_succ] at h
    cases hp : pickAt bits num den ((p : Int) - 1 - t) with
    | some c =>
      rw [hp] at h
      obtain ⟨_, hc0, hcr⟩ := pickAt_some hp
      exact ⟨p, c, Nat.le_refl _, by omega, hp, (Option.some.inj h).symm, hc0, hcr, fun q' h1 h2 => by omega⟩
    | none =>
      rw [hp] at h
      obtain ⟨q, c, h1, h2, h3, h4, h5, h6, h7⟩ := ih (p + 1) h
      refine ⟨q, c, by omega, by omega, h3, h4, h5, h6, ?_⟩
      intro q' hq1 hq2
      by_cases hq : q' = p
      · subst hq; exact hp
      · exact h7 q' (by omega) hq2

theorem positional_zero (f d : Nat) : positional (f + 1) d 0 = natDigits d := by
  simp [positional]

/-- if the exact value is an integer that reads back as `bits`, and its leading digit has a
    non-negative decimal exponent reached from `p`, what is printed is a plain digit string -/
theorem shortestFrom_integral (bits : UInt64) (num den : Nat) (t : Int) (fuel p : Nat) (s : String)
    (hp : (p : Int) - 1 - t ≤ 0)
    (hb : backOk bits 0 (num / den) = true)
    (h : shortestFrom bits num den t fuel p = some s) : ∃ n, s = natDigits n := by
  obtain ⟨q, c, h1, _, _, h4, _, _, h7⟩ := shortestFrom_roundtrip bits num den t fuel p s h
  by_cases hsh : (q : Int) - 1 - t ≤ 0
  · rw [h4]
    by_cases h0 : (q : Int) - 1 - t ≥ 0
    · have : (q : Int) - 1 - t = 0 := by omega
      rw [this]
      exact ⟨c, by simp [renderCand, positional_zero]⟩
    · exact ⟨_, by simp only [renderCand, if_neg h0]; rfl⟩
  · exfalso
    have hq' := h7 (t + 1).toNat (by omega) (by omega)
    have : (((t + 1).toNat : Nat) : Int) - 1 - t = 0 := by omega
    rw [this] at hq'
    refine pickAt_ne_none ?_ hq'
    simpa [scaled] using hb

/-! ## the decimal exponent of a value ≥ 1 -/
theorem natDigits_length_pos (n : Nat) : 0 < (natDigits n).length := by
  have h : (natDigits n).toList = Nat.toDigits 10 n := by simp [natDigits]
  rw [← String.length_toList, h]
  exact List.length_pos_iff.2 Nat.toDigits_ne_nil

theorem decExp_nonneg (num den : Nat) (h : den ≤ num) (hd : 0 < den) : 0 ≤ decExp num den := by
  unfold decExp
  rw [if_pos h]
  have : num / den ≠ 0 := by
    have := Nat.div_pos h hd
    omega
  unfold decLen
  rw [if_neg this]
  have := natDigits_length_pos (num / den)
  omega

end Tulisp.C09
