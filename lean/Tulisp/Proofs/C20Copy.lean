/-
  Proofs/C20Copy.lean — `deepCopy` and `append` on the heap model (helper lemmas for C20).
-/
import Tulisp.Proofs.C20
namespace Tulisp.C20
open Tulisp Tulisp.Api

/-! ## the three phases of `deepCopy` as named functions -/

def copyStep (acc : List Nat × Heap) (x : Nat) : List Nat × Heap :=
  match acc.2.get x with
  | .cons a d => let (n, h') := acc.2.alloc (.cons a d); (n :: acc.1, h')
  | _ => (x :: acc.1, acc.2)

def copyElems (xs : List Nat) (acc : List Nat × Heap) : List Nat × Heap := xs.foldl copyStep acc

def tailCopy (g : Heap) (tl : Nat) : Nat × Heap :=
  match g.get tl with
  | .sym _ => (tl, g)
  | o => g.alloc o

def spineStep (acc : Nat × Heap) (x : Nat) : Nat × Heap :=
  let (n, h') := acc.2.alloc (.cons x acc.1); (n, h')

def buildSpine (l : List Nat) (acc : Nat × Heap) : Nat × Heap := l.foldl spineStep acc

theorem deepCopy_cons_eq {h : Heap} {r a d : Nat} (hg : h.get r = .cons a d) :
    h.deepCopy r =
      buildSpine (copyElems (h.toList (h.cells.size + 1) r).1 ([], h)).1
        (tailCopy (copyElems (h.toList (h.cells.size + 1) r).1 ([], h)).2 (h.toList (h.cells.size + 1) r).2) := by
  unfold Heap.deepCopy
  rw [hg]
  rfl

/-! ## element-wise copies -/

inductive Pointwise (R : Nat → Nat → Prop) : List Nat → List Nat → Prop
  | nil : Pointwise R [] []
  | cons {x y : Nat} {xs ys : List Nat} : R x y → Pointwise R xs ys → Pointwise R (x :: xs) (y :: ys)

theorem Pointwise.length_eq {R : Nat → Nat → Prop} {xs ys : List Nat} (p : Pointwise R xs ys) :
    ys.length = xs.length := by
  induction p with
  | nil => rfl
  | cons _ _ ih => simp [ih]

theorem Pointwise.mono {R S : Nat → Nat → Prop} (hrs : ∀ x y, R x y → S x y) {xs ys : List Nat}
    (p : Pointwise R xs ys) : Pointwise S xs ys := by
  induction p with
  | nil => exact .nil
  | cons h _ ih => exact .cons (hrs _ _ h) ih

theorem Pointwise.get {R : Nat → Nat → Prop} {xs ys : List Nat} (p : Pointwise R xs ys) :
    ∀ (i : Nat) (hx : i < xs.length) (hy : i < ys.length), R xs[i] ys[i] := by
  induction p with
  | nil => intro i hx; simp at hx
  | cons h _ ih =>
    intro i hx hy
    cases i with
    | zero => exact h
    | succ j => exact ih j (by simpa using hx) (by simpa using hy)

theorem Pointwise.forall_right {R : Nat → Nat → Prop} {P : Nat → Prop} {xs ys : List Nat}
    (p : Pointwise R xs ys) (hr : ∀ x y, x ∈ xs → R x y → P y) : ∀ y ∈ ys, P y := by
  induction p with
  | nil => intro y hy; cases hy
  | @cons x y xs ys h _ ih =>
    intro z hz
    rcases List.mem_cons.mp hz with rfl | hz
    · exact hr x _ (by simp) h
    · exact ih (fun x y hx => hr x y (by simp [hx])) z hz

/-- `y` (in `h'`) is the copy `deepCopy` makes of the element `x` (in `h`): an atom is shared, a
    cons gets a NEW top cell with the same car and cdr -/
def ElemCopy (h h' : Heap) (x y : Nat) : Prop :=
  (NotCons (h.get x) ∧ y = x) ∨
  (∃ a d : Nat, h.get x = .cons a d ∧ h.cells.size ≤ y ∧ y < h'.cells.size ∧ h'.get y = .cons a d)

/-- the tail of a copy: a symbol is shared; any other atom (nil included) sits in a NEW cell -/
def TailCopy (h h' : Heap) (tl tl2 : Nat) : Prop :=
  ((∃ s, h.get tl = .sym s) ∧ tl2 = tl) ∨
  ((∀ s, h.get tl ≠ .sym s) ∧ h.cells.size ≤ tl2 ∧ tl2 < h'.cells.size ∧ h'.get tl2 = h.get tl)

theorem ElemCopy.ext {h h1 h2 : Heap} {x y : Nat} (e : ElemCopy h h1 x y) (he : Ext h1 h2) :
    ElemCopy h h2 x y := by
  rcases e with e | ⟨a, d, hg, h1', h2', h3'⟩
  · exact .inl e
  · exact .inr ⟨a, d, hg, h1', Nat.lt_of_lt_of_le h2' he.1, by rw [he.2 y h2']; exact h3'⟩

theorem TailCopy.ext {h h1 h2 : Heap} {x y : Nat} (e : TailCopy h h1 x y) (he : Ext h1 h2) :
    TailCopy h h2 x y := by
  rcases e with e | ⟨hg, h1', h2', h3'⟩
  · exact .inl e
  · exact .inr ⟨hg, h1', Nat.lt_of_lt_of_le h2' he.1, by rw [he.2 y h2']; exact h3'⟩

theorem ElemCopy.assign_old {h h1 : Heap} {x y l : Nat} {o : Obj} (e : ElemCopy h h1 x y)
    (hl : l < h.cells.size) : ElemCopy h (h1.assign l o) x y := by
  rcases e with e | ⟨a, d, hg, h1', h2', h3'⟩
  · exact .inl e
  · exact .inr ⟨a, d, hg, h1', by rw [assign_size]; exact h2',
      by rw [assign_get_other (by omega)]; exact h3'⟩

theorem TailCopy.assign_old {h h1 : Heap} {x y l : Nat} {o : Obj} (e : TailCopy h h1 x y)
    (hl : l < h.cells.size) : TailCopy h (h1.assign l o) x y := by
  rcases e with e | ⟨hg, h1', h2', h3'⟩
  · exact .inl e
  · exact .inr ⟨hg, h1', by rw [assign_size]; exact h2',
      by rw [assign_get_other (by omega)]; exact h3'⟩

/-! ## phase 1: the elements -/

theorem copyElems_spec {h : Heap} (hw : WF h) :
    ∀ (xs : List Nat) (g : Heap) (acc : List Nat), Ext h g → WF g → (∀ x ∈ xs, x < h.cells.size) →
      ∃ ys g', copyElems xs (acc, g) = (ys.reverse ++ acc, g') ∧ Pointwise (ElemCopy h g') xs ys ∧
        Ext g g' ∧ WF g' := by
  intro xs
  induction xs with
  | nil => intro g acc he hwg _; exact ⟨[], g, rfl, .nil, Ext.refl g, hwg⟩
  | cons x xs ih =>
    intro g acc he hwg hx
    have hxl : x < h.cells.size := hx x (by simp)
    have hgx : g.get x = h.get x := he.2 x hxl
    have hxs : ∀ y ∈ xs, y < h.cells.size := fun y hy => hx y (by simp [hy])
    cases hc : h.get x with
    | cons a d =>
      have hstep : copyStep (acc, g) x = (g.cells.size :: acc, (g.alloc (.cons a d)).2) := by
        simp only [copyStep, hgx, hc]; rfl
      have had := hw x a d hc
      have hw1 : WF (g.alloc (.cons a d)).2 :=
        wf_alloc hwg (fun a' d' e => by cases e; exact ⟨by have := he.1; omega, by have := he.1; omega⟩)
      obtain ⟨ys, g', h1, h2, h3, h4⟩ :=
        ih (g.alloc (.cons a d)).2 (g.cells.size :: acc) (he.trans (ext_alloc g _)) hw1 hxs
      refine ⟨g.cells.size :: ys, g', ?_, .cons ?_ h2, (ext_alloc g _).trans h3, h4⟩
      · show copyElems xs (copyStep (acc, g) x) = _
        rw [hstep, h1]; simp
      · refine .inr ⟨a, d, hc, he.1, Nat.lt_of_lt_of_le (by simp) h3.1, ?_⟩
        rw [h3.2 _ (by simp)]; exact alloc_get_new g _
    | nil | t | int _ | float _ | str _ | sym _ =>
      have hstep : copyStep (acc, g) x = (x :: acc, g) := by simp only [copyStep, hgx, hc]
      obtain ⟨ys, g', h1, h2, h3, h4⟩ := ih g (x :: acc) he hwg hxs
      refine ⟨x :: ys, g', ?_, .cons (.inl ⟨?_, rfl⟩) h2, h3, h4⟩
      · show copyElems xs (copyStep (acc, g) x) = _
        rw [hstep, h1]; simp
      · intro a d e; rw [hc] at e; cases e

/-! ## phase 2: the tail -/

theorem tailCopy_spec {h g : Heap} (he : Ext h g) (hwg : WF g) {tl : Nat} (htl : tl < h.cells.size)
    (hn : NotCons (h.get tl)) :
    ∃ tl2 g', tailCopy g tl = (tl2, g') ∧ TailCopy h g' tl tl2 ∧ Ext g g' ∧ WF g' ∧
      tl2 < g'.cells.size ∧ NotCons (g'.get tl2) := by
  have hgt : g.get tl = h.get tl := he.2 tl htl
  cases hc : h.get tl with
  | cons a d => exact absurd hc (hn a d)
  | sym s =>
    refine ⟨tl, g, (by simp only [tailCopy, hgt, hc]), .inl ⟨⟨s, hc⟩, rfl⟩, Ext.refl g, hwg,
      Nat.lt_of_lt_of_le htl he.1, ?_⟩
    rw [hgt, hc]; intro a d e; cases e
  | nil | t | int _ | float _ | str _ =>
    refine ⟨g.cells.size, (g.alloc (h.get tl)).2, (by simp only [tailCopy, hgt, hc]; rfl),
      .inr ⟨(by intro s e; rw [hc] at e; cases e), he.1, (by simp), alloc_get_new g _⟩, ext_alloc g _,
      wf_alloc hwg (fun a d e => absurd e (hn a d)), (by simp), ?_⟩
    rw [alloc_get_new]; exact hn

/-! ## phase 3: the spine -/

theorem buildSpine_spec :
    ∀ (l : List Nat) (t : Nat) (g : Heap) (cs0 ys0 : List Nat) (tl0 : Nat),
      Chain g t cs0 ys0 tl0 → tl0 < g.cells.size → t < g.cells.size → WF g →
      (∀ x ∈ l, x < g.cells.size) →
      ∃ cs res g', buildSpine l (t, g) = (res, g') ∧ Chain g' res (cs ++ cs0) (l.reverse ++ ys0) tl0 ∧
        (∀ c ∈ cs, g.cells.size ≤ c) ∧ Ext g g' ∧ WF g' ∧ res < g'.cells.size := by
  intro l
  induction l with
  | nil =>
    intro t g cs0 ys0 tl0 c htl ht hw _
    exact ⟨[], t, g, rfl, c, (by intro c hc; cases hc), Ext.refl g, hw, ht⟩
  | cons x l ih =>
    intro t g cs0 ys0 tl0 c htl ht hw hx
    have hstep : spineStep (t, g) x = (g.cells.size, (g.alloc (.cons x t)).2) := rfl
    have hext := ext_alloc g (.cons x t)
    have hw1 : WF (g.alloc (.cons x t)).2 :=
      wf_alloc hw (fun a d e => by cases e; exact ⟨hx _ (by simp), ht⟩)
    have c1 : Chain (g.alloc (.cons x t)).2 g.cells.size (g.cells.size :: cs0) (x :: ys0) tl0 :=
      .step (alloc_get_new g _) (c.ext hext htl)
    obtain ⟨cs, res, g', h1, h2, h3, h4, h5, h6⟩ :=
      ih g.cells.size (g.alloc (.cons x t)).2 _ _ tl0 c1 (by simp; omega) (by simp) hw1
        (fun y hy => by have := hx y (by simp [hy]); simp; omega)
    refine ⟨cs ++ [g.cells.size], res, g', ?_, ?_, ?_, hext.trans h4, h5, h6⟩
    · show buildSpine l (spineStep (t, g) x) = _
      rw [hstep, h1]
    · simpa using h2
    · intro c hc
      rcases List.mem_append.mp hc with hc | hc
      · have := h3 c hc; simp at this; omega
      · simp at hc; omega

/-! ## `deepCopy` -/

/-- `deepCopy` of any reference `v` with a finite cdr chain in a well-formed heap: a chain with a
    NEW spine, element-wise copies, a copied tail; old cells untouched. -/
theorem deepCopy_chain {h : Heap} (hw : WF h) {v : Nat} {csv ysv : List Nat} {tlv : Nat}
    (c : Chain h v csv ysv tlv) :
    ∃ (cp : Nat) (h1 : Heap) (cs2 ys2 : List Nat) (tl2 : Nat), h.deepCopy v = (cp, h1) ∧ Chain h1 cp cs2 ys2 tl2 ∧
      Pointwise (ElemCopy h h1) ysv ys2 ∧ (∀ c ∈ cs2, h.cells.size ≤ c) ∧ Ext h h1 ∧ WF h1 ∧
      TailCopy h h1 tlv tl2 ∧ cp < h1.cells.size ∧ (cs2 = [] → h.cells.size ≤ cp ∨ ∃ s, h.get v = .sym s) := by
  cases c with
  | done hn =>
    -- an atom
    cases hc : h.get v with
    | cons a d => exact absurd hc (hn a d)
    | sym s =>
      have hv : v < h.cells.size := lt_of_get_ne_nil (by rw [hc]; intro e; cases e)
      refine ⟨v, h, [], [], v, (by simp only [Heap.deepCopy, hc]), .done hn, .nil,
        (by intro c hc; cases hc), Ext.refl h, hw, .inl ⟨⟨s, hc⟩, rfl⟩, hv, fun _ => .inr ⟨s, rfl⟩⟩
    | nil | t | int _ | float _ | str _ =>
      refine ⟨h.cells.size, (h.alloc _).2, [], [], h.cells.size, (by simp only [Heap.deepCopy, hc]; rfl),
        .done ?_, .nil, (by intro c hc; cases hc), ext_alloc h _, wf_alloc hw (fun a d e => by cases e),
        .inr ⟨(by intro s e; rw [hc] at e; cases e), Nat.le_refl _, (by simp), ?_⟩, (by simp),
        fun _ => .inl (Nat.le_refl _)⟩
      · rw [alloc_get_new]; intro a d e; cases e
      · rw [alloc_get_new, hc]
  | @step _ a d cs xs _ hg c' =>
    have cfull : Chain h v (v :: cs) (a :: xs) tlv := .step hg c'
    have hvlt := lt_of_get_cons hg
    have htl : tlv < h.cells.size := cfull.tail_lt hw hvlt
    have hel := cfull.elems_lt hw
    rw [deepCopy_cons_eq hg, toList_spec cfull.listAt _ (Nat.lt_succ_of_le cfull.length_le)]
    obtain ⟨ys, g1, e1, p1, x1, w1⟩ := copyElems_spec hw (a :: xs) h [] (Ext.refl h) hw hel
    obtain ⟨tl2, g2, e2, t2, x2, w2, l2, n2⟩ := tailCopy_spec x1 w1 htl cfull.tail_notCons
    have hys : ∀ y ∈ ys.reverse, y < g2.cells.size := by
      intro y hy
      have hy' : y ∈ ys := by simpa using hy
      have := p1.forall_right (P := fun y => y < g1.cells.size) (by
        intro x y hx e
        rcases e with ⟨_, e⟩ | ⟨_, _, _, _, hlt, _⟩
        · rw [e]; exact Nat.lt_of_lt_of_le (hel x hx) x1.1
        · exact hlt) y hy'
      exact Nat.lt_of_lt_of_le this x2.1
    obtain ⟨cs3, res, g3, e3, c3, n3, x3, w3, l3⟩ :=
      buildSpine_spec ys.reverse tl2 g2 [] [] tl2 (.done n2) l2 l2 w2 hys
    simp only [e1, List.append_nil, e2, e3]
    have hge : ∀ c ∈ cs3, h.cells.size ≤ c := fun c hc =>
      Nat.le_trans (Nat.le_trans x1.1 x2.1) (n3 c hc)
    refine ⟨res, g3, cs3, ys, tl2, rfl, (by simpa using c3), p1.mono (fun x y e => (e.ext x2).ext x3),
      hge, (x1.trans x2).trans x3, w3, t2.ext x3, l3, ?_⟩
    intro hcs
    subst hcs
    have hlen := c3.length_eq
    have := p1.length_eq
    simp at hlen this
    omega

/-! ## `append` -/

/-- the last spine cell of a non-empty chain: `walk` finds it, its cdr is the tail -/
theorem Chain.lastOr_spec {g : Heap} {r : Nat} {cs xs : List Nat} {tl : Nat} (c : Chain g r cs xs tl)
    (hne : cs ≠ []) (prev : Option Nat) :
    ∃ l al, lastOr prev cs = some l ∧ l ∈ cs ∧ g.get l = .cons al tl := by
  induction c generalizing prev with
  | done => exact absurd rfl hne
  | @step r a d cs xs tl hg c' ih =>
    cases c' with
    | done hn => exact ⟨r, a, rfl, by simp, hg⟩
    | @step _ a' d' cs' xs' _ hg' c'' =>
      obtain ⟨l, al, h1, h2, h3⟩ := ih (by simp) (some r)
      exact ⟨l, al, h1, by simp [h2], h3⟩

/-- re-pointing the cdr of the last spine cell to another chain concatenates the two chains -/
theorem Chain.set_cdr_tail {g : Heap} {r : Nat} {cs xs : List Nat} {tl : Nat} (c : Chain g r cs xs tl)
    {l al : Nat} (hl : l ∈ cs) (hgl : g.get l = .cons al tl)
    {cp : Nat} {cs2 ys : List Nat} {tl2 : Nat} (c2 : Chain g cp cs2 ys tl2) (hdis : l ∉ cs2) :
    Chain (g.assign l (.cons al cp)) r (cs ++ cs2) (xs ++ ys) tl2 := by
  induction c with
  | done => cases hl
  | @step r a d cs xs tl hg c' ih =>
    by_cases hrl : r = l
    · subst hrl
      rw [hg] at hgl; cases hgl
      have hn := c'.tail_notCons
      cases c' with
      | step hg' _ => exact absurd hg' (hn _ _)
      | done _ =>
        have hne : r ≠ tl2 := by
          intro e; subst e; exact c2.tail_notCons _ _ hg
        exact .step (assign_get_same (lt_of_get_cons hg)) (c2.assign_frame hdis hne)
    · have hl' : l ∈ cs := by
        rcases List.mem_cons.mp hl with e | e
        · exact absurd e.symm hrl
        · exact e
      exact .step (by rw [assign_get_other hrl]; exact hg) (ih hl' hgl)

/-- what `append` computes on a non-empty proper list -/
theorem append_eq {h : Heap} {r : Nat} {cs xs : List Nat} {tl : Nat} (c : Chain h r cs xs tl)
    (hne : cs ≠ []) (hnil : h.get tl = .nil) (v : Nat) (hext : Ext h (h.deepCopy v).2) :
    ∃ l al, l ∈ cs ∧ h.get l = .cons al tl ∧
      h.append r v = .ok ((h.deepCopy v).2.assign l (.cons al (h.deepCopy v).1)) := by
  cases c with
  | done => exact absurd rfl hne
  | @step _ a d cs' xs' _ hg c' =>
    unfold Heap.append
    rw [hg]; simp only
    rw [walk_spec c' _ none (Nat.lt_succ_of_le c'.length_le)]
    simp only [Heap.isNil, hnil, beq_self_eq_true, if_true]
    cases c' with
    | done hn =>
      refine ⟨r, a, by simp, hg, ?_⟩
      simp only [lastOr]
      rw [hext.2 r (lt_of_get_cons hg), hg]
    | @step _ a' d' cs'' xs'' _ hg' c'' =>
      obtain ⟨l, al, h1, h2, h3⟩ := (Chain.step hg' c'').lastOr_spec (by simp) none
      refine ⟨l, al, by simp [h2], h3, ?_⟩
      rw [h1]; simp only
      rw [hext.2 l (lt_of_get_cons h3), h3]


/-- `append` on a non-empty proper list `r`, any `v` with a finite chain -/
theorem append_chain {h : Heap} (hw : WF h) {r : Nat} {cs xs : List Nat} {tl : Nat}
    (c : Chain h r cs xs tl) (hne : cs ≠ []) (hnil : h.get tl = .nil)
    {v : Nat} {csv ysv : List Nat} {tlv : Nat} (cv : Chain h v csv ysv tlv) (hv : v < h.cells.size) :
    ∃ h' l cs2 ys2 tl2, h.append r v = .ok h' ∧
      Chain h' r (cs ++ cs2) (xs ++ ys2) tl2 ∧
      Pointwise (ElemCopy h h') ysv ys2 ∧ TailCopy h h' tlv tl2 ∧
      (∀ c ∈ cs2, h.cells.size ≤ c) ∧
      l ∈ cs ∧ (∃ al, h.get l = .cons al tl) ∧
      (∀ i : Nat, i < h.cells.size → i ≠ l → h'.get i = h.get i) ∧
      (tlv ≠ tl → Chain h' v csv ysv tlv) ∧ WF h' ∧ h.cells.size ≤ h'.cells.size ∧
      (∀ (r2 : Nat) (cs' xs' : List Nat), Chain h r2 cs' xs' tl → l ∈ cs' →
        Chain h' r2 (cs' ++ cs2) (xs' ++ ys2) tl2) := by
  obtain ⟨cp, h1, cs2, ys2, tl2, e, c2, p, n, x, w1, t, lcp, _⟩ := deepCopy_chain hw cv
  have hext : Ext h (h.deepCopy v).2 := by rw [e]; exact x
  obtain ⟨l, al, hl, hgl, ea⟩ := append_eq c hne hnil v hext
  rw [e] at ea; simp only at ea
  have hll : l < h.cells.size := lt_of_get_cons hgl
  have hal := hw l al tl hgl
  have c1 : Chain h1 r cs xs tl := c.ext x hal.2
  have hgl1 : h1.get l = .cons al tl := by rw [x.2 l hll]; exact hgl
  have hdis : l ∉ cs2 := fun m => by have := n l m; omega
  refine ⟨_, l, cs2, ys2, tl2, ea, c1.set_cdr_tail hl hgl1 c2 hdis, p.mono (fun _ _ e => e.assign_old hll),
    t.assign_old hll, n, hl, ⟨al, hgl⟩, ?_, ?_, ?_, ?_, ?_⟩
  · intro i hi hne; rw [assign_get_other hne]; exact x.2 i hi
  · intro hne'
    have hnl : l ∉ csv := by
      intro hm
      obtain ⟨_, cs2', xs2, _, hc⟩ := cv.suffix_of_mem hm
      cases hc with
      | step hg' c'' =>
        rw [hgl] at hg'; cases hg'
        have hn := c''.tail_notCons
        cases c'' with
        | done => exact hne' rfl
        | step hg'' _ =>
          have := (c.tail_notCons); exact this _ _ hg''
    have hlt : l ≠ tlv := by
      intro e; subst e; exact cv.tail_notCons _ _ hgl
    exact (cv.ext x (cv.tail_lt hw hv)).assign_frame hnl hlt
  · exact wf_assign w1 (fun a d e => by cases e; exact ⟨Nat.lt_of_lt_of_le hal.1 x.1, lcp⟩)
  · rw [assign_size]; exact x.1
  · intro r2 cs' xs' c' hl'
    exact (c'.ext x hal.2).set_cdr_tail hl' hgl1 c2 hdis

/-- `append` onto a nil CELL `r` of a non-empty list `v`: `r` becomes the first cell of the copy -/
theorem append_onto_nil_chain {h : Heap} (hw : WF h) {r : Nat} (hr : r < h.cells.size)
    (hrn : h.get r = .nil) {v : Nat} {csv ysv : List Nat} {tlv : Nat} (cv : Chain h v csv ysv tlv)
    (hcv : csv ≠ []) :
    ∃ h' cs2 ys2 tl2, h.append r v = .ok h' ∧ Chain h' r (r :: cs2) ys2 tl2 ∧
      Pointwise (ElemCopy h h') ysv ys2 ∧ TailCopy h h' tlv tl2 ∧
      (∀ c ∈ cs2, h.cells.size ≤ c) ∧
      (∀ i : Nat, i < h.cells.size → i ≠ r → h'.get i = h.get i) ∧
      (tlv ≠ r → Chain h' v csv ysv tlv) ∧ WF h' ∧ h.cells.size ≤ h'.cells.size := by
  obtain ⟨cp, h1, cs2, ys2, tl2, e, c2, p, n, x, w1, t, lcp, _⟩ := deepCopy_chain hw cv
  cases cv with
  | done => exact absurd rfl hcv
  | @step _ a d csv' ysv' _ hg cv' =>
    have cfull : Chain h v (v :: csv') (a :: ysv') tlv := .step hg cv'
    have hvl := lt_of_get_cons hg
    cases p with
    | @cons _ y0 _ ys2' py p' =>
      cases c2 with
      | @step _ _ d0 cs2' _ _ hg2 c2' =>
        have hea : h.append r v = .ok (h1.assign r (.cons y0 d0)) := by
          unfold Heap.append
          rw [hrn]; simp only
          rw [hg]; simp only
          rw [e]; simp only
          rw [hg2]
        have hn' : ∀ c ∈ cs2', h.cells.size ≤ c := fun c hc => n c (by simp [hc])
        have hr1 : r < h1.cells.size := Nat.lt_of_lt_of_le hr x.1
        have hrt : r ≠ tl2 := by
          rcases t with ⟨⟨s, hs⟩, e2⟩ | ⟨_, hge, _, _⟩
          · intro e3; rw [← e3] at e2; rw [← e2, hrn] at hs; cases hs
          · omega
        refine ⟨_, cs2', _, tl2, hea, .step (assign_get_same hr1) (c2'.assign_frame ?_ hrt),
          (Pointwise.cons py p').mono (fun _ _ e => e.assign_old hr), t.assign_old hr, hn', ?_, ?_, ?_, ?_⟩
        · intro hm; have := hn' r hm; omega
        · intro i hi hne; rw [assign_get_other hne]; exact x.2 i hi
        · intro hne'
          have hnl : r ∉ v :: csv' := by
            intro hm
            obtain ⟨a', d', hg'⟩ := cfull.spine_cons r hm
            rw [hrn] at hg'; cases hg'
          exact (cfull.ext x (cfull.tail_lt hw hvl)).assign_frame hnl (Ne.symm hne')
        · exact wf_assign w1 (fun a' d' e => by cases e; exact w1 _ _ _ hg2)
        · rw [assign_size]; exact x.1


/-- `append` onto a nil CELL `r` of a non-nil atom `v`: `r` becomes the one-element list of the copy
    of the atom (a symbol is shared) -/
theorem append_onto_nil_atom {h : Heap} (hw : WF h) {r : Nat} (hr : r < h.cells.size)
    (hrn : h.get r = .nil) {v : Nat} (hv : NotCons (h.get v)) (hvn : h.get v ≠ .nil) :
    ∃ h' cp n, h.append r v = .ok h' ∧ ListAt h' r [cp] n ∧ h'.get n = .nil ∧ TailCopy h h' v cp ∧
      (∀ i : Nat, i < h.cells.size → i ≠ r → h'.get i = h.get i) := by
  obtain ⟨cp, h1, cs2, ys2, tl2, e, c2, p, n, x, w1, t, lcp, hcs⟩ := deepCopy_chain hw (Chain.done hv)
  cases p
  have hlen := c2.length_eq
  cases c2 with
  | done hn2 =>
    have hea : h.append r v = .ok ((h1.alloc .nil).2.assign r (.cons cp h1.cells.size)) := by
      unfold Heap.append
      rw [hrn]; simp only
      cases hc : h.get v with
      | nil => exact absurd hc hvn
      | cons a d => exact absurd hc (hv a d)
      | t | int _ | float _ | str _ | sym _ => simp only [e]; rfl
    have hr1 : r < h1.cells.size := Nat.lt_of_lt_of_le hr x.1
    have hrcp : r ≠ cp := by
      rcases t with ⟨⟨s, hs⟩, e2⟩ | ⟨_, hge, _, _⟩
      · intro e3; rw [← e3] at e2; rw [← e2, hrn] at hs; cases hs
      · omega
    refine ⟨_, cp, h1.cells.size, hea, .step (assign_get_same (by rw [alloc_size]; omega)) (.done ?_), ?_,
      (t.ext (ext_alloc h1 _)).assign_old hr, ?_⟩
    · rw [assign_get_other (by omega), alloc_get_new]; exact notCons_nil
    · rw [assign_get_other (by omega), alloc_get_new]
    · intro i hi hne
      rw [assign_get_other hne, alloc_get_old (Nat.lt_of_lt_of_le hi x.1)]; exact x.2 i hi

end Tulisp.C20
