/-
  Proofs/C15.lean — helper lemmas for property C15 (strings, format, symbols):
  injectivity of `toString : Int → String`, the loop of `concat`, a pure characterisation of
  `formatLoop`, and the state change of `gensym`.
-/
import Tulisp.Proofs.C12
import Tulisp.Proofs.C13
import Tulisp.Proofs.C14
namespace Tulisp.C15
open Tulisp

/-! ## `toString` on integers is injective -/

theorem natRepr_inj {m n : Nat} (h : m.repr = n.repr) : m = n := by
  have := congrArg (fun s => Nat.ofDigitChars 10 s.toList 0) h
  simpa using this

theorem dash_not_mem_natRepr (n : Nat) : '-' ∉ n.repr.toList := by
  intro h
  rw [Nat.toList_repr] at h
  have := Nat.isDigit_of_mem_toDigits (by decide) (by decide) h
  exact absurd this (by decide)

theorem natRepr_ne_dash (m n : Nat) : m.repr ≠ "-" ++ n.repr := by
  intro h
  apply dash_not_mem_natRepr m
  rw [h]
  simp

theorem intToString_inj {a b : Int} (h : toString a = toString b) : a = b := by
  simp only [Int.toString_eq_repr, Int.repr_eq_if] at h
  by_cases ha : 0 ≤ a <;> by_cases hb : 0 ≤ b <;> simp only [ha, hb, if_true, if_false] at h
  · have := natRepr_inj h; omega
  · exact absurd h (natRepr_ne_dash _ _)
  · exact absurd h.symm (natRepr_ne_dash _ _)
  · have := natRepr_inj ((String.append_right_inj _).1 h); omega

/-! ## concat -/

/-- the concatenation of a list of string values; `none` if one of them is not a string -/
def concatStrs : List Val → Option String
  | [] => some ""
  | .str _ s :: rest => (concatStrs rest).map (s ++ ·)
  | _ :: _ => none

theorem go_spec (vs : List Val) (acc : String) (c : Ctx) :
    callBuiltin.go vs acc c =
      match concatStrs vs with
      | some s => (.ok (acc ++ s), c)
      | none => (.err .typeMismatch, c) := by
  induction vs generalizing acc with
  | nil => simp [callBuiltin.go, concatStrs, pure, M.pure]
  | cons v vs ih =>
    cases v <;> simp only [callBuiltin.go, concatStrs, strOf, bind, M.bind, M.throw, pure, M.pure]
    case str i s =>
      rw [ih]
      cases concatStrs vs <;> simp [String.append_assoc]


/-! ## format -/

/-- `%d` of a number: integers as they are, floats truncated (Rust `as i64`) -/
def truncI : Num → Int
  | .i i => i
  | .f b => f64ToI64Trunc b

/-- The text a directive character produces for one argument (pure; `fuel` = the model cannot
    print this float and gives up). -/
def renderArgP (c0 : Ctx) (ch : Char) (a : Val) : Res String :=
  if ch = 's' then (match princV c0 a with | some s => .ok s | none => .fuel)
  else if ch = 'S' then (match printV c0 a with | some s => .ok s | none => .fuel)
  else if ch = 'd' then
    (match a.toNum? with
      | some n => .ok (toString (truncI n))
      | none => .err .typeMismatch)
  else if ch = 'f' then
    (match a.toNum? with
      | some n => (match f64Display n.asF64 with | some s => .ok s | none => .fuel)
      | none => .err .typeMismatch)
  else .err .syntaxError

/-- continue with `k` on success, propagate every other outcome; the context is not touched -/
def andThenP {α β} (x : Res α) (k : α → Res β) : Res β :=
  match x with
  | .ok a => k a
  | .err e => .err e
  | .panic s => .panic s
  | .fuel => .fuel

/-- one directive with an argument available -/
theorem formatLoop_dir (c0 : Ctx) (ch : Char) (rest : List Char) (a : Val) (args : List Val)
    (out : String) (c : Ctx) (h : ch ≠ '%') :
    formatLoop c0 ('%' :: ch :: rest) (a :: args) out c =
      match renderArgP c0 ch a with
      | .ok s => formatLoop c0 rest args (out ++ s) c
      | .err e => (.err e, c)
      | .panic s => (.panic s, c)
      | .fuel => (.fuel, c) := by
  rw [formatLoop.eq_5 _ _ _ _ _ _ (fun e => h e)]
  unfold renderArgP
  by_cases h1 : ch = 's'
  · subst h1
    cases hp : princV c0 a <;>
      simp [bind, M.bind, pure, M.pure, M.outOfFuel, printOrSkip]
  by_cases h2 : ch = 'S'
  · subst h2
    cases hp : printV c0 a <;>
      simp [bind, M.bind, pure, M.pure, M.outOfFuel, printOrSkip]
  by_cases h3 : ch = 'd'
  · subst h3
    cases hn : a.toNum? with
    | none => simp [hn, bind, M.bind, M.throw, numOf]
    | some n => cases n <;> simp [hn, bind, M.bind, pure, M.pure, numOf, truncI]
  by_cases h4 : ch = 'f'
  · subst h4
    cases hn : a.toNum? with
    | none => simp [hn, bind, M.bind, M.throw, numOf]
    | some n =>
      cases hd : f64Display n.asF64 <;>
        simp [hn, hd, bind, M.bind, pure, M.pure, M.outOfFuel, numOf, printOrSkip]
  · simp [h1, h2, h3, h4, M.throw]

/-- the pieces a format string consists of -/
inductive Piece where
  | lit (ch : Char)      -- an ordinary character
  | pct                  -- `%%`
  | dir (ch : Char)      -- `%` followed by the directive character `ch`
deriving Repr, DecidableEq

def Piece.chars : Piece → List Char
  | .lit ch => [ch]
  | .pct => ['%', '%']
  | .dir ch => ['%', ch]

/-- well-formed: `%` occurs only in the `pct` / `dir` roles -/
def Piece.WF : Piece → Prop
  | .lit ch => ch ≠ '%'
  | .pct => True
  | .dir ch => ch ≠ '%'

def fmtChars (ps : List Piece) : List Char := ps.flatMap Piece.chars

/-- Specification of `format`: a pure left-to-right pass over the pieces; every directive consumes
    exactly the next argument. -/
def renderP (c0 : Ctx) : List Piece → List Val → String → Res String
  | [], _, out => .ok out
  | .lit ch :: ps, args, out => renderP c0 ps args (out.push ch)
  | .pct :: ps, args, out => renderP c0 ps args (out.push '%')
  | .dir _ :: _, [], _ => .err .missingArgument
  | .dir ch :: ps, a :: args, out => andThenP (renderArgP c0 ch a) fun s => renderP c0 ps args (out ++ s)

/-- `formatLoop` on a format string made of well-formed pieces, optionally followed by a lone
    `%`, is `renderP`; the context is untouched. -/
theorem formatLoop_pieces (c0 : Ctx) (ps : List Piece) (hwf : ∀ p ∈ ps, p.WF) (tail : List Char)
    (htail : tail = [] ∨ tail = ['%']) (args : List Val) (out : String) (c : Ctx) :
    formatLoop c0 (fmtChars ps ++ tail) args out c = (renderP c0 ps args out, c) := by
  induction ps generalizing args out with
  | nil =>
    rcases htail with rfl | rfl <;> simp [fmtChars, formatLoop, renderP, pure, M.pure]
  | cons p ps ih =>
    have hwf' : ∀ q ∈ ps, q.WF := fun q hq => hwf q (by simp [hq])
    have hp : p.WF := hwf p (by simp)
    have hcons : fmtChars (p :: ps) ++ tail = p.chars ++ (fmtChars ps ++ tail) := by
      simp [fmtChars]
    rw [hcons]
    cases p with
    | lit ch =>
      simp only [Piece.chars, List.cons_append, List.nil_append]
      rw [formatLoop.eq_6 _ _ _ _ _ (fun e => hp e), ih hwf']; rfl
    | pct =>
      simp only [Piece.chars, List.cons_append, List.nil_append]
      rw [formatLoop.eq_3, ih hwf']; rfl
    | dir ch =>
      simp only [Piece.chars, List.cons_append, List.nil_append]
      cases args with
      | nil => rw [formatLoop.eq_4 _ _ _ _ (fun e => hp e)]; rfl
      | cons a args =>
        rw [formatLoop_dir _ _ _ _ _ _ _ hp]
        simp only [renderP]
        cases renderArgP c0 ch a <;> simp [andThenP, ih hwf']

/-- the parse of a format string into pieces; the flag tells whether a lone `%` is left over at
    the end -/
def parseFmt : List Char → List Piece × Bool
  | [] => ([], false)
  | [c] => if c = '%' then ([], true) else ([Piece.lit c], false)
  | c :: ch :: rest' =>
    if c = '%' then
      ((if ch = '%' then Piece.pct else Piece.dir ch) :: (parseFmt rest').1, (parseFmt rest').2)
    else
      (Piece.lit c :: (parseFmt (ch :: rest')).1, (parseFmt (ch :: rest')).2)

/-- every format string consists of well-formed pieces (plus possibly a trailing lone `%`) -/
theorem parseFmt_spec (cs : List Char) :
    (∀ p ∈ (parseFmt cs).1, p.WF) ∧
    cs = fmtChars (parseFmt cs).1 ++ (if (parseFmt cs).2 then ['%'] else []) := by
  fun_induction parseFmt cs with
  | case1 => simp [fmtChars]
  | case2 => simp [fmtChars]
  | case3 c hc => simp [fmtChars, Piece.chars, Piece.WF, hc]
  | case4 ch rest' ih =>
    obtain ⟨i1, i2⟩ := ih
    refine ⟨?_, ?_⟩
    · intro p hp
      simp only [List.mem_cons] at hp
      rcases hp with rfl | hp
      · by_cases hch : ch = '%' <;> simp [hch, Piece.WF]
      · exact i1 p hp
    · simp only [fmtChars, List.flatMap_cons] at i2 ⊢
      by_cases hch : ch = '%'
      · subst hch
        simp only [if_true, Piece.chars, List.cons_append, List.nil_append]
        rw [← i2]
      · simp only [hch, if_false, Piece.chars, List.cons_append, List.nil_append]
        rw [← i2]
  | case5 c ch rest' hc ih =>
    obtain ⟨i1, i2⟩ := ih
    refine ⟨?_, ?_⟩
    · intro p hp
      simp only [List.mem_cons] at hp
      rcases hp with rfl | hp
      · exact hc
      · exact i1 p hp
    · simp only [fmtChars, List.flatMap_cons, Piece.chars, List.cons_append, List.nil_append] at i2 ⊢
      rw [← i2]

/-- `formatLoop` on an arbitrary format string -/
theorem formatLoop_eq_renderP (c0 : Ctx) (cs : List Char) (args : List Val) (out : String) (c : Ctx) :
    formatLoop c0 cs args out c = (renderP c0 (parseFmt cs).1 args out, c) := by
  obtain ⟨h1, h2⟩ := parseFmt_spec cs
  conv => lhs; rw [h2]
  apply formatLoop_pieces c0 _ h1
  split <;> simp


/-- `used` are exactly the arguments consumed by the directives of `ps`, in order, and `ss` the
    texts they render to -/
def Rendered (c0 : Ctx) : List Piece → List Val → List String → Prop
  | .lit _ :: ps, used, ss => Rendered c0 ps used ss
  | .pct :: ps, used, ss => Rendered c0 ps used ss
  | .dir ch :: ps, a :: used, s :: ss => renderArgP c0 ch a = .ok s ∧ Rendered c0 ps used ss
  | .dir _ :: _, [], _ => False
  | .dir _ :: _, _ :: _, [] => False
  | [], [], [] => True
  | [], _ :: _, _ => False
  | [], [], _ :: _ => False

/-- the output: literal characters copied, `%%` ↦ `%`, the k-th directive replaced by the k-th text -/
def assemble : List Piece → List String → String → String
  | [], _, out => out
  | .lit ch :: ps, ss, out => assemble ps ss (out.push ch)
  | .pct :: ps, ss, out => assemble ps ss (out.push '%')
  | .dir _ :: ps, s :: ss, out => assemble ps ss (out ++ s)
  | .dir _ :: ps, [], out => assemble ps [] out

def dirCount : List Piece → Nat
  | [] => 0
  | .dir _ :: ps => dirCount ps + 1
  | _ :: ps => dirCount ps

theorem Rendered.lengths {c0 : Ctx} : ∀ {ps : List Piece} {used : List Val} {ss : List String},
    Rendered c0 ps used ss → used.length = dirCount ps ∧ ss.length = dirCount ps
  | [], [], [], _ => ⟨rfl, rfl⟩
  | [], _ :: _, _, h => by simp [Rendered] at h
  | [], [], _ :: _, h => by simp [Rendered] at h
  | .lit _ :: ps, used, ss, h => by
    simp only [Rendered] at h; simpa [dirCount] using Rendered.lengths h
  | .pct :: ps, used, ss, h => by
    simp only [Rendered] at h; simpa [dirCount] using Rendered.lengths h
  | .dir _ :: ps, a :: used, s :: ss, h => by
    simp only [Rendered] at h
    have := Rendered.lengths h.2
    simp [dirCount, this.1, this.2]
  | .dir _ :: _, [], _, h => by simp [Rendered] at h
  | .dir _ :: _, _ :: _, [], h => by simp [Rendered] at h

/-- after a prefix `ps1` whose directives all succeed on `used`, the loop continues with the
    remaining pieces, the remaining arguments and the text assembled so far -/
theorem renderP_prefix (c0 : Ctx) (ps1 ps2 : List Piece) (used rest : List Val) (ss : List String)
    (out : String) (h : Rendered c0 ps1 used ss) :
    renderP c0 (ps1 ++ ps2) (used ++ rest) out = renderP c0 ps2 rest (assemble ps1 ss out) := by
  induction ps1 generalizing used ss out with
  | nil =>
    cases used <;> cases ss <;> simp [Rendered] at h
    simp [assemble]
  | cons p ps ih =>
    cases p with
    | lit ch => simp only [Rendered] at h; simp only [List.cons_append, renderP, assemble, ih _ _ _ h]
    | pct => simp only [Rendered] at h; simp only [List.cons_append, renderP, assemble, ih _ _ _ h]
    | dir ch =>
      cases used with
      | nil => simp [Rendered] at h
      | cons a used =>
        cases ss with
        | nil => simp [Rendered] at h
        | cons s ss =>
          simp only [Rendered] at h
          simp only [List.cons_append, renderP, assemble, h.1, andThenP, ih _ _ _ h.2]

/-! ## gensym -/

/-- the integer the symbol `cn` currently holds (0 if unbound or not an integer) -/
def counterOf (c : Ctx) (cn : Nat) : Int :=
  match (c.symD cn).get with
  | some (.int n) => n
  | _ => 0

/-- current value of `gensym-counter` as `gensym` reads it -/
def gensymCounter (c : Ctx) : Int :=
  counterOf (c.intern "gensym-counter").2 (c.intern "gensym-counter").1

/-- the name the next `(gensym pfx)` will use -/
def gensymName (pfx : String) (c : Ctx) : String := pfx ++ toString (gensymCounter c)

/-- the state change of a successful `(gensym pfx)`: intern `gensym-counter`, store counter + 1,
    create a new symbol-table entry that is not entered into the obarray -/
def gensymStep (pfx : String) (c : Ctx) : Nat × Ctx :=
  let p := c.intern "gensym-counter"
  let nm := gensymName pfx c
  (p.2.modSym p.1 (·.set (.int (gensymCounter c + 1)))).newSym
    { name := nm, constant := nm.startsWith ":" }

theorem callBuiltin_gensym_eq (r : Rec) (args : Val) :
    callBuiltin r .gensym args = (do
      let (pv, _) ← nextArgOpt r args
      let pfx ← if pv.isNil then pure "g" else strOf pv
      let cn ← internM "gensym-counter"
      let c ← M.get
      let count : Int := match (c.symD cn).get with | some (.int n) => n | _ => 0
      if !inI64 (count + 1) then M.throw .outOfRange
      else do
        setV (.sym cn) (.int (count + 1))
        callBuiltin.makeSymbolM (pfx ++ toString count)) := rfl

theorem callBuiltin_gensym (r : Rec) (args pv rest : Val) (c c1 : Ctx) (pfx : String)
    (h : nextArgOpt r args c = (.ok (pv, rest), c1))
    (hp : (pv = .nil ∧ pfx = "g") ∨ ∃ i, pv = .str i pfx)
    (hr : inI64 (gensymCounter c1 + 1) = true)
    (hnc : ((c1.intern "gensym-counter").2.symD (c1.intern "gensym-counter").1).constant = false) :
    callBuiltin r .gensym args c = (.ok (.sym (gensymStep pfx c1).1), (gensymStep pfx c1).2) := by
  rw [callBuiltin_gensym_eq, C12.bind_ok _ h]
  unfold gensymCounter counterOf at hr
  rcases hp with ⟨rfl, rfl⟩ | ⟨i, rfl⟩
  · simp only [Val.isNil, if_true, bind, M.bind, pure, M.pure, internM, M.get, hr,
      Bool.not_true, Bool.false_eq_true, if_false, setV, notConstant, hnc, M.modify,
      callBuiltin.makeSymbolM]
    rfl
  · simp only [Val.isNil, Bool.false_eq_true, if_false, strOf, bind, M.bind, pure, M.pure, internM, M.get, hr,
      Bool.not_true, setV, notConstant, hnc, M.modify,
      callBuiltin.makeSymbolM]
    rfl

theorem SymSt.get_set (s : SymSt) (v : Val) : (s.set v).get = some v := by
  unfold SymSt.set SymSt.get; cases s.items <;> rfl

theorem SymSt.constant_set (s : SymSt) (v : Val) : (s.set v).constant = s.constant := by
  unfold SymSt.set; cases s.items <;> rfl

theorem SymSt.name_set (s : SymSt) (v : Val) : (s.set v).name = s.name := by
  unfold SymSt.set; cases s.items <;> rfl

theorem symD_modSym_self (c : Ctx) (n : Nat) (f : SymSt → SymSt) (h : n < c.syms.size) :
    (c.modSym n f).symD n = f (c.symD n) := by
  simp [Ctx.modSym, Ctx.symD, Array.getD, h, Array.getElem_modify]

/-- facts about one `gensym` step under the obarray invariant -/
theorem gensymStep_facts (pfx : String) {c : Ctx} (h : C14.ObarrayOk c) :
    let cn := (c.intern "gensym-counter").1
    let c2 := (c.intern "gensym-counter").2
    let s := gensymStep pfx c
    s.1 = c2.syms.size ∧
    s.2.obarray = c2.obarray ∧
    s.2.syms.size = c2.syms.size + 1 ∧
    s.2.symD cn = (c2.symD cn).set (.int (gensymCounter c + 1)) ∧
    s.2.symD s.1 = { name := gensymName pfx c, constant := (gensymName pfx c).startsWith ":" } ∧
    s.2.intern "gensym-counter" = (cn, s.2) ∧
    C14.ObarrayOk s.2 := by
  intro cn c2 s
  have h2 : C14.ObarrayOk c2 := C14.obarrayOk_intern h _
  have hlt : cn < c2.syms.size := C14.intern_lt h _
  have hob : c2.obarray["gensym-counter"]? = some cn := C14.intern_obarray c _
  have hfr := C14.modSym_frame cn (·.set (.int (gensymCounter c + 1)))
    (fun s => SymSt.name_set s _) c2
  have h3 : C14.ObarrayOk (c2.modSym cn (·.set (.int (gensymCounter c + 1)))) :=
    C14.obarrayOk_run h2 (.other _ (fun c => C14.modSym_frame cn _ (fun s => SymSt.name_set s _) c))
  have hsz : (c2.modSym cn (·.set (.int (gensymCounter c + 1)))).syms.size = c2.syms.size := hfr.2.1
  refine ⟨hsz, rfl, ?_, ?_, ?_, ?_, ?_⟩
  · show (Array.push _ _).size = _
    rw [Array.size_push, hsz]
  · show Array.getD (Array.push _ _) cn _ = _
    rw [C14.symD_push_lt _ _ (by rw [hsz]; exact hlt), symD_modSym_self _ _ _ hlt]
  · show Array.getD (Array.push _ _) (Array.size _) _ = _
    exact C14.symD_push_eq _ _
  · exact C14.intern_some (c := s.2) hob
  · exact C14.obarrayOk_newSym h3 _

theorem gensymStep_counter (pfx : String) {c : Ctx} (h : C14.ObarrayOk c) :
    gensymCounter (gensymStep pfx c).2 = gensymCounter c + 1 := by
  obtain ⟨_, _, _, h4, _, h6, _⟩ := gensymStep_facts pfx h
  unfold gensymCounter
  rw [h6]
  simp only [counterOf, h4, SymSt.get_set]
  rfl

theorem gensymStep_notConstant (pfx : String) {c : Ctx} (h : C14.ObarrayOk c)
    (hnc : ((c.intern "gensym-counter").2.symD (c.intern "gensym-counter").1).constant = false) :
    (((gensymStep pfx c).2.intern "gensym-counter").2.symD
      ((gensymStep pfx c).2.intern "gensym-counter").1).constant = false := by
  obtain ⟨_, _, _, h4, _, h6, _⟩ := gensymStep_facts pfx h
  rw [h6]
  simp only [h4, SymSt.constant_set, hnc]

/-- names with the same prefix coincide only when the counters do -/
theorem gensymName_inj (pfx : String) {c c' : Ctx} (h : gensymName pfx c = gensymName pfx c') :
    gensymCounter c = gensymCounter c' :=
  intToString_inj ((String.append_right_inj pfx).1 h)

/-- `k` successive `(gensym pfx)` calls: the (symbol, name) pairs produced and the final state -/
def gensymRun (pfx : String) : Nat → Ctx → List (Nat × String) × Ctx
  | 0, c => ([], c)
  | k + 1, c =>
    let s := gensymStep pfx c
    let r := gensymRun pfx k s.2
    ((s.1, gensymName pfx c) :: r.1, r.2)

theorem gensymRun_spec (pfx : String) (k : Nat) {c : Ctx} (h : C14.ObarrayOk c) :
    (gensymRun pfx k c).1.map (·.2) =
      (List.range k).map (fun (i : Nat) => pfx ++ toString (gensymCounter c + (i : Int))) ∧
    (∀ p ∈ (gensymRun pfx k c).1, c.syms.size ≤ p.1) ∧
    (gensymRun pfx k c).1.Pairwise (fun a b => a.1 < b.1) ∧
    gensymCounter (gensymRun pfx k c).2 = gensymCounter c + k := by
  induction k generalizing c with
  | zero => simp [gensymRun]
  | succ k ih =>
    obtain ⟨f1, _, f3, _, _, _, f7⟩ := gensymStep_facts pfx h
    obtain ⟨i1, i2, i3, i4⟩ := ih f7
    have hsz : c.syms.size ≤ (c.intern "gensym-counter").2.syms.size := C14.intern_size_le c _
    simp only [gensymRun]
    refine ⟨?_, ?_, ?_, ?_⟩
    · simp only [List.map_cons, i1, gensymStep_counter pfx h, List.range_succ_eq_map, List.map_map]
      simp only [gensymName, Int.natCast_zero, Int.add_zero, List.cons.injEq, true_and]
      apply List.map_congr_left
      intro i _
      simp only [Function.comp, Int.natCast_succ]
      congr 2; omega
    · intro p hp
      rcases List.mem_cons.1 hp with rfl | hp
      · simp only; omega
      · have := i2 p hp; omega
    · refine List.pairwise_cons.2 ⟨?_, i3⟩
      intro p hp
      have := i2 p hp
      simp only; omega
    · rw [i4, gensymStep_counter pfx h]; push_cast; omega

end Tulisp.C15
