/-
  Proofs/C14.lean — helper definitions and lemmas for property C14
  (eq / equal / symbol interning / hash tables as finite maps keyed by eql).
-/
import Tulisp.Model.Table
namespace Tulisp.C14
open Tulisp

/-! ## 1. the data values of the property -/

/-- Data values: numbers other than NaN, strings, symbols (keywords are symbols), `nil`, `t`,
    lists / dotted lists of data to any depth, and the reader's quote wrappers around data. -/
inductive Data : Val → Prop
  | nil : Data .nil
  | t : Data .t
  | int (n : Int) : Data (.int n)
  | float (b : UInt64) : f64IsNaN b = false → Data (.float b)
  | str (i : Nat) (s : String) : Data (.str i s)
  | sym (n : Nat) : Data (.sym n)
  | cons (i : Nat) {a d : Val} : Data a → Data d → Data (.cons i a d)
  | quote {v : Val} : Data v → Data (.quote v)
  | backquote {v : Val} : Data v → Data (.backquote v)
  | unquote {v : Val} : Data v → Data (.unquote v)
  | splice {v : Val} : Data v → Data (.splice v)

/-- A value that has an identity in the model: everything except the quote wrappers and the
    trampoline marker (`eqlV` is not reflexive on those; they cannot be produced as a value by
    evaluating data). -/
def KeyOk : Val → Prop
  | .quote _ | .backquote _ | .unquote _ | .splice _ | .bounce => False
  | _ => True

/-! ## 2. symbols and floats -/

theorem symEq_refl (c : Ctx) (a : Nat) : symEq c a a = true := by
  simp [symEq]

theorem symEq_symm (c : Ctx) (a b : Nat) : symEq c a b = symEq c b a := by
  unfold symEq
  rw [Bool.beq_comm (a := a), Bool.beq_comm (a := symRoot c a)]

/-- `symEq` is "same root". -/
theorem symEq_iff_root (c : Ctx) (a b : Nat) : symEq c a b = true ↔ symRoot c a = symRoot c b := by
  unfold symEq
  constructor
  · intro h
    rcases Bool.or_eq_true _ _ |>.mp h with h | h
    · rw [beq_iff_eq.mp h]
    · exact beq_iff_eq.mp h
  · intro h
    simp [h]

theorem symRootAux_self (c : Ctx) (fuel n : Nat) (h : (c.symD n).base = none) :
    symRootAux c fuel n = n := by
  cases fuel with
  | zero => rfl
  | succ f => simp [symRootAux, h]

/-- A symbol that is not a closure cell is its own root. -/
theorem symRoot_self (c : Ctx) (n : Nat) (h : (c.symD n).base = none) : symRoot c n = n :=
  symRootAux_self c _ n h

theorem fEq_symm (a b : UInt64) : fEq a b = fEq b a := by
  unfold fEq
  rw [Bool.beq_comm (a := a)]
  cases f64IsNaN a <;> cases f64IsNaN b <;> cases (b == a) <;>
    cases ((a <<< 1) == 0) <;> cases ((b <<< 1) == 0) <;> rfl

theorem fEq_refl (a : UInt64) (h : f64IsNaN a = false) : fEq a a = true := by
  simp [fEq, h]

/-- `-0.0 ↦ +0.0`, every other bit pattern unchanged: the numeric value of a non-NaN float. -/
def normZero (b : UInt64) : UInt64 := if (b <<< 1) == 0 then 0 else b

theorem fEq_iff_normZero (a b : UInt64) (ha : f64IsNaN a = false) (hb : f64IsNaN b = false) :
    fEq a b = true ↔ normZero a = normZero b := by
  have h0 : ((0 : UInt64) <<< 1) = 0 := by decide
  unfold fEq normZero
  simp only [ha, hb, Bool.not_false, Bool.true_and]
  by_cases h1 : (a <<< 1) = 0 <;> by_cases h2 : (b <<< 1) = 0
  · simp [h1, h2]
  · have : a ≠ b := fun e => h2 (e ▸ h1)
    have hb0 : (0 : UInt64) ≠ b := fun e => h2 (e ▸ h0)
    simp [h1, h2, this, hb0]
  · have : a ≠ b := fun e => h1 (e ▸ h2)
    have ha0 : a ≠ (0 : UInt64) := fun e => h1 (e ▸ h0)
    simp [h1, h2, this, ha0]
  · simp [h1, h2]

/-! ## 3. `equalV` -/

theorem equalV_symm (c : Ctx) : ∀ a b : Val, equalV c a b = equalV c b a := by
  intro a
  induction a with
  | cons i a d iha ihd =>
    intro b; cases b <;> simp [equalV, iha, ihd]
  | quote v ih => intro b; cases b <;> simp [equalV, ih]
  | backquote v ih => intro b; cases b <;> simp [equalV, ih]
  | unquote v ih => intro b; cases b <;> simp [equalV, ih]
  | splice v ih => intro b; cases b <;> simp [equalV, ih]
  | sym n => intro b; cases b <;> simp [equalV, symEq_symm c n]
  | int n => intro b; cases b <;> simp [equalV, fEq_symm, Bool.beq_comm (a := n)]
  | float x => intro b; cases b <;> simp [equalV, fEq_symm]
  | str i s => intro b; cases b <;> simp [equalV, Bool.beq_comm (a := s)]
  | builtin x => intro b; cases b <;> simp [equalV, Bool.beq_comm (a := x.isMacro)]
  | _ => intro b; cases b <;> simp [equalV]

theorem equalV_refl (c : Ctx) {v : Val} (h : Data v) : equalV c v v = true := by
  induction h with
  | nil => simp [equalV]
  | t => simp [equalV]
  | int n => simp [equalV]
  | float b hb => simp [equalV, fEq_refl b hb]
  | str i s => simp [equalV]
  | sym n => simp [equalV, symEq_refl]
  | cons i _ _ iha ihd => simp [equalV, iha, ihd]
  | quote _ ih => simpa [equalV] using ih
  | backquote _ ih => simpa [equalV] using ih
  | unquote _ ih => simpa [equalV] using ih
  | splice _ ih => simpa [equalV] using ih

/-! ## 4. `eqV`: identity -/

/-- `x` is a sub-value of `v` (reflexive). -/
inductive Sub : Val → Val → Prop
  | refl (v : Val) : Sub v v
  | car {x a : Val} (i : Nat) (d : Val) : Sub x a → Sub x (.cons i a d)
  | cdr {x d : Val} (i : Nat) (a : Val) : Sub x d → Sub x (.cons i a d)
  | quote {x v : Val} : Sub x v → Sub x (.quote v)
  | backquote {x v : Val} : Sub x v → Sub x (.backquote v)
  | unquote {x v : Val} : Sub x v → Sub x (.unquote v)
  | splice {x v : Val} : Sub x v → Sub x (.splice v)

/-- Two heap-allocated data values carry the same allocation identity. -/
def SameObj : Val → Val → Prop
  | .str i _, .str j _ => i = j
  | .cons i _ _, .cons j _ _ => i = j
  | _, _ => False

/-- Heap well-formedness for a pair of values: an allocation identity denotes one object, i.e.
    any two strings / conses occurring in `a` and `b` with the same id are the same value.
    (In the Rust implementation this is a fact about pointers: `Rc::ptr_eq` objects have the
    same contents.  In the model `Val` is a tree annotated with ids, so it is an invariant of
    the values the evaluator produces and has to be assumed for arbitrary `Val`s:
    `.str 1 "a"` and `.str 1 "b"` are `eqV` but not `equalV`.) -/
def IdsCoherent (a b : Val) : Prop :=
  ∀ x y, Sub x a → Sub y b → SameObj x y → x = y

/-- All symbols occurring in `v` are ordinary symbols (not closure cells standing for another
    symbol). -/
def NoCells (c : Ctx) (v : Val) : Prop :=
  ∀ n, Sub (.sym n) v → (c.symD n).base = none

theorem eqV_refl (c : Ctx) {v : Val} (hk : KeyOk v) : eqV c v v = true := by
  cases v <;> simp_all [eqV, KeyOk, symEq_refl]

theorem eqV_symm (c : Ctx) (a b : Val) : eqV c a b = eqV c b a := by
  cases a <;> cases b <;> simp [eqV, symEq_symm c, Bool.beq_comm]

/-- `eq` implies `equal`, given only that the two top-level objects are coherent. -/
theorem eqV_imp_equalV_top (c : Ctx) {a b : Val} (ha : Data a) (hb : Data b)
    (hc : SameObj a b → a = b) (h : eqV c a b = true) : equalV c a b = true := by
  cases ha with
  | nil => cases hb <;> simp_all [eqV, equalV]
  | t => cases hb <;> simp_all [eqV, equalV]
  | int n => cases hb <;> simp_all [eqV, equalV]
  | float x hx =>
    cases hb with
    | float y hy =>
      have : x = y := by simpa [eqV] using h
      subst this; simp [equalV, fEq_refl x hx]
    | _ => simp [eqV] at h
  | sym n => cases hb <;> simp_all [eqV, equalV]
  | str i s =>
    cases hb with
    | str j s' =>
      have hij : i = j := by simpa [eqV] using h
      have := hc hij
      rw [← this]; exact equalV_refl c (Data.str i s)
    | _ => simp [eqV] at h
  | cons i da dd =>
    cases hb with
    | cons j da' dd' =>
      have hij : i = j := by simpa [eqV] using h
      have := hc hij
      rw [← this]; exact equalV_refl c (Data.cons i da dd)
    | _ => simp [eqV] at h
  | quote _ => simp [eqV] at h
  | backquote _ => simp [eqV] at h
  | unquote _ => simp [eqV] at h
  | splice _ => simp [eqV] at h

/-- `eq` is "the same object": under coherence and without closure cells, `eqV` decides `=`. -/
theorem eqV_iff_eq_top (c : Ctx) {a b : Val} (ha : Data a) (hka : KeyOk a)
    (hc : SameObj a b → a = b)
    (na : ∀ n, a = .sym n → (c.symD n).base = none)
    (nb : ∀ n, b = .sym n → (c.symD n).base = none) :
    eqV c a b = true ↔ a = b := by
  constructor
  · intro h
    cases ha with
    | nil => cases b <;> simp_all [eqV]
    | t => cases b <;> simp_all [eqV]
    | int n => cases b <;> simp_all [eqV]
    | float x hx => cases b <;> simp_all [eqV]
    | sym n =>
      cases b with
      | sym m =>
        have h' : symRoot c n = symRoot c m := (symEq_iff_root c n m).mp (by simpa [eqV] using h)
        rw [symRoot_self c n (na n rfl), symRoot_self c m (nb m rfl)] at h'
        rw [h']
      | _ => simp [eqV] at h
    | str i s =>
      cases b with
      | str j s' => exact hc (by simpa [eqV, SameObj] using h)
      | _ => simp [eqV] at h
    | cons i da dd =>
      cases b with
      | cons j a' d' => exact hc (by simpa [eqV, SameObj] using h)
      | _ => simp [eqV] at h
    | quote _ => simp [eqV] at h
    | backquote _ => simp [eqV] at h
    | unquote _ => simp [eqV] at h
    | splice _ => simp [eqV] at h
  · intro h; subst h; exact eqV_refl c hka

/-! ## 5. `equal` is structural equality -/

/-- No position where an integer faces a float. -/
def NoMix : Val → Val → Prop
  | .int _, .float _ => False
  | .float _, .int _ => False
  | .cons _ a d, .cons _ a' d' => NoMix a a' ∧ NoMix d d'
  | .quote a, .quote b => NoMix a b
  | .backquote a, .backquote b => NoMix a b
  | .unquote a, .unquote b => NoMix a b
  | .splice a, .splice b => NoMix a b
  | _, _ => True

/-- Structural content of a data value: allocation identities erased, `-0.0` normalised to
    `0.0`, every symbol replaced by the symbol it stands for. -/
def canon (c : Ctx) : Val → Val
  | .str _ s => .str 0 s
  | .cons _ a d => .cons 0 (canon c a) (canon c d)
  | .float b => .float (normZero b)
  | .sym n => .sym (symRoot c n)
  | .quote v => .quote (canon c v)
  | .backquote v => .backquote (canon c v)
  | .unquote v => .unquote (canon c v)
  | .splice v => .splice (canon c v)
  | v => v

/-- Same, leaving symbols alone. -/
def erase : Val → Val
  | .str _ s => .str 0 s
  | .cons _ a d => .cons 0 (erase a) (erase d)
  | .float b => .float (normZero b)
  | .quote v => .quote (erase v)
  | .backquote v => .backquote (erase v)
  | .unquote v => .unquote (erase v)
  | .splice v => .splice (erase v)
  | v => v

theorem equalV_iff_canon (c : Ctx) {a : Val} (ha : Data a) :
    ∀ {b : Val}, Data b → NoMix a b → (equalV c a b = true ↔ canon c a = canon c b) := by
  induction ha with
  | nil => intro b hb _; cases hb <;> simp [equalV, canon]
  | t => intro b hb _; cases hb <;> simp [equalV, canon]
  | int n => intro b hb hm; cases hb <;> simp_all [equalV, canon, NoMix]
  | float x hx =>
    intro b hb hm
    cases hb with
    | float y hy => simp [equalV, canon, fEq_iff_normZero x y hx hy]
    | int m => simp [NoMix] at hm
    | _ => simp [equalV, canon]
  | str i s => intro b hb _; cases hb <;> simp [equalV, canon]
  | sym n => intro b hb _; cases hb <;> simp [equalV, canon, symEq_iff_root]
  | cons i da dd iha ihd =>
    intro b hb hm
    cases hb with
    | cons j da' dd' =>
      simp only [NoMix] at hm
      simp [equalV, canon, iha da' hm.1, ihd dd' hm.2]
    | _ => simp [equalV, canon]
  | quote dv ih =>
    intro b hb hm
    cases hb with
    | quote dv' => simp only [NoMix] at hm; simp [equalV, canon, ih dv' hm]
    | _ => simp [equalV, canon]
  | backquote dv ih =>
    intro b hb hm
    cases hb with
    | backquote dv' => simp only [NoMix] at hm; simp [equalV, canon, ih dv' hm]
    | _ => simp [equalV, canon]
  | unquote dv ih =>
    intro b hb hm
    cases hb with
    | unquote dv' => simp only [NoMix] at hm; simp [equalV, canon, ih dv' hm]
    | _ => simp [equalV, canon]
  | splice dv ih =>
    intro b hb hm
    cases hb with
    | splice dv' => simp only [NoMix] at hm; simp [equalV, canon, ih dv' hm]
    | _ => simp [equalV, canon]

theorem canon_eq_erase (c : Ctx) : ∀ {v : Val}, NoCells c v → canon c v = erase v := by
  intro v
  induction v with
  | sym n => intro h; simp [canon, erase, symRoot_self c n (h n (Sub.refl _))]
  | cons i a d iha ihd =>
    intro h
    simp [canon, erase, iha (fun n hn => h n (Sub.car i d hn)), ihd (fun n hn => h n (Sub.cdr i a hn))]
  | quote v ih => intro h; simp [canon, erase, ih (fun n hn => h n (Sub.quote hn))]
  | backquote v ih => intro h; simp [canon, erase, ih (fun n hn => h n (Sub.backquote hn))]
  | unquote v ih => intro h; simp [canon, erase, ih (fun n hn => h n (Sub.unquote hn))]
  | splice v ih => intro h; simp [canon, erase, ih (fun n hn => h n (Sub.splice hn))]
  | _ => intro _; simp [canon, erase]

/-! ## 6. the symbol table -/

/-- Obarray invariant: every obarray entry points at a symbol-table entry of that name. -/
def ObarrayOk (c : Ctx) : Prop :=
  ∀ name n, c.obarray[name]? = some n → n < c.syms.size ∧ (c.symD n).name = name

/-- `n` is a symbol that no name of the obarray reaches (an uninterned symbol). -/
def NotInterned (c : Ctx) (n : Nat) : Prop :=
  n < c.syms.size ∧ ∀ name : String, c.obarray[name]? ≠ some n

theorem symD_push_lt (c : Ctx) (s : SymSt) {n : Nat} (h : n < c.syms.size) :
    (Array.getD (c.syms.push s) n { name := "?" }) = c.symD n := by
  simp [Ctx.symD, Array.getD, Array.getElem_push, h, Nat.lt_succ_of_lt h]

theorem symD_push_eq (c : Ctx) (s : SymSt) :
    (Array.getD (c.syms.push s) c.syms.size { name := "?" }) = s := by
  simp [Array.getD]

theorem obarrayOk_empty : ObarrayOk {} := by
  intro name n h
  simp at h

theorem intern_some {c : Ctx} {name : String} {n : Nat} (h : c.obarray[name]? = some n) :
    c.intern name = (n, c) := by
  simp [Ctx.intern, h]

theorem intern_none {c : Ctx} {name : String} (h : c.obarray[name]? = none) :
    c.intern name = (c.syms.size,
      { c with syms := c.syms.push { name := name, constant := name.startsWith ":" },
               obarray := c.obarray.insert name c.syms.size }) := by
  simp [Ctx.intern, h]

/-- after `intern name` the obarray maps `name` to the result -/
theorem intern_obarray (c : Ctx) (name : String) :
    (c.intern name).2.obarray[name]? = some (c.intern name).1 := by
  cases h : c.obarray[name]? with
  | some n => rw [intern_some h]; exact h
  | none => rw [intern_none h]; simp

/-- the obarray only grows under `intern` -/
theorem intern_obarray_mono (c : Ctx) (name : String) {a : String} {n : Nat}
    (h : c.obarray[a]? = some n) : (c.intern name).2.obarray[a]? = some n := by
  cases h' : c.obarray[name]? with
  | some m => rw [intern_some h']; exact h
  | none =>
    rw [intern_none h']
    simp only [Std.HashMap.getElem?_insert]
    split
    · rename_i he
      have : name = a := by simpa using he
      subst this; rw [h] at h'; cases h'
    · exact h

theorem intern_size_le (c : Ctx) (name : String) : c.syms.size ≤ (c.intern name).2.syms.size := by
  cases h : c.obarray[name]? with
  | some n => rw [intern_some h]; exact Nat.le_refl _
  | none => rw [intern_none h]; simp

theorem obarrayOk_intern {c : Ctx} (h : ObarrayOk c) (name : String) :
    ObarrayOk (c.intern name).2 := by
  cases h' : c.obarray[name]? with
  | some m => rw [intern_some h']; exact h
  | none =>
    rw [intern_none h']
    intro a n ha
    simp only [Std.HashMap.getElem?_insert] at ha
    split at ha
    · rename_i he
      have e1 : name = a := by simpa using he
      have e2 : c.syms.size = n := by simpa using ha
      subst e1; subst e2
      refine ⟨by simp, ?_⟩
      show (Array.getD (c.syms.push _) c.syms.size _).name = name
      rw [symD_push_eq]
    · obtain ⟨h1, h2⟩ := h a n ha
      refine ⟨by simp; omega, ?_⟩
      show (Array.getD (c.syms.push _) n _).name = a
      rw [symD_push_lt c _ h1]; exact h2

theorem obarrayOk_newSym {c : Ctx} (h : ObarrayOk c) (s : SymSt) : ObarrayOk (c.newSym s).2 := by
  intro a n ha
  obtain ⟨h1, h2⟩ := h a n ha
  refine ⟨by simp [Ctx.newSym]; omega, ?_⟩
  show (Array.getD (c.syms.push _) n _).name = a
  rw [symD_push_lt c _ h1]; exact h2

/-- Under the invariant, the result of `intern` is an entry of the resulting table. -/
theorem intern_lt {c : Ctx} (h : ObarrayOk c) (name : String) :
    (c.intern name).1 < (c.intern name).2.syms.size :=
  (obarrayOk_intern h name _ _ (intern_obarray c name)).1

/-- … and carries the requested name. -/
theorem intern_name {c : Ctx} (h : ObarrayOk c) (name : String) :
    (c.intern name).2.symName (c.intern name).1 = name :=
  (obarrayOk_intern h name _ _ (intern_obarray c name)).2

/-- `intern` returns either an existing obarray entry or the next free index. -/
theorem intern_result (c : Ctx) (name : String) :
    c.obarray[name]? = some (c.intern name).1 ∨
    (c.obarray[name]? = none ∧ (c.intern name).1 = c.syms.size) := by
  cases h : c.obarray[name]? with
  | some n => rw [intern_some h]; exact Or.inl rfl
  | none => rw [intern_none h]; exact Or.inr ⟨rfl, rfl⟩

theorem notInterned_intern {c : Ctx} {n : Nat} (h : NotInterned c n) (name : String) :
    NotInterned (c.intern name).2 n := by
  cases h' : c.obarray[name]? with
  | some m => rw [intern_some h']; exact h
  | none =>
    rw [intern_none h']
    refine ⟨by have := h.1; simp only [Array.size_push]; omega, ?_⟩
    intro a ha
    simp only [Std.HashMap.getElem?_insert] at ha
    split at ha
    · have : c.syms.size = n := by simpa using ha
      have := h.1; omega
    · exact h.2 a ha

theorem notInterned_newSym {c : Ctx} {n : Nat} (h : NotInterned c n) (s : SymSt) :
    NotInterned (c.newSym s).2 n :=
  ⟨by have := h.1; simp only [Ctx.newSym, Array.size_push]; omega, h.2⟩

theorem newSym_notInterned {c : Ctx} (h : ObarrayOk c) (s : SymSt) :
    NotInterned (c.newSym s).2 (c.newSym s).1 := by
  refine ⟨by simp [Ctx.newSym], ?_⟩
  intro a ha
  have := (h a _ ha).1
  simp [Ctx.newSym] at this

theorem notInterned_ne_intern {c : Ctx} {n : Nat} (h : NotInterned c n) (name : String) :
    (c.intern name).1 ≠ n := by
  rcases intern_result c name with h' | ⟨_, h'⟩
  · intro e; rw [e] at h'; exact h.2 name h'
  · have := h.1; omega

/-- Operations on the context as far as the symbol table is concerned: `intern` (the reader,
    `intern`), `newSym` (`make-symbol`, `gensym`, closure cells), and anything that leaves the
    obarray, the size of the symbol table and the names of its entries alone (assignments,
    binding, hash-table updates, …). -/
inductive SymOp where
  | intern (name : String)
  | newSym (s : SymSt)
  | other (g : Ctx → Ctx)
      (frame : ∀ c, (g c).obarray = c.obarray ∧ (g c).syms.size = c.syms.size ∧
                    ∀ n, ((g c).symD n).name = (c.symD n).name)

def SymOp.run (c : Ctx) : SymOp → Ctx
  | .intern name => (c.intern name).2
  | .newSym s => (c.newSym s).2
  | .other g _ => g c

def runOps (c : Ctx) (ops : List SymOp) : Ctx := ops.foldl SymOp.run c

theorem obarrayOk_run {c : Ctx} (h : ObarrayOk c) (op : SymOp) : ObarrayOk (op.run c) := by
  cases op with
  | intern name => exact obarrayOk_intern h name
  | newSym s => exact obarrayOk_newSym h s
  | other g fr =>
    obtain ⟨f1, f2, f3⟩ := fr c
    intro a n ha
    simp only [SymOp.run] at ha ⊢
    rw [f1] at ha
    obtain ⟨h1, h2⟩ := h a n ha
    exact ⟨by omega, by rw [f3]; exact h2⟩

theorem obarrayOk_runOps {c : Ctx} (h : ObarrayOk c) (ops : List SymOp) :
    ObarrayOk (runOps c ops) := by
  induction ops generalizing c with
  | nil => exact h
  | cons op ops ih => exact ih (obarrayOk_run h op)

theorem obarray_mono_run (c : Ctx) (op : SymOp) {a : String} {n : Nat}
    (h : c.obarray[a]? = some n) : (op.run c).obarray[a]? = some n := by
  cases op with
  | intern name => exact intern_obarray_mono c name h
  | newSym s => exact h
  | other g fr => simp only [SymOp.run]; rw [(fr c).1]; exact h

theorem obarray_mono_runOps (c : Ctx) (ops : List SymOp) {a : String} {n : Nat}
    (h : c.obarray[a]? = some n) : (runOps c ops).obarray[a]? = some n := by
  induction ops generalizing c with
  | nil => exact h
  | cons op ops ih => exact ih (op.run c) (obarray_mono_run c op h)

theorem notInterned_run {c : Ctx} {n : Nat} (h : NotInterned c n) (op : SymOp) :
    NotInterned (op.run c) n := by
  cases op with
  | intern name => exact notInterned_intern h name
  | newSym s => exact notInterned_newSym h s
  | other g fr =>
    obtain ⟨f1, f2, _⟩ := fr c
    simp only [SymOp.run]
    exact ⟨by rw [f2]; exact h.1, by rw [f1]; exact h.2⟩

theorem notInterned_runOps {c : Ctx} {n : Nat} (h : NotInterned c n) (ops : List SymOp) :
    NotInterned (runOps c ops) n := by
  induction ops generalizing c with
  | nil => exact h
  | cons op ops ih => exact ih (notInterned_run h op)

theorem size_le_run (c : Ctx) (op : SymOp) : c.syms.size ≤ (op.run c).syms.size := by
  cases op with
  | intern name => exact intern_size_le c name
  | newSym s => simp [SymOp.run, Ctx.newSym]
  | other g fr => simp only [SymOp.run]; rw [(fr c).2.1]; exact Nat.le_refl _

theorem size_le_runOps (c : Ctx) (ops : List SymOp) : c.syms.size ≤ (runOps c ops).syms.size := by
  induction ops generalizing c with
  | nil => exact Nat.le_refl _
  | cons op ops ih => exact Nat.le_trans (size_le_run c op) (ih (op.run c))

/-- `modSym` with a name-preserving update is an `other` operation. -/
theorem modSym_frame (n : Nat) (f : SymSt → SymSt) (hf : ∀ s, (f s).name = s.name) (c : Ctx) :
    (c.modSym n f).obarray = c.obarray ∧ (c.modSym n f).syms.size = c.syms.size ∧
    ∀ m, ((c.modSym n f).symD m).name = (c.symD m).name := by
  refine ⟨rfl, by simp [Ctx.modSym], ?_⟩
  intro m
  simp only [Ctx.modSym, Ctx.symD]
  rw [Array.getD_eq_getD_getElem?, Array.getD_eq_getD_getElem?, Array.getElem?_modify]
  split
  · cases c.syms[m]? <;> simp [hf]
  · rfl

/-! ## 7. `eqlV` and hash tables -/

/-- What `eql` observes of a value: numbers by type and value, symbols by index, everything
    heap-allocated by its allocation identity.  Quote wrappers and `bounce` have no key. -/
inductive Key where
  | int (n : Int) | float (b : UInt64) | nil | t | sym (n : Nat) | str (i : Nat) | cons (i : Nat)
  | lambda (i : Nat) | defmacro (i : Nat) | builtin (b : Bi) | table (i : Nat)
deriving DecidableEq

def keyOf : Val → Option Key
  | .int n => some (.int n)
  | .float b => some (.float b)
  | .nil => some .nil
  | .t => some .t
  | .sym n => some (.sym n)
  | .str i _ => some (.str i)
  | .cons i _ _ => some (.cons i)
  | .lambda i _ _ => some (.lambda i)
  | .defmacro i _ _ => some (.defmacro i)
  | .builtin b => some (.builtin b)
  | .table i => some (.table i)
  | _ => none

theorem eqlV_iff_key (a b : Val) :
    eqlV a b = true ↔ ∃ k, keyOf a = some k ∧ keyOf b = some k := by
  cases a <;> cases b <;> simp [eqlV, keyOf] <;> exact eq_comm

theorem keyOk_iff_key (a : Val) : KeyOk a ↔ ∃ k, keyOf a = some k := by
  cases a <;> simp [KeyOk, keyOf]

theorem eqlV_refl {k : Val} (h : KeyOk k) : eqlV k k = true := by
  obtain ⟨x, hx⟩ := (keyOk_iff_key k).mp h
  exact (eqlV_iff_key k k).mpr ⟨x, hx, hx⟩

theorem eqlV_symm (a b : Val) : eqlV a b = eqlV b a := by
  rw [Bool.eq_iff_iff, eqlV_iff_key, eqlV_iff_key]
  constructor <;> (rintro ⟨k, h1, h2⟩; exact ⟨k, h2, h1⟩)

theorem eqlV_trans {a b d : Val} (h1 : eqlV a b = true) (h2 : eqlV b d = true) :
    eqlV a d = true := by
  rw [eqlV_iff_key] at *
  obtain ⟨k, ha, hb⟩ := h1
  obtain ⟨k', hb', hd⟩ := h2
  rw [hb] at hb'; cases hb'
  exact ⟨k, ha, hd⟩

/-- keys that `eql` a given one are interchangeable as lookup keys -/
theorem eqlV_congr_right {k k' : Val} (h : eqlV k k' = true) (x : Val) :
    eqlV x k = eqlV x k' := by
  rw [Bool.eq_iff_iff]
  constructor
  · intro hx; exact eqlV_trans hx h
  · intro hx; exact eqlV_trans hx (by rw [eqlV_symm]; exact h)

theorem tableGet_put_same (c : Ctx) (id : Nat) (k v : Val) :
    tableGet (tablePut c id k v) id =
      (k, v) :: (tableGet c id).filter (fun (k', _) => !eqlV k' k) := by
  simp [tableGet, tablePut]

theorem tableGet_put_other (c : Ctx) {id id' : Nat} (h : id ≠ id') (k v : Val) :
    tableGet (tablePut c id k v) id' = tableGet c id' := by
  have h1 : (id == id') = false := by simpa using h
  have h2 : List.find? (fun x => x.1 == id') (List.filter (fun x => x.1 != id) c.tables)
      = List.find? (fun x => x.1 == id') c.tables := by
    rw [List.find?_filter]
    congr 1
    funext x
    by_cases hx : x.1 = id'
    · have : x.1 ≠ id := fun e => h (e.symm.trans hx)
      simp [hx]
      exact fun e => h (e ▸ rfl)
    · simp [hx]
  simp only [tableGet, tablePut, List.find?_cons, h1, h2]

theorem tableLookup_put_same (c : Ctx) (id : Nat) {k k' : Val} (v : Val)
    (h : eqlV k k' = true) : tableLookup (tablePut c id k v) id k' = v := by
  simp [tableLookup, tableGet_put_same, h]

theorem tableLookup_put_other (c : Ctx) (id : Nat) {k k' : Val} (v : Val)
    (h : eqlV k k' = false) :
    tableLookup (tablePut c id k v) id k' = tableLookup c id k' := by
  have hf : List.find? (fun x : Val × Val => eqlV x.1 k')
        (List.filter (fun x : Val × Val => !eqlV x.1 k) (tableGet c id))
      = List.find? (fun x : Val × Val => eqlV x.1 k') (tableGet c id) := by
    rw [List.find?_filter]
    congr 1
    funext x
    cases hx : eqlV x.1 k'
    · simp
    · have : eqlV x.1 k = false := by
        cases hk : eqlV x.1 k
        · rfl
        · have := eqlV_trans (by rw [eqlV_symm]; exact hk) hx
          rw [h] at this; cases this
      simp [this]
  unfold tableLookup
  rw [tableGet_put_same]
  simp only [List.find?_cons, h]
  exact congrArg (fun o : Option (Val × Val) => match o with | some (_, v) => v | none => Val.nil) hf

theorem tableLookup_put_other_table (c : Ctx) {id id' : Nat} (h : id ≠ id') (k v k' : Val) :
    tableLookup (tablePut c id k v) id' k' = tableLookup c id' k' := by
  simp [tableLookup, tableGet_put_other c h]

theorem tableLookup_empty (c : Ctx) (id : Nat) (k : Val)
    (h : c.tables.find? (·.1 == id) = none) : tableLookup c id k = .nil := by
  simp [tableLookup, tableGet, h]

/-! ## 8. small computation lemmas (used for the non-vacuity examples) -/

theorem sub_cons_iff {x : Val} {i : Nat} {a d : Val} :
    Sub x (.cons i a d) ↔ x = .cons i a d ∨ Sub x a ∨ Sub x d := by
  constructor
  · intro h
    cases h with
    | refl => exact Or.inl rfl
    | car _ _ h => exact Or.inr (Or.inl h)
    | cdr _ _ h => exact Or.inr (Or.inr h)
  · rintro (h | h | h)
    · subst h; exact Sub.refl _
    · exact Sub.car i d h
    · exact Sub.cdr i a h

theorem sub_int_iff {x : Val} {n : Int} : Sub x (.int n) ↔ x = .int n :=
  ⟨fun h => by cases h; rfl, fun h => h ▸ Sub.refl _⟩
theorem sub_float_iff {x : Val} {b : UInt64} : Sub x (.float b) ↔ x = .float b :=
  ⟨fun h => by cases h; rfl, fun h => h ▸ Sub.refl _⟩
theorem sub_str_iff {x : Val} {i : Nat} {s : String} : Sub x (.str i s) ↔ x = .str i s :=
  ⟨fun h => by cases h; rfl, fun h => h ▸ Sub.refl _⟩
theorem sub_sym_iff {x : Val} {n : Nat} : Sub x (.sym n) ↔ x = .sym n :=
  ⟨fun h => by cases h; rfl, fun h => h ▸ Sub.refl _⟩
theorem sub_nil_iff {x : Val} : Sub x .nil ↔ x = .nil :=
  ⟨fun h => by cases h; rfl, fun h => h ▸ Sub.refl _⟩
theorem sub_t_iff {x : Val} : Sub x .t ↔ x = .t :=
  ⟨fun h => by cases h; rfl, fun h => h ▸ Sub.refl _⟩

/-- No float anywhere in the value. -/
def NoFloat : Val → Prop
  | .float _ => False
  | .cons _ a d => NoFloat a ∧ NoFloat d
  | .quote v | .backquote v | .unquote v | .splice v => NoFloat v
  | _ => True

theorem noMix_of_noFloat : ∀ {a b : Val}, NoFloat a → NoFloat b → NoMix a b := by
  intro a
  induction a with
  | cons i a d iha ihd =>
    intro b ha hb
    cases b <;> simp_all [NoMix, NoFloat]
  | quote v ih => intro b ha hb; cases b <;> simp_all [NoMix, NoFloat]
  | backquote v ih => intro b ha hb; cases b <;> simp_all [NoMix, NoFloat]
  | unquote v ih => intro b ha hb; cases b <;> simp_all [NoMix, NoFloat]
  | splice v ih => intro b ha hb; cases b <;> simp_all [NoMix, NoFloat]
  | _ => intro b ha hb; cases b <;> simp_all [NoMix, NoFloat]

end Tulisp.C14
