/-
  Proofs/C06Macros.lean — the built-in macros as functions on forms: specifications of
  `callMacro`, `buildBinding(s)`, `prognOnRest`, `threadForms` in the `Run` calculus of
  Proofs/C06.lean (success, context only grows, result determined up to cell identity).
-/
import Tulisp.Proofs.C06
namespace Tulisp.C06
open Tulisp Tulisp.C12
set_option linter.unusedSimpArgs false

/-! ## argument access -/

/-- first element of an argument list (nil when there is none) -/
def carD : Val → Val
  | .cons _ a _ => a
  | _ => .nil

/-- the argument list without its first element -/
def cdrD : Val → Val
  | .cons _ _ d => d
  | _ => .nil

@[simp] theorem carD_cons (i : Nat) (a d : Val) : carD (.cons i a d) = a := rfl
@[simp] theorem cdrD_cons (i : Nat) (a d : Val) : cdrD (.cons i a d) = d := rfl
@[simp] theorem carD_nil : carD .nil = .nil := rfl
@[simp] theorem cdrD_nil : cdrD .nil = .nil := rfl

theorem nextForm_list {args : Val} (h : args.isList = true) :
    nextForm args = pure (carD args, cdrD args) := by
  cases args <;> first | rfl | simp [Val.isList, Val.isNil, Val.isCons] at h

theorem carV_list {v : Val} (h : v.isList = true) : carV v = .ok (carD v) := by
  cases v <;> first | rfl | simp [Val.isList, Val.isNil, Val.isCons] at h

theorem cdrV_list {v : Val} (h : v.isList = true) : cdrV v = .ok (cdrD v) := by
  cases v <;> first | rfl | simp [Val.isList, Val.isNil, Val.isCons] at h

theorem eraseIds_carD (v : Val) : eraseIds (carD v) = carD (eraseIds v) := by
  cases v <;> rfl

theorem eraseIds_cdrD (v : Val) : eraseIds (cdrD v) = cdrD (eraseIds v) := by
  cases v <;> rfl

/-- `(last l)` on a non-empty list: the last cell -/
theorem lastV_none_spec (v : Val) (xs : List Val) (tl : Val) (hv : v.spine = (xs, tl))
    (hne : xs ≠ []) :
    ∃ w, lastV v none = .ok w ∧ w.spine = ([xs.getLast hne], tl) := by
  have hc : v.isCons = true := by rw [isCons_iff_spine, hv]; exact hne
  have hnil : v.isNil = false := by cases v <;> first | rfl | simp [Val.isCons] at hc
  have hlen : lengthV v = xs.length := by simp [lengthV, len_eq_length_spine, hv]
  have hpos : 0 < xs.length := List.length_pos_iff.mpr hne
  obtain ⟨w, hw, hs⟩ := nthcdrV_le (n := lengthV v - 1) v (by rw [hlen, hv]; simp; omega)
  refine ⟨w, ?_, ?_⟩
  · simp [lastV, hc, hnil, hw]
  · rw [hs, hv, hlen]
    have : ((xs.length : Int) - 1).toNat = xs.length - 1 := by omega
    simp only [this, drop_length_sub_one hne]

/-! ## when / unless -/

/-- `(when c . body)` ↦ `(if c (progn . body))` -/
theorem run_when (args : Val) (h : args.isList = true) (c : Ctx) :
    Run (callMacro .when_ args) c (fun v c' =>
      eraseIds v = eraseIds (L [.sym (S c' "if"), carD args,
        .cons 0 (.sym (S c' "progn")) (cdrD args)])) := by
  simp only [callMacro, nextForm_list h, pure_bind]
  refine Run.seq (run_symVal "if" c) fun _ c1 _ ⟨nIf, e, hIf⟩ => ?_; subst e
  refine Run.seq (run_symVal "progn" c1) fun _ c2 _ ⟨nP, e, hP⟩ => ?_; subst e
  refine Run.seq (run_mkCons _ _ c2) fun _ c3 _ ⟨j, e⟩ => ?_; subst e
  refine (run_mkListM' _ _ c3).mono fun v c4 _ ⟨hv, _⟩ => ?_
  intro h2 h1 _
  rw [hv, (hIf.mono h1).S_eq, (hP.mono h2).S_eq]
  simp

/-- `(unless c . body)` ↦ `(if c nil . body)` -/
theorem run_unless (args : Val) (h : args.isList = true) (c : Ctx) :
    Run (callMacro .unless_ args) c (fun v c' =>
      eraseIds v = eraseIds (listTl [.sym (S c' "if"), carD args, .nil] (cdrD args))) := by
  simp only [callMacro, nextForm_list h, pure_bind]
  refine Run.seq (run_symVal "if" c) fun _ c1 _ ⟨nIf, e, hIf⟩ => ?_; subst e
  refine Run.seq (run_mkCons _ _ c1) fun _ c2 _ ⟨j, e⟩ => ?_; subst e
  refine Run.seq (run_mkCons _ _ c2) fun _ c3 _ ⟨j, e⟩ => ?_; subst e
  refine (run_mkCons _ _ c3).mono fun v c4 _ ⟨j, e⟩ => ?_; subst e
  intro _ h1 _
  rw [(hIf.mono h1).S_eq]
  simp

/-! ## if-let / when-let / while-let (each expands into the next macro of the family) -/

@[simp] theorem liftE_ok {α} (a : α) : liftE (Except.ok a : E α) = pure a := rfl

/-- `macroexp-progn` on the forms `rest`: nil ↦ nil, one form ↦ that form, more ↦ `(progn . rest)` -/
def prognForm (nProgn : Nat) (rest : Val) : Val :=
  if (cdrD rest).isNil then carD rest else .cons 0 (.sym nProgn) rest

theorem prognForm_congr {n m : Nat} {rest : Val} (h : (cdrD rest).isNil = false → n = m) :
    prognForm n rest = prognForm m rest := by
  unfold prognForm
  cases hd : (cdrD rest).isNil
  · rw [h hd]
  · rfl

theorem run_prognOnRest' (rest : Val) (h : rest.isList = true) (c : Ctx) :
    Run (prognOnRest rest) c (fun v c' => ∃ nP, ((cdrD rest).isNil = false → Interned c' "progn" nP) ∧
      eraseIds v = eraseIds (prognForm nP rest)) := by
  unfold prognOnRest prognForm
  simp only [cdrV_list h, carV_list h, liftE_ok, pure_bind, truthy]
  cases hd : (cdrD rest).isNil
  · simp only [Bool.not_false, if_true, Bool.false_eq_true, if_false]
    refine Run.seq (run_symVal "progn" c) fun _ c1 _ ⟨nP, e, hP⟩ => ?_; subst e
    refine Run.seq (run_deepCopy _ c1) fun cp c2 _ ⟨hcp, _⟩ => ?_
    refine (run_mkCons _ _ c2).mono fun v c3 _ ⟨j, e⟩ => ?_; subst e
    intro h1 _
    refine ⟨nP, fun _ => hP.mono h1, ?_⟩
    simp [hcp]
  · simp only [Bool.not_true, Bool.false_eq_true, if_false, if_true]
    exact Run.pure ⟨0, (fun h => by cases h), rfl⟩

theorem run_prognOnRest (rest : Val) (h : rest.isList = true) (c : Ctx) :
    Run (prognOnRest rest) c (fun v c' => eraseIds v = eraseIds (prognForm (S c' "progn") rest)) :=
  (run_prognOnRest' rest h c).mono fun _ _ _ ⟨_, hP, hv⟩ => by
    rw [hv, prognForm_congr fun hd => ((hP hd).S_eq).symm]

/-- the binding list `if-let` hands to `if-let*`: a single binding `(v e)` / `(v)` is wrapped -/
def ifLetSpec (spec : Val) : Val :=
  if decide (lengthV spec ≤ 2) && !(carD spec).isList then L [spec] else spec

/-- `(if-let spec then . else)` ↦ `(if-let* spec' then prog)` -/
theorem run_ifLet (args : Val) (h : args.isList = true) (h1 : (cdrD args).isList = true)
    (hs : (carD args).isList = true) (hr : (cdrD (cdrD args)).isList = true) (c : Ctx) :
    Run (callMacro .ifLet args) c (fun v c' =>
      eraseIds v = eraseIds (L [.sym (S c' "if-let*"), ifLetSpec (carD args), carD (cdrD args),
        prognForm (S c' "progn") (cdrD (cdrD args))])) := by
  simp only [callMacro, nextForm_list h, nextForm_list h1, carV_list hs, liftE_ok, pure_bind]
  have tail : ∀ spec' c1, Ext c c1 → eraseIds spec' = eraseIds (ifLetSpec (carD args)) →
      Run (do
        let prog ← prognOnRest (cdrD (cdrD args))
        let s ← symVal "if-let*"
        mkListM [s, spec', carD (cdrD args), prog]) c1 (fun v c' =>
      eraseIds v = eraseIds (L [.sym (S c' "if-let*"), ifLetSpec (carD args), carD (cdrD args),
        prognForm (S c' "progn") (cdrD (cdrD args))])) := by
    intro spec' c1 _ hsp
    refine Run.seq (run_prognOnRest' _ hr c1) fun prog c2 _ ⟨nP, hP, hprog⟩ => ?_
    refine Run.seq (run_symVal "if-let*" c2) fun _ c3 _ ⟨n, e, hn⟩ => ?_; subst e
    refine (run_mkListM' _ _ c3).mono fun v c4 h34 ⟨hv, _⟩ => ?_
    intro h24 _
    rw [hv, (hn.mono h34).S_eq, prognForm_congr fun hd => (((hP hd).mono h24).S_eq)]
    simp [hsp, hprog]
  unfold ifLetSpec at tail ⊢
  by_cases hc : (decide (lengthV (carD args) ≤ 2) && !(carD (carD args)).isList) = true <;>
    simp only [hc, if_true, if_false, ↓reduceIte] at tail ⊢
  · refine Run.seq (run_mkListM' _ _ c) fun spec' c1 h01 ⟨hv, _⟩ => ?_
    exact (tail spec' c1 h01 (by rw [hv]; simp)).mono fun _ _ _ hq _ => hq
  · exact tail _ c (Ext.refl c) rfl

/-- `(when-let spec . body)` ↦ `(if-let spec prog)` -/
theorem run_whenLet (args : Val) (h : args.isList = true) (hr : (cdrD args).isList = true) (c : Ctx) :
    Run (callMacro .whenLet args) c (fun v c' =>
      eraseIds v = eraseIds (L [.sym (S c' "if-let"), carD args,
        prognForm (S c' "progn") (cdrD args)])) := by
  simp only [callMacro, nextForm_list h, pure_bind]
  refine Run.seq (run_prognOnRest' _ hr c) fun prog c2 _ ⟨nP, hP, hprog⟩ => ?_
  refine Run.seq (run_symVal "if-let" c2) fun _ c3 _ ⟨n, e, hn⟩ => ?_; subst e
  refine (run_mkListM' _ _ c3).mono fun v c4 h34 ⟨hv, _⟩ => ?_
  intro h24 _
  rw [hv, (hn.mono h34).S_eq, prognForm_congr fun hd => (((hP hd).mono h24).S_eq)]
  simp [hprog]

theorem append_eq_pure (a : Acc) (v : Val) (h : a.tail = .nil) (hv : v.isList = true) :
    a.append v = pure { rev := v.spine.1.reverse ++ a.rev, tail := v.spine.2 } := by
  funext c; exact Acc.append_list a v c h hv

/-- `(while-let spec . body)` ↦ `(while (if-let spec (progn ,@body t) nil))` -/
theorem run_whileLet (args : Val) (h : args.isList = true) (hr : (cdrD args).isList = true)
    (hp : (cdrD args).spine.2 = .nil) (c : Ctx) :
    Run (callMacro .whileLet args) c (fun v c' =>
      eraseIds v = eraseIds (L [.sym (S c' "while"), L [.sym (S c' "if-let"), carD args,
        L (.sym (S c' "progn") :: (cdrD args).elems ++ [.t]), .nil]])) := by
  simp only [callMacro, nextForm_list h, pure_bind]
  refine Run.seq (run_symVal "while" c) fun _ c1 _ ⟨nW, e, hW⟩ => ?_; subst e
  refine Run.seq (run_symVal "if-let" c1) fun _ c2 _ ⟨nI, e, hI⟩ => ?_; subst e
  refine Run.seq (run_symVal "progn" c2) fun _ c3 _ ⟨nP, e, hP⟩ => ?_; subst e
  rw [append_eq_pure _ _ rfl hr, pure_bind, hp, push_eq_pure _ _ rfl, pure_bind]
  refine Run.seq (run_mkListM' _ _ c3 : Run (Acc.build _) c3 _) fun body c4 _ ⟨hb, _⟩ => ?_
  refine Run.seq (run_mkListM' _ _ c4) fun inner c5 _ ⟨hin, _⟩ => ?_
  refine (run_mkListM' _ _ c5).mono fun v c6 _ ⟨hv, _⟩ => ?_
  intro _ h3 h2 h1 _
  rw [hv, (hW.mono h1).S_eq, (hI.mono h2).S_eq, (hP.mono h3).S_eq]
  simp [hin, hb, spine_fst, eraseIds_listTl]

/-! ## if-let*: `buildBinding`, `buildBindings` -/

/-- every interned name points into the symbol table -/
def ObWF (c : Ctx) : Prop := ∀ (k : String) (n : Nat), c.obarray[k]? = some n → n < c.syms.size

theorem ObWF.mono {c c' : Ctx} (h : ObWF c) (he : Ext c c') : ObWF c' := by
  intro k n hk
  rcases he.obNew k n hk with h1 | ⟨_, h2⟩
  · exact Nat.lt_of_lt_of_le (h k n h1) he.size_le
  · exact h2

/-- `s` is a symbol created between `c` and `c'`: named "s", unbound, and not reachable by name
    (uninterned) provided the obarray of `c` was well formed -/
def FreshS (c c' : Ctx) (s : Nat) : Prop :=
  c.syms.size ≤ s ∧ s < c'.syms.size ∧ c'.symD s = { name := "s" } ∧
    (ObWF c → ∀ k : String, c'.obarray[k]? ≠ some s)

theorem FreshS.mono {c c1 c2 c3 : Ctx} {s : Nat} (h : FreshS c1 c2 s) (h01 : Ext c c1)
    (h23 : Ext c2 c3) : FreshS c c3 s := by
  obtain ⟨h1, h2, h3, h4⟩ := h
  refine ⟨Nat.le_trans h01.size_le h1, Nat.lt_of_lt_of_le h2 h23.size_le, ?_, ?_⟩
  · rw [h23.symD_old h2, h3]
  · intro hwf k hk
    rcases h23.obNew k s hk with h5 | ⟨h5, _⟩
    · exact h4 (hwf.mono h01) k h5
    · omega

theorem run_newSymS (c : Ctx) :
    Run (fun c => let (n, c') := c.newSym { name := "s" }; (Res.ok (n, ()), c') : M (Nat × Unit)) c
      (fun p c' => FreshS c c' p.1) := by
  refine ⟨_, _, rfl, Ext.newSym c _ rfl, Nat.le_refl _, by simp [Ctx.newSym], ?_, ?_⟩
  · simp [Ctx.newSym, Ctx.symD, Array.getD_eq_getD_getElem?]
  · intro hwf k hk
    exact Nat.lt_irrefl _ (hwf k _ hk)

/-- the shapes of an `if-let*` binding and the variable / value form each stands for:
    `x` ↦ `(x x)`, `(e)` ↦ `(s e)` with a fresh `s`, `(v e)` -/
inductive BindShape (fresh : Nat → Prop) : Val → Val → Val → Prop
  | sym (n : Nat) : BindShape fresh (.sym n) (.sym n) (.sym n)
  | anon (i : Nat) (e : Val) (s : Nat) : fresh s → BindShape fresh (.cons i e .nil) (.sym s) e
  | nil (s : Nat) : fresh s → BindShape fresh .nil (.sym s) .nil
  | pair (i j : Nat) (v e tl : Val) : tl.isCons = false →
      BindShape fresh (.cons i v (.cons j e tl)) v e

theorem BindShape.imp {f g : Nat → Prop} (h : ∀ s, f s → g s) {b var val : Val}
    (hb : BindShape f b var val) : BindShape g b var val := by
  cases hb with
  | sym n => exact .sym n
  | anon i e s hs => exact .anon _ _ _ (h s hs)
  | nil s hs => exact .nil s (h s hs)
  | pair i j v e tl ht => exact .pair _ _ _ _ _ ht

/-- a binding `if-let*` accepts -/
def BindingOK (b : Val) : Prop := ∃ var val, BindShape (fun _ => True) b var val

/-- normalisation of a binding to a two-element list `(var val)` (first half of `buildBinding`) -/
def normBinding (binding : Val) : M Val :=
  match binding with
  | .sym _ => mkListM [binding, binding]
  | _ => do
    let d ← liftE (cdrV binding)
    if d.isNil then do
      let a ← liftE (carV binding)
      let (s, _) ← (fun c => let (n, c') := c.newSym { name := "s" }; (Res.ok (n, ()), c') : M (Nat × Unit))
      mkListM [.sym s, a]
    else pure binding

/-- second half of `buildBinding` -/
def finishBinding (andS prevVar b' : Val) : M (Val × Val) :=
  if lengthV b' > 2 then M.throw .syntaxError
  else do
    let var ← liftE (carV b')
    let valForm ← liftE (cxrV [true, false] b')
    let andForm ← mkListM [andS, prevVar, valForm]
    let nb ← mkListM [var, andForm]
    pure (nb, var)

theorem ite_bind' {α β} (p : Prop) [Decidable p] (a b : M α) (f : α → M β) :
    (if p then a else b) >>= f = if p then a >>= f else b >>= f := by
  split <;> rfl

theorem buildBinding_eq (binding prev : Val) :
    buildBinding binding prev = (do
      let andS ← symVal "and"
      let b' ← normBinding binding
      finishBinding andS prev b') := by
  unfold buildBinding
  congr 1; funext andS
  cases binding <;> simp only [normBinding, finishBinding, bind_assoc, pure_bind, ite_bind']

theorem run_normBinding (binding : Val) (hok : BindingOK binding) (c : Ctx) :
    Run (normBinding binding) c
      (fun b' c' => ∃ var val i j tl, b' = .cons i var (.cons j val tl) ∧ tl.isCons = false ∧
        BindShape (FreshS c c') binding var val) := by
  unfold normBinding
  obtain ⟨var, val, hs⟩ := hok
  cases hs with
  | sym n =>
    exact (run_mkListM _ _ c).mono fun v _ _ hv => ⟨_, _, _, _, _, hv, rfl, .sym n⟩
  | anon i e s _ =>
    simp only [cdrV, carV, liftE_ok, pure_bind, Val.isNil, if_true]
    refine Run.seq (run_newSymS c) fun p c1 h01 hf => ?_
    refine (run_mkListM _ _ c1).mono fun v c2 h12 hv => ?_
    intro _
    exact ⟨_, _, _, _, _, hv, rfl, .anon _ _ p.1 (hf.mono (Ext.refl c) h12)⟩
  | nil s _ =>
    simp only [cdrV, carV, liftE_ok, pure_bind, Val.isNil, if_true]
    refine Run.seq (run_newSymS c) fun p c1 h01 hf => ?_
    refine (run_mkListM _ _ c1).mono fun v c2 h12 hv => ?_
    intro _
    exact ⟨_, _, _, _, _, hv, rfl, .nil p.1 (hf.mono (Ext.refl c) h12)⟩
  | pair i j v e tl ht =>
    simp only [cdrV, liftE_ok, pure_bind, Val.isNil, Bool.false_eq_true, if_false]
    exact Run.pure ⟨_, _, _, _, _, rfl, ht, .pair _ _ _ _ _ ht⟩

theorem len_of_not_cons {v : Val} (h : v.isCons = false) : v.len = 0 := by
  cases v <;> first | rfl | simp [Val.isCons] at h

/-- `build_binding`: the binding `(var (and prev val))` and its variable -/
theorem run_buildBinding (binding prev : Val) (hok : BindingOK binding) (c : Ctx) :
    Run (buildBinding binding prev) c (fun p c' => ∃ val nAnd, Interned c' "and" nAnd ∧
      BindShape (FreshS c c') binding p.2 val ∧
      eraseIds p.1 = eraseIds (L [p.2, L [.sym nAnd, prev, val]])) := by
  rw [buildBinding_eq]
  unfold finishBinding
  refine Run.seq (run_symVal "and" c) fun _ c1 h01 ⟨nAnd, e, hA⟩ => ?_; subst e
  refine Run.seq (run_normBinding binding hok c1) fun b' c2 h12 ⟨var, val, i, j, tl, e, htl, hsh⟩ => ?_
  subst e
  have hlen : ¬ (lengthV (.cons i var (.cons j val tl)) > 2) := by
    simp [lengthV, Val.len, len_of_not_cons htl]
  have hcx : cxrV [true, false] (.cons i var (.cons j val tl)) = .ok val := rfl
  simp only [hlen, if_false, carV, hcx, liftE_ok, pure_bind]
  refine Run.seq (run_mkListM' _ _ c2) fun andForm c3 _ ⟨ha, _⟩ => ?_
  refine Run.seq (run_mkListM' _ _ c3) fun nb c4 _ ⟨hn, _⟩ => ?_
  refine Run.pure ?_
  intro _ h24 h14 _
  refine ⟨val, nAnd, hA.mono h14, hsh.imp fun s hs => hs.mono h01 h24, ?_⟩
  simp [hn, ha]

/-- the bindings `bs` stand, in order, for the (variable, value form) pairs `ps` -/
inductive Shapes (fresh : Nat → Prop) : List Val → List (Val × Val) → Prop
  | nil : Shapes fresh [] []
  | cons {b : Val} {p : Val × Val} {bs : List Val} {ps : List (Val × Val)} :
      BindShape fresh b p.1 p.2 → Shapes fresh bs ps → Shapes fresh (b :: bs) (p :: ps)

theorem Shapes.imp {f g : Nat → Prop} (h : ∀ s, f s → g s) {bs : List Val} {ps : List (Val × Val)}
    (hs : Shapes f bs ps) : Shapes g bs ps := by
  induction hs with
  | nil => exact .nil
  | cons hb _ ih => exact .cons (hb.imp h) ih

theorem Shapes.length_eq {f : Nat → Prop} {bs : List Val} {ps : List (Val × Val)}
    (hs : Shapes f bs ps) : bs.length = ps.length := by
  induction hs with
  | nil => rfl
  | cons _ _ ih => simp [ih]

/-- the `let*` bindings `if-let*` builds: `(v1 (and prev e1)) (v2 (and v1 e2)) …` -/
def andChain (nAnd : Nat) : Val → List (Val × Val) → List Val
  | _, [] => []
  | prev, (v, e) :: ps => L [v, L [.sym nAnd, prev, e]] :: andChain nAnd v ps

theorem run_buildBindings (varlist prev : Val) (hok : ∀ b ∈ varlist.elems, BindingOK b) (c : Ctx) :
    Run (buildBindings varlist prev) c (fun bs c' => ∃ nAnd pairs,
      (pairs ≠ [] → Interned c' "and" nAnd) ∧ Shapes (FreshS c c') varlist.elems pairs ∧
      bs.map eraseIds = (andChain nAnd prev pairs).map eraseIds) := by
  induction varlist generalizing prev c with
  | cons i b rest _ ih =>
    rw [buildBindings]
    have hb : BindingOK b := hok b (by simp [Val.elems])
    have hrest : ∀ b ∈ rest.elems, BindingOK b := fun x hx => hok x (by simp [Val.elems, hx])
    refine Run.seq (run_buildBinding b prev hb c) fun p c1 h01 ⟨val, nAnd, hA, hsh, hnb⟩ => ?_
    obtain ⟨nb, var⟩ := p
    refine Run.seq (ih var hrest c1) fun more c2 h12 ⟨nAnd', pairs, hA', hshs, hmore⟩ => ?_
    refine Run.pure ?_
    intro _ _
    refine ⟨nAnd, (var, val) :: pairs, fun _ => hA.mono h12, ?_, ?_⟩
    · exact .cons (hsh.imp fun s hs => hs.mono (Ext.refl c) h12)
        (hshs.imp fun s hs => hs.mono h01 (Ext.refl c2))
    · have hn : pairs ≠ [] → nAnd' = nAnd := fun hp => by
        have h1 := hA' hp
        have h2 := hA.mono h12
        unfold Interned at h1 h2
        rw [h1] at h2; exact Option.some.inj h2
      simp only [List.map_cons, andChain, hnb, hmore]
      cases pairs with
      | nil => rfl
      | cons q qs => rw [hn (by simp)]
  | _ => exact Run.pure ⟨0, [], fun h => (h rfl).elim, .nil, rfl⟩

theorem andChain_length (n : Nat) (prev : Val) (ps : List (Val × Val)) :
    (andChain n prev ps).length = ps.length := by
  induction ps generalizing prev with
  | nil => rfl
  | cons p ps ih => obtain ⟨v, e⟩ := p; simp [andChain, ih]

theorem andChain_ne_nil (n : Nat) (prev : Val) {ps : List (Val × Val)} (h : ps ≠ []) :
    andChain n prev ps ≠ [] := by
  intro h'
  have := andChain_length n prev ps
  rw [h'] at this
  exact h (List.length_eq_zero_iff.mp this.symm)

theorem andChain_isCons (n : Nat) (prev : Val) (ps : List (Val × Val)) (x : Val)
    (hx : x ∈ andChain n prev ps) : x.isCons = true := by
  induction ps generalizing prev with
  | nil => simp [andChain] at hx
  | cons p ps ih =>
    obtain ⟨v, e⟩ := p
    simp only [andChain, List.mem_cons] at hx
    rcases hx with rfl | hx
    · rfl
    · exact ih v hx

/-- the variable of the last binding of the chain is the variable of the last pair -/
theorem andChain_getLast (n : Nat) (prev : Val) (ps : List (Val × Val)) (h : ps ≠ []) :
    carD ((andChain n prev ps).getLast (andChain_ne_nil n prev h)) = (ps.getLast h).1 := by
  induction ps generalizing prev with
  | nil => exact (h rfl).elim
  | cons p ps ih =>
    obtain ⟨v, e⟩ := p
    cases ps with
    | nil => rfl
    | cons q qs =>
      have := ih v (by simp)
      simpa [andChain, List.getLast_cons] using this

/-- `(if-let* () then . else)` ↦ `(let* () then)` -/
theorem run_ifLetStar_nil (args : Val) (h : args.isList = true) (h1 : (cdrD args).isList = true)
    (hn : (carD args).isNil = true) (c : Ctx) :
    Run (callMacro .ifLetStar args) c (fun v c' =>
      eraseIds v = eraseIds (L [.sym (S c' "let*"), .nil, carD (cdrD args)])) := by
  simp only [callMacro, nextForm_list h, nextForm_list h1, pure_bind]
  have hv : carD args = .nil := by cases h' : carD args <;> simp_all [Val.isNil]
  refine Run.seq (run_symVal "let*" c) fun _ c1 _ ⟨n, e, hL⟩ => ?_; subst e
  simp only [hn, if_true]
  refine (run_mkListM' _ _ c1).mono fun v c2 h12 ⟨hv', _⟩ => ?_
  intro _
  rw [hv', (hL.mono h12).S_eq, hv]
  simp

/-- `(if-let* (b1 … bn) then . else)` ↦
    `(let* ((v1 (and t e1)) … (vn (and v(n-1) en))) (if vn then . else))` -/
theorem run_ifLetStar (args : Val) (h : args.isList = true) (h1 : (cdrD args).isList = true)
    (hc : (carD args).isCons = true) (hok : ∀ b ∈ (carD args).elems, BindingOK b) (c : Ctx) :
    Run (callMacro .ifLetStar args) c (fun v c' => ∃ (pairs : List (Val × Val)) (hne : pairs ≠ []),
      Shapes (FreshS c c') (carD args).elems pairs ∧
      eraseIds v = eraseIds (L [.sym (S c' "let*"), L (andChain (S c' "and") .t pairs),
        listTl [.sym (S c' "if"), (pairs.getLast hne).1, carD (cdrD args)] (cdrD (cdrD args))])) := by
  simp only [callMacro, nextForm_list h, nextForm_list h1, pure_bind]
  have hnil : (carD args).isNil = false := by
    cases h' : carD args <;> simp_all [Val.isNil, Val.isCons]
  refine Run.seq (run_symVal "let*" c) fun _ c1 h01 ⟨nL, e, hL⟩ => ?_; subst e
  simp only [hnil, Bool.false_eq_true, if_false]
  refine Run.seq (run_buildBindings _ .t hok c1) fun bs c2 h12 ⟨nAnd, pairs, hA, hsh, hbs⟩ => ?_
  have hlen : (carD args).elems.length = pairs.length := hsh.length_eq
  have hpne : pairs ≠ [] := by
    intro hp; subst hp
    cases h' : carD args <;> simp_all [Val.elems, Val.isCons]
  have hbne : bs ≠ [] := by
    intro hb; subst hb
    have := congrArg List.length hbs
    simp [andChain_length] at this
    exact hpne (List.length_eq_zero_iff.mp this.symm)
  refine Run.seq (run_mkListM' _ _ c2) fun vl c3 h23 ⟨hvl, hsp⟩ => ?_
  obtain ⟨w, hw, hws⟩ := lastV_none_spec vl bs .nil (by simpa [Val.spine] using hsp) hbne
  have hcar : carV w = .ok (bs.getLast hbne) := carV_of_spine_cons hws
  -- the last new binding is a cons whose car is the last variable
  have hlast : eraseIds (bs.getLast hbne) =
      eraseIds ((andChain nAnd .t pairs).getLast (andChain_ne_nil nAnd .t hpne)) := by
    have := List.getLast_map (f := eraseIds) (l := bs) (h := by simpa using hbne)
    rw [← this]
    simp only [hbs]
    rw [List.getLast_map]
  have hcons : (bs.getLast hbne).isCons = true := by
    rw [← eraseIds_isCons, hlast, eraseIds_isCons]
    have hm := List.getLast_mem (andChain_ne_nil nAnd .t hpne)
    exact andChain_isCons _ _ _ _ hm
  have hcond : eraseIds (carD (bs.getLast hbne)) = eraseIds (pairs.getLast hpne).1 := by
    rw [eraseIds_carD, hlast, ← eraseIds_carD, andChain_getLast]
  have hcx : cxrV [true, true] w = .ok (carD (bs.getLast hbne)) := by
    have : carV (bs.getLast hbne) = .ok (carD (bs.getLast hbne)) :=
      carV_list (by simp [Val.isList, hcons])
    simp [cxrV, hcar, this, bind, Except.bind]
  simp only [hw, hcx, liftE_ok, pure_bind]
  refine Run.seq (run_symVal "if" c3) fun _ c4 h34 ⟨nI, e, hI⟩ => ?_; subst e
  refine Run.seq (run_deepCopy _ c4) fun cp c5 h45 ⟨hcp, _⟩ => ?_
  refine Run.seq (run_mkCons _ _ c5) fun _ c6 h56 ⟨j, e⟩ => ?_; subst e
  refine Run.seq (run_mkCons _ _ c6) fun _ c7 h67 ⟨j, e⟩ => ?_; subst e
  refine Run.seq (run_mkCons _ _ c7) fun _ c8 h78 ⟨j, e⟩ => ?_; subst e
  refine (run_mkListM' _ _ c8).mono fun v c9 h89 ⟨hv, _⟩ => ?_
  intro _ _ _ h49 _ h29 h19 _
  refine ⟨pairs, hpne, hsh.imp fun s hs => hs.mono h01 h29, ?_⟩
  rw [hv, (hL.mono h19).S_eq, (hI.mono h49).S_eq, ((hA hpne).mono h29).S_eq]
  simp [hvl, hbs, hcond, hcp, eraseIds_listTl]

/-! ## threading macros -/

/-- one threading step of the model (the body of the loop of `threadForms`) -/
def threadStepM (first : Bool) (x form : Val) : M Val :=
  match form with
  | .cons _ fh fargs =>
    if first then do
      let cp ← deepCopy fargs
      let tl ← mkCons x cp
      mkCons fh tl
    else do
      let acc ← ({} : Acc).append form
      let acc ← acc.push x
      acc.build
  | atom => mkListM [atom, x]

/-- one threading step on forms: `x`, `(f a…)` ↦ `(f x a…)` (first) / `(f a… x)` (last);
    `x`, `f` ↦ `(f x)` -/
def threadStep (first : Bool) (x form : Val) : Val :=
  match form with
  | .cons _ fh fargs => if first then .cons 0 fh (.cons 0 x fargs) else L (form.elems ++ [x])
  | atom => L [atom, x]

theorem threadForms_nil (first : Bool) (x : Val) : threadForms first x [] = pure x := rfl

theorem threadForms_cons_nil (first : Bool) (x form : Val) (more : List Val)
    (h : form.isNil = true) : threadForms first x (form :: more) = pure x := by
  rw [threadForms]; simp [h]

theorem threadForms_cons (first : Bool) (x form : Val) (more : List Val)
    (h : form.isNil = false) :
    threadForms first x (form :: more) =
      threadStepM first x form >>= fun s => threadForms first s more := by
  rw [threadForms]
  simp only [h, Bool.false_eq_true, if_false]
  cases form <;> simp only [threadStepM, bind_assoc, ite_bind']

/-- a form the threading step accepts: `->>` cannot append to a dotted form -/
def ThreadOK (first : Bool) (form : Val) : Prop :=
  first = true ∨ form.isCons = false ∨ form.spine.2 = .nil

theorem run_threadStepM (first : Bool) (x form : Val) (hok : ThreadOK first form) (c : Ctx) :
    Run (threadStepM first x form) c (fun v _ => eraseIds v = eraseIds (threadStep first x form)) := by
  cases form with
  | cons i fh fargs =>
    cases first with
    | true =>
      simp only [threadStepM, threadStep, if_true]
      refine Run.seq (run_deepCopy _ c) fun cp c1 _ ⟨hcp, _⟩ => ?_
      refine Run.seq (run_mkCons _ _ c1) fun _ c2 _ ⟨j, e⟩ => ?_; subst e
      refine (run_mkCons _ _ c2).mono fun _ c3 _ ⟨j, e⟩ => ?_; subst e
      intro _ _
      simp [hcp]
    | false =>
      have hp : (Val.cons i fh fargs).spine.2 = .nil := by
        rcases hok with h | h | h
        · cases h
        · cases h
        · exact h
      simp only [threadStepM, threadStep, Bool.false_eq_true, if_false]
      rw [append_eq_pure _ _ rfl rfl, pure_bind, hp, push_eq_pure _ _ rfl, pure_bind]
      refine (run_mkListM' _ _ c : Run (Acc.build _) c _).mono fun v _ _ ⟨hv, _⟩ => ?_
      rw [hv]
      simp [spine_fst, eraseIds_listTl]
  | _ =>
    simp only [threadStepM, threadStep]
    refine (run_mkListM' _ _ c).mono fun v _ _ ⟨hv, _⟩ => ?_
    rw [hv]; rfl

theorem elems_eraseIds (v : Val) : (eraseIds v).elems = v.elems.map eraseIds := by
  induction v <;> simp_all [Val.elems, eraseIds]

theorem eraseIds_threadStep (first : Bool) (x form : Val) :
    eraseIds (threadStep first x form) = threadStep first (eraseIds x) (eraseIds form) := by
  cases form <;> cases first <;>
    simp [threadStep, eraseIds, eraseIds_listTl, elems_eraseIds, Val.elems]

theorem eraseIds_foldl_threadStep (first : Bool) (forms : List Val) {a b : Val}
    (h : eraseIds a = eraseIds b) :
    eraseIds (forms.foldl (threadStep first) a) = eraseIds (forms.foldl (threadStep first) b) := by
  induction forms generalizing a b with
  | nil => exact h
  | cons f fs ih =>
    simp only [List.foldl_cons]
    exact ih (by rw [eraseIds_threadStep, eraseIds_threadStep, h])

/-- the forms that take part in the threading: those before the first `nil` form -/
def activeForms (forms : List Val) : List Val := forms.takeWhile (fun f => !f.isNil)

/-- `threadForms` is the left fold of the threading step -/
theorem run_threadForms (first : Bool) (x : Val) (forms : List Val)
    (hok : ∀ f ∈ activeForms forms, ThreadOK first f) (c : Ctx) :
    Run (threadForms first x forms) c (fun v _ =>
      eraseIds v = eraseIds ((activeForms forms).foldl (threadStep first) x)) := by
  induction forms generalizing x c with
  | nil => exact Run.pure rfl
  | cons f fs ih =>
    cases hf : f.isNil
    · rw [threadForms_cons _ _ _ _ hf]
      have hact : activeForms (f :: fs) = f :: activeForms fs := by
        simp [activeForms, List.takeWhile, hf]
      rw [hact] at hok ⊢
      refine Run.seq (run_threadStepM first x f (hok f (by simp)) c) fun s c1 _ hs => ?_
      refine (ih s (fun g hg => hok g (by simp [hg])) c1).mono fun v _ _ hv => ?_
      intro _
      rw [hv, List.foldl_cons]
      exact eraseIds_foldl_threadStep first _ hs
    · rw [threadForms_cons_nil _ _ _ _ hf]
      have hact : activeForms (f :: fs) = [] := by
        simp [activeForms, List.takeWhile, hf]
      rw [hact]
      exact Run.pure rfl

/-- is `b` one of the four threading macros, and does it thread first? -/
def threadKind : Bi → Option Bool
  | .threadFirstArrow | .threadFirst => some true
  | .threadLastArrow | .threadLast => some false
  | _ => none

/-- `(-> x form…)` / `(->> x form…)` / `thread-first` / `thread-last` -/
theorem run_thread (b : Bi) (first : Bool) (hb : threadKind b = some first) (args : Val)
    (h : args.isList = true) (hp : (cdrD args).spine.2 = .nil)
    (hok : ∀ f ∈ activeForms (cdrD args).elems, ThreadOK first f) (c : Ctx) :
    Run (callMacro b args) c (fun v _ =>
      eraseIds v = eraseIds ((activeForms (cdrD args).elems).foldl (threadStep first) (carD args))) := by
  have key : callMacro b args = threadForms first (carD args) (cdrD args).elems := by
    cases b <;> simp only [threadKind] at hb <;> cases hb <;>
      simp [callMacro, carV_list h, cdrV_list h, hp, Val.isNil]
  rw [key]
  exact run_threadForms first _ _ hok c

/-! ## whatever the outcome, a built-in macro only allocates ids and symbols -/

/-- in every outcome (ok, error, …) the final context extends the initial one -/
def Grows {α} (m : M α) : Prop := ∀ c, Ext c (m c).2

theorem Grows.pure {α} (a : α) : Grows (pure a : M α) := fun c => Ext.refl c
theorem Grows.throw {α} (k : ErrKind) : Grows (M.throw k : M α) := fun c => Ext.refl c

theorem Grows.bind {α β} {m : M α} {f : α → M β} (hm : Grows m) (hf : ∀ a, Grows (f a)) :
    Grows (m >>= f) := by
  intro c
  show Ext c (M.bind m f c).2
  unfold M.bind
  have h1 := hm c
  rcases h : m c with ⟨r, c1⟩
  rw [h] at h1
  cases r with
  | ok a => exact h1.trans (hf a c1)
  | _ => exact h1

theorem Grows.ite {α} (p : Prop) [Decidable p] {a b : M α} (ha : Grows a) (hb : Grows b) :
    Grows (if p then a else b) := by
  split <;> assumption

theorem Grows.liftE {α} (e : E α) : Grows (liftE e) := by
  intro c; cases e <;> exact Ext.refl c

theorem Grows.symVal (name : String) : Grows (symVal name) := fun c => Ext.intern c name
theorem Grows.mkCons (a d : Val) : Grows (mkCons a d) := fun c => Ext.nextId c (Nat.le_succ _)
theorem Grows.mkListM (xs : List Val) (tl : Val) : Grows (mkListM xs tl) := fun c => by
  rw [mkListM_run]; exact Ext.nextId c (Nat.le_add_right _ _)
theorem Grows.build (a : Acc) : Grows a.build := Grows.mkListM _ _
theorem Grows.deepCopy (v : Val) : Grows (deepCopy v) := by
  cases v <;> first | exact Grows.pure _ | exact Grows.mkListM _ _
theorem Grows.nextForm (args : Val) : Grows (nextForm args) := by
  cases args <;> first | exact Grows.pure _ | exact Grows.throw _
theorem Grows.push (a : Acc) (x : Val) : Grows (a.push x) := by
  unfold Acc.push; split <;> first | exact Grows.pure _ | exact Grows.throw _
theorem Grows.append (a : Acc) (v : Val) : Grows (a.append v) := by
  unfold Acc.append
  split
  · exact Grows.throw _
  · split
    · exact Grows.pure _
    · exact Grows.pure _
    · split <;> exact Grows.pure _
theorem Grows.newSymS :
    Grows (fun c => let (n, c') := c.newSym { name := "s" }; (Res.ok (n, ()), c') : M (Nat × Unit)) :=
  fun c => Ext.newSym c _ rfl

/-- decompose a goal `Grows m` along the structure of `m` -/
macro "grows" : tactic => `(tactic| repeat' (with_reducible first
  | exact Grows.pure _ | exact Grows.throw _ | exact Grows.liftE _ | exact Grows.symVal _
  | exact Grows.mkCons _ _ | exact Grows.mkListM _ _ | exact Grows.deepCopy _
  | exact Grows.append _ _ | exact Grows.push _ _ | exact Grows.build _ | exact Grows.nextForm _
  | exact Grows.newSymS
  | refine Grows.bind ?_ (fun _ => ?_) | apply Grows.ite | split))

theorem grows_buildBinding (b prev : Val) : Grows (buildBinding b prev) := by
  unfold buildBinding
  grows

theorem grows_buildBindings (vl prev : Val) : Grows (buildBindings vl prev) := by
  induction vl generalizing prev with
  | cons i b rest _ ih =>
    rw [buildBindings]
    refine Grows.bind (grows_buildBinding b prev) fun p => ?_
    exact Grows.bind (ih _) fun _ => Grows.pure _
  | _ => exact Grows.pure _

theorem grows_prognOnRest (rest : Val) : Grows (prognOnRest rest) := by
  unfold prognOnRest
  grows

theorem grows_threadForms (first : Bool) (x : Val) (forms : List Val) :
    Grows (threadForms first x forms) := by
  induction forms generalizing x with
  | nil => exact Grows.pure _
  | cons f fs ih =>
    cases hf : f.isNil
    · rw [threadForms_cons _ _ _ _ hf]
      refine Grows.bind ?_ fun s => ih s
      unfold threadStepM
      grows
    · rw [threadForms_cons_nil _ _ _ _ hf]; exact Grows.pure _

macro "grows1" : tactic => `(tactic| repeat' (with_reducible first
  | exact grows_buildBindings _ _ | exact grows_prognOnRest _ | exact grows_threadForms _ _ _
  | exact Grows.pure _ | exact Grows.throw _ | exact Grows.liftE _ | exact Grows.symVal _
  | exact Grows.mkCons _ _ | exact Grows.mkListM _ _ | exact Grows.deepCopy _
  | exact Grows.append _ _ | exact Grows.push _ _ | exact Grows.build _ | exact Grows.nextForm _
  | refine Grows.bind ?_ (fun _ => ?_) | apply Grows.ite | split))

/-- `callMacro` can only allocate cell ids, intern names and create unbound symbols — whatever
    the arguments and whatever the outcome -/
theorem grows_callMacro (b : Bi) (args : Val) : Grows (callMacro b args) := by
  by_cases hm : b.isMacro = true
  · cases b <;> simp only [Bi.isMacro, Bool.false_eq_true] at hm
    all_goals (simp only [_root_.Tulisp.callMacro]; grows1)
  · have : callMacro b args = M.throw .undefined := by
      cases b <;> first | rfl | simp [Bi.isMacro] at hm
    rw [this]; exact Grows.throw _

end Tulisp.C06
