/-
  Proofs/C11Mono.lean — the allocation counter never decreases, for the WHOLE evaluator:
  if the evaluator / macro expander / loader of the next smaller depth are monotone
  (`MonoRec3 r`), so are `evalStep r`, `mexpStep r`, `loadFile r`; hence `Rec.ofDepth d` is
  monotone for every depth `d` (`monoRec3_ofDepth`).  This discharges the hypothesis `MonoRec r`
  / `RecMono r` of the freshness theorems of C07 and C11 for the actual evaluator.
-/
import Tulisp.Proofs.C11
import Tulisp.Proofs.C05
import Tulisp.Model.Load
set_option linter.constructorNameAsVariable false
set_option linter.unusedVariables false
namespace Tulisp.C11
open Tulisp Tulisp.Fresh

structure MonoRec3 (r : Rec) : Prop where
  eval : ∀ v, MonoM (r.eval v)
  mexp : ∀ v, MonoM (r.mexp v)
  load : ∀ s, MonoM (r.load s)

theorem MonoRec3.toMonoRec {r : Rec} (h : MonoRec3 r) : MonoRec r := ⟨h.eval, h.mexp⟩

theorem monoM_of_state {α} (m : M α) (h : ∀ c, (m c).2.nextId = c.nextId) : MonoM m :=
  fun c => by rw [h c]; exact Nat.le_refl _

theorem monoM_liftE {α} (e : E α) : MonoM (liftE e) := (IdOnly.liftE e).mono
theorem monoM_get : MonoM M.get := IdOnly.get.mono
theorem monoM_outOfFuel {α} : MonoM (M.outOfFuel : M α) := fun _ => Nat.le_refl _
theorem monoM_panicAt {α} (s : String) : MonoM (M.panicAt s : M α) := fun _ => Nat.le_refl _

theorem monoM_onFail {α} {m : M α} (hm : MonoM m) (cleanup : Ctx → Ctx)
    (hc : ∀ c, (cleanup c).nextId = c.nextId) : MonoM (onFail m cleanup) := by
  intro c
  have := hm c
  unfold onFail
  rcases h : m c with ⟨res, c1⟩
  rw [h] at this
  cases res <;> simp only <;> first | exact this | (rw [hc]; exact this)

theorem notConstant_state (n : Nat) (c : Ctx) : (notConstant n c).2 = c := by
  unfold notConstant; split <;> rfl

theorem monoM_symOp (n : Nat) (f : SymSt → SymSt) :
    MonoM (do notConstant n; M.modify (·.modSym n f)) := by
  intro c
  by_cases hc : (c.symD n).constant = true
  · have : notConstant n c = (.err .undefined, c) := by simp [notConstant, hc]
    rw [C12.bind_err _ this]; exact Nat.le_refl _
  · have : notConstant n c = (.ok (), c) := by simp [notConstant, hc]
    rw [C12.bind_ok _ this]; exact Nat.le_refl _

theorem monoM_setV (target v : Val) : MonoM (setV target v) := by
  cases target <;> first | exact monoM_symOp _ _ | exact MonoM.throw _
theorem monoM_setGlobalV (target v : Val) : MonoM (setGlobalV target v) := by
  cases target <;> first | exact monoM_symOp _ _ | exact MonoM.throw _
theorem monoM_pushV (target v : Val) : MonoM (pushV target v) := by
  cases target <;> first | exact monoM_symOp _ _ | exact MonoM.throw _
theorem monoM_popV (target : Val) : MonoM (popV target) := by
  cases target with
  | sym n =>
    intro c
    simp only [popV]
    split <;> exact Nat.le_refl _
  | _ => exact MonoM.throw _
theorem monoM_getSym (n : Nat) : MonoM (getSym n) := by
  intro c
  unfold getSym
  simp only
  split
  · exact Nat.le_refl _
  · split <;> exact Nat.le_refl _
theorem monoM_internM (s : String) : MonoM (internM s) := by
  intro c
  unfold internM Ctx.intern
  simp only
  split <;> exact Nat.le_refl _
theorem monoM_symVal (s : String) : MonoM (symVal s) :=
  MonoM.bind (monoM_internM s) (fun _ => MonoM.pure _)
theorem monoM_nextForm (args : Val) : MonoM (nextForm args) := by
  cases args <;> first | exact MonoM.pure _ | exact MonoM.throw _
theorem monoM_intOf (v : Val) : MonoM (intOf v) := (monoM_iff _).2 (pres_intOf leId_stRel v)
theorem monoM_strOf (v : Val) : MonoM (strOf v) := (monoM_iff _).2 (pres_strOf leId_stRel v)
theorem monoM_numOf (v : Val) : MonoM (numOf v) := (monoM_iff _).2 (pres_numOf leId_stRel v)
theorem monoM_printOrSkip (o : Option String) : MonoM (printOrSkip o) :=
  (monoM_iff _).2 (pres_printOrSkip leId_stRel o)
theorem monoM_formatLoop (c0 : Ctx) (cs : List Char) (args : List Val) (out : String) :
    MonoM (formatLoop c0 cs args out) := (monoM_iff _).2 (pres_formatLoop leId_stRel c0 cs args out)
theorem monoM_liftNum (e : Except NumErr Num) : MonoM (liftNum e) := by
  unfold liftNum
  split <;> first | exact MonoM.pure _ | exact MonoM.throw _
theorem monoM_arithV (op : ArithOp) (a b : Val) : MonoM (arithV op a b) :=
  MonoM.bind (monoM_numOf a) (fun _ => MonoM.bind (monoM_numOf b) (fun _ => monoM_liftNum _))
theorem monoM_maxMinV (isMax : Bool) (a b : Val) : MonoM (maxMinV isMax a b) :=
  MonoM.bind (monoM_numOf a) (fun _ => MonoM.bind (monoM_numOf b) (fun _ => MonoM.pure _))
theorem monoM_cmpChain (op : CmpOp) (vals : List Val) : MonoM (cmpChain op vals) := by
  unfold cmpChain
  split <;> first | exact MonoM.pure _ | exact MonoM.throw _
theorem monoM_foldVals (method : Val → Val → M Val) (hm : ∀ a b, MonoM (method a b)) (acc : Val)
    (vs : List Val) : MonoM (foldVals method acc vs) := by
  induction vs generalizing acc with
  | nil => exact MonoM.pure _
  | cons v vs ih => exact MonoM.bind (hm acc v) (fun a => ih a)
theorem monoM_quoteArgs (vals : List Val) : MonoM (quoteArgs vals) := (IdOnly.mkListM _ _).mono

/-- closing lemmas that do not depend on the evaluator -/
macro "mono_close" : tactic => `(tactic| first
  | exact MonoM.pure _
  | exact MonoM.throw _
  | exact monoM_liftE _
  | exact monoM_get
  | exact monoM_outOfFuel
  | exact monoM_panicAt _
  | exact (IdOnly.newId).mono
  | exact (IdOnly.mkCons _ _).mono
  | exact (IdOnly.mkStr _).mono
  | exact (IdOnly.mkListM _ _).mono
  | exact (IdOnly.deepCopy _).mono
  | exact (IdOnly.build _).mono
  | exact (IdOnly.push _ _).mono
  | exact (IdOnly.append _ _).mono
  | exact monoM_setV _ _
  | exact monoM_setGlobalV _ _
  | exact monoM_pushV _ _
  | exact monoM_popV _
  | exact monoM_getSym _
  | exact monoM_internM _
  | exact monoM_symVal _
  | exact monoM_nextForm _
  | exact monoM_intOf _
  | exact monoM_strOf _
  | exact monoM_numOf _
  | exact monoM_printOrSkip _
  | exact monoM_formatLoop _ _ _ _
  | exact monoM_liftNum _
  | exact monoM_arithV _ _ _
  | exact monoM_maxMinV _ _ _
  | exact monoM_cmpChain _ _
  | exact monoM_quoteArgs _
  | assumption
  | (apply_assumption; done))

macro "mono" : tactic => `(tactic| repeat' (first
  | with_reducible mono_close
  | with_reducible refine MonoM.bind ?_ (fun _ => ?_)
  | with_reducible refine monoM_finally ?_ _ (fun c => foldl_popSymCtx_nextId _ c)
  | with_reducible refine monoM_finally ?_ _ (fun c => popSymCtx_nextId c _)
  | split
  | dsimp only
  | exact monoM_of_state _ (fun _ => rfl)))



section
variable {r : Rec} (hr : MonoRec3 r)
include hr

theorem monoM_nextArg (args : Val) : MonoM (nextArg r args) :=
  (monoM_iff _).2 (pres_nextArg leId_stRel r hr.eval args)
theorem monoM_nextArgOpt (args : Val) : MonoM (nextArgOpt r args) :=
  (monoM_iff _).2 (pres_nextArgOpt leId_stRel r hr.eval args)
theorem monoM_evalEach (args : Val) : MonoM (evalEach r args) :=
  (monoM_iff _).2 (pres_evalEach leId_stRel r hr.eval args)
theorem monoM_evalProgn (body : Val) : MonoM (evalProgn r body) :=
  (monoM_iff _).2 (pres_evalProgn leId_stRel r hr.eval body)

theorem monoM_condLoop (v : Val) : MonoM (callBuiltin.condLoop r v) := by
  have h1 := hr.eval
  have h2 := monoM_evalProgn hr
  fun_induction callBuiltin.condLoop r v
  all_goals mono

theorem monoM_andLoop (v last : Val) : MonoM (callBuiltin.andLoop r v last) := by
  have h1 := hr.eval
  fun_induction callBuiltin.andLoop r v last
  all_goals mono

theorem monoM_orLoop (v : Val) : MonoM (callBuiltin.orLoop r v) := by
  have h1 := hr.eval
  fun_induction callBuiltin.orLoop r v
  all_goals mono

theorem monoM_whileLoop (cond body : Val) (k : Nat) : MonoM (whileLoop r cond body k) := by
  have h1 := hr.eval
  have h2 := monoM_evalProgn hr
  fun_induction whileLoop r cond body k
  all_goals mono

omit hr in
theorem monoM_modifySet (n : Nat) (f : SymSt → SymSt) : MonoM (M.modify (·.modSym n f)) :=
  fun _ => Nat.le_refl _

theorem monoM_dolistLoop (var : Nat) (body l : Val) : MonoM (dolistLoop r var body l) := by
  have h2 := monoM_evalProgn hr
  have h3 := monoM_modifySet
  fun_induction dolistLoop r var body l
  all_goals mono

theorem monoM_dotimesLoop (var : Nat) (body : Val) (count : Int) (k : Nat) (i : Int) :
    MonoM (dotimesLoop r var body count k i) := by
  have h2 := monoM_evalProgn hr
  have h3 := monoM_modifySet
  fun_induction dotimesLoop r var body count k i
  all_goals mono

theorem monoM_applyVals (f vals : Val) : MonoM (callBuiltin.applyVals r f vals) :=
  monoM_funcallVal r hr.toMonoRec false f vals

theorem monoM_reduceVals (f acc : Val) (xs : List Val) :
    MonoM (callBuiltin.reduceVals r f acc xs) := by
  have h1 := monoM_applyVals hr
  fun_induction callBuiltin.reduceVals r f acc xs
  all_goals mono

theorem monoM_findVals (f dflt : Val) (xs : List Val) :
    MonoM (callBuiltin.findVals r f dflt xs) := by
  have h1 := monoM_applyVals hr
  fun_induction callBuiltin.findVals r f dflt xs
  all_goals mono

theorem monoM_assocLoop (p key l : Val) : MonoM (callBuiltin.assocLoop r p key l) := by
  have h1 := monoM_applyVals hr
  fun_induction callBuiltin.assocLoop r p key l
  all_goals mono

theorem monoM_assocM (key alist testfn : Val) : MonoM (callBuiltin.assocM r key alist testfn) := by
  have h1 := hr.eval
  have h2 := monoM_assocLoop hr
  unfold callBuiltin.assocM
  mono

theorem monoM_reduceRest (method : Val → Val → M Val) (hm : ∀ a b, MonoM (method a b))
    (acc args : Val) : MonoM (reduceRest r method acc args) := by
  have h1 := hr.eval
  fun_induction reduceRest r method acc args
  all_goals mono

theorem monoM_reduceWith (method : Val → Val → M Val) (hm : ∀ a b, MonoM (method a b))
    (args : Val) : MonoM (reduceWith r method args) := by
  have h1 := hr.eval
  have h2 := monoM_reduceRest hr method hm
  unfold reduceWith
  mono

theorem monoM_letBind (varlist : Val) (done : List Nat) : MonoM (letBind r varlist done) := by
  have hof : ∀ {α} (m : M α) (d : List Nat), MonoM m →
      MonoM (onFail m (fun c => d.foldl popSymCtx c)) :=
    fun m d hm => monoM_onFail hm _ (fun c => foldl_popSymCtx_nextId d c)
  fun_induction letBind r varlist done with
  | case1 _ _ _ _ _ ih => exact MonoM.bind (hof _ _ (monoM_pushV _ _)) (fun _ => ih)
  | case2 => exact hof _ _ (MonoM.throw _)
  | case3 => exact hof _ _ (MonoM.throw _)
  | case4 => exact hof _ _ (MonoM.throw _)
  | case5 _ _ _ _ _ _ _ _ _ _ _ _ _ _ ih2 ih1 =>
    refine MonoM.bind (hof _ _ (hr.eval _)) (fun v => MonoM.bind (hof _ _ (monoM_pushV _ _))
      (fun _ => ?_))
    split
    · exact ih2 _
    · exact ih1
  | case6 => exact hof _ _ (MonoM.throw _)
  | case7 => exact MonoM.pure _

omit hr in
theorem monoM_captureSymbol (excl : List Nat) (n : Nat) (cap : Captured) :
    MonoM (captureSymbol excl n cap) := by
  intro c
  unfold captureSymbol
  simp only
  repeat' split
  all_goals exact Nat.le_refl _

omit hr in
theorem monoM_capture (excl : List Nat) (v : Val) :
    (∀ cap, MonoM (captureVars excl v cap)) ∧ (∀ acc cap, MonoM (captureRest excl v acc cap)) := by
  have hs := monoM_captureSymbol excl
  induction v with
  | cons i a d iha ihd =>
    have h1 := iha.1
    have h2 := ihd.2
    constructor
    · intro cap; rw [C05.captureVars_cons]; mono
    · intro acc cap; rw [C05.captureRest_cons]; mono
  | sym n =>
    constructor
    · intro cap; rw [C05.captureVars_sym]; exact hs n cap
    · intro acc cap; rw [C05.captureRest_sym]; mono
  | quote v ih =>
    have h1 := ih.1
    constructor
    · intro cap; rw [C05.captureVars_quote]; mono
    · intro acc cap; rw [C05.captureRest_quote]; mono
  | backquote v ih =>
    have h1 := ih.1
    constructor
    · intro cap; rw [C05.captureVars_backquote]; mono
    · intro acc cap; rw [C05.captureRest_backquote]; mono
  | unquote v ih =>
    have h1 := ih.1
    constructor
    · intro cap; rw [C05.captureVars_unquote]; mono
    · intro acc cap; rw [C05.captureRest_unquote]; mono
  | splice v ih =>
    have h1 := ih.1
    constructor
    · intro cap; rw [C05.captureVars_splice]; mono
    · intro acc cap; rw [C05.captureRest_splice]; mono
  | nil =>
    constructor
    · intro cap; rw [C05.captureVars_plain excl _ rfl]; mono
    · intro acc cap; rw [C05.captureRest_nil]; mono
  | _ =>
    constructor
    · intro cap; rw [C05.captureVars_plain excl _ rfl]; mono
    · intro acc cap; rw [C05.captureRest_plain excl _ rfl (by intro h; cases h)]; mono

omit hr in
theorem monoM_mark (fname : Nat) (fuel : Nat) :
    (∀ v, MonoM (markTailCalls fname fuel v)) ∧ (∀ v, MonoM (markClauses fname fuel v)) := by
  induction fuel with
  | zero =>
    constructor
    · intro v; unfold markTailCalls; exact monoM_outOfFuel
    · intro v; unfold markClauses; exact monoM_outOfFuel
  | succ k ih =>
    have h1 := ih.1
    have h2 := ih.2
    constructor
    · intro v
      cases v with
      | cons i a d => rw [markTailCalls]; mono
      | _ => simp only [markTailCalls]; exact MonoM.pure _
    · intro v
      cases v with
      | cons i a d => cases a <;> (simp only [markClauses]; mono)
      | _ => simp only [markClauses]; exact MonoM.pure _

omit hr in
theorem monoM_stripDoc (rest : Val) : MonoM (callBuiltin.stripDoc rest) := by
  unfold callBuiltin.stripDoc
  mono

omit hr in
theorem monoM_concatGo (vs : List Val) (acc : String) : MonoM (callBuiltin.go vs acc) := by
  induction vs generalizing acc with
  | nil => exact MonoM.pure _
  | cons v vs ih => exact MonoM.bind (monoM_strOf v) (fun _ => ih _)

omit hr in
theorem monoM_tick (v : Val) : MonoM (fun c : Ctx =>
    let n : Int := match v with | .int n => n | _ => -1
    let c' := { c with ticks := n :: c.ticks, tickCount := c.tickCount + 1 }
    if c'.failAt != 0 && c'.tickCount == c'.failAt then ((.err .undefined : Res Val), c')
    else (.ok v, c')) := by
  intro c
  dsimp only
  split <;> exact Nat.le_refl _

omit hr in
theorem monoM_makeSymbolM (name : String) : MonoM (callBuiltin.makeSymbolM name) := by
  intro c
  unfold callBuiltin.makeSymbolM Ctx.newSym
  exact Nat.le_refl _

set_option hygiene false in
/-- the facts about the helpers of `callBuiltin` that `mono` uses, as local hypotheses
    (expects `r` and `hr : MonoRec3 r` in scope) -/
macro "mono_env" : tactic => `(tactic| (
  have e1 := hr.eval
  have e2 := hr.mexp
  have e3 := hr.load
  have a1 := monoM_nextArg hr
  have a2 := monoM_nextArgOpt hr
  have a3 := monoM_evalEach hr
  have a4 := monoM_evalProgn hr
  have l1 := monoM_condLoop hr
  have l2 := monoM_andLoop hr
  have l3 := monoM_orLoop hr
  have l4 := monoM_whileLoop hr
  have l5 := monoM_dolistLoop hr
  have l6 := monoM_dotimesLoop hr
  have l7 := monoM_reduceVals hr
  have l8 := monoM_findVals hr
  have l9 := monoM_assocM hr
  have l10 := monoM_letBind hr
  have l11 := monoM_mapVals r hr.toMonoRec
  have l12 := monoM_filterVals r hr.toMonoRec
  have l13 := monoM_sortM r hr.toMonoRec
  have l14 := monoM_funcallVal r hr.toMonoRec
  have l15 : ∀ f k v, MonoM (markTailCalls f k v) := fun f k v => (monoM_mark f k).1 v
  have l16 : ∀ e v cap, MonoM (captureVars e v cap) := fun e v cap => (monoM_capture e v).1 cap
  have l17 := monoM_stripDoc
  have l18 := monoM_concatGo
  have r1 := fun op => monoM_reduceWith hr (arithV op) (monoM_arithV op)
  have r2 := fun b => monoM_reduceWith hr (maxMinV b) (monoM_maxMinV b)
  have r3 := fun op => monoM_foldVals (arithV op) (monoM_arithV op)
  have l19 := monoM_makeSymbolM))

theorem monoM_cb_if_ (args : Val) : MonoM (callBuiltin r .if_ args) := by
  mono_env
  unfold callBuiltin; simp only; mono

theorem monoM_cb_cond_ (args : Val) : MonoM (callBuiltin r .cond_ args) := by
  mono_env
  unfold callBuiltin; simp only; mono

theorem monoM_cb_setq (args : Val) : MonoM (callBuiltin r .setq args) := by
  mono_env
  unfold callBuiltin; simp only; mono

theorem monoM_cb_set_ (args : Val) : MonoM (callBuiltin r .set_ args) := by
  mono_env
  unfold callBuiltin; simp only; mono

theorem monoM_cb_cons_ (args : Val) : MonoM (callBuiltin r .cons_ args) := by
  mono_env
  unfold callBuiltin; simp only; mono

theorem monoM_cb_dolist (args : Val) : MonoM (callBuiltin r .dolist args) := by
  mono_env
  unfold callBuiltin; simp only; mono

theorem monoM_cb_dotimes (args : Val) : MonoM (callBuiltin r .dotimes args) := by
  mono_env
  unfold callBuiltin; simp only; mono

theorem monoM_cb_list_ (args : Val) : MonoM (callBuiltin r .list_ args) := by
  mono_env
  unfold callBuiltin; simp only; mono

theorem monoM_cb_consp (args : Val) : MonoM (callBuiltin r .consp args) := by
  mono_env
  unfold callBuiltin; simp only; mono

theorem monoM_cb_listp (args : Val) : MonoM (callBuiltin r .listp args) := by
  mono_env
  unfold callBuiltin; simp only; mono

theorem monoM_cb_floatp (args : Val) : MonoM (callBuiltin r .floatp args) := by
  mono_env
  unfold callBuiltin; simp only; mono

theorem monoM_cb_integerp (args : Val) : MonoM (callBuiltin r .integerp args) := by
  mono_env
  unfold callBuiltin; simp only; mono

theorem monoM_cb_numberp (args : Val) : MonoM (callBuiltin r .numberp args) := by
  mono_env
  unfold callBuiltin; simp only; mono

theorem monoM_cb_stringp (args : Val) : MonoM (callBuiltin r .stringp args) := by
  mono_env
  unfold callBuiltin; simp only; mono

theorem monoM_cb_symbolp (args : Val) : MonoM (callBuiltin r .symbolp args) := by
  mono_env
  unfold callBuiltin; simp only; mono

theorem monoM_cb_boundp (args : Val) : MonoM (callBuiltin r .boundp args) := by
  mono_env
  unfold callBuiltin; simp only; mono

theorem monoM_cb_keywordp (args : Val) : MonoM (callBuiltin r .keywordp args) := by
  mono_env
  unfold callBuiltin; simp only; mono

theorem monoM_cb_add (args : Val) : MonoM (callBuiltin r .add args) := by
  mono_env
  unfold callBuiltin; simp only; mono

theorem monoM_cb_sub (args : Val) : MonoM (callBuiltin r .sub args) := by
  mono_env
  unfold callBuiltin; simp only; mono

theorem monoM_cb_mul (args : Val) : MonoM (callBuiltin r .mul args) := by
  mono_env
  unfold callBuiltin; simp only; mono

theorem monoM_cb_div (args : Val) : MonoM (callBuiltin r .div args) := by
  mono_env
  unfold callBuiltin; simp only; mono

theorem monoM_cb_gt (args : Val) : MonoM (callBuiltin r .gt args) := by
  mono_env
  unfold callBuiltin; simp only; mono

theorem monoM_cb_ge (args : Val) : MonoM (callBuiltin r .ge args) := by
  mono_env
  unfold callBuiltin; simp only; mono

theorem monoM_cb_lt (args : Val) : MonoM (callBuiltin r .lt args) := by
  mono_env
  unfold callBuiltin; simp only; mono

theorem monoM_cb_le (args : Val) : MonoM (callBuiltin r .le args) := by
  mono_env
  unfold callBuiltin; simp only; mono

theorem monoM_cb_max_ (args : Val) : MonoM (callBuiltin r .max_ args) := by
  mono_env
  unfold callBuiltin; simp only; mono

theorem monoM_cb_min_ (args : Val) : MonoM (callBuiltin r .min_ args) := by
  mono_env
  unfold callBuiltin; simp only; mono

theorem monoM_cb_fround (args : Val) : MonoM (callBuiltin r .fround args) := by
  mono_env
  unfold callBuiltin; simp only; mono

theorem monoM_cb_ftruncate (args : Val) : MonoM (callBuiltin r .ftruncate args) := by
  mono_env
  unfold callBuiltin; simp only; mono

theorem monoM_cb_stringLt (args : Val) : MonoM (callBuiltin r .stringLt args) := by
  mono_env
  unfold callBuiltin; simp only; mono

theorem monoM_cb_stringGt (args : Val) : MonoM (callBuiltin r .stringGt args) := by
  mono_env
  unfold callBuiltin; simp only; mono

theorem monoM_cb_stringEq (args : Val) : MonoM (callBuiltin r .stringEq args) := by
  mono_env
  unfold callBuiltin; simp only; mono

theorem monoM_cb_stringLessp (args : Val) : MonoM (callBuiltin r .stringLessp args) := by
  mono_env
  unfold callBuiltin; simp only; mono

theorem monoM_cb_stringGreaterp (args : Val) : MonoM (callBuiltin r .stringGreaterp args) := by
  mono_env
  unfold callBuiltin; simp only; mono

theorem monoM_cb_stringEqual (args : Val) : MonoM (callBuiltin r .stringEqual args) := by
  mono_env
  unfold callBuiltin; simp only; mono

theorem monoM_cb_tick (args : Val) : MonoM (callBuiltin r .tick args) := by
  mono_env
  unfold callBuiltin; simp only
  exact MonoM.bind (monoM_liftE _) (fun _ => MonoM.bind (e1 _) (fun v => monoM_tick v))

theorem monoM_cb_probe (args : Val) : MonoM (callBuiltin r .probe args) := by
  mono_env
  unfold callBuiltin; simp only; mono

theorem monoM_cb_load_ (args : Val) : MonoM (callBuiltin r .load_ args) := by
  mono_env
  unfold callBuiltin; simp only; mono

theorem monoM_cb_intern_ (args : Val) : MonoM (callBuiltin r .intern_ args) := by
  mono_env
  unfold callBuiltin; simp only; mono

theorem monoM_cb_makeSymbol (args : Val) : MonoM (callBuiltin r .makeSymbol args) := by
  mono_env
  unfold callBuiltin; simp only; mono

omit hr in
theorem monoM_gensymTail (pfx : String) : MonoM (do
    let cn ← internM "gensym-counter"
    let c ← M.get
    let count : Int := match (c.symD cn).get with | some (.int n) => n | _ => 0
    if !inI64 (count + 1) then M.throw .outOfRange
    else do
      setV (.sym cn) (.int (count + 1))
      callBuiltin.makeSymbolM (pfx ++ toString count)) := by
  refine MonoM.bind (monoM_internM _) (fun cn => MonoM.bind monoM_get (fun c => ?_))
  dsimp only
  generalize (match (c.symD cn).get with | some (.int n) => n | _ => (0 : Int)) = count
  split
  · exact MonoM.throw _
  · exact MonoM.bind (monoM_setV _ _) (fun _ => monoM_makeSymbolM _)

theorem monoM_cb_gensym (args : Val) : MonoM (callBuiltin r .gensym args) := by
  unfold callBuiltin
  simp only
  refine MonoM.bind (monoM_nextArgOpt hr _) (fun p => ?_)
  split
  · exact MonoM.bind (MonoM.pure _) (fun pfx => monoM_gensymTail pfx)
  · exact MonoM.bind (monoM_strOf _) (fun pfx => monoM_gensymTail pfx)

theorem monoM_cb_expt (args : Val) : MonoM (callBuiltin r .expt args) := by
  mono_env
  unfold callBuiltin; simp only; mono

theorem monoM_cb_concat_ (args : Val) : MonoM (callBuiltin r .concat_ args) := by
  mono_env
  unfold callBuiltin; simp only; mono

theorem monoM_cb_format_ (args : Val) : MonoM (callBuiltin r .format_ args) := by
  mono_env
  unfold callBuiltin; simp only; mono

theorem monoM_cb_print_ (args : Val) : MonoM (callBuiltin r .print_ args) := by
  mono_env
  unfold callBuiltin; simp only; mono

theorem monoM_cb_prin1ToString (args : Val) : MonoM (callBuiltin r .prin1ToString args) := by
  mono_env
  unfold callBuiltin; simp only; mono

theorem monoM_cb_princ (args : Val) : MonoM (callBuiltin r .princ args) := by
  mono_env
  unfold callBuiltin; simp only; mono

theorem monoM_cb_while_ (args : Val) : MonoM (callBuiltin r .while_ args) := by
  mono_env
  unfold callBuiltin; simp only; mono

theorem monoM_cb_let_ (args : Val) : MonoM (callBuiltin r .let_ args) := by
  mono_env
  unfold callBuiltin; simp only; mono

theorem monoM_cb_letStar (args : Val) : MonoM (callBuiltin r .letStar args) := by
  mono_env
  unfold callBuiltin; simp only; mono

theorem monoM_cb_progn_ (args : Val) : MonoM (callBuiltin r .progn_ args) := by
  mono_env
  unfold callBuiltin; simp only; mono

theorem monoM_cb_defun (args : Val) : MonoM (callBuiltin r .defun args) := by
  mono_env
  unfold callBuiltin; simp only; mono

theorem monoM_cb_lambda_ (args : Val) : MonoM (callBuiltin r .lambda_ args) := by
  mono_env
  unfold callBuiltin; simp only; mono

theorem monoM_cb_defmacro (args : Val) : MonoM (callBuiltin r .defmacro args) := by
  mono_env
  unfold callBuiltin; simp only; mono

theorem monoM_cb_null_ (args : Val) : MonoM (callBuiltin r .null_ args) := by
  mono_env
  unfold callBuiltin; simp only; mono

theorem monoM_cb_eval_ (args : Val) : MonoM (callBuiltin r .eval_ args) := by
  mono_env
  unfold callBuiltin; simp only; mono

theorem monoM_cb_funcall (args : Val) : MonoM (callBuiltin r .funcall args) := by
  mono_env
  unfold callBuiltin; simp only; mono

theorem monoM_cb_macroexpand (args : Val) : MonoM (callBuiltin r .macroexpand args) := by
  mono_env
  unfold callBuiltin; simp only; mono

theorem monoM_cb_append_ (args : Val) : MonoM (callBuiltin r .append_ args) := by
  rw [C12.callBuiltin_append]
  refine MonoM.bind (monoM_nextArg hr args) (fun p => ?_)
  obtain ⟨first, rest⟩ := p
  exact MonoM.bind (monoM_evalEach hr rest)
    (fun others => (monoM_iff _).2 (pres_appendVals leId_stRel first others))

theorem monoM_cb_mapcar (args : Val) : MonoM (callBuiltin r .mapcar args) := by
  mono_env
  unfold callBuiltin; simp only; mono

theorem monoM_cb_assoc_ (args : Val) : MonoM (callBuiltin r .assoc_ args) := by
  mono_env
  unfold callBuiltin; simp only; mono

theorem monoM_cb_alistGet (args : Val) : MonoM (callBuiltin r .alistGet args) := by
  mono_env
  unfold callBuiltin; simp only; mono

theorem monoM_cb_plistGet (args : Val) : MonoM (callBuiltin r .plistGet args) := by
  mono_env
  unfold callBuiltin; simp only; mono

theorem monoM_cb_declare_ (args : Val) : MonoM (callBuiltin r .declare_ args) := by
  mono_env
  unfold callBuiltin; simp only; mono

theorem monoM_cb_not_ (args : Val) : MonoM (callBuiltin r .not_ args) := by
  mono_env
  unfold callBuiltin; simp only; mono

theorem monoM_cb_and_ (args : Val) : MonoM (callBuiltin r .and_ args) := by
  mono_env
  unfold callBuiltin; simp only; mono

theorem monoM_cb_or_ (args : Val) : MonoM (callBuiltin r .or_ args) := by
  mono_env
  unfold callBuiltin; simp only; mono

theorem monoM_cb_xor (args : Val) : MonoM (callBuiltin r .xor args) := by
  mono_env
  unfold callBuiltin; simp only; mono

theorem monoM_cb_inc (args : Val) : MonoM (callBuiltin r .inc args) := by
  mono_env
  unfold callBuiltin; simp only; mono

theorem monoM_cb_dec (args : Val) : MonoM (callBuiltin r .dec args) := by
  mono_env
  unfold callBuiltin; simp only; mono

theorem monoM_cb_mod_ (args : Val) : MonoM (callBuiltin r .mod_ args) := by
  mono_env
  unfold callBuiltin; simp only; mono

theorem monoM_cb_equal_ (args : Val) : MonoM (callBuiltin r .equal_ args) := by
  mono_env
  unfold callBuiltin; simp only; mono

theorem monoM_cb_eq_ (args : Val) : MonoM (callBuiltin r .eq_ args) := by
  mono_env
  unfold callBuiltin; simp only; mono

theorem monoM_cb_makeHashTable (args : Val) : MonoM (callBuiltin r .makeHashTable args) := by
  mono_env
  unfold callBuiltin; simp only; mono

theorem monoM_cb_gethash (args : Val) : MonoM (callBuiltin r .gethash args) := by
  mono_env
  unfold callBuiltin; simp only; mono

theorem monoM_cb_puthash (args : Val) : MonoM (callBuiltin r .puthash args) := by
  mono_env
  unfold callBuiltin; simp only; mono

theorem monoM_cb_nth_ (args : Val) : MonoM (callBuiltin r .nth_ args) := by
  mono_env
  unfold callBuiltin; simp only; mono

theorem monoM_cb_nthcdr (args : Val) : MonoM (callBuiltin r .nthcdr args) := by
  mono_env
  unfold callBuiltin; simp only; mono

theorem monoM_cb_last_ (args : Val) : MonoM (callBuiltin r .last_ args) := by
  mono_env
  unfold callBuiltin; simp only; mono

theorem monoM_cb_car (args : Val) : MonoM (callBuiltin r .car args) := by
  mono_env
  unfold callBuiltin; simp only; mono

theorem monoM_cb_cdr (args : Val) : MonoM (callBuiltin r .cdr args) := by
  mono_env
  unfold callBuiltin; simp only; mono

theorem monoM_cb_caar (args : Val) : MonoM (callBuiltin r .caar args) := by
  mono_env
  unfold callBuiltin; simp only; mono

theorem monoM_cb_cadr (args : Val) : MonoM (callBuiltin r .cadr args) := by
  mono_env
  unfold callBuiltin; simp only; mono

theorem monoM_cb_cdar (args : Val) : MonoM (callBuiltin r .cdar args) := by
  mono_env
  unfold callBuiltin; simp only; mono

theorem monoM_cb_cddr (args : Val) : MonoM (callBuiltin r .cddr args) := by
  mono_env
  unfold callBuiltin; simp only; mono

theorem monoM_cb_caaar (args : Val) : MonoM (callBuiltin r .caaar args) := by
  mono_env
  unfold callBuiltin; simp only; mono

theorem monoM_cb_caadr (args : Val) : MonoM (callBuiltin r .caadr args) := by
  mono_env
  unfold callBuiltin; simp only; mono

theorem monoM_cb_cadar (args : Val) : MonoM (callBuiltin r .cadar args) := by
  mono_env
  unfold callBuiltin; simp only; mono

theorem monoM_cb_caddr (args : Val) : MonoM (callBuiltin r .caddr args) := by
  mono_env
  unfold callBuiltin; simp only; mono

theorem monoM_cb_cdaar (args : Val) : MonoM (callBuiltin r .cdaar args) := by
  mono_env
  unfold callBuiltin; simp only; mono

theorem monoM_cb_cdadr (args : Val) : MonoM (callBuiltin r .cdadr args) := by
  mono_env
  unfold callBuiltin; simp only; mono

theorem monoM_cb_cddar (args : Val) : MonoM (callBuiltin r .cddar args) := by
  mono_env
  unfold callBuiltin; simp only; mono

theorem monoM_cb_cdddr (args : Val) : MonoM (callBuiltin r .cdddr args) := by
  mono_env
  unfold callBuiltin; simp only; mono

theorem monoM_cb_caaaar (args : Val) : MonoM (callBuiltin r .caaaar args) := by
  mono_env
  unfold callBuiltin; simp only; mono

theorem monoM_cb_caaadr (args : Val) : MonoM (callBuiltin r .caaadr args) := by
  mono_env
  unfold callBuiltin; simp only; mono

theorem monoM_cb_caadar (args : Val) : MonoM (callBuiltin r .caadar args) := by
  mono_env
  unfold callBuiltin; simp only; mono

theorem monoM_cb_caaddr (args : Val) : MonoM (callBuiltin r .caaddr args) := by
  mono_env
  unfold callBuiltin; simp only; mono

theorem monoM_cb_cadaar (args : Val) : MonoM (callBuiltin r .cadaar args) := by
  mono_env
  unfold callBuiltin; simp only; mono

theorem monoM_cb_cadadr (args : Val) : MonoM (callBuiltin r .cadadr args) := by
  mono_env
  unfold callBuiltin; simp only; mono

theorem monoM_cb_caddar (args : Val) : MonoM (callBuiltin r .caddar args) := by
  mono_env
  unfold callBuiltin; simp only; mono

theorem monoM_cb_cadddr (args : Val) : MonoM (callBuiltin r .cadddr args) := by
  mono_env
  unfold callBuiltin; simp only; mono

theorem monoM_cb_cdaaar (args : Val) : MonoM (callBuiltin r .cdaaar args) := by
  mono_env
  unfold callBuiltin; simp only; mono

theorem monoM_cb_cdaadr (args : Val) : MonoM (callBuiltin r .cdaadr args) := by
  mono_env
  unfold callBuiltin; simp only; mono

theorem monoM_cb_cdadar (args : Val) : MonoM (callBuiltin r .cdadar args) := by
  mono_env
  unfold callBuiltin; simp only; mono

theorem monoM_cb_cdaddr (args : Val) : MonoM (callBuiltin r .cdaddr args) := by
  mono_env
  unfold callBuiltin; simp only; mono

theorem monoM_cb_cddaar (args : Val) : MonoM (callBuiltin r .cddaar args) := by
  mono_env
  unfold callBuiltin; simp only; mono

theorem monoM_cb_cddadr (args : Val) : MonoM (callBuiltin r .cddadr args) := by
  mono_env
  unfold callBuiltin; simp only; mono

theorem monoM_cb_cdddar (args : Val) : MonoM (callBuiltin r .cdddar args) := by
  mono_env
  unfold callBuiltin; simp only; mono

theorem monoM_cb_cddddr (args : Val) : MonoM (callBuiltin r .cddddr args) := by
  mono_env
  unfold callBuiltin; simp only; mono

theorem monoM_cb_length_ (args : Val) : MonoM (callBuiltin r .length_ args) := by
  mono_env
  unfold callBuiltin; simp only; mono

theorem monoM_cb_seqMap (args : Val) : MonoM (callBuiltin r .seqMap args) := by
  mono_env
  unfold callBuiltin; simp only; mono

theorem monoM_cb_seqReduce (args : Val) : MonoM (callBuiltin r .seqReduce args) := by
  mono_env
  unfold callBuiltin; simp only; mono

theorem monoM_cb_seqFilter (args : Val) : MonoM (callBuiltin r .seqFilter args) := by
  mono_env
  unfold callBuiltin; simp only; mono

theorem monoM_cb_seqFind (args : Val) : MonoM (callBuiltin r .seqFind args) := by
  mono_env
  unfold callBuiltin; simp only; mono

theorem monoM_cb_sort_ (args : Val) : MonoM (callBuiltin r .sort_ args) := by
  mono_env
  unfold callBuiltin; simp only; mono

theorem monoM_cb_hTwo (args : Val) : MonoM (callBuiltin r .hTwo args) := by
  mono_env
  unfold callBuiltin; simp only; mono

theorem monoM_cb_hOpt (args : Val) : MonoM (callBuiltin r .hOpt args) := by
  mono_env
  unfold callBuiltin; simp only; mono

theorem monoM_cb_hRest (args : Val) : MonoM (callBuiltin r .hRest args) := by
  mono_env
  unfold callBuiltin; simp only; mono

theorem monoM_cb_hInt (args : Val) : MonoM (callBuiltin r .hInt args) := by
  mono_env
  unfold callBuiltin; simp only; mono

theorem monoM_cb_hFloat (args : Val) : MonoM (callBuiltin r .hFloat args) := by
  mono_env
  unfold callBuiltin; simp only; mono

theorem monoM_cb_hStr (args : Val) : MonoM (callBuiltin r .hStr args) := by
  mono_env
  unfold callBuiltin; simp only; mono

theorem monoM_cb_hBool (args : Val) : MonoM (callBuiltin r .hBool args) := by
  mono_env
  unfold callBuiltin; simp only; mono

theorem monoM_cb_when_ (args : Val) : MonoM (callBuiltin r .when_ args) := by
  mono_env
  unfold callBuiltin; simp only; mono

theorem monoM_cb_unless_ (args : Val) : MonoM (callBuiltin r .unless_ args) := by
  mono_env
  unfold callBuiltin; simp only; mono

theorem monoM_cb_ifLetStar (args : Val) : MonoM (callBuiltin r .ifLetStar args) := by
  mono_env
  unfold callBuiltin; simp only; mono

theorem monoM_cb_ifLet (args : Val) : MonoM (callBuiltin r .ifLet args) := by
  mono_env
  unfold callBuiltin; simp only; mono

theorem monoM_cb_whenLet (args : Val) : MonoM (callBuiltin r .whenLet args) := by
  mono_env
  unfold callBuiltin; simp only; mono

theorem monoM_cb_whileLet (args : Val) : MonoM (callBuiltin r .whileLet args) := by
  mono_env
  unfold callBuiltin; simp only; mono

theorem monoM_cb_threadFirstArrow (args : Val) : MonoM (callBuiltin r .threadFirstArrow args) := by
  mono_env
  unfold callBuiltin; simp only; mono

theorem monoM_cb_threadFirst (args : Val) : MonoM (callBuiltin r .threadFirst args) := by
  mono_env
  unfold callBuiltin; simp only; mono

theorem monoM_cb_threadLastArrow (args : Val) : MonoM (callBuiltin r .threadLastArrow args) := by
  mono_env
  unfold callBuiltin; simp only; mono

theorem monoM_cb_threadLast (args : Val) : MonoM (callBuiltin r .threadLast args) := by
  mono_env
  unfold callBuiltin; simp only; mono

theorem monoM_cb_quote_ (args : Val) : MonoM (callBuiltin r .quote_ args) := by
  mono_env
  unfold callBuiltin; simp only; mono

theorem monoM_cb_evalEach (args : Val) : MonoM (callBuiltin r .evalEach args) := by
  mono_env
  unfold callBuiltin; simp only; mono

theorem monoM_callBuiltin (b : Bi) (args : Val) : MonoM (callBuiltin r b args) :=
  match b with
  | .if_ => monoM_cb_if_ hr args
  | .cond_ => monoM_cb_cond_ hr args
  | .setq => monoM_cb_setq hr args
  | .set_ => monoM_cb_set_ hr args
  | .cons_ => monoM_cb_cons_ hr args
  | .dolist => monoM_cb_dolist hr args
  | .dotimes => monoM_cb_dotimes hr args
  | .list_ => monoM_cb_list_ hr args
  | .consp => monoM_cb_consp hr args
  | .listp => monoM_cb_listp hr args
  | .floatp => monoM_cb_floatp hr args
  | .integerp => monoM_cb_integerp hr args
  | .numberp => monoM_cb_numberp hr args
  | .stringp => monoM_cb_stringp hr args
  | .symbolp => monoM_cb_symbolp hr args
  | .boundp => monoM_cb_boundp hr args
  | .keywordp => monoM_cb_keywordp hr args
  | .add => monoM_cb_add hr args
  | .sub => monoM_cb_sub hr args
  | .mul => monoM_cb_mul hr args
  | .div => monoM_cb_div hr args
  | .gt => monoM_cb_gt hr args
  | .ge => monoM_cb_ge hr args
  | .lt => monoM_cb_lt hr args
  | .le => monoM_cb_le hr args
  | .max_ => monoM_cb_max_ hr args
  | .min_ => monoM_cb_min_ hr args
  | .fround => monoM_cb_fround hr args
  | .ftruncate => monoM_cb_ftruncate hr args
  | .stringLt => monoM_cb_stringLt hr args
  | .stringGt => monoM_cb_stringGt hr args
  | .stringEq => monoM_cb_stringEq hr args
  | .stringLessp => monoM_cb_stringLessp hr args
  | .stringGreaterp => monoM_cb_stringGreaterp hr args
  | .stringEqual => monoM_cb_stringEqual hr args
  | .tick => monoM_cb_tick hr args
  | .probe => monoM_cb_probe hr args
  | .load_ => monoM_cb_load_ hr args
  | .intern_ => monoM_cb_intern_ hr args
  | .makeSymbol => monoM_cb_makeSymbol hr args
  | .gensym => monoM_cb_gensym hr args
  | .expt => monoM_cb_expt hr args
  | .concat_ => monoM_cb_concat_ hr args
  | .format_ => monoM_cb_format_ hr args
  | .print_ => monoM_cb_print_ hr args
  | .prin1ToString => monoM_cb_prin1ToString hr args
  | .princ => monoM_cb_princ hr args
  | .while_ => monoM_cb_while_ hr args
  | .let_ => monoM_cb_let_ hr args
  | .letStar => monoM_cb_letStar hr args
  | .progn_ => monoM_cb_progn_ hr args
  | .defun => monoM_cb_defun hr args
  | .lambda_ => monoM_cb_lambda_ hr args
  | .defmacro => monoM_cb_defmacro hr args
  | .null_ => monoM_cb_null_ hr args
  | .eval_ => monoM_cb_eval_ hr args
  | .funcall => monoM_cb_funcall hr args
  | .macroexpand => monoM_cb_macroexpand hr args
  | .append_ => monoM_cb_append_ hr args
  | .mapcar => monoM_cb_mapcar hr args
  | .assoc_ => monoM_cb_assoc_ hr args
  | .alistGet => monoM_cb_alistGet hr args
  | .plistGet => monoM_cb_plistGet hr args
  | .declare_ => monoM_cb_declare_ hr args
  | .not_ => monoM_cb_not_ hr args
  | .and_ => monoM_cb_and_ hr args
  | .or_ => monoM_cb_or_ hr args
  | .xor => monoM_cb_xor hr args
  | .inc => monoM_cb_inc hr args
  | .dec => monoM_cb_dec hr args
  | .mod_ => monoM_cb_mod_ hr args
  | .equal_ => monoM_cb_equal_ hr args
  | .eq_ => monoM_cb_eq_ hr args
  | .makeHashTable => monoM_cb_makeHashTable hr args
  | .gethash => monoM_cb_gethash hr args
  | .puthash => monoM_cb_puthash hr args
  | .nth_ => monoM_cb_nth_ hr args
  | .nthcdr => monoM_cb_nthcdr hr args
  | .last_ => monoM_cb_last_ hr args
  | .car => monoM_cb_car hr args
  | .cdr => monoM_cb_cdr hr args
  | .caar => monoM_cb_caar hr args
  | .cadr => monoM_cb_cadr hr args
  | .cdar => monoM_cb_cdar hr args
  | .cddr => monoM_cb_cddr hr args
  | .caaar => monoM_cb_caaar hr args
  | .caadr => monoM_cb_caadr hr args
  | .cadar => monoM_cb_cadar hr args
  | .caddr => monoM_cb_caddr hr args
  | .cdaar => monoM_cb_cdaar hr args
  | .cdadr => monoM_cb_cdadr hr args
  | .cddar => monoM_cb_cddar hr args
  | .cdddr => monoM_cb_cdddr hr args
  | .caaaar => monoM_cb_caaaar hr args
  | .caaadr => monoM_cb_caaadr hr args
  | .caadar => monoM_cb_caadar hr args
  | .caaddr => monoM_cb_caaddr hr args
  | .cadaar => monoM_cb_cadaar hr args
  | .cadadr => monoM_cb_cadadr hr args
  | .caddar => monoM_cb_caddar hr args
  | .cadddr => monoM_cb_cadddr hr args
  | .cdaaar => monoM_cb_cdaaar hr args
  | .cdaadr => monoM_cb_cdaadr hr args
  | .cdadar => monoM_cb_cdadar hr args
  | .cdaddr => monoM_cb_cdaddr hr args
  | .cddaar => monoM_cb_cddaar hr args
  | .cddadr => monoM_cb_cddadr hr args
  | .cdddar => monoM_cb_cdddar hr args
  | .cddddr => monoM_cb_cddddr hr args
  | .length_ => monoM_cb_length_ hr args
  | .seqMap => monoM_cb_seqMap hr args
  | .seqReduce => monoM_cb_seqReduce hr args
  | .seqFilter => monoM_cb_seqFilter hr args
  | .seqFind => monoM_cb_seqFind hr args
  | .sort_ => monoM_cb_sort_ hr args
  | .hTwo => monoM_cb_hTwo hr args
  | .hOpt => monoM_cb_hOpt hr args
  | .hRest => monoM_cb_hRest hr args
  | .hInt => monoM_cb_hInt hr args
  | .hFloat => monoM_cb_hFloat hr args
  | .hStr => monoM_cb_hStr hr args
  | .hBool => monoM_cb_hBool hr args
  | .when_ => monoM_cb_when_ hr args
  | .unless_ => monoM_cb_unless_ hr args
  | .ifLetStar => monoM_cb_ifLetStar hr args
  | .ifLet => monoM_cb_ifLet hr args
  | .whenLet => monoM_cb_whenLet hr args
  | .whileLet => monoM_cb_whileLet hr args
  | .threadFirstArrow => monoM_cb_threadFirstArrow hr args
  | .threadFirst => monoM_cb_threadFirst hr args
  | .threadLastArrow => monoM_cb_threadLastArrow hr args
  | .threadLast => monoM_cb_threadLast hr args
  | .quote_ => monoM_cb_quote_ hr args
  | .evalEach => monoM_cb_evalEach hr args

theorem monoM_evalStep (e : Val) : MonoM (evalStep r e) := by
  have e1 := hr.eval
  have l14 := monoM_funcallVal r hr.toMonoRec
  have l20 := monoM_callBuiltin hr
  have l21 : ∀ t, MonoM (evalBackquote r t) := fun t => (C07.bq_mono_aux r hr.eval t).1
  unfold evalStep
  mono

omit hr in
theorem monoM_buildBinding (binding prevVar : Val) : MonoM (buildBinding binding prevVar) := by
  unfold buildBinding
  mono

omit hr in
theorem monoM_buildBindings (l prev : Val) : MonoM (buildBindings l prev) := by
  have h1 := monoM_buildBinding
  fun_induction buildBindings l prev
  all_goals mono

omit hr in
theorem monoM_prognOnRest (rest : Val) : MonoM (prognOnRest rest) := by
  unfold prognOnRest
  mono

omit hr in
theorem monoM_threadForms (first : Bool) (x : Val) (forms : List Val) :
    MonoM (threadForms first x forms) := by
  fun_induction threadForms first x forms
  all_goals mono

omit hr in
theorem monoM_callMacro (b : Bi) (args : Val) : MonoM (callMacro b args) := by
  have h1 := monoM_buildBindings
  have h2 := monoM_prognOnRest
  have h3 := monoM_threadForms
  unfold callMacro
  split <;> mono

theorem monoM_mexpSpine (x : Val) (acc : Acc) : MonoM (mexpSpine r x acc) := by
  have e2 := hr.mexp
  fun_induction mexpSpine r x acc
  all_goals mono

theorem monoM_mexpStep (inp : Val) : MonoM (mexpStep r inp) := by
  have e2 := hr.mexp
  have h1 := monoM_callMacro
  have h2 := monoM_mexpSpine hr
  have h3 := monoM_evalFunction r hr.eval
  unfold mexpStep
  mono

theorem monoM_intern :
    (∀ x tab, MonoM (internSx r x tab)) ∧ (∀ xs tab, MonoM (internList r xs tab)) := by
  have e1 := hr.eval
  have e2 := hr.mexp
  apply internSx.mutual_induct
    (motive_1 := fun x tab => MonoM (internSx r x tab))
    (motive_2 := fun xs tab => MonoM (internList r xs tab))
  case case12 =>
    intro sp items tail tab ih1 ih2
    cases tail with
    | none => simp only [internSx]; mono
    | some x =>
      have h3 : ∀ tab, MonoM (internSx r x tab) := fun tab => ih2 tab
      simp only [internSx]; mono
  all_goals (intros; simp only [internSx, internList, *]; mono)

theorem monoM_loadText (file : Nat) (text : String) : MonoM (loadText r file text) := by
  have e2 := hr.mexp
  have h1 := (monoM_intern hr).2
  unfold loadText
  mono

theorem monoM_loadFile (name : String) : MonoM (loadFile r name) := by
  have h1 := monoM_loadText hr
  have h2 := monoM_evalProgn hr
  unfold loadFile
  mono

end

/-- one level of the knot -/
theorem monoRec3_step {r : Rec} (hr : MonoRec3 r) :
    MonoRec3 ⟨evalStep r, mexpStep r, loadFile r⟩ :=
  ⟨monoM_evalStep hr, monoM_mexpStep hr, monoM_loadFile hr⟩

/-- the evaluator, the macro expander and the loader never decrease the allocation counter, at
    any depth budget -/
theorem monoRec3_ofDepth (d : Nat) : MonoRec3 (Rec.ofDepth d) := by
  induction d with
  | zero => exact ⟨fun _ => monoM_outOfFuel, fun _ => monoM_outOfFuel, fun _ => monoM_outOfFuel⟩
  | succ d ih => exact monoRec3_step ih

end Tulisp.C11
