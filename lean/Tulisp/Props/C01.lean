/-
  Props/C01.lean — C01: the core forms evaluate as the Emacs-Lisp-style dynamic-binding semantics
  prescribes (value or error, order and number of sub-evaluations, final values of variables).

  PART A  The semantic rules of the core forms as equations of the model.  Every rule is stated
          for an ARBITRARY `r : Rec` (the evaluator at the next smaller depth), hence holds at every
          depth of `Rec.ofDepth`, and for an arbitrary context.  `m >>= f` in the monad `M` runs `m`
          first and `f` only if `m` delivered a value (`bind_fail`): so the equations also fix the
          ORDER of the sub-evaluations, HOW OFTEN each happens, and that an error stops the form.
            the knot         ofDepth_succ
            atoms            eval_int eval_float eval_str eval_nil eval_t eval_self eval_keyword
                             eval_var eval_var_unbound eval_quote
            call forms       eval_call eval_call_builtin eval_call_function eval_call_head_fails
            progn            progn_rule evalProgn_empty evalProgn_atom evalProgn_single
                             evalProgn_cons evalProgn_elems evalProgn_append evalProgn_snoc
                             evalProgn_stops
            if               if_rule if_then if_else if_no_args if_one_arg if_too_few
            cond             cond_rule cond_no_clause cond_clause cond_nil_clause cond_bad_clause
                             cond_selected cond_skipped
            and / or         and_rule and_empty and_cons andLoop_end or_rule or_empty or_cons
            not / xor        not_rule xor_rule
            when / unless    when_run unless_run when_expansion unless_expansion
                             when_expansion_interned unless_expansion_interned macro_call_rule
                             mexp_macro_rule
            setq / set       setq_rule setq_empty setq_arity setq_run set_rule
                             set_innermost set_creates_global setV_effect
            let / let*       let_is_sequential let_rule let_arity letBind_end letBind_symbol
                             letBind_binding letBind_vars pushV_effect popSymCtx_effect let_run
                             let_run_bind_fails
            while            while_rule whileLoop_step whileLoop_budget while_value
            dolist / dotimes dolist_rule dolist_rule_noresult dotimes_rule_noresult dolistLoop_step dolistLoop_end dolist_body_count
                             dotimes_rule dotimesLoop_step dotimesLoop_end dotimes_body_count
            defun            defun_rule defun_store setGlobal_keeps_top setGlobal_bottom
                             setGlobal_flag
            lambda / calls   lambda_rule funcall_rule eval_rule funcallVal_lambda
                             evalLambda_rule evalFunction_rule
  PART B  Shallow binding (one value stack per symbol) refines deep binding (one association stack
          plus a table of globals): shallow_get shallow_push shallow_pop shallow_set
          shallow_setGlobal (+ the `_other` frame lemmas), abs_get … on the canonical symbol state,
          store_refines_deep (abstract store), ctx_refines_deep (contexts and the model's
          `pushV` / `popV` / `setV` / `setGlobalV` / `getSym`).
  PART C  Non-vacuity examples, a concrete deep / shallow trace and a concrete evaluator run.
-/
import Tulisp.Proofs.C01
namespace Tulisp.C01
open Tulisp

/-! # PART A — the semantic rules -/

/-- The knot: the evaluator with depth budget `d + 1` is `evalStep` (and `mexpStep`, `loadFile`) over
    the evaluator with budget `d`.  Every rule below is stated for an arbitrary `r`, hence holds
    for `r = Rec.ofDepth d` at every `d`. -/
theorem ofDepth_succ (d : Nat) :
    Rec.ofDepth (d + 1) = ⟨evalStep (Rec.ofDepth d), mexpStep (Rec.ofDepth d), loadFile (Rec.ofDepth d)⟩ :=
  rfl

/-! ## atoms: constants, variables, quote -/

/-- a number evaluates to itself and the state is untouched -/
theorem eval_int (r : Rec) (n : Int) (c : Ctx) : evalStep r (.int n) c = (.ok (.int n), c) := rfl
theorem eval_float (r : Rec) (b : UInt64) (c : Ctx) :
    evalStep r (.float b) c = (.ok (.float b), c) := rfl
/-- a string evaluates to itself (the very same object) -/
theorem eval_str (r : Rec) (i : Nat) (s : String) (c : Ctx) :
    evalStep r (.str i s) c = (.ok (.str i s), c) := rfl
theorem eval_nil (r : Rec) (c : Ctx) : evalStep r .nil c = (.ok .nil, c) := rfl
theorem eval_t (r : Rec) (c : Ctx) : evalStep r .t c = (.ok .t, c) := rfl

/-- every self-evaluating object (numbers, strings, nil, t, function objects, tables) -/
theorem eval_self (r : Rec) (v : Val) (h : selfEvaluating v = true) (c : Ctx) :
    evalStep r v c = (.ok v, c) := by
  cases v <;> first | rfl | simp [selfEvaluating] at h

/-- a keyword (constant symbol) evaluates to itself -/
theorem eval_keyword (r : Rec) (n : Nat) (c : Ctx) (h : (c.symD n).constant = true) :
    evalStep r (.sym n) c = (.ok (.sym n), c) := getSym_const h

/-- a variable evaluates to the top of its value stack (its innermost binding, else its global
    value); the state is untouched -/
theorem eval_var (r : Rec) (n : Nat) (c : Ctx) (v : Val) (rest : List Val)
    (h : (c.symD n).constant = false) (hv : (c.symD n).items = v :: rest) :
    evalStep r (.sym n) c = (.ok v, c) := by
  show getSym n c = _
  rw [getSym_var h]
  simp [SymSt.get, hv]

/-- an unbound variable is a `TypeMismatch` error -/
theorem eval_var_unbound (r : Rec) (n : Nat) (c : Ctx)
    (h : (c.symD n).constant = false) (hv : (c.symD n).items = []) :
    evalStep r (.sym n) c = (.err .typeMismatch, c) := by
  show getSym n c = _
  rw [getSym_var h]
  simp [SymSt.get, hv]

/-- `(quote x)` is `x`, unevaluated -/
theorem eval_quote (r : Rec) (x : Val) : evalStep r (.quote x) = pure x := rfl

/-! ## call forms `(f . args)` -/

/-- the head is evaluated first, then the form is dispatched on the value of the head: special
    forms / built-in functions get the unevaluated argument list, macros and functions go through
    `funcallVal` -/
theorem eval_call (r : Rec) (i : Nat) (head args : Val) :
    evalStep r (.cons i head args) =
      r.eval head >>= fun f =>
        match f with
        | .builtin b => if b.isMacro then funcallVal r true f args else callBuiltin r b args
        | _ => funcallVal r true f args := rfl

theorem eval_call_builtin (r : Rec) (i : Nat) (head args : Val) (b : Bi) (c c' : Ctx)
    (h : r.eval head c = (.ok (.builtin b), c')) (hm : b.isMacro = false) :
    evalStep r (.cons i head args) c = callBuiltin r b args c' := by
  rw [eval_call, C12.bind_ok _ h]
  simp [hm]

theorem eval_call_function (r : Rec) (i k : Nat) (head args : Val) (ps : Params) (body : Val)
    (c c' : Ctx) (h : r.eval head c = (.ok (.lambda k ps body), c')) :
    evalStep r (.cons i head args) c = evalLambda r true ps body args c' := by
  rw [eval_call, C12.bind_ok _ h]
  rfl

/-- if the head fails nothing else of the form is evaluated -/
theorem eval_call_head_fails (r : Rec) (i : Nat) (head args : Val) (c c' : Ctx) (res : Res Val)
    (h : r.eval head c = (res, c')) (hr : resOk res = false) :
    evalStep r (.cons i head args) c = (resCast res, c') := by
  rw [eval_call]
  exact bind_fail _ h hr

/-! ## progn -/

theorem progn_rule (r : Rec) (args : Val) : callBuiltin r .progn_ args = evalProgn r args := rfl

/-- `(progn)` is nil -/
theorem evalProgn_empty (r : Rec) : evalProgn r .nil = pure .nil := rfl

theorem evalProgn_atom (r : Rec) (v : Val) (h : v.isCons = false) : evalProgn r v = pure .nil := by
  cases v <;> first | rfl | simp [Val.isCons] at h

/-- the value of the last form is the value of the body -/
theorem evalProgn_single (r : Rec) (i : Nat) (a d : Val) (h : d.isCons = false) :
    evalProgn r (.cons i a d) = r.eval a := by
  cases d <;> first | rfl | simp [Val.isCons] at h

/-- the forms are evaluated left to right, the values of all but the last are discarded -/
theorem evalProgn_cons (r : Rec) (i j : Nat) (a b rest : Val) :
    evalProgn r (.cons i a (.cons j b rest)) =
      r.eval a >>= fun _ => evalProgn r (.cons j b rest) := by
  rw [evalProgn]

/-- `evalProgn` only depends on the sequence of forms (not on cell identities or a dotted tail) -/
theorem evalProgn_elems (r : Rec) (v : Val) : evalProgn r v = prognSpec r v.elems :=
  evalProgn_eq_elems r v

/-- the append form: a body `xs ++ ys` evaluates `xs` for effect, in order, then is the body `ys` -/
theorem evalProgn_append (r : Rec) (xs ys : List Val) (h : ys ≠ []) :
    evalProgn r (Val.ofList (xs ++ ys)) = evalSeq r xs >>= fun _ => evalProgn r (Val.ofList ys) := by
  rw [evalProgn_eq_elems, evalProgn_eq_elems, C12.elems_ofList, C12.elems_ofList,
    prognSpec_append r xs h]

theorem evalProgn_snoc (r : Rec) (xs : List Val) (a : Val) :
    evalProgn r (Val.ofList (xs ++ [a])) = evalSeq r xs >>= fun _ => r.eval a := by
  rw [evalProgn_append r xs [a] (by simp)]
  rfl

/-- a failing form stops the sequence: the later forms are not evaluated, the outcome and the
    state are those of the failing form -/
theorem evalProgn_stops (r : Rec) (i : Nat) (a d : Val) (c c' : Ctx) (res : Res Val)
    (h : r.eval a c = (res, c')) (hr : resOk res = false) :
    evalProgn r (.cons i a d) c = (res, c') := by
  cases d with
  | cons j b rest =>
    rw [evalProgn_cons, bind_fail _ h hr]
    cases res <;> first | rfl | simp [resOk] at hr
  | _ => exact h

/-! ## if -/

/-- `(if c a . bs)`: the condition is evaluated once; exactly one branch is evaluated: `a` if the
    value is non-nil, else the forms `bs` as a `progn` -/
theorem if_rule (r : Rec) (i j : Nat) (c a bs : Val) :
    callBuiltin r .if_ (.cons i c (.cons j a bs)) =
      r.eval c >>= fun v => if truthy v then r.eval a else evalProgn r bs := rfl

theorem if_then (r : Rec) (i j : Nat) (c a bs v : Val) (ctx c1 : Ctx)
    (h : r.eval c ctx = (.ok v, c1)) (hv : truthy v = true) :
    callBuiltin r .if_ (.cons i c (.cons j a bs)) ctx = r.eval a c1 := by
  rw [if_rule, C12.bind_ok _ h]; simp [hv]

theorem if_else (r : Rec) (i j : Nat) (c a bs : Val) (ctx c1 : Ctx)
    (h : r.eval c ctx = (.ok .nil, c1)) :
    callBuiltin r .if_ (.cons i c (.cons j a bs)) ctx = evalProgn r bs c1 := by
  rw [if_rule, C12.bind_ok _ h]; rfl

theorem if_no_args (r : Rec) : callBuiltin r .if_ .nil = M.throw .missingArgument := rfl
theorem if_one_arg (r : Rec) (i : Nat) (c : Val) :
    callBuiltin r .if_ (.cons i c .nil) = M.throw .missingArgument := rfl

/-- with fewer than two arguments `if` fails before anything is evaluated -/
theorem if_too_few (r : Rec) (args : Val) (h : args.len < 2) :
    ∃ k, callBuiltin r .if_ args = M.throw k := by
  cases args with
  | cons i c rest =>
    cases rest with
    | cons j a bs => simp only [Val.len] at h; omega
    | _ => exact ⟨_, rfl⟩
  | _ => exact ⟨_, rfl⟩

/-! ## cond -/

theorem cond_rule (r : Rec) (args : Val) :
    callBuiltin r .cond_ args = callBuiltin.condLoop r args := rfl

/-- no clause (left): nil -/
theorem cond_no_clause (r : Rec) : callBuiltin.condLoop r .nil = pure .nil := rfl

/-- the clauses are tried in order: the condition of the first clause is evaluated once; if it is
    non-nil this clause decides (value of its body, or of the condition if the body is empty) and
    the later clauses are not looked at; otherwise the remaining clauses are tried -/
theorem cond_clause (r : Rec) (i j : Nat) (c body rest : Val) :
    callBuiltin.condLoop r (.cons i (.cons j c body) rest) =
      r.eval c >>= fun cv =>
        if truthy cv then (if body.isNil then pure cv else evalProgn r body)
        else callBuiltin.condLoop r rest := by
  rw [callBuiltin.condLoop]

/-- an empty clause `()` is skipped -/
theorem cond_nil_clause (r : Rec) (i : Nat) (rest : Val) :
    callBuiltin.condLoop r (.cons i .nil rest) = callBuiltin.condLoop r rest := by
  rw [callBuiltin.condLoop]

/-- a clause that is not a list is a type error (the earlier clauses have been tried) -/
theorem cond_bad_clause (r : Rec) (i : Nat) (cl rest : Val) (h : cl.isList = false) :
    callBuiltin.condLoop r (.cons i cl rest) = M.throw .typeMismatch := by
  cases cl <;> first | rfl | simp [Val.isList, Val.isNil, Val.isCons] at h

theorem cond_selected (r : Rec) (i j : Nat) (c body rest cv : Val) (ctx c1 : Ctx)
    (h : r.eval c ctx = (.ok cv, c1)) (hv : truthy cv = true) :
    callBuiltin.condLoop r (.cons i (.cons j c body) rest) ctx =
      if body.isNil then (.ok cv, c1) else evalProgn r body c1 := by
  rw [cond_clause, C12.bind_ok _ h]
  simp only [hv, if_true]
  split <;> rfl

theorem cond_skipped (r : Rec) (i j : Nat) (c body rest : Val) (ctx c1 : Ctx)
    (h : r.eval c ctx = (.ok .nil, c1)) :
    callBuiltin.condLoop r (.cons i (.cons j c body) rest) ctx = callBuiltin.condLoop r rest c1 := by
  rw [cond_clause, C12.bind_ok _ h]; rfl

/-! ## and / or -/

theorem and_rule (r : Rec) (args : Val) :
    callBuiltin r .and_ args = callBuiltin.andLoop r args .t := rfl

/-- `(and)` is t -/
theorem and_empty (r : Rec) : callBuiltin r .and_ .nil = pure .t := rfl

/-- arguments are evaluated left to right; the first nil value is the result and the rest is
    not evaluated -/
theorem and_cons (r : Rec) (i : Nat) (a d last : Val) :
    callBuiltin.andLoop r (.cons i a d) last =
      r.eval a >>= fun v => if v.isNil then pure v else callBuiltin.andLoop r d v := by
  rw [callBuiltin.andLoop]

/-- … otherwise the value of the last argument -/
theorem andLoop_end (r : Rec) (last : Val) : callBuiltin.andLoop r .nil last = pure last := rfl

theorem or_rule (r : Rec) (args : Val) : callBuiltin r .or_ args = callBuiltin.orLoop r args := rfl

/-- `(or)` is nil -/
theorem or_empty (r : Rec) : callBuiltin r .or_ .nil = pure .nil := rfl

/-- the first non-nil value is the result and the rest is not evaluated -/
theorem or_cons (r : Rec) (i : Nat) (a d : Val) :
    callBuiltin.orLoop r (.cons i a d) =
      r.eval a >>= fun v => if truthy v then pure v else callBuiltin.orLoop r d := by
  rw [callBuiltin.orLoop]

/-! ## not / xor -/

theorem not_rule (r : Rec) (i : Nat) (a d : Val) :
    callBuiltin r .not_ (.cons i a d) = r.eval a >>= fun v => pure (ofBool v.isNil) := by
  show (nextArg r (.cons i a d) >>= fun p => pure (ofBool p.1.isNil)) = _
  simp only [nextArg, bind_assoc, pure_bind]

/-- both arguments are evaluated, left to right, whatever the first value is -/
theorem xor_rule (r : Rec) (i j : Nat) (a b d : Val) :
    callBuiltin r .xor (.cons i a (.cons j b d)) =
      r.eval a >>= fun x => r.eval b >>= fun y =>
        pure (if x.isNil then y else if y.isNil then x else .nil) := by
  show (nextArg r (.cons i a (.cons j b d)) >>= fun p => nextArg r p.2 >>= fun q =>
    pure (if p.1.isNil then q.1 else if q.1.isNil then p.1 else .nil)) = _
  simp only [nextArg, bind_assoc, pure_bind]

/-! ## when / unless (built-in macros) -/

/-- `(when c . body)` expands to `(if c (progn . body))`: the exact cells that are allocated -/
theorem when_run (i : Nat) (c body : Val) (ctx : Ctx) :
    callMacro .when_ (.cons i c body) ctx =
      (let p1 := ctx.intern "if"
       let p2 := p1.2.intern "progn"
       let n := p2.2.nextId
       (.ok (.cons (n+1) (.sym p1.1) (.cons (n+2) c (.cons (n+3) (.cons n (.sym p2.1) body) .nil))),
        { p2.2 with nextId := n + 4 })) := rfl

/-- `(unless c . body)` expands to `(if c nil . body)` -/
theorem unless_run (i : Nat) (c body : Val) (ctx : Ctx) :
    callMacro .unless_ (.cons i c body) ctx =
      (let p1 := ctx.intern "if"
       let n := p1.2.nextId
       (.ok (.cons (n+2) (.sym p1.1) (.cons (n+1) c (.cons n .nil body))),
        { p1.2 with nextId := n + 3 })) := rfl

/-- up to cell identities: `(if c (progn . body))`, with `if` / `progn` the interned symbols -/
theorem when_expansion (i : Nat) (c body : Val) (ctx : Ctx) :
    ∃ v ctx', callMacro .when_ (.cons i c body) ctx = (.ok v, ctx') ∧
      eraseIds v = eraseIds (Val.ofList [.sym (ctx.intern "if").1, c,
        .cons 0 (.sym ((ctx.intern "if").2.intern "progn").1) body]) :=
  ⟨_, _, rfl, rfl⟩

theorem unless_expansion (i : Nat) (c body : Val) (ctx : Ctx) :
    ∃ v ctx', callMacro .unless_ (.cons i c body) ctx = (.ok v, ctx') ∧
      eraseIds v = eraseIds (.cons 0 (.sym (ctx.intern "if").1) (.cons 0 c (.cons 0 .nil body))) :=
  ⟨_, _, rfl, rfl⟩

theorem intern_found {ctx : Ctx} {name : String} {n : Nat} (h : ctx.obarray[name]? = some n) :
    ctx.intern name = (n, ctx) := by simp [Ctx.intern, h]

/-- in a context where `if` and `progn` are interned (every context derived from `Ctx.initial`)
    the expansion only allocates four cells -/
theorem when_expansion_interned (i : Nat) (c body : Val) (ctx : Ctx) (nIf nP : Nat)
    (h1 : ctx.obarray["if"]? = some nIf) (h2 : ctx.obarray["progn"]? = some nP) :
    ∃ v, callMacro .when_ (.cons i c body) ctx = (.ok v, { ctx with nextId := ctx.nextId + 4 }) ∧
      eraseIds v = eraseIds (Val.ofList [.sym nIf, c, .cons 0 (.sym nP) body]) := by
  rw [when_run, intern_found h1]
  simp only []
  rw [intern_found h2]
  exact ⟨_, rfl, rfl⟩

theorem unless_expansion_interned (i : Nat) (c body : Val) (ctx : Ctx) (nIf : Nat)
    (h1 : ctx.obarray["if"]? = some nIf) :
    ∃ v, callMacro .unless_ (.cons i c body) ctx = (.ok v, { ctx with nextId := ctx.nextId + 3 }) ∧
      eraseIds v = eraseIds (.cons 0 (.sym nIf) (.cons 0 c (.cons 0 .nil body))) := by
  rw [unless_run, intern_found h1]
  exact ⟨_, rfl, rfl⟩

/-- a macro call met by the evaluator: the form (with a fresh spine) is macro-expanded, then the
    expansion is evaluated -/
theorem macro_call_rule (r : Rec) (b : Bi) (args : Val) (h : b.isMacro = true) :
    funcallVal r true (.builtin b) args =
      deepCopy args >>= fun cp => mkCons (.builtin b) cp >>= fun form =>
        r.mexp form >>= fun ex => r.eval ex := by
  simp [funcallVal, h]

/-- macro expansion of a form whose head names a built-in macro: `callMacro`, then the expansion is
    expanded again, then its elements -/
theorem mexp_macro_rule (r : Rec) (i n : Nat) (args : Val) (b : Bi) (c : Ctx)
    (hc : (c.symD n).constant = false) (hv : (c.symD n).get = some (.builtin b))
    (hm : b.isMacro = true) :
    mexpStep r (.cons i (.sym n) args) c =
      (callMacro b args >>= fun ex => r.mexp ex >>= fun x =>
        match x with
        | .cons .. => mexpSpine r x {} >>= fun acc => acc.build
        | _ => pure x) c := by
  have hget : (M.get : M Ctx) c = (.ok c, c) := rfl
  unfold mexpStep
  simp only []
  rw [C12.bind_ok _ hget]
  simp only [hc, hv, hm, if_true, Bool.false_eq_true, if_false]
  rfl

/-! ## setq / set -/

/-- `(setq x form)`: the value form is evaluated once, the value is assigned with `setV`
    (innermost binding, else the global value is created) and returned -/
theorem setq_rule (r : Rec) (i j : Nat) (name valF : Val) :
    callBuiltin r .setq (.cons i name (.cons j valF .nil)) =
      r.eval valF >>= fun v => setV name v >>= fun _ => pure v := rfl

theorem setq_empty (r : Rec) : callBuiltin r .setq .nil = pure .nil := rfl

/-- one argument, or more than two: an error, nothing is evaluated -/
theorem setq_arity (r : Rec) (i : Nat) (name rest : Val)
    (h : ¬ ∃ j valF, rest = .cons j valF .nil) :
    callBuiltin r .setq (.cons i name rest) = M.throw .typeMismatch := by
  cases rest with
  | cons j valF d =>
    cases d with
    | nil => exact absurd ⟨j, valF, rfl⟩ h
    | _ => rfl
  | _ => rfl

/-- `SymSt.set` on a symbol with bindings overwrites the innermost one only -/
theorem set_innermost (s : SymSt) (v x : Val) (rest : List Val) (h : s.items = x :: rest) :
    (s.set v).items = v :: rest ∧ (s.set v).hasGlobal = s.hasGlobal := by
  simp [SymSt.set, h]

/-- `SymSt.set` on an unbound symbol creates its global value -/
theorem set_creates_global (s : SymSt) (v : Val) (h : s.items = []) :
    (s.set v).items = [v] ∧ (s.set v).hasGlobal = true := by
  simp [SymSt.set, h]

/-- `setV` on a variable: only the stack of that variable changes -/
theorem setV_effect (c : Ctx) (n : Nat) (v : Val) (hn : n < c.syms.size)
    (hc : (c.symD n).constant = false) :
    ∃ c', setV (.sym n) v c = (.ok (), c') ∧ c'.symD n = (c.symD n).set v ∧
      ∀ m, m ≠ n → c'.symD m = c.symD m := by
  refine ⟨_, setV_run v hc, ?_, ?_⟩
  · rw [symD_modSym _ _ _ _ hn]; simp
  · intro m hm; rw [symD_modSym _ _ _ _ hn]; simp [hm]

/-- the complete effect of `(setq x form)` on a variable -/
theorem setq_run (r : Rec) (i j n : Nat) (valF v : Val) (c c1 : Ctx)
    (h : r.eval valF c = (.ok v, c1)) (hc : (c1.symD n).constant = false) :
    callBuiltin r .setq (.cons i (.sym n) (.cons j valF .nil)) c =
      (.ok v, c1.modSym n (·.set v)) := by
  rw [setq_rule, C12.bind_ok _ h, C12.bind_ok _ (setV_run v hc)]
  rfl

/-- `(set symform valform)`: the symbol form is evaluated first, then the value form -/
theorem set_rule (r : Rec) (i j : Nat) (nameF valF : Val) :
    callBuiltin r .set_ (.cons i nameF (.cons j valF .nil)) =
      r.eval nameF >>= fun name => r.eval valF >>= fun v => setV name v >>= fun _ => pure v := rfl

/-! ## let / let* -/

/-- KNOWN DEVIATION from Emacs Lisp: `let` binds sequentially, exactly like `let*` (both names
    run the same code): in `(let ((x 1) (y x)) …)` the value form of `y` sees the new `x`. -/
theorem let_is_sequential (r : Rec) (args : Val) :
    callBuiltin r .let_ args = callBuiltin r .letStar args := rfl

/-- `(let varlist form . forms)`: bind the variables (`letBind`), evaluate the body as a `progn`,
    then pop exactly the bindings `letBind` reports to have pushed — whatever the outcome of the
    body (value, error, panic, out of budget) -/
theorem let_rule (r : Rec) (i j : Nat) (varlist b bs : Val) :
    callBuiltin r .let_ (.cons i varlist (.cons j b bs)) =
      letBind r varlist [] >>= fun done =>
        M.finally' (evalProgn r (.cons j b bs)) (fun c => done.foldl popSymCtx c) := rfl

/-- a `let` without body (or without anything) is an error; nothing is evaluated or bound -/
theorem let_arity (r : Rec) (args : Val) (h : ¬ ∃ i vl j b bs, args = .cons i vl (.cons j b bs)) :
    ∃ k, callBuiltin r .let_ args = M.throw k := by
  cases args with
  | cons i vl body =>
    cases body with
    | cons j b bs => exact absurd ⟨i, vl, j, b, bs, rfl⟩ h
    | _ => exact ⟨_, rfl⟩
  | _ => exact ⟨_, rfl⟩

theorem letBind_end (r : Rec) (done : List Nat) : letBind r .nil done = pure done := rfl

/-- a bare symbol in the variable list is bound to nil -/
theorem letBind_symbol (r : Rec) (i n : Nat) (rest : Val) (done : List Nat) :
    letBind r (.cons i (.sym n) rest) done =
      onFail (pushV (.sym n) .nil) (fun c => done.foldl popSymCtx c) >>= fun _ =>
        letBind r rest (n :: done) := by
  rw [letBind]

/-- a binding `(x form)`: the value form is evaluated once — in the scope of the bindings made so
    far —, then `x` is bound to the value, then the remaining bindings follow; if the evaluation
    or the binding fails, the bindings made so far by this `let` are popped (`onFail`) -/
theorem letBind_binding (r : Rec) (i j k n : Nat) (valF rest : Val) (done : List Nat) :
    letBind r (.cons i (.cons j (.sym n) (.cons k valF .nil)) rest) done =
      onFail (r.eval valF) (fun c => done.foldl popSymCtx c) >>= fun v =>
      onFail (pushV (.sym n) v) (fun c => done.foldl popSymCtx c) >>= fun _ =>
        letBind r rest (n :: done) := by
  rw [letBind_pair]
  rfl

/-- what `letBind` reports as pushed is exactly the variables of the list (last bound first) -/
theorem letBind_vars (r : Rec) (vl : Val) (c c' : Ctx) (done : List Nat)
    (h : letBind r vl [] c = (.ok done, c')) : done = (letVars vl).reverse := by
  simpa using letBind_done r vl [] c done c' h

/-- what leaving a scope does to the store: `popSymCtx` removes the innermost binding of that one
    variable and touches nothing else -/
theorem popSymCtx_effect (c : Ctx) (n : Nat) (x : Val) (rest : List Val) (hn : n < c.syms.size)
    (h : (c.symD n).items = x :: rest) :
    ((popSymCtx c n).symD n).items = rest ∧ ((popSymCtx c n).symD n).hasGlobal = (c.symD n).hasGlobal ∧
      ∀ m, m ≠ n → (popSymCtx c n).symD m = c.symD m := by
  have hp : (c.symD n).pop = some { c.symD n with items := rest } := by simp [SymSt.pop, h]
  simp only [popSymCtx, hp]
  refine ⟨?_, ?_, ?_⟩
  · rw [symD_modSym _ _ _ _ hn]; simp
  · rw [symD_modSym _ _ _ _ hn]; simp
  · intro m hm; rw [symD_modSym _ _ _ _ hn]; simp [hm]

/-- `pushV` on a variable adds one innermost binding and touches nothing else -/
theorem pushV_effect (c : Ctx) (n : Nat) (v : Val) (hn : n < c.syms.size)
    (hc : (c.symD n).constant = false) :
    ∃ c', pushV (.sym n) v c = (.ok (), c') ∧ (c'.symD n).items = v :: (c.symD n).items ∧
      (c'.symD n).hasGlobal = (c.symD n).hasGlobal ∧ ∀ m, m ≠ n → c'.symD m = c.symD m := by
  refine ⟨_, pushV_run v hc, ?_, ?_, ?_⟩
  · rw [symD_modSym _ _ _ _ hn]; simp [SymSt.push]
  · rw [symD_modSym _ _ _ _ hn]; simp [SymSt.push]
  · intro m hm; rw [symD_modSym _ _ _ _ hn]; simp [hm]

/-- the whole `let`: after the bindings, the body runs once; its outcome is the outcome of the
    `let`; the final state is the state after the body with one binding popped per variable of the
    variable list -/
theorem let_run (r : Rec) (i j : Nat) (vl b bs : Val) (c c1 c2 : Ctx) (done : List Nat)
    (res : Res Val) (h1 : letBind r vl [] c = (.ok done, c1))
    (h2 : evalProgn r (.cons j b bs) c1 = (res, c2)) :
    callBuiltin r .let_ (.cons i vl (.cons j b bs)) c =
      (res, (letVars vl).reverse.foldl popSymCtx c2) := by
  rw [let_rule, C12.bind_ok _ h1, finally_run, h2, letBind_vars r vl c c1 done h1]

/-- if binding fails the body is not evaluated -/
theorem let_run_bind_fails (r : Rec) (i j : Nat) (vl b bs : Val) (c c1 : Ctx)
    (res : Res (List Nat)) (h1 : letBind r vl [] c = (res, c1)) (hr : resOk res = false) :
    callBuiltin r .let_ (.cons i vl (.cons j b bs)) c = (resCast res, c1) := by
  rw [let_rule]
  exact bind_fail _ h1 hr

/-! ## while -/

theorem while_rule (r : Rec) (i : Nat) (cond body : Val) :
    callBuiltin r .while_ (.cons i cond body) = whileLoop r cond body loopBudget := rfl

/-- the test is re-evaluated before every iteration; the body is evaluated once per iteration (as a
    `progn`, its value discarded); the loop ends with value nil when the test yields nil -/
theorem whileLoop_step (r : Rec) (cond body : Val) (k : Nat) :
    whileLoop r cond body (k + 1) =
      r.eval cond >>= fun cv =>
        if cv.isNil then pure .nil
        else evalProgn r body >>= fun _ => whileLoop r cond body k := rfl

/-- the model gives up (`fuel`, reported as a skipped request) after `loopBudget` iterations -/
theorem whileLoop_budget (r : Rec) (cond body : Val) : whileLoop r cond body 0 = M.outOfFuel := rfl

/-- a `while` that delivers a value delivers nil, right after a test that yielded nil -/
theorem while_value (r : Rec) (cond body : Val) (k : Nat) (c c' : Ctx) (v : Val)
    (h : whileLoop r cond body k c = (.ok v, c')) :
    v = .nil ∧ ∃ c1, r.eval cond c1 = (.ok .nil, c') :=
  whileLoop_exit r cond body k c c' v h

/-! ## dolist / dotimes -/

/-- `(dolist (x listform resultform) . body)`: the list form is evaluated once; `x` is bound to the
    first element for the loop; the body runs per element (`dolistLoop`); `x` is unbound again on
    every outcome of the loop; then the result form is evaluated -/
theorem dolist_rule (r : Rec) (i j k k2 n : Nat) (listF resF body : Val) :
    callBuiltin r .dolist (.cons i (.cons j (.sym n) (.cons k listF (.cons k2 resF .nil))) body) =
      r.eval listF >>= fun l => liftE (carV l) >>= fun first => pushV (.sym n) first >>= fun _ =>
        M.finally' (dolistLoop r n body l) (fun c => popSymCtx c n) >>= fun _ => r.eval resF := rfl

/-- without result form the value is that of the form `nil` -/
theorem dolist_rule_noresult (r : Rec) (i j k n : Nat) (listF body : Val) :
    callBuiltin r .dolist (.cons i (.cons j (.sym n) (.cons k listF .nil)) body) =
      r.eval listF >>= fun l => liftE (carV l) >>= fun first => pushV (.sym n) first >>= fun _ =>
        M.finally' (dolistLoop r n body l) (fun c => popSymCtx c n) >>= fun _ => r.eval .nil := rfl

/-- one iteration per cell: the body is evaluated once, then the variable is *assigned* the next
    element (nil at the end) -/
theorem dolistLoop_step (r : Rec) (n i : Nat) (body x rest : Val) :
    dolistLoop r n body (.cons i x rest) =
      evalProgn r body >>= fun _ => liftE (carV rest) >>= fun nx =>
        M.modify (·.modSym n (·.set nx)) >>= fun _ => dolistLoop r n body rest := by
  rw [dolistLoop]

theorem dolistLoop_end (r : Rec) (n : Nat) (body : Val) : dolistLoop r n body .nil = pure () := rfl

/-- the number of evaluations of the body is the length of the list -/
theorem dolist_body_count (r : Rec) (n : Nat) (body : Val) (cnt : Ctx → Nat) (I : Ctx → Prop)
    (hbody : ∀ c, I c → ∃ v c', evalProgn r body c = (.ok v, c') ∧ I c' ∧ cnt c' = cnt c + 1)
    (hset : ∀ c v, I c → I (c.modSym n (·.set v)) ∧ cnt (c.modSym n (·.set v)) = cnt c)
    (l : Val) (hl : l.spine.2 = .nil) (c : Ctx) (hc : I c) :
    ∃ c', dolistLoop r n body l c = (.ok (), c') ∧ I c' ∧ cnt c' = cnt c + l.len :=
  dolistLoop_count r n body cnt I hbody hset l hl c hc

/-- `(dotimes (x countform resultform) . body)`: the count form is evaluated once and must be an
    integer; `x` is bound for the loop, unbound afterwards on every outcome; then the result form -/
theorem dotimes_rule (r : Rec) (i j k k2 n : Nat) (countF resF body : Val) :
    callBuiltin r .dotimes (.cons i (.cons j (.sym n) (.cons k countF (.cons k2 resF .nil))) body) =
      r.eval countF >>= fun cv => intOf cv >>= fun count => pushV (.sym n) (.int 0) >>= fun _ =>
        M.finally' (dotimesLoop r n body count loopBudget 0) (fun c => popSymCtx c n) >>= fun _ =>
          r.eval resF := rfl

theorem dotimes_rule_noresult (r : Rec) (i j k n : Nat) (countF body : Val) :
    callBuiltin r .dotimes (.cons i (.cons j (.sym n) (.cons k countF .nil)) body) =
      r.eval countF >>= fun cv => intOf cv >>= fun count => pushV (.sym n) (.int 0) >>= fun _ =>
        M.finally' (dotimesLoop r n body count loopBudget 0) (fun c => popSymCtx c n) >>= fun _ =>
          r.eval .nil := rfl

/-- iteration `i < count`: the variable is set to `i`, the body evaluated once, then `i + 1` -/
theorem dotimesLoop_step (r : Rec) (n : Nat) (body : Val) (count i : Int) (k : Nat)
    (h : i < count) :
    dotimesLoop r n body count (k + 1) i =
      M.modify (·.modSym n (·.set (.int i))) >>= fun _ => evalProgn r body >>= fun _ =>
        dotimesLoop r n body count k (i + 1) := by
  rw [dotimesLoop]
  have : ¬ i ≥ count := by omega
  simp [this]

theorem dotimesLoop_end (r : Rec) (n : Nat) (body : Val) (count i : Int) (k : Nat)
    (h : count ≤ i) : dotimesLoop r n body count (k + 1) i = pure () := by
  rw [dotimesLoop]
  have : i ≥ count := h
  simp [this]

/-- the number of evaluations of the body is `count` (from index 0: `count - 0`) -/
theorem dotimes_body_count (r : Rec) (n : Nat) (body : Val) (cnt : Ctx → Nat) (I : Ctx → Prop)
    (hbody : ∀ c, I c → ∃ v c', evalProgn r body c = (.ok v, c') ∧ I c' ∧ cnt c' = cnt c + 1)
    (hset : ∀ c v, I c → I (c.modSym n (·.set v)) ∧ cnt (c.modSym n (·.set v)) = cnt c)
    (count : Int) (k : Nat) (i : Int) (c : Ctx) (hi : i ≤ count) (hk : count - i < k) (hc : I c) :
    ∃ c', dotimesLoop r n body count k i c = (.ok (), c') ∧ I c' ∧
      cnt c' = cnt c + (count - i).toNat :=
  dotimesLoop_count r n body cnt I hbody hset count k i c hi hk hc

/-! ## defun -/

/-- `(defun name params . body)`: nothing is evaluated; a `lambda` object (docstring stripped, tail
    calls marked, parameters parsed) is stored in the GLOBAL slot of `name`; the value is nil -/
theorem defun_rule (r : Rec) (i j : Nat) (name params rest : Val) :
    callBuiltin r .defun (.cons i name (.cons j params rest)) =
      callBuiltin.stripDoc rest >>= fun body =>
      (match name with
        | .sym n => markTailCalls n (body.size + 1) body
        | _ => pure body) >>= fun body' =>
      M.get >>= fun c => liftE (parseParams c params) >>= fun ps => newId >>= fun id =>
      setGlobalV name (.lambda id ps body') >>= fun _ => pure .nil := by
  cases name <;> rfl

/-- `setGlobalV` on a variable: `SymSt.setGlobal` on its stack, nothing else changes -/
theorem defun_store (c : Ctx) (n : Nat) (v : Val) (hn : n < c.syms.size)
    (hc : (c.symD n).constant = false) :
    ∃ c', setGlobalV (.sym n) v c = (.ok (), c') ∧ c'.symD n = (c.symD n).setGlobal v ∧
      ∀ m, m ≠ n → c'.symD m = c.symD m := by
  refine ⟨_, setGlobalV_run v hc, ?_, ?_⟩
  · rw [symD_modSym _ _ _ _ hn]; simp
  · intro m hm; rw [symD_modSym _ _ _ _ hn]; simp [hm]

/-- a `defun` executed while the name is locally bound (a `let` or a parameter of the same name)
    does not disturb the local binding: the top of the stack is unchanged -/
theorem setGlobal_keeps_top (s : SymSt) (v : Val) (h : s.lexBound = true) :
    (s.setGlobal v).get = s.get := by
  have hi := setGlobal_items s v
  unfold SymSt.get
  rw [hi]
  unfold SymSt.lexBound at h
  unfold localsOf
  cases hg : s.hasGlobal with
  | true =>
    rw [hg] at h
    cases hit : s.items with
    | nil => simp [hit] at h
    | cons a t =>
      cases t with
      | nil => simp [hit] at h
      | cons b t' => simp
  | false =>
    rw [hg] at h
    cases hit : s.items with
    | nil => simp [hit] at h
    | cons a t => simp

/-- … and the definition is the bottom entry, below exactly the local bindings: it is what is
    visible once they are popped -/
theorem setGlobal_bottom (s : SymSt) (v : Val) : (s.setGlobal v).items = localsOf s ++ [v] :=
  setGlobal_items s v

theorem setGlobal_flag (s : SymSt) (v : Val) : (s.setGlobal v).hasGlobal = true :=
  setGlobal_hasGlobal s v

/-! ## lambda, funcall, eval, function application -/

/-- `(lambda params . body)`: nothing is evaluated; the lexically bound free variables of the body
    are captured into cells; a fresh function object is returned -/
theorem lambda_rule (r : Rec) (i : Nat) (params rest : Val) :
    callBuiltin r .lambda_ (.cons i params rest) =
      callBuiltin.stripDoc rest >>= fun body => M.get >>= fun c =>
      liftE (parseParams c params) >>= fun ps => captureVars ps.all body [] >>= fun p =>
      newId >>= fun id => pure (.lambda id ps p.1) := rfl

/-- `(eval x)`: the argument is evaluated, then its value is evaluated as a form -/
theorem eval_rule (r : Rec) (i : Nat) (x d : Val) :
    callBuiltin r .eval_ (.cons i x d) = r.eval x >>= fun v => r.eval v := by
  show (nextArg r (.cons i x d) >>= fun p => r.eval p.1) = _
  simp only [nextArg, bind_assoc, pure_bind]

/-- `(funcall f a…)`: `f` is evaluated, its value is evaluated AGAIN (as the Rust code does: a
    symbol naming a function is thereby resolved), then the callee is applied to the UNEVALUATED
    argument forms through `funcallVal r true` (which evaluates them left to right while binding) -/
theorem funcall_rule (r : Rec) (i : Nat) (f rest : Val) :
    callBuiltin r .funcall (.cons i f rest) =
      r.eval f >>= fun n1 => r.eval n1 >>= fun n2 => funcallVal r true n2 rest := rfl

theorem funcallVal_lambda (r : Rec) (ev : Bool) (i : Nat) (ps : Params) (body args : Val) :
    funcallVal r ev (.lambda i ps body) args = evalLambda r ev ps body args := rfl

theorem evalLambda_rule (r : Rec) (ev : Bool) (ps : Params) (body args : Val) :
    evalLambda r ev ps body args =
      evalFunction r ev ps body args >>= fun res => bounceLoop r ps body loopBudget res := rfl

/-- function application: the argument forms are evaluated left to right (`collectArgs`), the
    parameters are bound to the values (dynamic binding: `pushV` on each parameter), the body is
    evaluated as a `progn`, and every parameter is unbound again on every outcome -/
theorem evalFunction_rule (r : Rec) (ev : Bool) (ps : Params) (body args : Val) :
    evalFunction r ev ps body args =
      collectArgs r ev ps.req ps.opt ps.rest args >>= fun vals =>
      bindParams ps.all vals [] >>= fun _ =>
      M.finally' (evalProgn r body) (fun c => ps.all.foldl popSymCtx c) := rfl

/-! # PART B — shallow binding refines deep binding -/

/-- reading a variable: the top of the shallow stack is the deep lookup -/
theorem shallow_get {s : SymSt} {d : Deep} {x : Nat} (h : view s = absStack d x) :
    s.get = d.lookup x := get_refines h

/-- binding: `push` is `bind` -/
theorem shallow_push {s : SymSt} {d : Deep} {x : Nat} (v : Val) (h : view s = absStack d x) :
    view (s.push v) = absStack (d.bind x v) x := push_refines v h

theorem shallow_push_other {x y : Nat} (hxy : y ≠ x) (d : Deep) (v : Val) :
    absStack (d.bind x v) y = absStack d y := absStack_bind_other hxy d v

/-- unbinding: `pop` is `unbind`, provided `x` has a binding on the deep stack -/
theorem shallow_pop {s : SymSt} {d : Deep} {x : Nat} (h : view s = absStack d x)
    (hb : d.hasBinding x = true) :
    ∃ s', s.pop = some s' ∧ view s' = absStack (d.unbind x) x := by
  obtain ⟨s', h1, h2, _⟩ := pop_refines h hb
  exact ⟨s', h1, h2⟩

theorem shallow_pop_other {x y : Nat} (hxy : y ≠ x) (d : Deep) :
    absStack (d.unbind x) y = absStack d y := absStack_unbind_other hxy d

/-- assignment: `set` is `assign` (innermost binding, else the global value) -/
theorem shallow_set {s : SymSt} {d : Deep} {x : Nat} (v : Val) (h : view s = absStack d x) :
    view (s.set v) = absStack (d.assign x v) x := set_refines v h

theorem shallow_set_other {x y : Nat} (hxy : y ≠ x) (d : Deep) (v : Val) :
    absStack (d.assign x v) y = absStack d y := absStack_assign_other hxy d v

/-- definition: `setGlobal` writes the global table and no binding -/
theorem shallow_setGlobal {s : SymSt} {d : Deep} {x : Nat} (v : Val) (h : view s = absStack d x) :
    view (s.setGlobal v) = absStack (d.setGlobal x v) x := setGlobal_refines v h

theorem shallow_setGlobal_other {x y : Nat} (hxy : y ≠ x) (d : Deep) (v : Val) :
    absStack (d.setGlobal x v) y = absStack d y := absStack_setGlobal_other hxy d v

/-! the same, literally on the abstraction `absStack d x` (as the canonical symbol state) -/

theorem abs_get (d : Deep) (x : Nat) : (mkSym (absStack d x)).get = d.lookup x :=
  get_refines (view_mkSym _)

/-- a symbol state is determined by its view and its (binding-irrelevant) attributes -/
theorem symSt_ext {s s' : SymSt} (hn : s.name = s'.name) (hc : s.constant = s'.constant)
    (hb : s.base = s'.base) (hv : view s = view s') : s = s' := by
  have h1 := congrArg Prod.fst hv
  have h2 := congrArg Prod.snd hv
  cases s; cases s'
  simp_all [view]

theorem abs_push (d : Deep) (x : Nat) (v : Val) :
    (mkSym (absStack d x)).push v = mkSym (absStack (d.bind x v) x) :=
  symSt_ext rfl rfl rfl (push_refines v (view_mkSym (absStack d x)))

theorem abs_pop (d : Deep) (x : Nat) (hb : d.hasBinding x = true) :
    (mkSym (absStack d x)).pop = some (mkSym (absStack (d.unbind x) x)) := by
  obtain ⟨s', h1, h2, hn, hc, hbase⟩ := pop_refines (view_mkSym (absStack d x)) hb
  rw [h1]
  exact congrArg some (symSt_ext hn hc hbase h2)

theorem abs_set (d : Deep) (x : Nat) (v : Val) :
    (mkSym (absStack d x)).set v = mkSym (absStack (d.assign x v) x) := by
  apply symSt_ext _ _ _ (set_refines v (view_mkSym (absStack d x))) <;>
    (simp only [SymSt.set]; split <;> rfl)

theorem abs_setGlobal (d : Deep) (x : Nat) (v : Val) :
    (mkSym (absStack d x)).setGlobal v = mkSym (absStack (d.setGlobal x v) x) := by
  apply symSt_ext _ _ _ (setGlobal_refines v (view_mkSym (absStack d x))) <;>
    (simp only [SymSt.setGlobal]; split <;> rfl)

/-- Shallow binding refines deep binding.  Start from related stores (`Rel d σ`: every symbol's value
    stack is the abstraction of the deep store) and issue any finite sequence of `bind` / `unbind` /
    `assign` / `setGlobal` operations such that `unbind x` is only issued when `x` has a binding on
    the deep stack (`d.valid ops`; this balance is what C03 proves of the evaluator).  Then the
    shallow run does not get stuck, the final stores are related again, and every variable reads the
    same value (or is unbound) in both. -/
theorem store_refines_deep (ops : List Op) (d : Deep) (σ : Store) (h : Rel d σ)
    (hv : d.valid ops) :
    ∃ σ', σ.run ops = some σ' ∧ Rel (d.run ops) σ' ∧ ∀ x, (σ' x).get = (d.run ops).lookup x := by
  obtain ⟨σ', h1, h2⟩ := run_refines ops d σ h hv
  exact ⟨σ', h1, h2, fun x => get_refines (h2 x)⟩

/-- The same for the contexts of the model and its own operations `pushV`, `popV`, `setV`,
    `setGlobalV`, read back with `getSym`, for symbols that exist and are not constants. -/
theorem ctx_refines_deep (ops : List Op) (d : Deep) (c : Ctx) (h : Rel d c.symD)
    (hv : d.valid ops)
    (hin : ∀ op ∈ ops, op.var < c.syms.size ∧ (c.symD op.var).constant = false) :
    ∃ c', runM ops c = (.ok (), c') ∧ Rel (d.run ops) c'.symD ∧
      ∀ x, (c.symD x).constant = false →
        getSym x c' = (match (d.run ops).lookup x with
          | some v => (.ok v, c')
          | none => (.err .typeMismatch, c')) := by
  obtain ⟨c', h1, h2, h3⟩ := runM_refines ops d c h hv hin
  refine ⟨c', h1, h2, ?_⟩
  intro x hx
  rw [getSym_var (by rw [h3]; exact hx), get_refines (h2 x)]
  cases (d.run ops).lookup x <;> rfl


/-! # PART C — non-vacuity -/

/-! ## a concrete deep / shallow trace -/

/-- the empty deep store -/
def d0 : Deep := ⟨[], fun _ => none⟩
/-- the empty shallow store -/
def σ0 : Store := fun _ => { name := "v" }

theorem rel0 : Rel d0 σ0 := fun _ => rfl

/-- variable 0 is `x`, variable 1 is `f`:
    `(setq x 1)` at top level; `(let ((x 2)) (f 3))` where `f` has parameter `x` and does
    `(setq x 4)`, then `(defun x …)` (a global definition under two shadows), then both scopes
    are left -/
def trace : List Op :=
  [.assign 0 (.int 1),        -- top-level setq creates the global value
   .bind 0 (.int 2),          -- let-shadow
   .bind 0 (.int 3),          -- parameter-shadow
   .assign 0 (.int 4),        -- assignment through the shadow: hits the innermost binding
   .setGlobal 0 (.int 9),     -- definition while shadowed: goes below the local bindings
   .unbind 0,                 -- leave the function
   .unbind 0]                 -- leave the let

example : d0.valid trace := ⟨trivial, trivial, trivial, trivial, trivial, rfl, rfl, trivial⟩

-- the deep side, step by step
example : (d0.run (trace.take 1)).lookup 0 = some (.int 1) := by decide
example : (d0.run (trace.take 2)).lookup 0 = some (.int 2) := by decide
example : (d0.run (trace.take 3)).lookup 0 = some (.int 3) := by decide
example : (d0.run (trace.take 4)).lookup 0 = some (.int 4) := by decide
example : (d0.run (trace.take 4)).stack = [(0, .int 4), (0, .int 2)] := by decide
example : (d0.run (trace.take 4)).globals 0 = some (.int 1) := by decide
example : (d0.run (trace.take 5)).lookup 0 = some (.int 4) := by decide
example : (d0.run (trace.take 6)).lookup 0 = some (.int 2) := by decide
example : (d0.run trace).lookup 0 = some (.int 9) := by decide
example : (d0.run trace).lookup 1 = none := by decide

-- the shallow side: one stack for `x`
example : ((σ0.run (trace.take 4)).map fun σ => ((σ 0).items, (σ 0).hasGlobal)) =
    some ([.int 4, .int 2, .int 1], true) := by decide
example : ((σ0.run (trace.take 5)).map fun σ => (σ 0).items) =
    some [.int 4, .int 2, .int 9] := by decide
example : ((σ0.run trace).map fun σ => ((σ 0).items, (σ 1).items)) = some ([.int 9], []) := by decide

-- an unbalanced sequence is rejected by the precondition, and the shallow store gets stuck on it
example : ¬ d0.valid [.assign 0 (.int 1), .unbind 0] := by
  intro h
  have h' : (d0.step (.assign 0 (.int 1))).hasBinding 0 = true := h.2.1
  exact absurd h' (by decide)
example : (σ0.run [.unbind 0]).isNone = true := by decide

/-- the refinement theorem applied to the trace -/
example : ∃ σ', σ0.run trace = some σ' ∧ ∀ x, (σ' x).get = (d0.run trace).lookup x := by
  obtain ⟨σ', h1, _, h3⟩ := store_refines_deep trace d0 σ0 rel0
    ⟨trivial, trivial, trivial, trivial, trivial, rfl, rfl, trivial⟩
  exact ⟨σ', h1, h3⟩

/-! ## the same trace on a context of the model -/

def c0 : Ctx := { syms := #[{ name := "x" }, { name := "f" }] }

theorem rel_c0 : Rel d0 c0.symD := by
  intro x
  rcases x with _ | _ | x
  · rfl
  · rfl
  · simp [Ctx.symD, c0, view, absStack, d0, bindingsOf]

theorem trace_in_range : ∀ op ∈ trace, op.var < c0.syms.size ∧ (c0.symD op.var).constant = false := by
  intro op h
  simp only [trace, List.mem_cons, List.not_mem_nil, or_false] at h
  rcases h with h | h | h | h | h | h | h <;> subst h <;> exact ⟨by decide, rfl⟩

example : ∃ c', runM trace c0 = (.ok (), c') ∧ getSym 0 c' = (.ok (.int 9), c') := by
  obtain ⟨c', h1, _, h3⟩ := ctx_refines_deep trace d0 c0 rel_c0
    ⟨trivial, trivial, trivial, trivial, trivial, rfl, rfl, trivial⟩ trace_in_range
  refine ⟨c', h1, ?_⟩
  have := h3 0 rfl
  rw [this]
  have : (d0.run trace).lookup 0 = some (.int 9) := by decide
  rw [this]

-- and directly by computation: the value seen inside the function, and after leaving everything
example : ((runM (trace.take 4) >>= fun _ => getSym 0) c0).1 = .ok (.int 4) := rfl
example : ((runM trace >>= fun _ => getSym 0) c0).1 = .ok (.int 9) := rfl



/-! ## the rules on the real evaluator: a concrete run -/

/-- a hand-built context: 0 `let`, 1 `setq`, 2 `x` (global value 1), 3 `y` (unbound), 4 `list`,
    5 `if`, 6 `:k` (a keyword) -/
def cE : Ctx := { syms := #[
  { name := "let", items := [.builtin .let_] },
  { name := "setq", items := [.builtin .setq], hasGlobal := true },
  { name := "x", items := [.int 1], hasGlobal := true },
  { name := "y" },
  { name := "list", items := [.builtin .list_], hasGlobal := true },
  { name := "if", items := [.builtin .if_], hasGlobal := true },
  { name := ":k", constant := true } ] }

def L (xs : List Val) : Val := Val.ofList xs

/-- what a run delivers: the elements of the value (or the value itself) and the stack of `x` -/
def outcome (p : Res Val × Ctx) : Option (Val × List Val) :=
  match p with
  | (.ok v, c) => some (v, (c.symD 2).items)
  | _ => none

-- hypotheses of the atom rules
example : (cE.symD 6).constant = true := rfl
example : (cE.symD 2).constant = false ∧ (cE.symD 2).items = [.int 1] := ⟨rfl, rfl⟩
example : (cE.symD 3).constant = false ∧ (cE.symD 3).items = [] := ⟨rfl, rfl⟩
example : evalStep (Rec.ofDepth 0) (.sym 2) cE = (.ok (.int 1), cE) :=
  eval_var _ 2 cE (.int 1) [] rfl rfl
example : evalStep (Rec.ofDepth 0) (.sym 3) cE = (.err .typeMismatch, cE) :=
  eval_var_unbound _ 3 cE rfl rfl
example : evalStep (Rec.ofDepth 0) (.sym 6) cE = (.ok (.sym 6), cE) :=
  eval_keyword _ 6 cE rfl

-- hypothesis of `eval_call_builtin` / `if_then` / `if_else`
example : (Rec.ofDepth 1).eval (.sym 5) cE = (.ok (.builtin .if_), cE) ∧ Bi.if_.isMacro = false :=
  ⟨rfl, rfl⟩
example : (Rec.ofDepth 1).eval (.sym 2) cE = (.ok (.int 1), cE) ∧ truthy (.int 1) = true := ⟨rfl, rfl⟩
example : (Rec.ofDepth 1).eval .nil cE = (.ok .nil, cE) := rfl

/-- `(let ((x 2)) (setq x 4) x)`: the assignment hits the `let` binding; the value is 4; afterwards
    `x` holds its global value 1 again -/
example : outcome ((Rec.ofDepth 4).eval
    (L [.sym 0, L [L [.sym 2, .int 2]], L [.sym 1, .sym 2, .int 4], .sym 2]) cE)
      = some (.int 4, [.int 1]) := rfl

/-- `(setq x 5)` at top level changes the global value -/
example : outcome ((Rec.ofDepth 4).eval (L [.sym 1, .sym 2, .int 5]) cE) = some (.int 5, [.int 5]) := rfl

/-- the deviation `let_is_sequential`, observed: `(let ((x 2) (y x)) y)` is 2 in this interpreter
    (Emacs Lisp: 1, the outer value of `x`) -/
example : outcome ((Rec.ofDepth 4).eval
    (L [.sym 0, L [L [.sym 2, .int 2], L [.sym 3, .sym 2]], .sym 3]) cE) = some (.int 2, [.int 1]) := rfl

/-- an error in the body of a `let` still pops the binding: `(let ((x 2)) y)` with `y` unbound -/
example : (fun p : Res Val × Ctx => (match p.1 with | .err k => some k | _ => none, (p.2.symD 2).items))
    ((Rec.ofDepth 4).eval (L [.sym 0, L [L [.sym 2, .int 2]], .sym 3]) cE)
      = (some .typeMismatch, [.int 1]) := rfl

/-- hypotheses of `let_run` on this run -/
example : ∃ c1, letBind (Rec.ofDepth 3) (L [L [.sym 2, .int 2]]) [] cE = (.ok [2], c1) ∧
    (c1.symD 2).items = [.int 2, .int 1] := ⟨_, rfl, rfl⟩
example : letVars (L [L [.sym 2, .int 2], .sym 3]) = [2, 3] := rfl

/-- `(if x (setq x 7) (setq x 8))`: only the selected branch runs -/
example : outcome ((Rec.ofDepth 4).eval
    (L [.sym 5, .sym 2, L [.sym 1, .sym 2, .int 7], L [.sym 1, .sym 2, .int 8]]) cE)
      = some (.int 7, [.int 7]) := rfl

/-! ## loop counting: the hypotheses of `dolist_body_count` / `dotimes_body_count` are satisfiable -/

/-- an evaluator that counts its calls in `tickCount` -/
def tickRec : Rec :=
  ⟨fun v c => (.ok v, { c with tickCount := c.tickCount + 1 }), fun v => pure v, fun _ => pure .nil⟩

example : ∃ c', dolistLoop tickRec 0 (L [.int 7]) (L [.int 1, .int 2, .int 3]) {} = (.ok (), c') ∧
    c'.tickCount = 3 := by
  obtain ⟨c', h, _, hc⟩ := dolist_body_count tickRec 0 (L [.int 7]) (·.tickCount) (fun _ => True)
    (fun c _ => ⟨_, _, rfl, trivial, rfl⟩) (fun c v _ => ⟨trivial, rfl⟩)
    (L [.int 1, .int 2, .int 3]) rfl {} trivial
  exact ⟨c', h, by simpa [L, Val.ofList, Val.len] using hc⟩

example : ∃ c', dotimesLoop tickRec 0 (L [.int 7]) 5 loopBudget 0 {} = (.ok (), c') ∧
    c'.tickCount = 5 := by
  obtain ⟨c', h, _, hc⟩ := dotimes_body_count tickRec 0 (L [.int 7]) (·.tickCount) (fun _ => True)
    (fun c _ => ⟨_, _, rfl, trivial, rfl⟩) (fun c v _ => ⟨trivial, rfl⟩)
    5 loopBudget 0 {} (by decide) (by decide) trivial
  exact ⟨c', h, by simpa using hc⟩

/-- `while_value`: a terminating loop (the test is the variable `x`, the body sets it to nil) -/
example : ∃ c', whileLoop (Rec.ofDepth 3) (.sym 2) (L [L [.sym 1, .sym 2, .nil]]) 10 cE = (.ok .nil, c') :=
  ⟨_, rfl⟩

/-! ## defun under a shadow -/

example : SymSt.lexBound { name := "f", items := [.int 1] } = true := rfl
example : (({ name := "f", items := [.int 1] } : SymSt).setGlobal (.int 9)).items = [.int 1, .int 9] := rfl
example : SymSt.lexBound { name := "f", items := [.int 1, .int 0], hasGlobal := true } = true := rfl
example : (({ name := "f", items := [.int 1, .int 0], hasGlobal := true } : SymSt).setGlobal (.int 9)).items
    = [.int 1, .int 9] := rfl


/-! ## a function call: parameter shadowing a `let` binding, assignment through the shadow -/

/-- 0 `setq`, 1 `x` — global value 1, shadowed by a `let` binding 2 —, 2 `f` = `(lambda (x) (setq x 4) x)` -/
def cF : Ctx := { syms := #[
  { name := "setq", items := [.builtin .setq], hasGlobal := true },
  { name := "x", items := [.int 2, .int 1], hasGlobal := true },
  { name := "f", items := [.lambda 0 ⟨[1], [], none⟩ (L [L [.sym 0, .sym 1, .int 4], .sym 1])],
    hasGlobal := true } ] }

/-- `(f 3)`: the parameter `x` shadows the `let` binding; `(setq x 4)` assigns the parameter; the
    call returns 4 and afterwards the stack of `x` is as before (let binding 2, global 1) -/
example : ∃ c', evalStep (Rec.ofDepth 3) (L [.sym 2, .int 3]) cF = (.ok (.int 4), c') ∧
    (c'.symD 1).items = [.int 2, .int 1] := by
  have hhead : (Rec.ofDepth 3).eval (.sym 2) cF =
      (.ok (.lambda 0 ⟨[1], [], none⟩ (L [L [.sym 0, .sym 1, .int 4], .sym 1])), cF) := rfl
  have hargs : collectArgs (Rec.ofDepth 3) true [1] [] none (L [.int 3]) cF = (.ok [.int 3], cF) := by
    simp only [L, Val.ofList]
    rw [collectArgs, collectArgs]
    · rfl
    · nofun
  have key : evalStep (Rec.ofDepth 3) (L [.sym 2, .int 3]) cF =
      ((bindParams [1] [.int 3] [] >>= fun _ =>
          M.finally' (evalProgn (Rec.ofDepth 3) (L [L [.sym 0, .sym 1, .int 4], .sym 1]))
            (fun c => [1].foldl popSymCtx c)) >>= fun res =>
        bounceLoop (Rec.ofDepth 3) ⟨[1], [], none⟩ (L [L [.sym 0, .sym 1, .int 4], .sym 1])
          loopBudget res) cF := by
    show evalStep (Rec.ofDepth 3) (.cons 0 (.sym 2) (L [.int 3])) cF = _
    rw [eval_call_function _ _ _ _ _ _ _ _ _ hhead, evalLambda_rule, evalFunction_rule,
      bind_assoc, C12.bind_ok _ hargs]
    rfl
  rw [key]
  exact ⟨_, rfl, rfl⟩

/-! ## when / unless in a context where `if` and `progn` are interned -/
def cW : Ctx := { syms := #[{ name := "if" }, { name := "progn" }],
                  obarray := (({} : Std.HashMap String Nat).insert "if" 0).insert "progn" 1 }

example : cW.obarray["if"]? = some 0 ∧ cW.obarray["progn"]? = some 1 := by
  constructor
  · show ((({} : Std.HashMap String Nat).insert "if" 0).insert "progn" 1)["if"]? = some 0
    rw [Std.HashMap.getElem?_insert, Std.HashMap.getElem?_insert]
    simp
  · show ((({} : Std.HashMap String Nat).insert "if" 0).insert "progn" 1)["progn"]? = some 1
    rw [Std.HashMap.getElem?_insert]
    simp

example : ∃ v, callMacro .when_ (L [.sym 7, .int 1, .int 2]) cW =
      (.ok v, { cW with nextId := cW.nextId + 4 }) ∧
    eraseIds v = eraseIds (L [.sym 0, .sym 7, .cons 0 (.sym 1) (L [.int 1, .int 2])]) := by
  have h : cW.obarray["if"]? = some 0 ∧ cW.obarray["progn"]? = some 1 := by
    constructor
    · show ((({} : Std.HashMap String Nat).insert "if" 0).insert "progn" 1)["if"]? = some 0
      rw [Std.HashMap.getElem?_insert, Std.HashMap.getElem?_insert]
      simp
    · show ((({} : Std.HashMap String Nat).insert "if" 0).insert "progn" 1)["progn"]? = some 1
      rw [Std.HashMap.getElem?_insert]
      simp
  exact when_expansion_interned 0 (.sym 7) (L [.int 1, .int 2]) cW 0 1 h.1 h.2

end Tulisp.C01
