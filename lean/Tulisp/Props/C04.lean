/-
  Props/C04.lean — C04: tail-call optimisation.

  "A function defined by defun whose call to itself is in tail position (directly, or in the
   tail of nested if, cond, progn, let, let*, when or unless forms) runs any number of iterations
   without growing the host stack.  Its result, side effects and final variable state are
   identical to those of ordinary recursive evaluation of the same definition, for all
   parameter-list shapes, however it is called, and self-calls that are not in tail position are
   evaluated as ordinary calls."

  Model (Model/Eval.lean).  At `defun` time `markTailCalls fname fuel body` rewrites the LAST form
  of the body: a self-call `(f a b)` in the tail of nested `progn / let / let* / if / cond` becomes
  `(<builtin evalEach> <bounce> a b)` (`when`, `unless`, `if-let` arrive macro-expanded to `if` /
  `let*`).  `evalLambda r ev ps body args` runs `evalFunction` once and then the trampoline
  `bounceLoop r ps body k res`: while the result is a list headed by `.bounce` it re-enters
  `evalFunction r false ps body vals` — with the SAME `r`.  Host-stack depth is the structural
  parameter `d` of `Rec.ofDepth d`; loops take an iteration budget (`loopBudget` = 4·10^9) instead.

  Vocabulary (Proofs/C04.lean)
    `eraseIds v`              `v` with every allocation identity set to 0
    `isBounce v`              `v` is a bounce request `(bounce . vals)`
    `Bounces r ps body n vals c vals' c'`   `n` successive passes of the body, each succeeding with a
                              bounce request, lead from arguments `vals` in state `c` to `vals'` in `c'`
    `evalLambdaK … k`         `evalLambda` with iteration budget `k`
    `tailForm i j args`       the form `(<evalEach> <bounce> . args)`;  `SelfEval r`: `r` evaluates
                              built-in objects and the bounce marker to themselves
    `applyFn r ps body vs`    the function applied to a Lean list of values (bind, run, unbind)
    `TooMany ps n`            `n` arguments are more than the parameter list `ps` takes
    `markS self hname fuel body`   pure specification of `markTailCalls` (no state, ids erased);
                              `isSelfHead c fname`, `headName c` are the two tests it depends on
    `FormR / BodyR / ClausesR`     the tail positions, as an inductive relation input ↦ output
    `consOrNil v`             `v` is a cons cell or nil (a list continuation, not a dotted atom);
                              `selfArgs targs`: the argument list of the bounce form of `(f . targs)`
    `specialName s`           `s ∈ {progn, let, let*, if, cond}`;  `PlainForm`: a last form that is
                              not descended into

  Contents
    1. trampoline: `bounceLoop_bounce`, `bounceLoop_done`, `bounceLoop_budget`, `evalLambda_unfold`,
       `funcall_lambda`, `call_form_enters_trampoline`; constant depth: `depth_constant`,
       `bounceLoop_terminates`, `evalLambda_completes`, `tail_loop_constant_depth`,
       `tail_call_constant_depth`; contrast: `plain_recursion_needs_depth`,
       `nested_forms_need_depth`, `plain_recursion_exhausts_depth`, `marked_loop_constant_depth`,
       `countdown_constant_depth`
    2. `bounce_eq_call`, `bounce_eq_funcall`, `reentry_depends_on_values_only`
    3. `ofDepth_selfEval`, `tail_form_eval`, `tail_form_eval_ok`, `tail_form_eval_fail`,
       `tail_call_as_call`, `ordinary_call`, `value_call`
    4. `markTailCalls_frame`, `markTailCalls_spec`, (a) `markTailCalls_forms`,
       `markTailCalls_forms_verbatim`, (b) `markTailCalls_plain_last`, `markTailCalls_if`,
       `markTailCalls_let`, `markTailCalls_progn`, `markTailCalls_cond`, (c) `markTailCalls_self_call`
       (`…_any`, `…_dotted`), `markTailCalls_dotted`, (d) `markTailCalls_tailpos`, (e) `markTailCalls_fuel`, `markTailCalls_no_fuel`, `defun_unfold`
    5. examples computed by `rfl`
    6. FINDING `tco_changes_meaning_under_let` (with `let_marking`, `let_plain_succeeds`,
       `let_marked_fails`): the optimised loop and ordinary recursion DIFFER when the tail call
       stands inside a `let` whose variable a later iteration reads; the unrestricted
       "identical meaning" statement is therefore false (in the model and in the interpreter)
-/
import Tulisp.Proofs.C04
import Tulisp.Proofs.C04Example
namespace Tulisp.C04
open Tulisp
open Tulisp.C12 (mkListM_run elems_ofList)

/-! ## 1. the trampoline -/

/-- A bounce request makes the trampoline re-enter the body with the carried values, with the
    same `r` and one unit less of iteration budget. -/
theorem bounceLoop_bounce (r : Rec) (ps : Params) (body : Val) (k i : Nat) (vals : Val) :
    bounceLoop r ps body (k + 1) (.cons i .bounce vals)
      = (evalFunction r false ps body vals >>= bounceLoop r ps body k) :=
  bounceLoop_bounce_eq r ps body k i vals

/-- A result that is not a bounce request is returned as it is. -/
theorem bounceLoop_done (r : Rec) (ps : Params) (body : Val) (k : Nat) (res : Val)
    (h : isBounce res = false) : bounceLoop r ps body (k + 1) res = pure res :=
  bounceLoop_done_eq r ps body k res h

/-- The only way the trampoline itself gives up: the ITERATION budget is used up. -/
theorem bounceLoop_budget (r : Rec) (ps : Params) (body res : Val) :
    bounceLoop r ps body 0 res = M.outOfFuel :=
  bounceLoop_zero r ps body res

/-- `eval_lambda`: one pass, then the trampoline with the full iteration budget — whether the
    arguments are forms (`ev = true`) or values (`ev = false`), for every parameter list. -/
theorem evalLambda_unfold (r : Rec) (ev : Bool) (ps : Params) (body args : Val) :
    evalLambda r ev ps body args
      = (evalFunction r ev ps body args >>= bounceLoop r ps body loopBudget) := rfl

/-- `funcall` of a lambda, with forms or with values, is `evalLambda`. -/
theorem funcall_lambda (r : Rec) (ev : Bool) (id : Nat) (ps : Params) (body args : Val) :
    funcallVal r ev (.lambda id ps body) args = evalLambda r ev ps body args := rfl

/-- A call form whose head evaluates to a lambda enters the same trampoline. -/
theorem call_form_enters_trampoline (r : Rec) (i id : Nat) (head args : Val) (ps : Params)
    (body : Val) (c c' : Ctx) (h : r.eval head c = (.ok (.lambda id ps body), c')) :
    evalStep r (.cons i head args) c = evalLambda r true ps body args c' := by
  rw [evalStep_call]
  show M.bind (r.eval head) _ c = _
  rw [C13.M.bind_ok h]
  rfl

example : (Rec.ofDepth 1).eval (.sym 0) { syms := #[{ name := "f", items := [.lambda 7 noParams .nil] }] }
    = (.ok (.lambda 7 noParams .nil), { syms := #[{ name := "f", items := [.lambda 7 noParams .nil] }] }) := rfl

/-- `depth_constant`: if the first `n ≤ k` passes each succeed with a bounce request, the
    trampoline with budget `k` is, after them, the trampoline with budget `k - n` on the `n`-th
    request — everything with the SAME `r`: `n` iterations need no more depth than one. -/
theorem depth_constant {r : Rec} {ps : Params} {body : Val} {n : Nat} {vals vals' : Val}
    {c c' : Ctx} (h : Bounces r ps body n vals c vals' c') (k i j : Nat) (hk : n ≤ k) :
    bounceLoop r ps body k (.cons i .bounce vals) c
      = bounceLoop r ps body (k - n) (.cons j .bounce vals') c' :=
  depth_constant_aux h k i j hk

/-- `n` bounces followed by a pass with a final value: the trampoline returns that value and
    state as soon as its iteration budget is at least `n + 2`; `r` is arbitrary and fixed. -/
theorem bounceLoop_terminates {r : Rec} {ps : Params} {body : Val} {n : Nat}
    {vals vals' v : Val} {c c' c'' : Ctx} (h : Bounces r ps body n vals c vals' c')
    (hfin : evalFunction r false ps body vals' c' = (.ok v, c'')) (hv : isBounce v = false)
    (k i : Nat) (hk : n + 2 ≤ k) :
    bounceLoop r ps body k (.cons i .bounce vals) c = (.ok v, c'') :=
  bounceLoop_terminates_aux h hfin hv k i hk

/-- The whole call: a first pass that bounces, `n` further bouncing passes and a final pass
    complete at the depth of ONE pass, for every `n` below the iteration budget. -/
theorem evalLambda_completes {r : Rec} {ev : Bool} {ps : Params} {body args : Val} {n i : Nat}
    {vals vals' v : Val} {c c1 c' c'' : Ctx}
    (h0 : evalFunction r ev ps body args c = (.ok (.cons i .bounce vals), c1))
    (h : Bounces r ps body n vals c1 vals' c')
    (hfin : evalFunction r false ps body vals' c' = (.ok v, c'')) (hv : isBounce v = false)
    (hn : n + 2 ≤ loopBudget) :
    evalLambda r ev ps body args c = (.ok v, c'') := by
  rw [evalLambda_unfold]
  show M.bind _ _ c = _
  rw [C13.M.bind_ok h0]
  exact bounceLoop_terminates_aux h hfin hv loopBudget i hn

/-- Constant depth, stated with the depth budget.  Let `S` be an invariant on (argument list,
    state) such that ONE pass of the body at depth budget `d` from `S` succeeds with either a
    bounce request back into `S` or a final value.  Then for EVERY iteration budget `k` the
    trampoline at the same `d` either completes with a final value, or reports `.fuel` only after
    at least `k - 1` complete bounce iterations: the `.fuel` never comes from the depth. -/
theorem tail_loop_constant_depth (d : Nat) (ps : Params) (body : Val) (S : Val → Ctx → Prop)
    (hS : ∀ vals c, S vals c →
      (∃ i vals' c', evalFunction (Rec.ofDepth d) false ps body vals c
          = (.ok (.cons i .bounce vals'), c') ∧ S vals' c')
      ∨ (∃ v c', evalFunction (Rec.ofDepth d) false ps body vals c = (.ok v, c') ∧ isBounce v = false))
    (k i : Nat) (vals : Val) (c : Ctx) (hs : S vals c) :
    (∃ v c', bounceLoop (Rec.ofDepth d) ps body k (.cons i .bounce vals) c = (.ok v, c')
        ∧ isBounce v = false)
    ∨ (∃ c', bounceLoop (Rec.ofDepth d) ps body k (.cons i .bounce vals) c = (.fuel, c') ∧
        ∃ vals1 c1, Bounces (Rec.ofDepth d) ps body (k - 1) vals c vals1 c1) :=
  bounceLoop_invariant_aux (Rec.ofDepth d) ps body S hS k i vals c hs

/-- The same for a whole call `evalLambda` (budget `loopBudget` = 4·10^9): it completes at depth
    `d`, or gives up after 3 999 999 999 bounce iterations — however many iterations it needs,
    the depth budget of one pass is enough. -/
theorem tail_call_constant_depth (d : Nat) (ps : Params) (body : Val) (S : Val → Ctx → Prop)
    (hS : ∀ vals c, S vals c →
      (∃ i vals' c', evalFunction (Rec.ofDepth d) false ps body vals c
          = (.ok (.cons i .bounce vals'), c') ∧ S vals' c')
      ∨ (∃ v c', evalFunction (Rec.ofDepth d) false ps body vals c = (.ok v, c') ∧ isBounce v = false))
    (ev : Bool) (args : Val) (c c1 : Ctx) (i : Nat) (vals : Val)
    (h0 : evalFunction (Rec.ofDepth d) ev ps body args c = (.ok (.cons i .bounce vals), c1))
    (hs : S vals c1) :
    (∃ v c', evalLambda (Rec.ofDepth d) ev ps body args c = (.ok v, c') ∧ isBounce v = false)
    ∨ (∃ c', evalLambda (Rec.ofDepth d) ev ps body args c = (.fuel, c') ∧
        ∃ vals1 c2, Bounces (Rec.ofDepth d) ps body (loopBudget - 1) vals c1 vals1 c2) := by
  have e : evalLambda (Rec.ofDepth d) ev ps body args c
      = bounceLoop (Rec.ofDepth d) ps body loopBudget (.cons i .bounce vals) c1 := by
    rw [evalLambda_unfold]
    show M.bind _ _ c = _
    rw [C13.M.bind_ok h0]
  rw [e]
  exact bounceLoop_invariant_aux (Rec.ofDepth d) ps body S hS loopBudget i vals c1 hs

/-- non-vacuity of the invariant hypothesis: the marked body of `(defun f () (f))` at depth 2,
    with the invariant "the argument list is empty" -/
example (i j k : Nat) : ∀ vals c, (fun (v : Val) (_ : Ctx) => v = .nil) vals c →
      (∃ i' vals' c', evalFunction (Rec.ofDepth 2) false noParams (loopBodyMarked i j k) vals c
          = (.ok (.cons i' .bounce vals'), c') ∧ (fun (v : Val) (_ : Ctx) => v = .nil) vals' c')
      ∨ (∃ v c', evalFunction (Rec.ofDepth 2) false noParams (loopBodyMarked i j k) vals c
          = (.ok v, c') ∧ isBounce v = false) := by
  intro vals c hv
  subst hv
  exact .inl ⟨_, _, _, marked_loop_pass 0 i j k c, rfl⟩

/-- Contrast, abstractly: at depth budget 0 nothing can be evaluated, and a call form at depth
    budget `d + 1` evaluates its head — and then, inside `funcallVal` / `callBuiltin`, its
    arguments and the callee's body — with the evaluator of depth budget `d`: an ordinary call
    costs one level of `Rec.ofDepth`. -/
theorem plain_recursion_needs_depth :
    (∀ e, (Rec.ofDepth 0).eval e = M.outOfFuel) ∧
    (∀ d i head args, (Rec.ofDepth (d + 1)).eval (.cons i head args)
        = ((Rec.ofDepth d).eval head >>= fun f =>
            match f with
            | .builtin b =>
              if b.isMacro then funcallVal (Rec.ofDepth d) true f args
              else callBuiltin (Rec.ofDepth d) b args
            | _ => funcallVal (Rec.ofDepth d) true f args)) :=
  ⟨fun _ => rfl, fun _ _ _ _ => rfl⟩

/-- `n` ordinary evaluations nested in each other cannot be done with a depth budget `d ≤ n`. -/
theorem nested_forms_need_depth (d n : Nat) (h : d ≤ n) (c : Ctx) :
    (Rec.ofDepth d).eval (nest n) c = (.fuel, c) :=
  nest_needs_depth_aux d n h c

/-- Contrast, concretely: WITHOUT marking, `(defun f () (f))` exhausts every depth budget — the
    call `(f)` yields `.fuel` at every `d`, in the untouched initial state. -/
theorem plain_recursion_exhausts_depth (c : Ctx) (f id i j : Nat)
    (h1 : (c.symD f).constant = false)
    (h2 : (c.symD f).get = some (.lambda id noParams (loopBody i j f))) (d j' : Nat) :
    (Rec.ofDepth d).eval (.cons j' (.sym f) .nil) c = (.fuel, c) :=
  plain_recursion_exhausts_depth_aux c f id i j h1 h2 d j'

example : let c : Ctx := { syms := #[{ name := "f", items := [.lambda 7 noParams (loopBody 0 0 0)] }] }
    (c.symD 0).constant = false ∧ (c.symD 0).get = some (.lambda 7 noParams (loopBody 0 0 0)) :=
  ⟨rfl, rfl⟩

/-- …whereas the SAME function after `markTailCalls` (see `mark_loopBody`) runs at depth 2 for
    every iteration budget `k`: exactly `k` iterations, then the iteration budget is reported. -/
theorem marked_loop_constant_depth (d i j k' k n : Nat) (c : Ctx) :
    bounceLoop (Rec.ofDepth (d + 2)) noParams (loopBodyMarked i j k') k (.cons n .bounce .nil) c
      = (.fuel, { c with nextId := c.nextId + k }) :=
  marked_loop_constant_depth_aux d i j k' k n c

/-- `markTailCalls` turns the body `((f))` of `(defun f () (f))` into `((<evalEach> <bounce>))`. -/
theorem marked_loop_is_marking (f i j fuel : Nat) (c : Ctx) :
    markTailCalls f (fuel + 1) (loopBody i j f) c
      = (.ok (loopBodyMarked (c.nextId + 2) c.nextId (c.nextId + 1)),
         { c with nextId := c.nextId + 3 }) :=
  mark_loopBody f i j fuel c

/-- A real, terminating tail-recursive function, `(defun f (n) (if n (f (cdr n)) t))` (marked body
    `cdBody`), called on a proper list `l` of ANY length below the iteration budget, in any
    context where `if`, `cdr` have their built-in values and `n` is an ordinary symbol: the call
    succeeds at depth `d + 4` for every `d` — the depth does not depend on the length — returns
    `t`, and leaves the variable state exactly as it was (`2·len l` cell ids are consumed). -/
theorem countdown_constant_depth (d ifS cdrS nS id : Nat) (l : Val) (hp : proper l = true)
    (c : Ctx) (hc : CdCtx ifS cdrS nS c) (hlen : l.len + 1 ≤ loopBudget) :
    funcallVal (Rec.ofDepth (d + 4)) false (.lambda id (cdParams nS) (cdBody ifS cdrS nS)) (L [l]) c
      = (.ok .t, { c with nextId := c.nextId + 2 * l.len }) :=
  cd_call d ifS cdrS nS id l hp c hc hlen

/-- a context satisfying `CdCtx` -/
def cdCtx : Ctx :=
  { syms := #[{ name := "if", hasGlobal := true, items := [.builtin .if_] },
              { name := "cdr", hasGlobal := true, items := [.builtin .cdr] },
              { name := "n" }, { name := "f" }] }

example : CdCtx 0 1 2 cdCtx := ⟨rfl, rfl, rfl, rfl, by decide, rfl, by decide, by decide⟩

/-- `cdBody` is what `markTailCalls` makes of `((if n (f (cdr n)) t))` -/
example : mapR eraseIds
    (markTailCalls 3 20 (L [L [.sym 0, .sym 2, L [.sym 3, L [.sym 1, .sym 2]], .t]]) cdCtx).1
      = .ok (cdBody 0 1 2) := rfl

/-- the run on the three-element list `(1 2 3)`: three bounces, at depth 4 -/
example : funcallVal (Rec.ofDepth 4) false (.lambda 9 (cdParams 2) (cdBody 0 1 2))
    (L [L [.int 1, .int 2, .int 3]]) cdCtx = (.ok .t, { cdCtx with nextId := cdCtx.nextId + 6 }) :=
  countdown_constant_depth 0 0 1 2 9 _ rfl cdCtx
    ⟨rfl, rfl, rfl, rfl, by decide, rfl, by decide, by decide⟩ (by decide)

/-! ## 2. re-entering with the bounced values is calling the function with those values -/

/-- The trampoline step on a bounce request IS the call of the function on the carried values
    (`evalLambda` on values), with the remaining iteration budget. -/
theorem bounce_eq_call (r : Rec) (ps : Params) (body : Val) (k i : Nat) (vals : Val) (c : Ctx) :
    bounceLoop r ps body (k + 1) (.cons i .bounce vals) c
      = (evalFunction r false ps body vals >>= bounceLoop r ps body k) c
    ∧ bounceLoop r ps body (k + 1) (.cons i .bounce vals) = evalLambdaK r false ps body vals k :=
  ⟨rfl, rfl⟩

/-- …and `evalLambdaK` with the full budget is the code path of `funcallVal r false` (the one
    `funcall`, `mapcar`, `sort`, … take), so: modulo the iteration budget, handling a bounce
    request = `funcallVal r false (.lambda id ps body) vals`. -/
theorem bounce_eq_funcall (r : Rec) (id : Nat) (ps : Params) (body : Val) (i : Nat) (vals : Val) :
    bounceLoop r ps body (loopBudget + 1) (.cons i .bounce vals)
      = funcallVal r false (.lambda id ps body) vals
    ∧ ∀ ev args, funcallVal r ev (.lambda id ps body) args = evalLambdaK r ev ps body args loopBudget :=
  ⟨rfl, fun _ _ => rfl⟩

/-- The re-entry only looks at the VALUES carried by the request (not at the cells of the list
    carrying them): it is the function applied to `vals.elems`. -/
theorem reentry_depends_on_values_only (r : Rec) (ps : Params) (body vals : Val) :
    evalFunction r false ps body vals = applyFn r ps body vals.elems :=
  evalFunction_false r ps body vals

/-! ## 3. the rewritten tail form -/

/-- every evaluator of positive depth evaluates built-in objects and the bounce marker to themselves -/
theorem ofDepth_selfEval (d : Nat) :
    (∀ b, (Rec.ofDepth (d + 1)).eval (.builtin b) = pure (.builtin b)) ∧
    (Rec.ofDepth (d + 1)).eval .bounce = pure .bounce ∧ SelfEval (Rec.ofDepth (d + 1)) :=
  ⟨fun _ => rfl, rfl, selfEval_ofDepth d⟩

/-- The form `(<evalEach> <bounce> a1 … an)` evaluates the `ai` once each, left to right, exactly
    as `evalEach` (the argument evaluation of an ordinary call) does, in the scope it stands in,
    and returns the fresh list `(bounce v1 … vn)`. -/
theorem tail_form_eval (r : Rec)
    (hb : r.eval (.builtin .evalEach) = pure (.builtin .evalEach)) (hbo : r.eval .bounce = pure .bounce)
    (i j : Nat) (args : Val) :
    evalStep r (.cons i (.builtin .evalEach) (.cons j .bounce args))
      = (evalEach r args >>= fun vs => mkListM (.bounce :: vs)) := by
  show (r.eval (.builtin .evalEach) >>= fun f => _) = _
  rw [hb]
  show callBuiltin r .evalEach (.cons j .bounce args) = _
  rw [callBuiltin_evalEach, evalEach_cons, hbo]
  simp only [bind_assoc, pure_bind]

/-- Run-level: if the argument forms evaluate to `vs` (leaving state `c'`), the form yields the
    bounce request `(bounce . vals)` with `vals.elems = vs`; apart from the evaluation of the
    arguments only the `n + 1` cells of that list are allocated. -/
theorem tail_form_eval_ok (r : Rec) (hr : SelfEval r) (i j : Nat) (args : Val) (c c' : Ctx)
    (vs : List Val) (h : evalEach r args c = (.ok vs, c')) :
    evalStep r (tailForm i j args) c
      = (.ok (.cons c'.nextId .bounce (Val.mkList (c'.nextId + 1) vs .nil).1),
         { c' with nextId := c'.nextId + (vs.length + 1) })
    ∧ (Val.mkList (c'.nextId + 1) vs .nil).1.elems = vs :=
  ⟨evalStep_tailForm_ok r hr i j args c c' vs h, elems_mkList _ _⟩

/-- If the evaluation of an argument fails (error, panic, fuel), the form fails in the same way
    in the same state. -/
theorem tail_form_eval_fail (r : Rec) (hr : SelfEval r) (i j : Nat) (args : Val) (c c' : Ctx)
    (x : Res (List Val)) (h : evalEach r args c = (x, c')) (hx : ∀ vs, x ≠ .ok vs) :
    (evalStep r (tailForm i j args) c).2 = c' ∧
    (match x, (evalStep r (tailForm i j args) c).1 with
      | .err k, .err k' => k = k'
      | .panic s, .panic s' => s = s'
      | .fuel, .fuel => True
      | _, _ => False) :=
  evalStep_tailForm_fail r hr i j args c c' x h hx

example : evalEach (Rec.ofDepth 2) (L [.int 1, .quote (.sym 5)]) cdCtx = (.ok [.int 1, .sym 5], cdCtx) := rfl

/-- The value of the rewritten tail form handed to the trampoline: evaluate the argument forms,
    allocate the request, apply the function to the values (remaining budget `k`). -/
theorem tail_call_as_call (r : Rec) (hr : SelfEval r) (ps : Params) (body : Val) (k i j : Nat)
    (args : Val) :
    (evalStep r (tailForm i j args) >>= bounceLoop r ps body (k + 1))
      = (evalEach r args >>= fun vs => mkListM (.bounce :: vs) >>= fun _ =>
          applyFn r ps body vs >>= bounceLoop r ps body k) :=
  tailForm_then_bounce r hr ps body k i j args

/-- The ordinary call of the same lambda on the same argument forms: evaluate the argument forms
    in the same way, apply the function to the values.  So a marked tail self-call differs from
    the ordinary call only in that (1) the request list is allocated, (2) the caller's parameter
    bindings are popped before the callee's are pushed rather than after its return, (3) the
    iteration budget; and (4) when there are too many arguments (excluded here) the surplus
    arguments are evaluated before the arity error is raised. -/
theorem ordinary_call (r : Rec) (id : Nat) (ps : Params) (body args : Val)
    (h : ¬ TooMany ps args.elems.length) :
    funcallVal r true (.lambda id ps body) args
      = (evalEach r args >>= fun vs => applyFn r ps body vs >>= bounceLoop r ps body loopBudget) :=
  ordinary_call_aux r id ps body args h

example : ¬ TooMany ⟨[3], [4], none⟩ (L [.int 1, .int 2]).elems.length := by
  simp [TooMany, Val.elems, Val.ofList]

/-- A call with values (`funcall::<DummyEval>`). -/
theorem value_call (r : Rec) (id : Nat) (ps : Params) (body vals : Val) :
    funcallVal r false (.lambda id ps body) vals
      = (applyFn r ps body vals.elems >>= bounceLoop r ps body loopBudget) :=
  value_call_aux r id ps body vals

/-! ## 4. `markTailCalls` -/

/-- `markTailCalls` touches nothing in the state but the id counter. -/
theorem markTailCalls_frame (fname fuel : Nat) (body : Val) (c : Ctx) :
    ∃ n, (markTailCalls fname fuel body c).2 = { c with nextId := n } :=
  (markTailCalls_sim fname fuel body c).frame

/-- Up to cell identities, the outcome of `markTailCalls` is the pure specification `markS`, which
    depends on the context only through "is this head the function's own name" and "what is the
    name of this head symbol". -/
theorem markTailCalls_spec (fname fuel : Nat) (body : Val) (c : Ctx) :
    mapR eraseIds (markTailCalls fname fuel body c).1
      = markS (isSelfHead c fname) (headName c) fuel body :=
  (markTailCalls_sim fname fuel body c).res

/-- what `isSelfHead` means: the head is a symbol `eq` to the function name -/
theorem isSelfHead_iff (c : Ctx) (fname : Nat) (th : Val) :
    isSelfHead c fname th = true ↔ ∃ n, th = .sym n ∧ symEq c n fname = true := by
  cases th <;> simp [isSelfHead]

theorem isSelfHead_self (c : Ctx) (fname : Nat) : isSelfHead c fname (.sym fname) = true := by
  simp [isSelfHead, symEq]

/-- 4a: the number of forms is unchanged, and every form but the last is unchanged. -/
theorem markTailCalls_forms {fname fuel : Nat} {body w : Val} {c c' : Ctx}
    (h : markTailCalls fname fuel body c = (.ok w, c')) :
    w.elems.length = body.elems.length ∧
    w.elems.dropLast.map eraseIds = body.elems.dropLast.map eraseIds := by
  have := markS_forms (markTailCalls_ok h).1
  rw [elems_eraseIds] at this
  exact ⟨by simpa using this.1, by simpa [List.map_dropLast] using this.2⟩

/-- 4a, sharper: the forms before the last are the very same objects (not even copied). -/
theorem markTailCalls_forms_verbatim {fname fuel : Nat} {body w : Val} {c c' : Ctx}
    (h : markTailCalls fname fuel body c = (.ok w, c')) :
    w.elems.dropLast = body.elems.dropLast := by
  cases fuel with
  | zero => rw [markTailCalls_zero] at h; cases h
  | succ fuel =>
    by_cases hb : body.isCons = true
    · obtain ⟨i, a, d, rfl⟩ : ∃ i a d, body = .cons i a d := by
        cases body <;> simp [Val.isCons] at hb
        exact ⟨_, _, _, rfl⟩
      rw [markTailCalls_succ_cons] at h
      cases hs : splitLast (Val.cons i a d).elems with
      | none => simp only [hs] at h; cases h; rfl
      | some p =>
        obtain ⟨ini, tail⟩ := p
        simp only [hs] at h
        have he := splitLast_eq_some hs
        cases tail with
        | cons j th targs =>
          simp only [] at h
          change M.bind (newTailM fname fuel c (.cons j th targs) th targs)
            (fun nt => mkListM (ini ++ [nt])) c = _ at h
          simp only [M.bind] at h
          rcases hn : newTailM fname fuel c (.cons j th targs) th targs c with ⟨r, c1⟩
          rw [hn] at h
          cases r with
          | ok nt =>
            simp only [mkListM_run] at h
            cases h
            rw [elems_mkList, he]; simp
          | _ => cases h
        | _ => cases h; rfl
    · rw [markTailCalls_succ_atom _ _ _ (by simpa using hb)] at h
      cases h; rfl

/-- a last form that `markTailCalls` does not descend into: not a list, or a list whose head is
    neither the function's own name nor one of `progn`, `let`, `let*`, `if`, `cond` -/
def PlainForm (c : Ctx) (fname : Nat) (tail : Val) : Prop :=
  tail.isCons = false ∨
  ∃ j th targs, tail = .cons j th targs ∧ isSelfHead c fname th = false ∧
    specialName (headName c th) = false

/-- 4b: if the last form is not descended into, ALL forms are unchanged — in particular a
    self-call nested in an argument, as in `(+ 1 (f x))`, stays an ordinary call. -/
theorem markTailCalls_plain_last {fname fuel : Nat} {body w tail : Val} {ini : List Val}
    {c c' : Ctx} (h : markTailCalls fname fuel body c = (.ok w, c'))
    (he : body.elems = ini ++ [tail]) (hp : PlainForm c fname tail) :
    w.elems.map eraseIds = body.elems.map eraseIds := by
  have hs := (markTailCalls_ok h).1
  obtain ⟨f, rfl⟩ := markS_ok_fuel_pos hs
  rw [← elems_eraseIds]
  rcases hp with ht | ⟨j, th, targs, rfl, h1, h2⟩
  · rw [markS_body_atom hs he ht, elems_eraseIds]
  · obtain ⟨nt, hf, hv⟩ := markS_body hs he
    rw [formS_other h1 h2] at hf
    cases hf
    rw [hv, elems_ofList, he]; simp

/-- 4c, for every last form `(f . targs)` whose head is `eq` to the function name, well formed or
    not: it becomes `(<evalEach> <bounce> . selfArgs targs)` (the other forms copied), where
    `selfArgs targs` is `targs` verbatim when `targs` is a list (a cons cell or nil) and the
    one-element list `(atom)` for the dotted call `(f . atom)` (Rust: `nil.append(targs)`). -/
theorem markTailCalls_self_call_any {fname fuel j : Nat} {body w th targs : Val} {ini : List Val}
    {c c' : Ctx} (h : markTailCalls fname fuel body c = (.ok w, c'))
    (he : body.elems = ini ++ [.cons j th targs]) (hs : isSelfHead c fname th = true) :
    eraseIds w = Val.ofList (ini.map eraseIds ++
      [.cons 0 (.builtin .evalEach) (.cons 0 .bounce (selfArgs targs))]) := by
  have hm := (markTailCalls_ok h).1
  obtain ⟨f, rfl⟩ := markS_ok_fuel_pos hm
  obtain ⟨nt, hf, hv⟩ := markS_body hm he
  rw [formS_self hs] at hf
  cases hf; exact hv

/-- 4c: a last form `(f a1 … an)` whose head is `eq` to the function name becomes
    `(<evalEach> <bounce> a1 … an)`, the argument forms verbatim (the other forms copied).
    `consOrNil targs`: the call is not the dotted `(f . atom)`, for which see
    `markTailCalls_self_call_dotted`. -/
theorem markTailCalls_self_call {fname fuel j : Nat} {body w th targs : Val} {ini : List Val}
    {c c' : Ctx} (h : markTailCalls fname fuel body c = (.ok w, c'))
    (he : body.elems = ini ++ [.cons j th targs]) (hs : isSelfHead c fname th = true)
    (hl : consOrNil targs = true) :
    eraseIds w = Val.ofList (ini.map eraseIds ++
      [.cons 0 (.builtin .evalEach) (.cons 0 .bounce (eraseIds targs))]) := by
  rw [← selfArgs_of_consOrNil hl]
  exact markTailCalls_self_call_any h he hs

/-- the dotted self-call `(f . atom)` becomes `(<evalEach> <bounce> atom)` -/
theorem markTailCalls_self_call_dotted {fname fuel j : Nat} {body w th targs : Val} {ini : List Val}
    {c c' : Ctx} (h : markTailCalls fname fuel body c = (.ok w, c'))
    (he : body.elems = ini ++ [.cons j th targs]) (hs : isSelfHead c fname th = true)
    (hl : consOrNil targs = false) :
    eraseIds w = Val.ofList (ini.map eraseIds ++
      [.cons 0 (.builtin .evalEach) (.cons 0 .bounce (.cons 0 (eraseIds targs) .nil))]) := by
  rw [← selfArgs_of_atom hl]
  exact markTailCalls_self_call_any h he hs

/-- `consOrNil` holds of the argument lists of ordinary calls, and fails for dotted ones -/
example : consOrNil (L [.sym 3, .int 1]) = true ∧ consOrNil .nil = true ∧ consOrNil (.int 5) = false :=
  ⟨rfl, rfl, rfl⟩

/-- `if` in tail position: the condition is copied verbatim (a self-call there stays an ordinary
    call); the then-form is a tail position and so is the last of the else-forms.  (When the
    marking succeeds `rest` is a list; for `(if c . atom)` it fails: `markTailCalls_dotted`.) -/
theorem markTailCalls_if {fname fuel j k : Nat} {body w th cond rest : Val} {ini : List Val}
    {c c' : Ctx} (h : markTailCalls fname fuel body c = (.ok w, c'))
    (he : body.elems = ini ++ [.cons j th (.cons k cond rest)])
    (hs : isSelfHead c fname th = false) (hn : headName c th = "if") :
    ∃ t' e', FormR (isSelfHead c fname) (headName c) (thenOf rest) t' ∧
      BodyR (isSelfHead c fname) (headName c) (elseOf rest) e' ∧
      eraseIds w = Val.ofList (ini.map eraseIds ++
        [.cons 0 (eraseIds th) (.cons 0 (eraseIds cond) (.cons 0 t' e'))]) := by
  have hm := (markTailCalls_ok h).1
  obtain ⟨f, rfl⟩ := markS_ok_fuel_pos hm
  obtain ⟨nt, hf, hv⟩ := markS_body hm he
  have hr : consOrNil rest = true := by
    by_cases hr : consOrNil rest = true
    · exact hr
    · rw [formS_if_rest_dotted hs hn _ _ _ (by simpa using hr)] at hf
      cases hf
  rw [formS_if hs hn _ _ _ hr] at hf
  obtain ⟨tm, htm, hf⟩ := bindR_eq_ok hf
  obtain ⟨e', he', e⟩ := bindR_eq_ok hf
  cases e
  exact ⟨_, _, FormR_of_singleton ((markS_sound _).1 _ _ htm), (markS_sound _).1 _ _ he', hv⟩

/-- `let` / `let*` in tail position: the variable list is copied verbatim; the last body form is
    a tail position. -/
theorem markTailCalls_let {fname fuel j k : Nat} {body w th varlist lbody : Val} {ini : List Val}
    {c c' : Ctx} (h : markTailCalls fname fuel body c = (.ok w, c'))
    (he : body.elems = ini ++ [.cons j th (.cons k varlist lbody)])
    (hs : isSelfHead c fname th = false) (hn : headName c th = "let" ∨ headName c th = "let*") :
    ∃ b, BodyR (isSelfHead c fname) (headName c) lbody b ∧
      eraseIds w = Val.ofList (ini.map eraseIds ++
        [.cons 0 (eraseIds th) (.cons 0 (eraseIds varlist) b)]) := by
  have hm := (markTailCalls_ok h).1
  obtain ⟨f, rfl⟩ := markS_ok_fuel_pos hm
  obtain ⟨nt, hf, hv⟩ := markS_body hm he
  rw [formS_let hs hn] at hf
  obtain ⟨b, hb, e⟩ := bindR_eq_ok hf
  cases e
  exact ⟨_, (markS_sound _).1 _ _ hb, hv⟩

/-- `progn` in tail position: its last form is a tail position. -/
theorem markTailCalls_progn {fname fuel j : Nat} {body w th targs : Val} {ini : List Val}
    {c c' : Ctx} (h : markTailCalls fname fuel body c = (.ok w, c'))
    (he : body.elems = ini ++ [.cons j th targs])
    (hs : isSelfHead c fname th = false) (hn : headName c th = "progn") :
    ∃ b, BodyR (isSelfHead c fname) (headName c) targs b ∧
      eraseIds w = Val.ofList (ini.map eraseIds ++ [.cons 0 (eraseIds th) b]) := by
  have hm := (markTailCalls_ok h).1
  obtain ⟨f, rfl⟩ := markS_ok_fuel_pos hm
  obtain ⟨nt, hf, hv⟩ := markS_body hm he
  rw [formS_progn hs hn] at hf
  obtain ⟨b, hb, e⟩ := bindR_eq_ok hf
  cases e
  exact ⟨_, (markS_sound _).1 _ _ hb, hv⟩

/-- `cond` in tail position: in every clause `(condition . body)` the condition is copied and the
    last body form is a tail position (`ClausesR`). -/
theorem markTailCalls_cond {fname fuel j : Nat} {body w th targs : Val} {ini : List Val}
    {c c' : Ctx} (h : markTailCalls fname fuel body c = (.ok w, c'))
    (he : body.elems = ini ++ [.cons j th targs])
    (hs : isSelfHead c fname th = false) (hn : headName c th = "cond") :
    ∃ cl, ClausesR (isSelfHead c fname) (headName c) targs cl ∧
      eraseIds w = Val.ofList (ini.map eraseIds ++ [.cons 0 (eraseIds th) cl]) := by
  have hm := (markTailCalls_ok h).1
  obtain ⟨f, rfl⟩ := markS_ok_fuel_pos hm
  obtain ⟨nt, hf, hv⟩ := markS_body hm he
  rw [formS_cond hs hn] at hf
  obtain ⟨cl, hcl, e⟩ := bindR_eq_ok hf
  cases e
  exact ⟨_, (markS_sound _).2 _ _ hcl, hv⟩

/-- a last form `(th . targs)` on which the marking fails as the interpreter's `car` of an atom
    does: `(let . atom)`, `(let* . atom)`, `(if . atom)`, `(if c . atom)` (atom ≠ nil) -/
def DottedForm (c : Ctx) (th targs : Val) : Prop :=
  ((headName c th = "let" ∨ headName c th = "let*") ∧ consOrNil targs = false) ∨
  (headName c th = "if" ∧
    (consOrNil targs = false ∨ ∃ k cond rest, targs = .cons k cond rest ∧ consOrNil rest = false))

/-- The dotted `let` / `let*` / `if` forms in tail position make the marking fail with
    `TypeMismatch`; nothing but the id counter changes. -/
theorem markTailCalls_dotted {fname fuel j : Nat} {body th targs : Val} {ini : List Val} {c : Ctx}
    (he : body.elems = ini ++ [.cons j th targs]) (hs : isSelfHead c fname th = false)
    (hd : DottedForm c th targs) :
    (markTailCalls fname (fuel + 1) body c).1 = .err .typeMismatch := by
  apply err_of_mapR
  rw [markTailCalls_spec, markS_body_eq he]
  rcases hd with ⟨hn, hl⟩ | ⟨hn, hl | ⟨k, cond, rest, rfl, hl⟩⟩
  · rw [formS_let_dotted hs hn _ hl]; rfl
  · rw [formS_if_dotted hs hn _ hl]; rfl
  · rw [formS_if_rest_dotted hs hn _ _ _ hl]; rfl

/-- 4d: with the fuel `defun` supplies (or more), `markTailCalls` succeeds with a result that is,
    up to cell ids, `v` IF AND ONLY IF `v` is the body with exactly the self-calls in tail position
    (`BodyR`) replaced by their bounce form and everything else copied.  (`BodyR` has no output
    for a body whose tail positions contain one of the dotted forms `(let . atom)`, `(if . atom)`,
    `(if c . atom)`: there the marking fails, see `markTailCalls_dotted`.) -/
theorem markTailCalls_tailpos (fname fuel : Nat) (body : Val) (c : Ctx) (hf : body.size ≤ fuel)
    (v : Val) :
    (∃ w c', markTailCalls fname fuel body c = (.ok w, c') ∧ eraseIds w = v)
      ↔ BodyR (isSelfHead c fname) (headName c) body v := by
  constructor
  · rintro ⟨w, c', h, rfl⟩
    exact (markS_sound fuel).1 _ _ (markTailCalls_ok h).1
  · intro hr
    have hs := (markS_complete fuel).1 _ _ hr hf
    have hres := markTailCalls_spec fname fuel body c
    rw [hs] at hres
    rcases hm : markTailCalls fname fuel body c with ⟨r, c'⟩
    rw [hm] at hres
    cases r with
    | ok w => exact ⟨w, c', rfl, by simpa [mapR] using hres⟩
    | _ => simp [mapR] at hres

/-- 4e: with `fuel ≥ body.size + 1` (what `defun` passes) the marking never runs out of fuel
    and never panics: it succeeds, or fails with the `TypeMismatch` of a malformed `cond` clause
    or of a dotted `(let . atom)`, `(if . atom)`, `(if c . atom)` in tail position. -/
theorem markTailCalls_fuel (fname fuel : Nat) (body : Val) (c : Ctx) (h : body.size + 1 ≤ fuel) :
    (∃ w c', markTailCalls fname fuel body c = (.ok w, c')) ∨
    (∃ c', markTailCalls fname fuel body c = (.err .typeMismatch, c')) := by
  have hg := markS_fuel (isSelfHead c fname) (headName c) (fuel := fuel) (body := body) (by omega)
  rw [← markTailCalls_spec] at hg
  rcases hm : markTailCalls fname fuel body c with ⟨r, c'⟩
  rw [hm] at hg
  rcases good_of_mapR hg with ⟨w, rfl⟩ | rfl
  · exact .inl ⟨w, c', rfl⟩
  · exact .inr ⟨c', rfl⟩

theorem markTailCalls_no_fuel (fname fuel : Nat) (body : Val) (c : Ctx) (h : body.size + 1 ≤ fuel) :
    (markTailCalls fname fuel body c).1 ≠ .fuel := by
  rcases markTailCalls_fuel fname fuel body c h with ⟨w, c', e⟩ | ⟨c', e⟩ <;> rw [e] <;> simp

/-- `defun` marks the body (after an optional doc string) with fuel `body.size + 1`, binds the
    name globally to the lambda with the marked body, and returns nil. -/
theorem defun_unfold (r : Rec) (args : Val) : callBuiltin r .defun args = (do
    let (name, a1) ← nextForm args
    let (params, rest) ← nextForm a1
    let body ← callBuiltin.stripDoc rest
    let fname := match name with | .sym n => n | _ => 0
    let body' ← match name with
      | .sym _ => markTailCalls fname (body.size + 1) body
      | _ => pure body
    let c ← M.get
    let ps ← liftE (parseParams c params)
    let i ← newId
    setGlobalV name (.lambda i ps body')
    pure .nil) := rfl

/-! ## 5. examples (computed by `rfl` on concrete values) -/

/-- a small concrete context: symbol table `f if <= n acc - + progn let* cond` (indices 0 … 9);
    built without `intern` (the obarray, a hash map, is not needed by `markTailCalls`) -/
def exCtx : Ctx :=
  { syms := #[{ name := "f" }, { name := "if" }, { name := "<=" }, { name := "n" },
              { name := "acc" }, { name := "-" }, { name := "+" }, { name := "progn" },
              { name := "let*" }, { name := "cond" }] }

abbrev sF : Val := .sym 0
abbrev sIf : Val := .sym 1
abbrev sLe : Val := .sym 2
abbrev sN : Val := .sym 3
abbrev sAcc : Val := .sym 4
abbrev sSub : Val := .sym 5
abbrev sAdd : Val := .sym 6
abbrev sProgn : Val := .sym 7
abbrev sLetStar : Val := .sym 8
abbrev sCond : Val := .sym 9
/-- the bounce form `(<evalEach> <bounce> a1 … an)` with ids 0 -/
abbrev bounceForm (args : List Val) : Val := L (.builtin .evalEach :: .bounce :: args)

/-- `((if (<= n 0) acc (f (- n 1) (+ acc 1))))` -/
def exTailBody : Val :=
  L [L [sIf, L [sLe, sN, .int 0], sAcc, L [sF, L [sSub, sN, .int 1], L [sAdd, sAcc, .int 1]]]]

/-- `((if (<= n 0) acc (<evalEach> <bounce> (- n 1) (+ acc 1))))` -/
def exTailMarked : Val :=
  L [L [sIf, L [sLe, sN, .int 0], sAcc, bounceForm [L [sSub, sN, .int 1], L [sAdd, sAcc, .int 1]]]]

/-- `((if (<= n 0) acc (+ 1 (f (- n 1) acc))))`: the self-call is NOT in tail position -/
def exNonTailBody : Val :=
  L [L [sIf, L [sLe, sN, .int 0], sAcc, L [sAdd, .int 1, L [sF, L [sSub, sN, .int 1], sAcc]]]]

/-- the tail self-call is rewritten (fuel as supplied by `defun`) -/
example : mapR eraseIds (markTailCalls 0 (exTailBody.size + 1) exTailBody exCtx).1
    = .ok exTailMarked := rfl

/-- the same with the actual cell ids: the spines are fresh (ids 2 … 10), the argument forms
    `(- n 1)`, `(+ acc 1)` and the condition `(<= n 0)` are the original objects (ids 0) -/
example : markTailCalls 0 (exTailBody.size + 1) exTailBody exCtx
    = (.ok (.cons 10 (.cons 9 sIf (.cons 8 (L [sLe, sN, .int 0]) (.cons 7 sAcc (.cons 6
          (.cons 4 (.builtin .evalEach) (.cons 5 .bounce
            (.cons 2 (L [sSub, sN, .int 1]) (.cons 3 (L [sAdd, sAcc, .int 1]) .nil))))
          .nil)))) .nil),
       { exCtx with nextId := 11 }) := rfl

/-- the self-call nested in an argument of `+` is left alone: the body is unchanged -/
example : mapR eraseIds (markTailCalls 0 (exNonTailBody.size + 1) exNonTailBody exCtx).1
    = .ok exNonTailBody := rfl

/-- the hypotheses of `markTailCalls_self_call`, `markTailCalls_if`, `markTailCalls_plain_last`
    on these examples -/
example : isSelfHead exCtx 0 sF = true ∧ isSelfHead exCtx 0 sIf = false ∧ headName exCtx sIf = "if" :=
  ⟨rfl, rfl, rfl⟩
example : PlainForm exCtx 0 (L [sAdd, .int 1, L [sF, L [sSub, sN, .int 1], sAcc]]) :=
  .inr ⟨_, _, _, rfl, rfl, rfl⟩

/-- a self-call in the CONDITION of an `if` is left alone: `((if (f n) 1 2))` is unchanged -/
example : mapR eraseIds (markTailCalls 0 30 (L [L [sIf, L [sF, sN], .int 1, .int 2]]) exCtx).1
    = .ok (L [L [sIf, L [sF, sN], .int 1, .int 2]]) := rfl

/-- only the LAST form of a body is a tail position: `((f n) (f acc))` ↦ `((f n) (<bounce> acc))` -/
example : mapR eraseIds (markTailCalls 0 30 (L [L [sF, sN], L [sF, sAcc]]) exCtx).1
    = .ok (L [L [sF, sN], bounceForm [sAcc]]) := rfl

/-- `(when c body…)` arrives as `(if c (progn body…))`, `(unless c body…)` as `(if c nil body…)`:
    `((if n (progn (f acc) (f n))))` and `((if n nil (f acc) (f n)))` -/
example : mapR eraseIds
    (markTailCalls 0 40 (L [L [sIf, sN, L [sProgn, L [sF, sAcc], L [sF, sN]]]]) exCtx).1
    = .ok (L [L [sIf, sN, L [sProgn, L [sF, sAcc], bounceForm [sN]]]]) := rfl
example : mapR eraseIds
    (markTailCalls 0 40 (L [L [sIf, sN, .nil, L [sF, sAcc], L [sF, sN]]]) exCtx).1
    = .ok (L [L [sIf, sN, .nil, L [sF, sAcc], bounceForm [sN]]]) := rfl

/-- `let*`: the variable list `((acc (f n)))` is copied, the last body form is rewritten -/
example : mapR eraseIds
    (markTailCalls 0 40 (L [L [sLetStar, L [L [sAcc, L [sF, sN]]], L [sF, sAcc]]]) exCtx).1
    = .ok (L [L [sLetStar, L [L [sAcc, L [sF, sN]]], bounceForm [sAcc]]]) := rfl

/-- `cond`: `((cond ((f n) acc) (t (f n) (f acc))))`: conditions copied, last form of each clause
    body rewritten -/
example : mapR eraseIds
    (markTailCalls 0 60 (L [L [sCond, L [L [sF, sN], sAcc], L [.t, L [sF, sN], L [sF, sAcc]]]]) exCtx).1
    = .ok (L [L [sCond, L [L [sF, sN], sAcc], L [.t, L [sF, sN], bounceForm [sAcc]]]]) := rfl

/-- a malformed `cond` clause is one way marking can fail -/
example : (markTailCalls 0 60 (L [L [sCond, .int 1]]) exCtx).1 = .err .typeMismatch := rfl

/-- the others are the dotted forms `(if . 5)`, `(if n . 5)`, `(let* . 5)` in tail position
    (instances of `markTailCalls_dotted`) -/
example : (markTailCalls 0 60 (L [.cons 0 sIf (.int 5)]) exCtx).1 = .err .typeMismatch := rfl
example : (markTailCalls 0 60 (L [.cons 0 sIf (.cons 0 sN (.int 5))]) exCtx).1 = .err .typeMismatch := rfl
example : (markTailCalls 0 60 (L [.cons 0 sLetStar (.int 5)]) exCtx).1 = .err .typeMismatch := rfl
example : DottedForm exCtx sIf (.cons 0 sN (.int 5)) := .inr ⟨rfl, .inr ⟨_, _, _, rfl, rfl⟩⟩
/-- `(if)`, `(if n)`, `(let*)` are accepted: `(if nil nil)`, `(if n nil)`, `(let* nil)` -/
example : mapR eraseIds (markTailCalls 0 60 (L [L [sIf]]) exCtx).1 = .ok (L [L [sIf, .nil, .nil]]) := rfl
example : mapR eraseIds (markTailCalls 0 60 (L [L [sIf, sN]]) exCtx).1 = .ok (L [L [sIf, sN, .nil]]) := rfl
example : mapR eraseIds (markTailCalls 0 60 (L [L [sLetStar]]) exCtx).1 = .ok (L [L [sLetStar, .nil]]) := rfl
/-- the dotted self-call `(f . 5)` becomes `(<evalEach> <bounce> 5)`, `(f)` becomes `(<evalEach> <bounce>)` -/
example : mapR eraseIds (markTailCalls 0 60 (L [.cons 0 sF (.int 5)]) exCtx).1
    = .ok (L [bounceForm [.int 5]]) := rfl
example : mapR eraseIds (markTailCalls 0 60 (L [L [sF]]) exCtx).1 = .ok (L [bounceForm []]) := rfl

/-- with too little fuel the model gives up (never happens with the fuel `defun` supplies) -/
example : (markTailCalls 0 1 exTailBody exCtx).1 = .fuel := rfl

/-! ## 6. a LIMIT of the equivalence claim (finding)

  The trampoline returns the bounce request OUT of the enclosing `let` / `let*` (whose bindings
  are popped) before the body is re-entered, whereas an ordinary self-call runs INSIDE them.
  Bindings are dynamic (shallow binding), so a variable bound by a `let` around the tail call and
  read by the next iteration is visible to ordinary recursion but not to the optimised loop.
  For `(defun f (n) (if n (let ((y n)) (f (cdr n))) y))` and the call `(f '(1))`: ordinary
  recursive evaluation of the definition returns `(1)`; the marked definition fails with
  `TypeMismatch` ("variable definition is void: y").  The real interpreter behaves like the model
  (checked by hand: the same body under a name that makes the call non-tail returns `(1)`, `f`
  raises the error).  So the sentence "its result … [is] identical to [that] of ordinary recursive
  evaluation of the same definition" does not hold for tail calls nested in `let` / `let*` whose
  variables (other than the parameters, which every iteration rebinds) are read by later
  iterations; items 2 and 3 above state what does hold.

  NOT PROVED (the full statement, kept here as required; it is FALSE as it stands):
    theorem C04_meaning (d ev ps args c fname body body') (c0 c0' : Ctx)
        (hm : markTailCalls fname (body.size + 1) body c0 = (.ok body', c0'))
        (hf : `fname` is globally bound in `c` to the lambda with body `body` resp. `body'`) :
        ∀ r c', evalLambdaPlain (Rec.ofDepth d) ev ps body args c = (r, c') → r ≠ .fuel →
          ∃ d' c'', evalLambda (Rec.ofDepth d') ev ps body' args c = (r', c'') ∧
            r' = r up to cell ids ∧ c'' = c' up to cell ids
  refuted by `tco_changes_meaning_under_let`.  A restricted version (no tail self-call under a
  `let` / `let*` binding a non-parameter variable that is read before being rebound) is expected
  to hold; its proof needs a simulation over the whole evaluator (states that differ by shadowed
  bindings below the top of the parameter stacks, and by cell ids) and was not attempted.  What
  is proved instead: `bounce_eq_call`, `tail_call_as_call` and `ordinary_call` (same argument
  evaluation, same application of the function to the values; the difference is exactly the
  time at which the caller's bindings are released). -/

/-- `((if n (let ((y n)) (f (cdr n))) y))` over the symbol table `if let cdr n y f` (0 … 5) -/
def letBody : Val :=
  L [L [.sym 0, .sym 3, L [.sym 1, L [L [.sym 4, .sym 3]], L [.sym 5, L [.sym 2, .sym 3]]], .sym 4]]

/-- `((if n (let ((y n)) (<evalEach> <bounce> (cdr n))) y))` -/
def letBodyMarked : Val :=
  L [L [.sym 0, .sym 3, L [.sym 1, L [L [.sym 4, .sym 3]], bounceForm [L [.sym 2, .sym 3]]], .sym 4]]

def letParams : Params := ⟨[3], [], none⟩

/-- a context in which `f` is globally bound to the lambda `(n) ↦ fbody` -/
def letCtx (fbody : Val) : Ctx :=
  { syms := #[{ name := "if", hasGlobal := true, items := [.builtin .if_] },
              { name := "let", hasGlobal := true, items := [.builtin .let_] },
              { name := "cdr", hasGlobal := true, items := [.builtin .cdr] },
              { name := "n" }, { name := "y" },
              { name := "f", hasGlobal := true, items := [.lambda 99 letParams fbody] }] }

/-- `letBodyMarked` is the marking of `letBody` -/
theorem let_marking :
    mapR eraseIds (markTailCalls 5 (letBody.size + 1) letBody (letCtx .nil)).1 = .ok letBodyMarked := rfl

/-- the marked function applied to the value `(1)`: first pass -/
theorem let_marked_pass1 (d : Nat) :
    applyFn (Rec.ofDepth (d + 6)) letParams letBodyMarked [L [.int 1]] (letCtx letBodyMarked)
      = (.ok (.cons 1 .bounce (.cons 2 .nil .nil)), { letCtx letBodyMarked with nextId := 3 }) := rfl

theorem let_marked_pass2 (d : Nat) :
    applyFn (Rec.ofDepth (d + 6)) letParams letBodyMarked [.nil] { letCtx letBodyMarked with nextId := 3 }
      = (.err .typeMismatch, { letCtx letBodyMarked with nextId := 3 }) := rfl

theorem let_marked_fails (d : Nat) :
    funcallVal (Rec.ofDepth (d + 6)) false (.lambda 99 letParams letBodyMarked) (L [L [.int 1]])
        (letCtx letBodyMarked)
      = (.err .typeMismatch, { letCtx letBodyMarked with nextId := 3 }) := by
  rw [value_call]
  show M.bind (applyFn _ _ _ [L [.int 1]]) _ _ = _
  rw [C13.M.bind_ok (let_marked_pass1 d), loopBudget_eq, bounceLoop_bounce, evalFunction_false]
  show M.bind (applyFn _ _ _ [.nil]) _ _ = _
  rw [C13.M.bind_err (let_marked_pass2 d)]

/-- the state inside the outer call's `let`: `n` and `y` both bound to `(1)` -/
def letCtx2 : Ctx :=
  ((letCtx letBody).modSym 3 (·.push (L [.int 1]))).modSym 4 (·.push (L [.int 1]))

/-- the inner, ORDINARY self-call `(f (cdr n))` of the unmarked function, made inside the `let`:
    it still sees `y` and returns `(1)` -/
theorem let_plain_inner (d : Nat) :
    funcallVal (Rec.ofDepth (d + 3)) true (.lambda 99 letParams letBody) (L [L [.sym 2, .sym 3]]) letCtx2
      = (.ok (L [.int 1]), letCtx2) := by
  rw [ordinary_call _ _ _ _ _ (by simp [TooMany, letParams, Val.elems, Val.ofList])]
  rfl

/-- the outer pass of the unmarked function is: that inner call, then the unbinding of `y`, `n` -/
theorem let_plain_outer (d : Nat) :
    applyFn (Rec.ofDepth (d + 6)) letParams letBody [L [.int 1]] (letCtx letBody)
      = (let p := funcallVal (Rec.ofDepth (d + 3)) true (.lambda 99 letParams letBody)
                    (L [L [.sym 2, .sym 3]]) letCtx2
         (p.1, popSymCtx (popSymCtx p.2 4) 3)) := rfl

theorem let_plain_succeeds (d : Nat) :
    funcallVal (Rec.ofDepth (d + 6)) false (.lambda 99 letParams letBody) (L [L [.int 1]])
        (letCtx letBody)
      = (.ok (L [.int 1]), letCtx letBody) := by
  rw [value_call]
  show M.bind (applyFn _ _ _ [L [.int 1]]) _ _ = _
  rw [C13.M.bind_ok (a := L [.int 1]) (c' := letCtx letBody)
    (by rw [let_plain_outer, let_plain_inner]; rfl)]
  rfl

/-- The counterexample in one statement: the marking of `letBody` is `letBodyMarked`; called on
    `(1)` (at any depth ≥ 6) the unmarked definition returns `(1)` in the unchanged state, the
    marked one fails with `TypeMismatch`. -/
theorem tco_changes_meaning_under_let (d : Nat) :
    mapR eraseIds (markTailCalls 5 (letBody.size + 1) letBody (letCtx .nil)).1 = .ok letBodyMarked ∧
    funcallVal (Rec.ofDepth (d + 6)) false (.lambda 99 letParams letBody) (L [L [.int 1]])
        (letCtx letBody) = (.ok (L [.int 1]), letCtx letBody) ∧
    funcallVal (Rec.ofDepth (d + 6)) false (.lambda 99 letParams letBodyMarked) (L [L [.int 1]])
        (letCtx letBodyMarked) = (.err .typeMismatch, { letCtx letBodyMarked with nextId := 3 }) :=
  ⟨let_marking, let_plain_succeeds d, let_marked_fails d⟩

end Tulisp.C04
