/-
  Props/C12.lean — C12: the list primitives return what the Emacs Lisp reference specifies.

  Specification language: Lean's `List`.  A value `v` is related to `(xs, tl) = v.spine`
  (elements along the cons chain, final non-cons tail); `v` is a proper list iff `tl = .nil`.
  Allocation identities of cons cells are ignored by `spine`; where a primitive returns a
  sub-value of its argument (nthcdr, last, assoc) the theorems determine it by its spine.

   1. car_cons cdr_cons car_nil cdr_nil car_atom_error cdr_atom_error car_spec cdr_spec
      mkCons_spec car_mkCons cdr_mkCons cons_builtin
   2. cxr_nil cxr_cons cxr_append cadr_eq … ; the table: cxr_table_name cxr_table_complete
      cxr_table_injective cxr_table_length callBuiltin_cxr; cadr_eq_nth caddr_eq_nth cadddr_eq_nth
   3. nth_eq_car_nthcdr nth_spec_in_range nth_spec_past_end
   4. nthcdr_spec_nonpos nthcdr_spec_in_range nthcdr_spec_past_end nthcdr_spec_past_end_dotted
   5. length_spec length_spec_elems
   6. last_nil last_atom_error last_spec_none last_spec_neg last_spec_some last_spec_all
   7. append_spec append_spec_general length_append length_append_all
      append_dotted_middle_error append_first_atom append_builtin (Acc lemmas: Proofs/C12.lean)
   8. assocFind_spec assocM_default alistGet_default_spec assocLoop_eq_spec assocSpec_ok
   9. plistGet_spec plistGet_spec_even
  10. mapVals/filterVals/reduceVals/findVals: *_eq_spec, *_append, *_ok, mapVals_error;
      callBuiltin_mapcar … (the built-ins are these loops); list_builtin, consp/listp/null
  11. examples at the end of the file
-/
import Tulisp.Proofs.C12
namespace Tulisp.C12
open Tulisp

/-! ## 1. cons, car, cdr -/

/-- `(car (cons a b))` is `a` (whatever the identity of the cell). -/
theorem car_cons (i : Nat) (a b : Val) : carV (.cons i a b) = .ok a := rfl

/-- `(cdr (cons a b))` is `b`. -/
theorem cdr_cons (i : Nat) (a b : Val) : cdrV (.cons i a b) = .ok b := rfl

theorem car_nil : carV .nil = .ok .nil := rfl
theorem cdr_nil : cdrV .nil = .ok .nil := rfl

/-- `car` of anything that is neither nil nor a cons is a type error. -/
theorem car_atom_error (v : Val) (h : v.isList = false) : carV v = .error .typeMismatch :=
  carV_of_not_list h

theorem cdr_atom_error (v : Val) (h : v.isList = false) : cdrV v = .error .typeMismatch :=
  cdrV_of_not_list h

/-- the `cons` primitive allocates one fresh cell holding exactly `a` and `b` -/
theorem mkCons_spec (a b : Val) (c : Ctx) :
    mkCons a b c = (.ok (.cons c.nextId a b), { c with nextId := c.nextId + 1 }) := rfl

/-- the law at the level of the interpreter monad: consing and then taking car / cdr -/
theorem car_mkCons (a b : Val) (c : Ctx) :
    (mkCons a b >>= fun p => liftE (carV p)) c = (.ok a, { c with nextId := c.nextId + 1 }) := rfl

theorem cdr_mkCons (a b : Val) (c : Ctx) :
    (mkCons a b >>= fun p => liftE (cdrV p)) c = (.ok b, { c with nextId := c.nextId + 1 }) := rfl

/-- `car` of a list is the head of its elements (nil when empty) -/
theorem car_spec (v : Val) (h : v.isList = true) : carV v = .ok (v.spine.1.headD .nil) :=
  carV_spine h

/-- `cdr` of a cons has the tail of the elements and the same final tail -/
theorem cdr_spec (i : Nat) (a d : Val) :
    ∃ w, cdrV (.cons i a d) = .ok w ∧ w.spine = ((Val.cons i a d).spine.1.tail, (Val.cons i a d).spine.2) :=
  ⟨d, rfl, rfl⟩

/-! ## 2. the c[ad]+r family -/

theorem cxr_nil (v : Val) : cxrV [] v = .ok v := rfl

/-- The leftmost letter is applied last: `c(p)(ps)r = c(p)r ∘ c(ps)r`. -/
theorem cxr_cons (p : Bool) (ps : List Bool) (v : Val) :
    cxrV (p :: ps) v = cxrV ps v >>= (if p then carV else cdrV) := by
  cases p <;> rfl

theorem cxr_append (ps qs : List Bool) (v : Val) :
    cxrV (ps ++ qs) v = cxrV qs v >>= cxrV ps := by
  induction ps with
  | nil => rw [List.nil_append]; cases h : cxrV qs v <;> rfl
  | cons p ps ih =>
    rw [List.cons_append, cxr_cons, ih]
    cases h : cxrV qs v with
    | error e => rfl
    | ok w => show _ = cxrV (p :: ps) w; rw [cxr_cons]; rfl

theorem cadr_eq (v : Val) : cxrV [true, false] v = cdrV v >>= carV := rfl
theorem cddr_eq (v : Val) : cxrV [false, false] v = cdrV v >>= cdrV := rfl
theorem cdar_eq (v : Val) : cxrV [false, true] v = carV v >>= cdrV := rfl
theorem caar_eq (v : Val) : cxrV [true, true] v = carV v >>= carV := rfl

/-- the name of a `c[ad]+r` accessor with the given letters (`true` = `a`) -/
def cxrName (path : List Bool) : String :=
  "c" ++ String.ofList (path.map fun p => if p then 'a' else 'd') ++ "r"

/-- The table is right: each built-in with a path is named after exactly that path. -/
theorem cxr_table_name (b : Bi) (path : List Bool) (h : Bi.cxrPath? b = some path) :
    b.name = cxrName path := by
  cases b <;> simp [Bi.cxrPath?] at h <;> subst h <;> decide

/-- inverse of the table -/
def cxrOfPath : List Bool → Option Bi
  | [true] => some .car | [false] => some .cdr
  | [true, true] => some .caar | [true, false] => some .cadr
  | [false, true] => some .cdar | [false, false] => some .cddr
  | [true, true, true] => some .caaar | [true, true, false] => some .caadr
  | [true, false, true] => some .cadar | [true, false, false] => some .caddr
  | [false, true, true] => some .cdaar | [false, true, false] => some .cdadr
  | [false, false, true] => some .cddar | [false, false, false] => some .cdddr
  | [true, true, true, true] => some .caaaar | [true, true, true, false] => some .caaadr
  | [true, true, false, true] => some .caadar | [true, true, false, false] => some .caaddr
  | [true, false, true, true] => some .cadaar | [true, false, true, false] => some .cadadr
  | [true, false, false, true] => some .caddar | [true, false, false, false] => some .cadddr
  | [false, true, true, true] => some .cdaaar | [false, true, true, false] => some .cdaadr
  | [false, true, false, true] => some .cdadar | [false, true, false, false] => some .cdaddr
  | [false, false, true, true] => some .cddaar | [false, false, true, false] => some .cddadr
  | [false, false, false, true] => some .cdddar | [false, false, false, false] => some .cddddr
  | _ => none

theorem cxrOfPath_of_table (b : Bi) (path : List Bool) (h : Bi.cxrPath? b = some path) :
    cxrOfPath path = some b := by
  cases b <;> simp [Bi.cxrPath?] at h <;> subst h <;> rfl

theorem table_of_cxrOfPath (path : List Bool) (b : Bi) (h : cxrOfPath path = some b) :
    Bi.cxrPath? b = some path := by
  unfold cxrOfPath at h
  split at h <;> first | (cases h; rfl) | cases h

/-- Every composition of one to four letters is in the table … -/
theorem cxr_table_complete (path : List Bool) (h1 : 1 ≤ path.length) (h4 : path.length ≤ 4) :
    ∃ b, Bi.cxrPath? b = some path := by
  rcases path with _ | ⟨a, _ | ⟨b, _ | ⟨c, _ | ⟨d, _ | ⟨e, r⟩⟩⟩⟩⟩
  · simp at h1
  · cases a <;> exact ⟨_, table_of_cxrOfPath _ _ rfl⟩
  · cases a <;> cases b <;> exact ⟨_, table_of_cxrOfPath _ _ rfl⟩
  · cases a <;> cases b <;> cases c <;> exact ⟨_, table_of_cxrOfPath _ _ rfl⟩
  · cases a <;> cases b <;> cases c <;> cases d <;> exact ⟨_, table_of_cxrOfPath _ _ rfl⟩
  · simp at h4

/-- … exactly once, and only those (paths have length 1 to 4). -/
theorem cxr_table_injective (b b' : Bi) (path : List Bool)
    (h : Bi.cxrPath? b = some path) (h' : Bi.cxrPath? b' = some path) : b = b' := by
  have := cxrOfPath_of_table b path h
  rw [cxrOfPath_of_table b' path h'] at this
  exact (Option.some.inj this).symm

theorem cxr_table_length (b : Bi) (path : List Bool) (h : Bi.cxrPath? b = some path) :
    1 ≤ path.length ∧ path.length ≤ 4 := by
  cases b <;> simp [Bi.cxrPath?] at h <;> subst h <;> decide

/-- Dispatch: a built-in of the table evaluates its argument and applies the accessor. -/
theorem callBuiltin_cxr (r : Rec) (b : Bi) (path : List Bool) (args : Val)
    (h : Bi.cxrPath? b = some path) :
    callBuiltin r b args = (do let (v, _) ← nextArg r args; liftE (cxrV path v)) := by
  cases b <;> simp [Bi.cxrPath?] at h <;> subst h <;> rfl

/-! ## 3.–4. nth and nthcdr -/

/-- `(nth n l)` equals `(car (nthcdr n l))`. -/
theorem nth_eq_car_nthcdr (n : Int) (v : Val) : nthV n v = nthcdrV n v >>= carV := rfl

/-- zero and negative indices: the list itself -/
theorem nthcdr_spec_nonpos (n : Int) (v : Val) (hn : n ≤ 0) : nthcdrV n v = .ok v :=
  nthcdrV_nonpos v hn

/-- in range, and exactly at the end (`n = length`): the `n`-th tail, for proper and dotted lists -/
theorem nthcdr_spec_in_range (n : Int) (v : Val) (xs : List Val) (tl : Val)
    (hv : v.spine = (xs, tl)) (_h0 : 0 < n) (hn : n ≤ xs.length) :
    ∃ w, nthcdrV n v = .ok w ∧ w.spine = (xs.drop n.toNat, tl) := by
  have := nthcdrV_le (n := n) v (by rw [hv]; exact hn)
  rwa [hv] at this

/-- past the end of a proper list: nil -/
theorem nthcdr_spec_past_end (n : Int) (v : Val) (xs : List Val)
    (hv : v.spine = (xs, .nil)) (hn : (xs.length : Int) < n) : nthcdrV n v = .ok .nil := by
  rw [nthcdrV_pos v (by omega)]
  exact nthcdrNat_gt_proper _ v (by rw [hv]; simp; omega) (by rw [hv])

/-- past the end of a dotted list: type error (the final tail has no cdr) -/
theorem nthcdr_spec_past_end_dotted (n : Int) (v : Val) (xs : List Val) (tl : Val)
    (hv : v.spine = (xs, tl)) (htl : tl ≠ .nil) (hn : (xs.length : Int) < n) :
    nthcdrV n v = .error .typeMismatch := by
  rw [nthcdrV_pos v (by omega)]
  exact nthcdrNat_gt_dotted _ v (by rw [hv]; simp; omega) (by rw [hv]; exact htl)

/-- `nth` in range (a negative index counts as 0): the element at that position -/
theorem nth_spec_in_range (n : Int) (v : Val) (xs : List Val) (tl : Val)
    (hv : v.spine = (xs, tl)) (hn : n.toNat < xs.length) : nthV n v = .ok xs[n.toNat] := by
  obtain ⟨w, hw, hs⟩ := nthcdrV_le (n := n) v (by rw [hv]; simp; omega)
  rw [nth_eq_car_nthcdr, hw]
  rw [hv] at hs
  show carV w = _
  rw [List.drop_eq_getElem_cons hn] at hs
  exact carV_of_spine_cons hs

/-- `nth` at or past the end of a proper list: nil -/
theorem nth_spec_past_end (n : Int) (v : Val) (xs : List Val)
    (hv : v.spine = (xs, .nil)) (hn : xs.length ≤ n.toNat) : nthV n v = .ok .nil := by
  rw [nth_eq_car_nthcdr]
  by_cases h : n ≤ xs.length
  · obtain ⟨w, hw, hs⟩ := nthcdrV_le (n := n) v (by rw [hv]; exact h)
    rw [hv, List.drop_eq_nil_of_le hn] at hs
    rw [hw, eq_tail_of_spine_nil hs]; rfl
  · rw [nthcdr_spec_past_end n v xs hv (by omega)]; rfl

/-- `cadr` is `(nth 1 l)`, `caddr` is `(nth 2 l)`, `cadddr` is `(nth 3 l)`: on every value. -/
theorem cadr_eq_nth (v : Val) : cxrV [true, false] v = nthV 1 v := by cases v <;> rfl
theorem caddr_eq_nth (v : Val) : cxrV [true, false, false] v = nthV 2 v := by
  cases v with
  | cons i a d => cases d <;> rfl
  | _ => rfl
theorem cadddr_eq_nth (v : Val) : cxrV [true, false, false, false] v = nthV 3 v := by
  cases v with
  | cons i a d =>
    cases d with
    | cons j b e => cases e <;> rfl
    | _ => rfl
  | _ => rfl

/-! ## 5. length -/

/-- `length` counts the elements of the spine (0 for a non-list; the tail is ignored). -/
theorem length_spec (v : Val) : lengthV v = (v.spine.1.length : Int) := by
  simp [lengthV, len_eq_length_spine]

theorem length_spec_elems (v : Val) : lengthV v = (v.elems.length : Int) := by
  simp [lengthV, len_eq_length_elems]

theorem length_ofList (xs : List Val) : lengthV (Val.ofList xs) = (xs.length : Int) := by
  rw [length_spec, spine_ofList]

/-! ## 6. last -/

theorem last_nil (n : Option Int) : lastV .nil n = .ok .nil := rfl

/-- `last` of something that is not a list is a type error -/
theorem last_atom_error (v : Val) (n : Option Int) (h : v.isList = false) :
    lastV v n = .error .typeMismatch := by
  cases v <;> first | rfl | simp [Val.isList, Val.isNil, Val.isCons] at h

/-- `(last l)`: the last cons cell -/
theorem last_spec_none (v : Val) (xs : List Val) (tl : Val) (hv : v.spine = (xs, tl))
    (hne : xs ≠ []) :
    ∃ w, lastV v none = .ok w ∧ w.spine = ([xs.getLast hne], tl) := by
  have hc : v.isCons = true := by rw [isCons_iff_spine, hv]; exact hne
  have hnil : v.isNil = false := by cases v <;> first | rfl | simp [Val.isCons] at hc
  have hlen : lengthV v = xs.length := by rw [length_spec, hv]
  have hpos : 0 < xs.length := List.length_pos_iff.mpr hne
  obtain ⟨w, hw, hs⟩ := nthcdrV_le (n := lengthV v - 1) v (by rw [hlen, hv]; simp; omega)
  refine ⟨w, ?_, ?_⟩
  · simp [lastV, hc, hnil, hw]
  · rw [hs, hv, hlen]
    have : ((xs.length : Int) - 1).toNat = xs.length - 1 := by omega
    simp only [this, drop_length_sub_one hne]

/-- `(last l n)` with a negative `n`: range error -/
theorem last_spec_neg (v : Val) (n : Int) (hc : v.isCons = true) (hn : n < 0) :
    lastV v (some n) = .error .outOfRange := by
  have hnil : v.isNil = false := by cases v <;> first | rfl | simp [Val.isCons] at hc
  simp [lastV, hc, hnil, hn]

/-- `(last l n)` with `0 ≤ n < length`: the tail holding the last `n` elements -/
theorem last_spec_some (v : Val) (xs : List Val) (tl : Val) (hv : v.spine = (xs, tl))
    (n : Int) (h0 : 0 ≤ n) (hn : n < xs.length) :
    ∃ w, lastV v (some n) = .ok w ∧ w.spine = (xs.drop (xs.length - n.toNat), tl) := by
  have hne : xs ≠ [] := by intro h; subst h; simp at hn; omega
  have hc : v.isCons = true := by rw [isCons_iff_spine, hv]; exact hne
  have hnil : v.isNil = false := by cases v <;> first | rfl | simp [Val.isCons] at hc
  have hlen : lengthV v = xs.length := by rw [length_spec, hv]
  obtain ⟨w, hw, hs⟩ := nthcdrV_le (n := lengthV v - n) v (by rw [hlen, hv]; simp; omega)
  refine ⟨w, ?_, ?_⟩
  · have h1 : ¬ n < 0 := by omega
    have h2 : n < lengthV v := by rw [hlen]; exact hn
    simp [lastV, hc, hnil, h1, h2, hw]
  · rw [hs, hv, hlen]
    have : ((xs.length : Int) - n).toNat = xs.length - n.toNat := by omega
    simp only [this]

/-- `(last l n)` with `n ≥ length`: the whole list -/
theorem last_spec_all (v : Val) (n : Int) (hc : v.isCons = true) (hn : lengthV v ≤ n) :
    lastV v (some n) = .ok v := by
  have hnil : v.isNil = false := by cases v <;> first | rfl | simp [Val.isCons] at hc
  have h0 : 0 ≤ lengthV v := by simp [lengthV]
  have h1 : ¬ n < 0 := by omega
  have h2 : ¬ n < lengthV v := by omega
  simp [lastV, hc, hnil, h1, h2]

/-! ## 7. append -/

theorem proper_isList {v : Val} (h : v.spine.2 = .nil) : v.isList = true := by
  rw [isList_iff_spine]; exact Or.inr h

/-- `append` of proper lists, the last argument being any list (proper or dotted): the elements
    of all arguments in order, and the final tail of the last argument. -/
theorem append_spec_general (first : Val) (mids : List Val) (lst : Val) (c : Ctx)
    (hf : first.spine.2 = .nil) (hm : ∀ v ∈ mids, v.spine.2 = .nil) (hl : lst.isList = true) :
    ∃ w c', appendVals first (mids ++ [lst]) c = (.ok w, c') ∧
      w.spine = (first.elems ++ mids.flatMap Val.elems ++ lst.spine.1, lst.spine.2) := by
  obtain ⟨fc, c1, hfc, hs⟩ := deepCopy_spec first c
  have hfl : fc.isList = true := by rw [isList_of_spine_eq hs]; exact proper_isList hf
  obtain ⟨c2, h2⟩ := appendLoop_proper mids (appendStart fc) c1
    (by rw [appendStart_list fc hfl, hs]; exact hf) hm
  obtain ⟨c3, h3⟩ := appendStep_list
    { rev := (mids.flatMap Val.elems).reverse ++ (appendStart fc).rev, tail := .nil } lst c2 rfl hl
  obtain ⟨w, c4, h4, hw⟩ := Acc.build_spec
    { rev := lst.spine.1.reverse ++ ((mids.flatMap Val.elems).reverse ++ (appendStart fc).rev),
      tail := lst.spine.2 } c3
  refine ⟨w, c4, ?_, ?_⟩
  · unfold appendVals
    rw [bind_ok _ hfc]
    simp only [hfl, Bool.not_true, Bool.false_eq_true, if_false]
    rw [List.foldlM_append, bind_assoc, bind_ok _ h2, List.foldlM_cons, bind_assoc, bind_ok _ h3]
    simp only [List.foldlM_nil, pure_bind]
    exact h4
  · rw [hw, appendStart_list fc hfl, hs, spine_of_not_cons (spine_snd_not_cons lst)]
    simp [spine_fst]

/-- `append` of proper lists: the concatenation (a proper list). -/
theorem append_spec (first : Val) (others : List Val) (c : Ctx)
    (hf : first.spine.2 = .nil) (ho : ∀ v ∈ others, v.spine.2 = .nil) :
    ∃ w c', appendVals first others c = (.ok w, c') ∧
      w.spine = (first.elems ++ others.flatMap Val.elems, .nil) := by
  obtain ⟨fc, c1, hfc, hs⟩ := deepCopy_spec first c
  have hfl : fc.isList = true := by rw [isList_of_spine_eq hs]; exact proper_isList hf
  obtain ⟨c2, h2⟩ := appendLoop_proper others (appendStart fc) c1
    (by rw [appendStart_list fc hfl, hs]; exact hf) ho
  obtain ⟨w, c3, h3, hw⟩ := Acc.build_spec
    { rev := (others.flatMap Val.elems).reverse ++ (appendStart fc).rev, tail := .nil } c2
  refine ⟨w, c3, ?_, ?_⟩
  · unfold appendVals
    rw [bind_ok _ hfc]
    simp only [hfl, Bool.not_true, Bool.false_eq_true, if_false]
    rw [bind_ok _ h2]
    exact h3
  · rw [hw, appendStart_list fc hfl, hs]
    simp [spine_fst, spine_nil]

/-- `(length (append a b))` is the sum of the lengths; the elements are those of `a` then of `b`. -/
theorem length_append (a b : Val) (c : Ctx) (ha : a.spine.2 = .nil) (hb : b.spine.2 = .nil) :
    ∃ w c', appendVals a [b] c = (.ok w, c') ∧ w.elems = a.elems ++ b.elems ∧
      lengthV w = lengthV a + lengthV b := by
  obtain ⟨w, c', h, hw⟩ := append_spec a [b] c ha (by simpa using hb)
  refine ⟨w, c', h, ?_, ?_⟩
  · rw [← spine_fst, hw]; simp
  · simp only [lengthV, len_eq_length_spine, hw, spine_fst]; simp

/-- for any number of proper lists the lengths add up -/
theorem length_append_all (first : Val) (others : List Val) (c : Ctx)
    (hf : first.spine.2 = .nil) (ho : ∀ v ∈ others, v.spine.2 = .nil) :
    ∃ w c', appendVals first others c = (.ok w, c') ∧
      lengthV w = lengthV first + (others.map lengthV).sum := by
  obtain ⟨w, c', h, hw⟩ := append_spec first others c hf ho
  refine ⟨w, c', h, ?_⟩
  have hsum : ∀ vs : List Val,
      (((vs.flatMap Val.elems).length : Nat) : Int) = (vs.map lengthV).sum := by
    intro vs
    induction vs with
    | nil => simp
    | cons v vs ih =>
      have : lengthV v = (v.elems.length : Int) := by simp [lengthV, len_eq_length_elems]
      simp only [List.flatMap_cons, List.length_append, List.map_cons, List.sum_cons, this]
      omega
  rw [← hsum]
  simp only [lengthV, len_eq_length_spine, hw, spine_fst]
  simp

/-- A dotted list in the middle is an error: nothing can be appended after an improper tail. -/
theorem append_dotted_middle_error (first : Val) (pre : List Val) (d : Val) (post : List Val)
    (c : Ctx) (hf : first.spine.2 = .nil) (hp : ∀ v ∈ pre, v.spine.2 = .nil)
    (hd : d.isCons = true) (hdt : d.spine.2 ≠ .nil) (hpost : post ≠ []) :
    ∃ c', appendVals first (pre ++ d :: post) c = (.err .typeMismatch, c') := by
  obtain ⟨fc, c1, hfc, hs⟩ := deepCopy_spec first c
  have hfl : fc.isList = true := by rw [isList_of_spine_eq hs]; exact proper_isList hf
  obtain ⟨c2, h2⟩ := appendLoop_proper pre (appendStart fc) c1
    (by rw [appendStart_list fc hfl, hs]; exact hf) hp
  have hdl : d.isList = true := by simp [Val.isList, hd]
  obtain ⟨c3, h3⟩ := appendStep_list
    { rev := (pre.flatMap Val.elems).reverse ++ (appendStart fc).rev, tail := .nil } d c2 rfl hdl
  have htl : d.spine.2.isNil = false := by
    cases h : d.spine.2 <;> first | rfl | exact absurd h hdt
  obtain ⟨c4, h4⟩ := appendLoop_tail_error post
    { rev := d.spine.1.reverse ++ ((pre.flatMap Val.elems).reverse ++ (appendStart fc).rev),
      tail := d.spine.2 } c3 htl hpost
  refine ⟨c4, ?_⟩
  unfold appendVals
  rw [bind_ok _ hfc]
  simp only [hfl, Bool.not_true, Bool.false_eq_true, if_false]
  rw [List.foldlM_append, bind_assoc, bind_ok _ h2, List.foldlM_cons, bind_assoc, bind_ok _ h3,
    bind_err _ h4]

/-- `append` with a first argument that is not a list: error as soon as there is anything to
    append (and the argument itself when there is nothing). -/
theorem append_first_atom (first : Val) (others : List Val) (c : Ctx) (hf : first.isList = false) :
    appendVals first others c =
      if others.isEmpty then (.ok first, c) else (.err .typeMismatch, c) := by
  have hc : deepCopy first c = (.ok first, c) := by
    cases first <;> first | rfl | simp [Val.isList, Val.isNil, Val.isCons] at hf
  unfold appendVals
  rw [bind_ok _ hc]
  simp only [hf, Bool.not_false, if_true]
  cases others <;> rfl

/-- connection to the built-in: once the arguments are evaluated, `(append …)` is `appendVals` -/
theorem append_builtin (r : Rec) (args first rest : Val) (others : List Val) (c c1 c2 : Ctx)
    (h1 : nextArg r args c = (.ok (first, rest), c1))
    (h2 : evalEach r rest c1 = (.ok others, c2)) :
    callBuiltin r .append_ args c = appendVals first others c2 := by
  rw [callBuiltin_append, bind_ok _ h1]
  show (evalEach r rest >>= fun others => appendVals first others) c1 = _
  rw [bind_ok _ h2]


/-! ## 8.–9. assoc and plist-get -/

/-- `assocFind test l` is the first element of `l` that is a cons whose car satisfies `test`
    (non-cons elements are skipped), or nil. -/
theorem assocFind_spec (test : Val → Bool) (l : Val) :
    assocFind test l = (l.elems.find? (assocPred test)).getD .nil := by
  induction l with
  | cons i item rest _ ih =>
    cases item with
    | cons j k d =>
      by_cases h : test k = true <;> simp [assocFind, Val.elems, assocPred, h, ih]
    | _ => simp [assocFind, Val.elems, assocPred, ih]
  | _ => rfl

/-- `plist-get` on a proper list `k1 v1 k2 v2 …`: the value following the first key (at an even
    position) that is `eq` to the property, else nil.  (A trailing key without value counts as
    having the value nil.) -/
theorem plistGet_spec (c : Ctx) (prop : Val) (l : Val) (hp : l.spine.2 = .nil) :
    plistGet c prop l =
      .ok ((((plistPairs l.elems).find? (fun kv => eqV c kv.1 prop)).map (·.2)).getD .nil) := by
  fun_induction plistGet c prop l with
  | case1 i k rest h =>
    cases rest with
    | cons j v rest' => simp [Val.elems, plistPairs, h, carV]
    | nil => simp [Val.elems, plistPairs, h, carV]
    | _ => simp [Val.spine] at hp
  | case2 i k h j x rest' ih =>
    simp only [spine_cons] at hp
    simp [Val.elems, plistPairs, h, ih hp]
  | case3 i k h => simp [Val.elems, plistPairs, h]
  | case4 i k hk rest h1 h2 =>
    exfalso
    cases rest <;> simp_all [Val.spine]
  | case5 l h =>
    have : l.elems = [] := by
      cases l <;> first | rfl | exact absurd rfl (h _ _ _)
    simp [this, plistPairs]

/-- the statement for plists of even length, with the pairs spelled out -/
theorem plistGet_spec_even (c : Ctx) (prop : Val) (kvs : List (Val × Val)) :
    plistGet c prop (Val.ofList (kvs.flatMap fun kv => [kv.1, kv.2])) =
      .ok (((kvs.find? (fun kv => eqV c kv.1 prop)).map (·.2)).getD .nil) := by
  rw [plistGet_spec _ _ _ (by rw [spine_ofList]), elems_ofList]
  have : plistPairs (kvs.flatMap fun kv => [kv.1, kv.2]) = kvs := by
    induction kvs with
    | nil => rfl
    | cons kv kvs ih => simp [plistPairs, ih]
  rw [this]


/-! ## 10. the higher-order helpers: mapcar / seq-map, seq-filter, seq-reduce, seq-find, assoc -/

/-! ### the loops are the specifications -/

theorem mapVals_eq_spec (r : Rec) (f : Val) (xs acc : List Val) :
    callBuiltin.mapVals r f xs acc =
      (mapSpec (app1 r f) xs >>= fun vs => pure (acc.reverse ++ vs)) := by
  induction xs generalizing acc with
  | nil => simp [mapVals_nil, mapSpec]
  | cons x xs ih => simp [mapVals_cons, mapSpec, ih]

theorem filterVals_eq_spec (r : Rec) (f : Val) (xs acc : List Val) :
    callBuiltin.filterVals r f xs acc =
      (filterSpec (app1 r f) xs >>= fun vs => pure (acc.reverse ++ vs)) := by
  induction xs generalizing acc with
  | nil => simp [filterVals_nil, filterSpec]
  | cons x xs ih =>
    simp only [filterVals_cons, filterSpec, ih, bind_assoc, pure_bind]
    congr 1; funext v
    cases truthy v <;> simp

theorem reduceVals_eq_spec (r : Rec) (f a : Val) (xs : List Val) :
    callBuiltin.reduceVals r f a xs = reduceSpec (app2 r f) a xs := by
  induction xs generalizing a with
  | nil => rfl
  | cons x xs ih => simp [reduceVals_cons, reduceSpec, ih]

theorem findVals_eq_spec (r : Rec) (f dflt : Val) (xs : List Val) :
    callBuiltin.findVals r f dflt xs = findSpec (app1 r f) dflt xs := by
  induction xs with
  | nil => rfl
  | cons x xs ih => simp [findVals_cons, findSpec, ih]

/-! ### append lemmas: a traversal of `xs ++ ys` is the traversal of `xs` followed by that of `ys` -/

theorem mapSpec_append (g : Val → M Val) (xs ys : List Val) :
    mapSpec g (xs ++ ys) =
      (mapSpec g xs >>= fun vs => mapSpec g ys >>= fun ws => pure (vs ++ ws)) := by
  induction xs with
  | nil => simp [mapSpec]
  | cons x xs ih => simp [mapSpec, ih]

theorem filterSpec_append (g : Val → M Val) (xs ys : List Val) :
    filterSpec g (xs ++ ys) =
      (filterSpec g xs >>= fun vs => filterSpec g ys >>= fun ws => pure (vs ++ ws)) := by
  induction xs with
  | nil => simp [filterSpec]
  | cons x xs ih =>
    simp only [List.cons_append, filterSpec, ih, bind_assoc, pure_bind]
    congr 1; funext v
    cases truthy v <;> simp

theorem reduceSpec_append (g : Val → Val → M Val) (a : Val) (xs ys : List Val) :
    reduceSpec g a (xs ++ ys) = (reduceSpec g a xs >>= fun b => reduceSpec g b ys) := by
  induction xs generalizing a with
  | nil => simp [reduceSpec]
  | cons x xs ih => simp [reduceSpec, ih]

theorem mapVals_append (r : Rec) (f : Val) (xs ys acc : List Val) :
    callBuiltin.mapVals r f (xs ++ ys) acc =
      (callBuiltin.mapVals r f xs acc >>= fun rs => callBuiltin.mapVals r f ys rs.reverse) := by
  induction xs generalizing acc with
  | nil => simp [mapVals_nil]
  | cons x xs ih => simp [mapVals_cons, ih]

theorem filterVals_append (r : Rec) (f : Val) (xs ys acc : List Val) :
    callBuiltin.filterVals r f (xs ++ ys) acc =
      (callBuiltin.filterVals r f xs acc >>= fun rs => callBuiltin.filterVals r f ys rs.reverse) := by
  induction xs generalizing acc with
  | nil => simp [filterVals_nil]
  | cons x xs ih => simp [filterVals_cons, ih]

theorem reduceVals_append (r : Rec) (f a : Val) (xs ys : List Val) :
    callBuiltin.reduceVals r f a (xs ++ ys) =
      (callBuiltin.reduceVals r f a xs >>= fun b => callBuiltin.reduceVals r f b ys) := by
  rw [reduceVals_eq_spec, reduceSpec_append, reduceVals_eq_spec]
  congr 1; funext b; rw [reduceVals_eq_spec]

/-- the search underlying `seq-find`, without the default -/
def findSpec? (g : Val → M Val) : List Val → M (Option Val)
  | [] => pure none
  | x :: xs => do
    let v ← g x
    if truthy v then pure (some x) else findSpec? g xs

theorem findSpec_eq (g : Val → M Val) (dflt : Val) (xs : List Val) :
    findSpec g dflt xs = (findSpec? g xs >>= fun o => pure (o.getD dflt)) := by
  induction xs with
  | nil => simp [findSpec, findSpec?]
  | cons x xs ih =>
    simp only [findSpec, findSpec?, ih, bind_assoc]
    congr 1; funext v
    cases truthy v <;> simp

/-- searching `xs ++ ys`: search `xs`; only if nothing is found there, search `ys` -/
theorem findSpec?_append (g : Val → M Val) (xs ys : List Val) :
    findSpec? g (xs ++ ys) =
      (findSpec? g xs >>= fun o => match o with
        | some x => pure (some x)
        | none => findSpec? g ys) := by
  induction xs with
  | nil => simp [findSpec?]
  | cons x xs ih =>
    simp only [List.cons_append, findSpec?, ih, bind_assoc]
    congr 1; funext v
    cases truthy v <;> simp

theorem findVals_append (r : Rec) (f dflt : Val) (xs ys : List Val) :
    callBuiltin.findVals r f dflt (xs ++ ys) =
      (findSpec? (app1 r f) xs >>= fun o => match o with
        | some x => pure x
        | none => callBuiltin.findVals r f dflt ys) := by
  rw [findVals_eq_spec, findSpec_eq, findSpec?_append, bind_assoc]
  congr 1; funext o
  cases o with
  | some x => simp
  | none => simp [findVals_eq_spec, findSpec_eq]

/-! ### success: when every application of `f` returns a value, the results are the images under
    `List.map` / `filter` / `foldl` / `find?`, and the state is threaded through the elements in
    list order (`List.foldl` of the per-element state change `k`) -/

theorem mapVals_ok (r : Rec) (f : Val) (h : Val → Val) (k : Val → Ctx → Ctx) (xs acc : List Val)
    (c : Ctx) (hg : ∀ x ∈ xs, ∀ c, app1 r f x c = (.ok (h x), k x c)) :
    callBuiltin.mapVals r f xs acc c =
      (.ok (acc.reverse ++ xs.map h), xs.foldl (fun c x => k x c) c) := by
  induction xs generalizing acc c with
  | nil => simp [mapVals_nil, pure, M.pure]
  | cons x xs ih =>
    rw [mapVals_cons, bind_ok _ (hg x (by simp) c), ih _ _ (fun y hy => hg y (by simp [hy]))]
    simp

theorem filterVals_ok (r : Rec) (f : Val) (h : Val → Val) (k : Val → Ctx → Ctx)
    (xs acc : List Val) (c : Ctx) (hg : ∀ x ∈ xs, ∀ c, app1 r f x c = (.ok (h x), k x c)) :
    callBuiltin.filterVals r f xs acc c =
      (.ok (acc.reverse ++ xs.filter (fun x => truthy (h x))), xs.foldl (fun c x => k x c) c) := by
  induction xs generalizing acc c with
  | nil => simp [filterVals_nil, pure, M.pure]
  | cons x xs ih =>
    rw [filterVals_cons, bind_ok _ (hg x (by simp) c), ih _ _ (fun y hy => hg y (by simp [hy]))]
    cases hx : truthy (h x) <;> simp [hx]

theorem reduceVals_ok (r : Rec) (f : Val) (h : Val → Val → Val) (k : Val → Val → Ctx → Ctx)
    (xs : List Val) (a : Val) (c : Ctx)
    (hg : ∀ x ∈ xs, ∀ a c, app2 r f a x c = (.ok (h a x), k a x c)) :
    callBuiltin.reduceVals r f a xs c =
      (.ok (xs.foldl h a),
       (xs.foldl (fun (p : Val × Ctx) x => (h p.1 x, k p.1 x p.2)) (a, c)).2) := by
  induction xs generalizing a c with
  | nil => simp [reduceVals_nil, pure, M.pure]
  | cons x xs ih =>
    rw [reduceVals_cons, bind_ok _ (hg x (by simp) a c), ih _ _ (fun y hy => hg y (by simp [hy]))]
    simp

/-- the elements a search inspects: everything up to and including the first match -/
def visited (p : Val → Bool) : List Val → List Val
  | [] => []
  | x :: xs => x :: (if p x then [] else visited p xs)

theorem findVals_ok (r : Rec) (f dflt : Val) (h : Val → Val) (k : Val → Ctx → Ctx)
    (xs : List Val) (c : Ctx) (hg : ∀ x ∈ xs, ∀ c, app1 r f x c = (.ok (h x), k x c)) :
    callBuiltin.findVals r f dflt xs c =
      (.ok ((xs.find? (fun x => truthy (h x))).getD dflt),
       (visited (fun x => truthy (h x)) xs).foldl (fun c x => k x c) c) := by
  induction xs generalizing c with
  | nil => simp [findVals_nil, pure, M.pure, visited]
  | cons x xs ih =>
    rw [findVals_cons, bind_ok _ (hg x (by simp) c)]
    cases hx : truthy (h x)
    · simp only [Bool.false_eq_true, if_false]
      rw [ih _ (fun y hy => hg y (by simp [hy]))]
      simp [visited, hx]
    · simp [visited, hx, pure, M.pure]

/-- the same without knowing the state changes: only that every application succeeds with `h x` -/
theorem mapVals_ok_exists (r : Rec) (f : Val) (h : Val → Val) (xs acc : List Val) (c : Ctx)
    (hg : ∀ x ∈ xs, ∀ c, ∃ c', app1 r f x c = (.ok (h x), c')) :
    ∃ c', callBuiltin.mapVals r f xs acc c = (.ok (acc.reverse ++ xs.map h), c') := by
  induction xs generalizing acc c with
  | nil => exact ⟨c, by simp [mapVals_nil, pure, M.pure]⟩
  | cons x xs ih =>
    obtain ⟨c1, h1⟩ := hg x (by simp) c
    obtain ⟨c2, h2⟩ := ih (h x :: acc) c1 (fun y hy => hg y (by simp [hy]))
    exact ⟨c2, by rw [mapVals_cons, bind_ok _ h1, h2]; simp⟩

/-- failure stops the traversal: the elements after the failing one are never handed to `f` -/
theorem mapVals_error (r : Rec) (f x : Val) (pre post acc rs : List Val) (c c1 c2 : Ctx)
    (e : ErrKind) (h1 : callBuiltin.mapVals r f pre acc c = (.ok rs, c1))
    (h2 : app1 r f x c1 = (.err e, c2)) :
    callBuiltin.mapVals r f (pre ++ x :: post) acc c = (.err e, c2) := by
  rw [mapVals_append, bind_ok _ h1, mapVals_cons, bind_err _ h2]

/-! ### assoc with a test function -/

/-- specification of the `assoc` loop with test `g` on the car of each cons element -/
def assocSpec (g : Val → M Val) : List Val → M Val
  | [] => pure .nil
  | item :: rest =>
    match item with
    | .cons _ k _ => do
      let v ← g k
      if truthy v then pure item else assocSpec g rest
    | _ => assocSpec g rest

theorem assocLoop_eq_spec (r : Rec) (p key l : Val) :
    callBuiltin.assocLoop r p key l = assocSpec (fun k => app2 r p k key) l.elems := by
  induction l with
  | cons i item rest _ ih =>
    cases item with
    | cons j k d =>
      rw [callBuiltin.assocLoop, Val.elems, assocSpec, app2, bind_assoc]
      simp only [ih]
    | _ => simp only [callBuiltin.assocLoop, Val.elems, assocSpec, ih]
  | _ => rfl

theorem assocSpec_ok (g : Val → M Val) (h : Val → Val) (xs : List Val) (c : Ctx)
    (hg : ∀ k c, ∃ c', g k c = (.ok (h k), c')) :
    ∃ c', assocSpec g xs c =
      (.ok ((xs.find? (assocPred fun k => truthy (h k))).getD .nil), c') := by
  induction xs generalizing c with
  | nil => exact ⟨c, rfl⟩
  | cons item rest ih =>
    cases item with
    | cons j k d =>
      obtain ⟨c1, h1⟩ := hg k c
      cases hk : truthy (h k)
      · obtain ⟨c2, h2⟩ := ih c1
        refine ⟨c2, ?_⟩
        rw [assocSpec, bind_ok _ h1]
        simp [hk, h2, assocPred]
      · refine ⟨c1, ?_⟩
        rw [assocSpec, bind_ok _ h1]
        simp [hk, assocPred, pure, M.pure]
    | _ =>
      obtain ⟨c2, h2⟩ := ih c
      exact ⟨c2, by simp only [assocSpec, h2]; simp [assocPred]⟩

/-- `assoc` / `alist-get` without test function: `assocFind` with `equal` -/
theorem assocM_default (r : Rec) (key alist : Val) (c : Ctx) (hl : alist.isList = true) :
    callBuiltin.assocM r key alist .nil c =
      (.ok (assocFind (fun k => equalV c k key) alist), c) := by
  simp [callBuiltin.assocM, hl, Val.isNil]
  rfl

theorem assocM_not_list (r : Rec) (key alist testfn : Val) (c : Ctx) (hl : alist.isList = false) :
    callBuiltin.assocM r key alist testfn c = (.err .typeMismatch, c) := by
  simp [callBuiltin.assocM, hl, M.throw]

/-- the tail of `alist-get` after the lookup -/
def alistGetTail (r : Rec) (key alist dflt testfn : Val) : M Val := do
  let x ← callBuiltin.assocM r key alist testfn
  if truthy x then liftE (cdrV x) else pure dflt

/-- `alist-get` without test function: the cdr of the first cons element whose car is `equal` to
    the key, else the default. -/
theorem alistGet_default_spec (r : Rec) (key alist dflt : Val) (c : Ctx)
    (hl : alist.isList = true) :
    alistGetTail r key alist dflt .nil c =
      (.ok (match alist.elems.find? (assocPred fun k => equalV c k key) with
            | some (.cons _ _ d) => d
            | _ => dflt), c) := by
  unfold alistGetTail
  rw [bind_ok _ (assocM_default r key alist c hl), assocFind_spec]
  cases hf : alist.elems.find? (assocPred fun k => equalV c k key) with
  | none => rfl
  | some item =>
    have hp := List.find?_some hf
    cases item <;> first | rfl | simp [assocPred] at hp

/-- `alistGetTail` is literally what the `.alistGet` case of `callBuiltin` does after evaluating
    its five arguments. -/
theorem callBuiltin_alistGet_tail (r : Rec) (args : Val) :
    callBuiltin r .alistGet args = (do
      let (key, rest) ← nextArg r args
      let (alist, rest2) ← nextArg r rest
      let (dflt, rest3) ← nextArgOpt r rest2
      let (_remove, rest4) ← nextArgOpt r rest3
      let (testfn, _) ← nextArgOpt r rest4
      alistGetTail r key alist dflt testfn) := rfl

/-! ### the built-ins are these loops -/

theorem callBuiltin_mapcar (r : Rec) (args : Val) :
    callBuiltin r .mapcar args = (do
      let (fv, rest) ← nextArg r args
      let (seq, _) ← nextArg r rest
      let f ← r.eval fv
      let rs ← callBuiltin.mapVals r f seq.elems []
      mkListM rs) := rfl

theorem callBuiltin_seqMap (r : Rec) (args : Val) :
    callBuiltin r .seqMap args = callBuiltin r .mapcar args := rfl

theorem callBuiltin_seqFilter (r : Rec) (args : Val) :
    callBuiltin r .seqFilter args = (do
      let (fv, rest) ← nextArg r args
      let (seq, _) ← nextArg r rest
      let f ← r.eval fv
      let rs ← callBuiltin.filterVals r f seq.elems []
      mkListM rs) := rfl

theorem callBuiltin_seqReduce (r : Rec) (args : Val) :
    callBuiltin r .seqReduce args = (do
      let (fv, rest) ← nextArg r args
      let (seq, rest2) ← nextArg r rest
      let (init, _) ← nextArg r rest2
      let f ← r.eval fv
      callBuiltin.reduceVals r f init seq.elems) := rfl

theorem callBuiltin_seqFind (r : Rec) (args : Val) :
    callBuiltin r .seqFind args = (do
      let (fv, rest) ← nextArg r args
      let (seq, rest2) ← nextArg r rest
      let (dflt, _) ← nextArgOpt r rest2
      let f ← r.eval fv
      callBuiltin.findVals r f dflt seq.elems) := rfl

theorem callBuiltin_assoc (r : Rec) (args : Val) :
    callBuiltin r .assoc_ args = (do
      let (key, rest) ← nextArg r args
      let (alist, rest2) ← nextArg r rest
      let (testfn, _) ← nextArgOpt r rest2
      callBuiltin.assocM r key alist testfn) := rfl

theorem callBuiltin_alistGet (r : Rec) (args : Val) :
    callBuiltin r .alistGet args = (do
      let (key, rest) ← nextArg r args
      let (alist, rest2) ← nextArg r rest
      let (dflt, rest3) ← nextArgOpt r rest2
      let (_remove, rest4) ← nextArgOpt r rest3
      let (testfn, _) ← nextArgOpt r rest4
      let x ← callBuiltin.assocM r key alist testfn
      if truthy x then liftE (cdrV x) else pure dflt) := rfl

theorem callBuiltin_plistGet (r : Rec) (args : Val) :
    callBuiltin r .plistGet args = (do
      let (plist, rest) ← nextArg r args
      let (prop, _) ← nextArg r rest
      let c ← M.get
      liftE (plistGet c prop plist)) := rfl

theorem callBuiltin_length (r : Rec) (args : Val) :
    callBuiltin r .length_ args = (do
      let (l, _) ← nextArg r args
      pure (.int (lengthV l))) := rfl

theorem callBuiltin_nth (r : Rec) (args : Val) :
    callBuiltin r .nth_ args = (do
      let (nv, rest) ← nextArg r args
      let n ← intOf nv
      let (l, _) ← nextArg r rest
      liftE (nthV n l)) := rfl

theorem callBuiltin_nthcdr (r : Rec) (args : Val) :
    callBuiltin r .nthcdr args = (do
      let (nv, rest) ← nextArg r args
      let n ← intOf nv
      let (l, _) ← nextArg r rest
      liftE (nthcdrV n l)) := rfl

theorem callBuiltin_last (r : Rec) (args : Val) :
    callBuiltin r .last_ args = (do
      let (l, rest) ← nextArg r args
      let (nv, _) ← nextArgOpt r rest
      let n ← if nv.isNil then pure none else do let i ← intOf nv; pure (some i)
      liftE (lastV l n)) := rfl

theorem callBuiltin_list (r : Rec) (args : Val) :
    callBuiltin r .list_ args = (do
      let vs ← evalEach r args
      mkListM vs) := rfl


/-! ## cons, list and the list predicates as built-ins -/

/-- `(cons A B)`: a fresh cell whose car and cdr are the values of `A` and `B`. -/
theorem cons_builtin (r : Rec) (i j : Nat) (aF dF a d : Val) (c c1 c2 : Ctx)
    (h1 : r.eval aF c = (.ok a, c1)) (h2 : r.eval dF c1 = (.ok d, c2)) :
    callBuiltin r .cons_ (.cons i aF (.cons j dF .nil)) c =
      (.ok (.cons c2.nextId a d), { c2 with nextId := c2.nextId + 1 }) := by
  show (r.eval aF >>= fun a => r.eval dF >>= fun d => mkCons a d) c = _
  rw [bind_ok _ h1, bind_ok _ h2]
  rfl

/-- `(list A1 … An)`: a fresh proper list of the values, in order. -/
theorem list_builtin (r : Rec) (args : Val) (vs : List Val) (c c1 : Ctx)
    (h : evalEach r args c = (.ok vs, c1)) :
    ∃ w c2, callBuiltin r .list_ args c = (.ok w, c2) ∧ w.spine = (vs, .nil) := by
  obtain ⟨w, c2, hw, hs⟩ := mkListM_spec vs .nil c1
  refine ⟨w, c2, ?_, by simpa [spine_nil] using hs⟩
  show (evalEach r args >>= fun vs => mkListM vs) c = _
  rw [bind_ok _ h]
  exact hw

/-- `consp`: true exactly for values with at least one cons cell -/
theorem consp_spec (v : Val) : v.isCons = true ↔ v.spine.1 ≠ [] := isCons_iff_spine v

/-- `listp`: true exactly for nil and conses (proper or dotted) -/
theorem listp_spec (v : Val) : v.isList = true ↔ (v = .nil ∨ v.isCons = true) := by
  cases v <;> simp [Val.isList, Val.isNil, Val.isCons]

/-- `null`: true exactly for nil -/
theorem null_spec (v : Val) : v.isNil = true ↔ v = .nil := by
  cases v <;> simp [Val.isNil]

theorem consp_builtin (r : Rec) (i : Nat) (aF v : Val) (c c1 : Ctx)
    (h : r.eval aF c = (.ok v, c1)) :
    callBuiltin r .consp (.cons i aF .nil) c = (.ok (ofBool v.isCons), c1) := by
  show (r.eval aF >>= fun v => M.get >>= fun c => pure (ofBool (v.isCons))) c = _
  rw [bind_ok _ h]
  rfl

theorem listp_builtin (r : Rec) (i : Nat) (aF v : Val) (c c1 : Ctx)
    (h : r.eval aF c = (.ok v, c1)) :
    callBuiltin r .listp (.cons i aF .nil) c = (.ok (ofBool v.isList), c1) := by
  show (r.eval aF >>= fun v => M.get >>= fun c => pure (ofBool (v.isList))) c = _
  rw [bind_ok _ h]
  rfl

theorem null_builtin (r : Rec) (i : Nat) (aF rest v : Val) (c c1 : Ctx)
    (h : r.eval aF c = (.ok v, c1)) :
    callBuiltin r .null_ (.cons i aF rest) c = (.ok (ofBool v.isNil), c1) := by
  show ((r.eval aF >>= fun v => pure (v, rest)) >>= fun p => pure (ofBool p.1.isNil)) c = _
  rw [bind_assoc, bind_ok _ h]
  rfl


/-! ## 11. non-vacuity: concrete instances -/
section Examples

/-- `(1 2 3)` -/
def l123 : Val := Val.ofList [.int 1, .int 2, .int 3]
/-- `(1 2 . 3)` -/
def d12_3 : Val := .cons 7 (.int 1) (.cons 8 (.int 2) (.int 3))

-- the spine hypotheses of the theorems are satisfiable: proper, dotted, empty
example : l123.spine = ([.int 1, .int 2, .int 3], .nil) := rfl
example : d12_3.spine = ([.int 1, .int 2], .int 3) := rfl
example : Val.nil.spine = ([], .nil) := rfl
example : (Val.int 5).isList = false := rfl

-- car / cdr / cxr
example : carV l123 = .ok (.int 1) := rfl
example : cdrV l123 = .ok (Val.ofList [.int 2, .int 3]) := rfl
example : carV (.int 5) = .error .typeMismatch := rfl
example : cxrV [true, false] l123 = .ok (.int 2) := rfl               -- cadr
example : cxrV [true, false, false] l123 = .ok (.int 3) := rfl        -- caddr
example : cxrV [false, false, false] l123 = .ok .nil := rfl           -- cdddr
example : cxrV [true, false, false, false] l123 = .ok .nil := rfl     -- cadddr
example : cxrV [false, false] d12_3 = .ok (.int 3) := rfl             -- cddr of (1 2 . 3)
example : cxrV [true, false, false] d12_3 = .error .typeMismatch := rfl
example : Bi.cxrPath? .caddr = some [true, false, false] := rfl
example : Bi.caddr.name = cxrName [true, false, false] := by decide
example : Bi.cxrPath? .append_ = none := rfl

-- nth / nthcdr at zero, in range, at the end, past the end, negative
example : nthV 0 l123 = .ok (.int 1) := rfl
example : nthV 2 l123 = .ok (.int 3) := rfl
example : nthV 3 l123 = .ok .nil := rfl
example : nthV 100 l123 = .ok .nil := rfl
example : nthV (-1) l123 = .ok (.int 1) := rfl
example : nthcdrV 0 l123 = .ok l123 := rfl
example : nthcdrV 1 l123 = .ok (Val.ofList [.int 2, .int 3]) := rfl
example : nthcdrV 3 l123 = .ok .nil := rfl
example : nthcdrV 4 l123 = .ok .nil := rfl
example : nthcdrV 2 d12_3 = .ok (.int 3) := rfl
example : nthcdrV 3 d12_3 = .error .typeMismatch := rfl
example : nthV 2 d12_3 = .error .typeMismatch := rfl
-- instance of `nth_spec_in_range`
example : nthV 1 l123 = .ok (.int 2) :=
  nth_spec_in_range 1 l123 [.int 1, .int 2, .int 3] .nil rfl (by decide)

-- length
example : lengthV l123 = 3 := rfl
example : lengthV d12_3 = 2 := rfl
example : lengthV .nil = 0 := rfl
example : lengthV (.int 5) = 0 := rfl

-- last
example : lastV l123 none = .ok (Val.ofList [.int 3]) := rfl
example : lastV l123 (some 2) = .ok (Val.ofList [.int 2, .int 3]) := rfl
example : lastV l123 (some 0) = .ok .nil := rfl
example : lastV l123 (some 3) = .ok l123 := rfl
example : lastV l123 (some 7) = .ok l123 := rfl
example : lastV l123 (some (-1)) = .error .outOfRange := rfl
example : lastV d12_3 none = .ok (.cons 8 (.int 2) (.int 3)) := rfl
example : lastV (.int 5) none = .error .typeMismatch := rfl

-- append: (append '(1 2 3) '(4) nil '(5 6)) and with a dotted last argument
example : (match (appendVals l123 [Val.ofList [.int 4], .nil, Val.ofList [.int 5, .int 6]] {}).1 with
    | .ok w => w.spine | _ => ([], .t))
    = ([.int 1, .int 2, .int 3, .int 4, .int 5, .int 6], .nil) := rfl
example : (match (appendVals l123 [d12_3] {}).1 with | .ok w => w.spine | _ => ([], .t))
    = ([.int 1, .int 2, .int 3, .int 1, .int 2], .int 3) := rfl
example : (match (appendVals l123 [d12_3, l123] {}).1 with | .err k => some k | _ => none)
    = some .typeMismatch := rfl
example : (match (appendVals l123 [l123] {}).1 with | .ok w => lengthV w | _ => -1) = 6 := rfl
-- hypotheses of `append_dotted_middle_error`
example : d12_3.isCons = true ∧ d12_3.spine.2 ≠ .nil := ⟨rfl, by decide⟩

-- assoc
def alist : Val := Val.ofList [.int 9, .cons 0 (.int 1) (.int 10), .cons 0 (.int 2) (.int 20),
  .cons 0 (.int 2) (.int 21)]
def isInt (n : Int) : Val → Bool
  | .int m => m == n
  | _ => false
example : assocFind (isInt 2) alist = .cons 0 (.int 2) (.int 20) := rfl
example : assocFind (isInt 3) alist = .nil := rfl
example : alist.elems.find? (assocPred (isInt 2)) = some (.cons 0 (.int 2) (.int 20)) := rfl

-- plist-get: (1 10 2 20 2 21), and a key in a value position is not found
def plist : Val := Val.ofList [.int 1, .int 10, .int 2, .int 20, .int 2, .int 21]
example : plistGet {} (.int 2) plist = .ok (.int 20) := rfl
example : plistGet {} (.int 10) plist = .ok .nil := rfl
example : plistGet {} (.int 3) plist = .ok .nil := rfl
example : plist.spine.2 = .nil := rfl
example : plistPairs plist.elems = [(.int 1, .int 10), (.int 2, .int 20), (.int 2, .int 21)] := rfl

/-- A toy evaluator for the higher-order examples: a call `(f n)` with an integer argument returns
    `n + 1` and records `n` in the ghost log `ticks`. -/
def demoRec : Rec where
  eval := fun form c =>
    match form with
    | .cons _ _ (.cons _ (.int n) _) => (.ok (.int (n + 1)), { c with ticks := n :: c.ticks })
    | _ => (.ok .nil, c)
  mexp := pure
  load := fun _ => pure .nil

def demoH : Val → Val
  | .int n => .int (n + 1)
  | _ => .nil
def demoK : Val → Ctx → Ctx
  | .int n, c => { c with nextId := c.nextId + 3, ticks := n :: c.ticks }
  | _, c => { c with nextId := c.nextId + 3 }

/-- the hypothesis of `mapVals_ok` / `filterVals_ok` / `findVals_ok` holds for a concrete `r`, `f` -/
theorem demo_app1 : ∀ x ∈ [Val.int 1, .int 2, .int 3], ∀ c,
    app1 demoRec (.builtin .car) x c = (.ok (demoH x), demoK x c) := by
  intro x hx c
  simp only [List.mem_cons, List.not_mem_nil, or_false] at hx
  rcases hx with rfl | rfl | rfl <;> rfl

/-- elements are visited once each, in list order (the log is most-recent-first) -/
example : callBuiltin.mapVals demoRec (.builtin .car) [.int 1, .int 2, .int 3] [] {} =
    (.ok [.int 2, .int 3, .int 4], { nextId := 10, ticks := [3, 2, 1] }) := by
  rw [mapVals_ok demoRec _ demoH demoK _ _ _ demo_app1]; rfl

example : callBuiltin.filterVals demoRec (.builtin .car) [.int 1, .int 2, .int 3] [] {} =
    (.ok [.int 1, .int 2, .int 3], { nextId := 10, ticks := [3, 2, 1] }) := by
  rw [filterVals_ok demoRec _ demoH demoK _ _ _ demo_app1]; rfl

/-- `seq-find` stops at the first match: only the first element is visited -/
example : callBuiltin.findVals demoRec (.builtin .car) .t [.int 1, .int 2, .int 3] {} =
    (.ok (.int 1), { nextId := 4, ticks := [1] }) := by
  rw [findVals_ok demoRec _ _ demoH demoK _ _ demo_app1]; rfl

def demoH2 : Val → Val → Val
  | .int n, _ => .int (n + 1)
  | _, _ => .nil
def demoK2 : Val → Val → Ctx → Ctx
  | .int n, _, c => { c with nextId := c.nextId + 5, ticks := n :: c.ticks }
  | _, _, c => { c with nextId := c.nextId + 5 }

/-- the hypothesis of `reduceVals_ok` holds for a concrete `r`, `f` -/
theorem demo_app2 : ∀ x ∈ [Val.int 7, .int 8], ∀ a c,
    app2 demoRec (.builtin .car) a x c = (.ok (demoH2 a x), demoK2 a x c) := by
  intro x hx a c
  simp only [List.mem_cons, List.not_mem_nil, or_false] at hx
  rcases hx with rfl | rfl <;> cases a <;> rfl

/-- `seq-reduce` feeds the running value back in: 0 ↦ 1 ↦ 2, one step per element -/
example : callBuiltin.reduceVals demoRec (.builtin .car) (.int 0) [.int 7, .int 8] {} =
    (.ok (.int 2), { nextId := 11, ticks := [1, 0] }) := by
  rw [reduceVals_ok demoRec _ demoH2 demoK2 _ _ _ demo_app2]; rfl

end Examples

end Tulisp.C12
