/-
  Props/C03.lean — C03: temporary bindings are undone on every exit, including errors.

  The interpreter uses *shallow binding*: every symbol has its own stack of values, the innermost
  binding on top, plus a flag saying whether the bottom entry is the global value.  `let`, `let*`,
  function and macro calls, `dolist` and `dotimes` push bindings and must pop exactly what they
  pushed on *every* exit: normal return, error, or the model giving up (`fuel`).

  Statement.  `LD c n` is the number of *local* bindings of symbol `n` in state `c` (stack length
  minus the global entry).  For every request (`evalString` / `loadFile`), every depth budget, every
  program text and every well-formed start state — whatever the outcome —

      LD (state after) = LD (state before)                                   (`depth_restored`)

  for *all* symbols at once, including symbols the request created (they have 0 before and after).
  Only `setq`/`set`/`defun`/`defmacro`/… executed by the program may have created a *global* entry
  (`depth_formula`, `depth_eq_or_new_global`).  Well-formedness (`Inv`) holds for `Ctx.initial`
  (`inv_initial`) and is preserved by every request (`inv_preserved`), hence the statement holds along
  every history of requests (`history_depth_restored`, `reachable_depth_restored`).

  Why a hypothesis on the start state.  The model represents symbols as indices into a table and
  keeps the `has_global` flag sticky, so raw `Ctx` values include states no execution can reach; on
  two kinds of them the conclusion is false (machine-checked at the end of this file):
    * `counterexample_sticky_flag`: a symbol whose flag is set on an empty stack
      (`(setq x 1)` turns its local depth from -1 into 0);
    * `counterexample_dangling_symbol`: a form mentioning a symbol index beyond the table
      (the `let` pushes nothing, the body's `lambda` creates that very entry as a closure cell, the
      `let` then pops the cell's only, global, value).
  `Inv` excludes exactly these: `WF` (no flag on an empty stack) and `Closed` (every symbol index
  stored in a stack, in a hash table or in the obarray exists).

  The proof (Proofs/Safe*.lean) is one invariant of the whole evaluator, `SafeH`, established for
  every helper and every built-in and closed by induction on the depth budget (`safeRec_ofDepth`).
-/
import Tulisp.Proofs.SafeLoad
namespace Tulisp.C03
open Tulisp

/-! ## well-formed states -/

/-- Well-formed interpreter states: no symbol has its global flag set on an empty stack, and
    every symbol index stored anywhere in the state refers to an existing table entry. -/
def Inv (c : Ctx) : Prop := WF c ∧ Closed c

/-- `WF` in plain terms -/
theorem wf_iff (c : Ctx) :
    WF c ↔ ∀ n, (c.symD n).hasGlobal = true → (c.symD n).items ≠ [] := by
  unfold WF LD localDepth
  constructor
  · intro h n hg he
    have := h n
    rw [hg, he] at this
    simp at this
  · intro h n
    by_cases hg : (c.symD n).hasGlobal = true
    · have := h n hg
      rw [hg]
      cases hi : (c.symD n).items with
      | nil => exact absurd hi this
      | cons a l => simp only [List.length_cons, if_true]; omega
    · simp only [hg]; simp

theorem inv_empty : Inv {} := by
  refine ⟨fun n => ?_, ⟨?_, ?_, ?_⟩⟩
  · rw [LD_of_ge (Nat.zero_le _)]; exact Int.le_refl _
  · intro n v hv
    rw [Ctx.symD_of_ge (Nat.zero_le _)] at hv
    simp at hv
  · intro name n h
    simp at h
  · intro id l k v h
    simp at h

/-- one step of `Ctx.initial` -/
theorem inv_register (c : Ctx) (b : Bi) (h : Inv c) :
    Inv (let (n, c) := c.intern b.name
         c.modSym n (fun s => { s with items := [.builtin b], hasGlobal := !b.isScoped })) := by
  obtain ⟨hw, hc⟩ := h
  obtain ⟨h1, h2, _, _⟩ := c.intern_spec b.name hw hc
  have hw' : WF (c.intern b.name).2 := WF_of_LD h1 hw
  show Inv ((c.intern b.name).2.modSym (c.intern b.name).1 _)
  constructor
  · intro k
    rw [LD_modSym]
    dsimp only
    split
    · simp only [localDepth, List.length_cons, List.length_nil]
      split <;> omega
    · exact hw' k
  · apply h2.modSym
    intro x hx
    simp only [List.mem_singleton] at hx
    subst hx
    simp

theorem inv_foldl_register (bs : List Bi) (c : Ctx) (h : Inv c) :
    Inv (bs.foldl (fun c b =>
      let (n, c) := c.intern b.name
      c.modSym n (fun s => { s with items := [.builtin b], hasGlobal := !b.isScoped })) c) := by
  induction bs generalizing c with
  | nil => exact h
  | cons b bs ih => exact ih _ (inv_register c b h)

/-- The state of a fresh interpreter is well-formed. -/
theorem inv_initial : Inv Ctx.initial := inv_foldl_register Bi.all {} inv_empty

/-! ## the property -/

/-- what the invariant `SafeH` says about one run from a well-formed state -/
theorem run_safe {α} {m : M α} {Q : α → Nat → Prop} (hm : ∀ N, SafeH True N m Q) (c : Ctx)
    (h : Inv c) : LD (m c).2 = LD c ∧ Inv (m c).2 ∧ c.syms.size ≤ (m c).2.syms.size := by
  have p := ((hm c.syms.size).run c).2 trivial h.1 h.2 rfl
  exact ⟨p.ld, ⟨WF_of_LD p.ld h.1, p.closed⟩, p.size⟩

/-- **C03.**  After `eval_string`, whatever its outcome (value, error, or the model giving up),
    every symbol has exactly as many local bindings as before. -/
theorem depth_restored (d : Nat) (text : String) (c : Ctx) (h : Inv c) :
    LD ((evalString d text) c).2 = LD c :=
  (run_safe (fun _ => safe_evalString d text) c h).1

/-- Well-formedness is preserved by `eval_string`, whatever its outcome. -/
theorem inv_preserved (d : Nat) (text : String) (c : Ctx) (h : Inv c) :
    Inv ((evalString d text) c).2 :=
  (run_safe (fun _ => safe_evalString d text) c h).2.1

/-- The same for `eval_file` (with the evaluator at depth budget `d`). -/
theorem loadFile_depth_restored (d : Nat) (name : String) (c : Ctx) (h : Inv c) :
    LD ((loadFile (Rec.ofDepth d) name) c).2 = LD c :=
  (run_safe (fun _ => safe_loadFile (safeRec_ofDepth d)) c h).1

theorem loadFile_inv_preserved (d : Nat) (name : String) (c : Ctx) (h : Inv c) :
    Inv ((loadFile (Rec.ofDepth d) name) c).2 :=
  (run_safe (fun _ => safe_loadFile (safeRec_ofDepth d)) c h).2.1

/-- Evaluating a single form (`eval`) or macro-expanding it: the same, provided the form mentions
    only existing symbols. -/
theorem eval_depth_restored (d : Nat) (e : Val) (c : Ctx) (h : Inv c) (he : e.bound ≤ c.syms.size) :
    LD (((Rec.ofDepth d).eval e) c).2 = LD c ∧ Inv (((Rec.ofDepth d).eval e) c).2 := by
  have p := (((safeRec_ofDepth d).eval True c.syms.size e (fun _ => he)).run c).2 trivial h.1 h.2 rfl
  exact ⟨p.ld, WF_of_LD p.ld h.1, p.closed⟩

/-! ### histories of requests -/

/-- a request to the interpreter -/
inductive Req where
  | eval (d : Nat) (text : String)
  | load (d : Nat) (name : String)

def Req.run : Req → M Val
  | .eval d text => evalString d text
  | .load d name => loadFile (Rec.ofDepth d) name

/-- the state after a sequence of requests (each may succeed or fail) -/
def runAll (reqs : List Req) (c : Ctx) : Ctx := reqs.foldl (fun c q => (q.run c).2) c

theorem request_depth_restored (q : Req) (c : Ctx) (h : Inv c) :
    LD (q.run c).2 = LD c ∧ Inv (q.run c).2 := by
  cases q with
  | eval d text => exact ⟨depth_restored d text c h, inv_preserved d text c h⟩
  | load d name => exact ⟨loadFile_depth_restored d name c h, loadFile_inv_preserved d name c h⟩

/-- Along any sequence of requests, failed or not, no local binding is ever left behind. -/
theorem requests_depth_restored (reqs : List Req) (c : Ctx) (h : Inv c) :
    LD (runAll reqs c) = LD c ∧ Inv (runAll reqs c) := by
  induction reqs generalizing c with
  | nil => exact ⟨rfl, h⟩
  | cons q qs ih =>
    obtain ⟨h1, h2⟩ := request_depth_restored q c h
    obtain ⟨h3, h4⟩ := ih (q.run c).2 h2
    exact ⟨h3.trans h1, h4⟩

/-- The same for a list of program texts evaluated one after the other. -/
theorem history_depth_restored (d : Nat) (texts : List String) (c : Ctx) (h : Inv c) :
    LD (texts.foldl (fun c t => ((evalString d t) c).2) c) = LD c ∧
      Inv (texts.foldl (fun c t => ((evalString d t) c).2) c) := by
  induction texts generalizing c with
  | nil => exact ⟨rfl, h⟩
  | cons t ts ih =>
    obtain ⟨h3, h4⟩ := ih _ (inv_preserved d t c h)
    exact ⟨h3.trans (depth_restored d t c h), h4⟩

/-- Every state reachable from a fresh interpreter is well-formed, and has the local depths of the
    fresh interpreter; a further request of any outcome does not change them. -/
theorem reachable_depth_restored (reqs : List Req) (q : Req) :
    Inv (runAll reqs Ctx.initial) ∧
    LD (runAll reqs Ctx.initial) = LD Ctx.initial ∧
    LD (q.run (runAll reqs Ctx.initial)).2 = LD (runAll reqs Ctx.initial) := by
  obtain ⟨h1, h2⟩ := requests_depth_restored reqs Ctx.initial inv_initial
  exact ⟨h2, h1, (request_depth_restored q _ h2).1⟩

/-! ### corollaries in terms of the stacks -/

/-- A symbol without local binding before a request has none after it, whether the request
    succeeded or failed. -/
theorem no_stale_local (d : Nat) (text : String) (c : Ctx) (h : Inv c) (n : Nat)
    (h0 : localDepth (c.symD n) = 0) : localDepth ((((evalString d text) c).2).symD n) = 0 := by
  have := congrFun (depth_restored d text c h) n
  simp only [LD] at this
  rw [this, h0]

/-- The length of every binding stack after a request is its length before, plus one if the
    request created the global entry. -/
theorem depth_formula (d : Nat) (text : String) (c : Ctx) (h : Inv c) (n : Nat) :
    ((((evalString d text) c).2.depth n : Nat) : Int) =
      (c.depth n : Int) + (if (((evalString d text) c).2.symD n).hasGlobal then 1 else 0)
        - (if (c.symD n).hasGlobal then 1 else 0) := by
  have := congrFun (depth_restored d text c h) n
  simp only [LD, localDepth] at this
  simp only [Ctx.depth]
  omega

/-- … so: same length when the global flag did not change, and `+1` when the symbol had no global
    value before and has one after (a global assignment or definition the program executed). -/
theorem depth_eq_or_new_global (d : Nat) (text : String) (c : Ctx) (h : Inv c) (n : Nat) :
    ((((evalString d text) c).2.symD n).hasGlobal = (c.symD n).hasGlobal →
        ((evalString d text) c).2.depth n = c.depth n) ∧
    ((c.symD n).hasGlobal = false → (((evalString d text) c).2.symD n).hasGlobal = true →
        ((evalString d text) c).2.depth n = c.depth n + 1) := by
  have := depth_formula d text c h n
  constructor
  · intro hg; rw [hg] at this; omega
  · intro h1 h2; rw [h1, h2] at this; simp at this; omega

/-! ## store laws -/

theorem pop_push (s : SymSt) (v : Val) : (s.push v).pop = some s := rfl

theorem get_push (s : SymSt) (v : Val) : (s.push v).get = some v := rfl

/-- an update of one symbol's entry leaves every other entry alone -/
theorem modSym_frame (c : Ctx) (n k : Nat) (f : SymSt → SymSt) (h : n ≠ k) :
    (c.modSym n f).symD k = c.symD k := by
  rw [Ctx.symD_modSym]; simp [h]

theorem modSym_same (c : Ctx) (n : Nat) (f : SymSt → SymSt) (h : n < c.syms.size) :
    (c.modSym n f).symD n = f (c.symD n) := by
  rw [Ctx.symD_modSym]; simp [h]

/-- `set` never changes the length of a non-empty stack (it overwrites the innermost binding) -/
theorem set_length (s : SymSt) (v : Val) (h : s.items ≠ []) :
    (s.set v).items.length = s.items.length := by
  unfold SymSt.set
  cases hi : s.items with
  | nil => exact absurd hi h
  | cons a l => simp

/-- `set` on an empty stack creates the global entry: local depth stays 0 -/
theorem set_empty (s : SymSt) (v : Val) (h : s.items = []) (hg : s.hasGlobal = false) :
    localDepth (s.set v) = 0 ∧ (s.set v).hasGlobal = true := by
  unfold SymSt.set localDepth
  rw [h]
  simp

/-- `push` adds one local binding, `pop` removes one -/
theorem localDepth_push' (s : SymSt) (v : Val) : localDepth (s.push v) = localDepth s + 1 :=
  localDepth_push s v

theorem localDepth_pop (s s' : SymSt) (h : s.pop = some s') : localDepth s' = localDepth s - 1 := by
  unfold SymSt.pop at h
  cases hi : s.items with
  | nil => rw [hi] at h; cases h
  | cons a l =>
    rw [hi] at h
    cases h
    simp only [localDepth, hi, List.length_cons]
    omega

/-- `popV` (the failing variant of the pop, not used by the evaluator itself) on a symbol that has a
    local binding succeeds and removes exactly that binding -/
theorem popV_sym (n : Nat) (c : Ctx) (hc : Closed c) (h : 1 ≤ LD c n) :
    (popV (.sym n) c).1 = .ok () ∧
      LD (popV (.sym n) c).2 = fun k => LD c k - (if n = k then 1 else 0) := by
  have hne := length_pos_of_LD h
  have hs := (popSymCtx_spec hc h).1
  unfold popSymCtx at hs
  unfold popV
  cases hp : (c.symD n).pop with
  | none =>
    unfold SymSt.pop at hp
    cases hi : (c.symD n).items with
    | nil => exact absurd hi hne
    | cons a l => rw [hi] at hp; cases hp
  | some s' =>
    rw [hp] at hs
    simp only [hp]
    exact ⟨trivial, hs⟩

/-! ## non-vacuity -/

/-- The combinator behind `let`: for a safe body, "push, run, pop on every exit" is safe. -/
example (r : Rec) (hr : SafeRec r) (body : Val) (N : Nat) (hb : body.bound ≤ N) (hN : 1 ≤ N) :
    SafeH True N (pushV (.sym 0) (.int 1) >>= fun _ =>
      match (Val.sym 0) with
      | .sym n => M.finally' (evalProgn r body) (fun c => popSymCtx c n) >>= pure
      | _ => M.throw .typeMismatch) bq :=
  safe_pushThen (Qb := bq) (fun _ => safe_evalProgn hr (fun _ => hb))
    (fun a N' => SafeH.pure (fun h => h.2.2)) (fun _ => by simp only [bound_sym, bound_int]; omega)

/-- a concrete well-formed state: two symbols, `x` and `f`, both unbound -/
def exCtx : Ctx := ((({} : Ctx).newSym { name := "x" }).2.newSym { name := "f" }).2

theorem exCtx_inv : Inv exCtx := by
  have h1 : Inv (({} : Ctx).newSym { name := "x" }).2 :=
    ⟨WF_of_LD (LD_newSym _ _ rfl) inv_empty.1, inv_empty.2.newSym _ (by simp)⟩
  exact ⟨WF_of_LD (LD_newSym _ _ rfl) h1.1, h1.2.newSym _ (by simp)⟩

/-- the failing program `(let ((x 1)) (f))` with `f` unbound -/
def exForm : Val :=
  Val.ofList [.builtin .let_, Val.ofList [Val.ofList [.sym 0, .int 1]], Val.ofList [.sym 1]]

/-- It fails (`f` has no value) inside the `let` … -/
example : (match ((Rec.ofDepth 5).eval exForm exCtx).1 with
    | .err .typeMismatch => true | _ => false) = true := by decide

/-- … and `x` is unbound again afterwards (while inside the body it was bound). -/
example : (((Rec.ofDepth 5).eval exForm exCtx).2).depth 0 = 0 := by decide

example : LD (((Rec.ofDepth 5).eval exForm exCtx).2) = LD exCtx :=
  (eval_depth_restored 5 exForm exCtx exCtx_inv (by decide)).1

/-! ## why the hypothesis `Inv` is needed (machine-checked counterexamples) -/

/-- a global flag on an empty stack -/
def badCtx1 : Ctx := { syms := #[{ name := "x", hasGlobal := true, items := [] }] }

/-- `(setq x 1)` -/
def badForm1 : Val := Val.ofList [.builtin .setq, .sym 0, .int 1]

/-- Not `WF`: the request succeeds and the local depth of `x` goes from -1 to 0. -/
theorem counterexample_sticky_flag :
    LD badCtx1 0 = -1 ∧ LD (((Rec.ofDepth 3).eval badForm1) badCtx1).2 0 = 0 ∧ ¬ Inv badCtx1 := by
  refine ⟨by decide, by decide, fun h => ?_⟩
  have := h.1 0
  have e : LD badCtx1 0 = -1 := by decide
  omega

/-- `y` with a global and a local value -/
def badCtx2 : Ctx := { syms := #[{ name := "y", hasGlobal := true, items := [.int 5, .int 1] }] }

/-- `(let ((<symbol #1> 1)) (lambda () y))` where symbol #1 does not exist (yet) -/
def badForm2 : Val :=
  Val.ofList [.builtin .let_, Val.ofList [Val.ofList [.sym 1, .int 1]],
    Val.ofList [.builtin .lambda_, .nil, .sym 0]]

/-- Not `Closed` (the form mentions a symbol index beyond the table): the request succeeds, the
    closure cell created at index 1 loses its only value, its local depth ends at -1. -/
theorem counterexample_dangling_symbol :
    LD badCtx2 1 = 0 ∧ LD (((Rec.ofDepth 5).eval badForm2) badCtx2).2 1 = -1 ∧
      ¬ badForm2.bound ≤ badCtx2.syms.size := by
  refine ⟨by decide, by decide, by decide⟩

end Tulisp.C03
