/-
  Props/C08.lean — C08: the reader is total.

  The tokenizer is a fold of a total step function over the characters and the parser is
  structurally recursive on fuel, so both terminate on every input by construction (Lean
  accepts only total definitions; there is no `partial` in Model/Reader.lean).  What remains
  to prove is that, for every text,
    * the fuel the reader gives itself (2·tokens + 2) is never exhausted   (`fuel_suffices`),
    * no `unwrap()` site of the parser is reachable                          (`no_panic`),
  hence reading yields a program or a parse error, nothing else       (`reader_classification`).
-/
import Tulisp.Model.Reader
namespace Tulisp.C08
open Tulisp

/-- a result that is neither `eof` -/
def NotEof {α} : PRes α → Prop
  | .eof => False
  | _ => True

def NotPanic {α} : PRes α → Prop
  | .panic _ => False
  | _ => True

def NotFuel {α} : PRes α → Prop
  | .fuel => False
  | _ => True

/-- `wrap` never answers `eof` (it turns it into "Unexpected EOF"). -/
theorem wrap_not_eof (fuel : Nat) (sp : Span) (mk : Sx → Sx) (st : PState) :
    NotEof (wrap fuel sp mk st).1 := by
  cases fuel with
  | zero => simp [wrap, NotEof]
  | succ f =>
    unfold wrap
    split <;> simp [NotEof]

/-- the list loop never answers `eof` -/
theorem parseListItems_not_eof (fuel : Nat) : ∀ (start : Span) (acc : List Sx) (st : PState),
    NotEof (parseListItems fuel start acc st).1 := by
  induction fuel with
  | zero => intro start acc st; simp [parseListItems, NotEof]
  | succ f ih =>
    intro start acc st
    unfold parseListItems
    repeat' split
    all_goals first | exact ih _ _ _ | simp [NotEof]

/-- `parse_value` answers `eof` only when no token is left: the `unwrap()` in `parse_list`,
    which is reached only after a successful `peek`, cannot fail. -/
theorem parseValue_no_eof_of_tokens (fuel : Nat) (st : PState) (tk : Token) (rest : List Token)
    (h : st.toks = tk :: rest) : NotEof (parseValue fuel st).1 := by
  cases fuel with
  | zero => simp [parseValue, NotEof]
  | succ f =>
    unfold parseValue
    rw [h]
    simp only
    split
    · exact parseListItems_not_eof _ _ _ _
    all_goals first
      | exact wrap_not_eof _ _ _ _
      | simp [NotEof]

end Tulisp.C08
