/-
  Props/C08.lean — C08: the reader is total.

  The tokenizer is a fold of a total step function over the characters and the parser is
  structurally recursive on fuel, so both terminate on every input by construction (Lean
  accepts only total definitions; there is no `partial` in Model/Reader.lean).  What remains
  to prove is that, for every text,
    * no `unwrap()` site of the parser is reachable                          (`no_panic`),
    * the fuel the reader gives itself (2·tokens + 2) is never exhausted     (`fuel_suffices`),
    * `eof` never escapes to the top level,
  hence reading yields a program or a parse error, nothing else       (`reader_classification`).
  Also: the tokenizer emits at most one token per character (`tokens_bounded`), and its
  (line, col) is always "1 + newlines consumed, 1 + characters since the last newline"
  (`tokenizer_position`, `advPos_line_col`; this part also serves C16).

  Helper lemmas (the joint fuel/consumption invariant `Post`, the amortised token count `wt`)
  are in Proofs/C08.lean.
-/
import Tulisp.Proofs.C08
namespace Tulisp.C08
open Tulisp

/-! ## 1. No `unwrap()` panics -/

/-- `parse_value` answers `eof` only when no token is left (so the `unwrap()` in `parse_list`,
    reached only after a successful `peek`, cannot fail). -/
theorem parseValue_eof_only_at_end (fuel : Nat) (st : PState)
    (h : (parseValue fuel st).1 = .eof) : st.toks = [] := by
  have hp := pv_all fuel st
  rcases hr : parseValue fuel st with ⟨r, st'⟩
  rw [hr] at hp h
  cases r <;> simp only [reduceCtorEq] at h
  exact hp.1

/-- `wrap` never answers `eof` (it turns it into "Unexpected EOF"). -/
theorem wrap_not_eof (fuel : Nat) (sp : Span) (mk : Sx → Sx) (st : PState) :
    (wrap fuel sp mk st).1 ≠ .eof := by
  have hp := pw_all fuel sp mk st
  rcases hr : wrap fuel sp mk st with ⟨r, st'⟩
  rw [hr] at hp
  cases r <;> simp only [ne_eq, reduceCtorEq, not_false_eq_true]
  exact hp.1.elim

/-- The list loop never answers `eof`. -/
theorem parseListItems_not_eof (fuel : Nat) (start : Span) (acc : List Sx) (st : PState) :
    (parseListItems fuel start acc st).1 ≠ .eof := by
  have hp := pl_all fuel start acc st
  rcases hr : parseListItems fuel start acc st with ⟨r, st'⟩
  rw [hr] at hp
  cases r <;> simp only [ne_eq, reduceCtorEq, not_false_eq_true]
  exact hp.1.elim

/-- None of the parser functions ever reaches an `unwrap()` of an absent value,
    whatever the fuel and the parser state. -/
theorem no_panic (fuel : Nat) (st : PState) (site : String) :
    (parseValue fuel st).1 ≠ .panic site ∧
    (∀ sp mk, (wrap fuel sp mk st).1 ≠ .panic site) ∧
    (∀ start acc, (parseListItems fuel start acc st).1 ≠ .panic site) ∧
    (∀ acc, (parseAll fuel acc st).1 ≠ .panic site) := by
  refine ⟨?_, ?_, ?_, ?_⟩
  · have hp := pv_all fuel st
    rcases hr : parseValue fuel st with ⟨r, st'⟩
    rw [hr] at hp
    cases r <;> simp only [ne_eq, reduceCtorEq, not_false_eq_true]
    exact hp.elim
  · intro sp mk
    have hp := pw_all fuel sp mk st
    rcases hr : wrap fuel sp mk st with ⟨r, st'⟩
    rw [hr] at hp
    cases r <;> simp only [ne_eq, reduceCtorEq, not_false_eq_true]
    exact hp.elim
  · intro start acc
    have hp := pl_all fuel start acc st
    rcases hr : parseListItems fuel start acc st with ⟨r, st'⟩
    rw [hr] at hp
    cases r <;> simp only [ne_eq, reduceCtorEq, not_false_eq_true]
    exact hp.elim
  · intro acc
    have hp := pa_all fuel acc st
    rcases hr : parseAll fuel acc st with ⟨r, st'⟩
    rw [hr] at hp
    cases r <;> simp only [ne_eq, reduceCtorEq, not_false_eq_true]
    exact hp.elim

/-! ## 2. The reader's own fuel always suffices -/

/-- Fuel `2 * (tokens left) + 1` is enough for `parse_value`, whatever the state. -/
theorem parseValue_fuel (fuel : Nat) (st : PState) (h : 2 * st.toks.length + 1 ≤ fuel) :
    (parseValue fuel st).1 ≠ .fuel := by
  have hp := pv_all fuel st
  rcases hr : parseValue fuel st with ⟨r, st'⟩
  rw [hr] at hp
  cases r <;> simp only [ne_eq, reduceCtorEq, not_false_eq_true]
  have := hp.1
  omega

/-- Fuel `2 * (tokens left) + 2` is enough for the top-level loop, whatever the state. -/
theorem parseAll_fuel (fuel : Nat) (acc : List Sx) (st : PState)
    (h : 2 * st.toks.length + 2 ≤ fuel) : (parseAll fuel acc st).1 ≠ .fuel := by
  have hp := pa_all fuel acc st
  rcases hr : parseAll fuel acc st with ⟨r, st'⟩
  rw [hr] at hp
  cases r <;> simp only [ne_eq, reduceCtorEq, not_false_eq_true]
  simp only [PostAll] at hp
  omega

/-- The fuel `readText` gives the parser is never exhausted. -/
theorem fuel_suffices (toks : List Token) :
    (parseAll (2 * toks.length + 2) [] { toks := toks }).1 ≠ .fuel :=
  parseAll_fuel _ _ _ (Nat.le_refl _)

/-- The top-level loop never answers `eof`. -/
theorem parseAll_not_eof (fuel : Nat) (acc : List Sx) (st : PState) :
    (parseAll fuel acc st).1 ≠ .eof := by
  have hp := pa_all fuel acc st
  rcases hr : parseAll fuel acc st with ⟨r, st'⟩
  rw [hr] at hp
  cases r <;> simp only [ne_eq, reduceCtorEq, not_false_eq_true]
  exact hp.elim

/-! ## 3. Classification -/

theorem parseTokens_classification (toks : List Token) :
    (∃ forms, (parseTokens toks).res = .ok forms) ∨ (∃ e, (parseTokens toks).res = .err e) := by
  have h1 := fuel_suffices toks
  have h2 := parseAll_not_eof (2 * toks.length + 2) [] { toks := toks }
  have h3 := fun site => (no_panic (2 * toks.length + 2) { toks := toks } site).2.2.2 []
  unfold parseTokens
  rcases hr : parseAll (2 * toks.length + 2) [] { toks := toks } with ⟨r, st'⟩
  rw [hr] at h1 h2 h3
  cases r with
  | ok forms => exact Or.inl ⟨forms, rfl⟩
  | err e => exact Or.inr ⟨e, rfl⟩
  | eof => exact (h2 rfl).elim
  | panic site => exact (h3 site rfl).elim
  | fuel => exact (h1 rfl).elim

/-- C08: for every text, the reader yields a program or a parse error — never a panic,
    never fuel exhaustion, never a stray `eof`. -/
theorem reader_classification (file : Nat) (cs : List Char) :
    (∃ forms, (readText file cs).res = .ok forms) ∨ (∃ e, (readText file cs).res = .err e) :=
  parseTokens_classification (tokenize file cs)

/-! ## 4. The tokenizer emits at most one token per character -/

/-- Tight bound: a text of `n` characters yields at most `n` tokens (a step can emit two tokens,
    e.g. `a)` at the `)`, but then an earlier character emitted none). -/
theorem tokens_bounded (file : Nat) (cs : List Char) : (tokenize file cs).length ≤ cs.length := by
  unfold tokenize tokenizeFrom
  have h1 := tfinish_length (cs.foldl tstep { file := file })
  have h2 := foldl_tstep_wt cs { file := file }
  have h3 : wt { file := file } = 0 := rfl
  omega

/-- The bound in the form asked for. -/
theorem tokens_bounded' (file : Nat) (cs : List Char) :
    (tokenize file cs).length ≤ cs.length + 1 :=
  Nat.le_succ_of_le (tokens_bounded file cs)

/-- Hence the fuel of `readText` is at most `2 * cs.length + 2`. -/
theorem reader_fuel_bounded (file : Nat) (cs : List Char) :
    2 * (tokenize file cs).length + 2 ≤ 2 * cs.length + 2 := by
  have := tokens_bounded file cs
  omega

/-! ## 5. Position invariant (also for C16) -/

/-- After consuming any prefix `cs` of a text, the tokenizer's position is `advPos` folded over
    the characters consumed — for every character, ASCII or not, in every mode. -/
theorem tokenizer_position (f : Nat) (cs : List Char) :
    let s := cs.foldl tstep { file := f }
    (⟨s.line, s.col⟩ : Pos) = cs.foldl advPos ⟨1, 1⟩ :=
  foldl_tstep_pos cs { file := f }

theorem takeWhile_of_all {α} (p : α → Bool) (l : List α) (h : l.all p = true) :
    l.takeWhile p = l := by
  induction l with
  | nil => rfl
  | cons a l ih =>
    simp only [List.all_cons, Bool.and_eq_true] at h
    simp [h.1, ih h.2]

/-- Closed form of the position: line = 1 + number of newlines, column = 1 + number of
    characters after the last newline. -/
theorem advPos_line_col (cs : List Char) :
    (cs.foldl advPos ⟨1, 1⟩).line = 1 + cs.count '\n' ∧
    (cs.foldl advPos ⟨1, 1⟩).col = 1 + (cs.reverse.takeWhile (· ≠ '\n')).length := by
  refine ⟨foldl_advPos_line cs ⟨1, 1⟩, ?_⟩
  have h := foldl_advPos_col_rev cs.reverse ⟨1, 1⟩
  rw [List.reverse_reverse] at h
  rw [h]
  split
  next hall => rw [takeWhile_of_all _ _ hall]
  next => rfl

/-- The two combined: the tokenizer's line and column after any prefix of the text. -/
theorem tokenizer_line_col (f : Nat) (cs : List Char) :
    (cs.foldl tstep { file := f }).line = 1 + cs.count '\n' ∧
    (cs.foldl tstep { file := f }).col = 1 + (cs.reverse.takeWhile (· ≠ '\n')).length := by
  have h := tokenizer_position f cs
  have h2 := advPos_line_col cs
  simp only at h
  rw [← h] at h2
  exact h2

/-! ## 6. Sanity / non-vacuity (all by kernel evaluation; texts as explicit character lists
      because string literals do not kernel-reduce) -/

def isDotted : PRes (List Sx) → Bool
  | .ok [.list _ [.ident _ _] (some (.ident _ _))] => true
  | _ => false
def isErr : PRes (List Sx) → Bool
  | .err _ => true
  | _ => false
def isOneIdent : PRes (List Sx) → Bool
  | .ok [.ident _ _] => true
  | _ => false
def isFuel : PRes (List Sx) → Bool
  | .fuel => true
  | _ => false

/-- `(a . b)` reads as one list with one item and a dotted tail … -/
example : isDotted (readText 0 ['(', 'a', ' ', '.', ' ', 'b', ')']).res = true := by decide
/-- … with these spans. -/
example : ∃ a b, (readText 0 ['(', 'a', ' ', '.', ' ', 'b', ')']).res =
    .ok [.list ⟨0, ⟨1, 1⟩, ⟨1, 8⟩⟩ [.ident ⟨0, ⟨1, 2⟩, ⟨1, 3⟩⟩ a]
          (some (.ident ⟨0, ⟨1, 6⟩, ⟨1, 7⟩⟩ b))] := ⟨_, _, rfl⟩
/-- `(a .` is a parse error (Unexpected EOF at the dot), not a panic. -/
example : isErr (readText 0 ['(', 'a', ' ', '.']).res = true := by decide
example : (readText 0 ['(', 'a', ' ', '.']).res =
    .err (.unexpectedEof ⟨0, ⟨1, 4⟩, ⟨1, 5⟩⟩) := by rfl
/-- `-.` reads as an identifier. -/
example : isOneIdent (readText 0 ['-', '.']).res = true := by decide
/-- `)` alone and `(` alone are errors. -/
example : (readText 0 [')']).res = .err (.unexpectedClose ⟨0, ⟨1, 1⟩, ⟨1, 2⟩⟩) := by rfl
example : (readText 0 ['(']).res = .err (.unclosedList ⟨0, ⟨1, 1⟩, ⟨1, 2⟩⟩) := by rfl
/-- the empty text is the empty program -/
example : (readText 0 []).res = .ok [] := by rfl
/-- `fuel` is a reachable outcome of the parser with too little fuel, so `fuel_suffices`
    says something: one token, fuel 1. -/
example : isFuel (parseAll 1 [] { toks := tokenize 0 ['a'] }).1 = true := by decide
/-- hypothesis of `parseValue_eof_only_at_end` is satisfiable -/
example : (parseValue 1 { toks := [] }).1 = .eof := by rfl
/-- hypothesis of `parseValue_fuel` / `parseAll_fuel` is satisfiable with a non-empty state -/
example : 2 * ({ toks := tokenize 0 ['(', 'a', ')'] } : PState).toks.length + 2 ≤ 8 := by decide
/-- `tokens_bounded` is tight: one token per character, and one step may emit two tokens. -/
example : (tokenize 0 ['(', ')']).length = 2 := by decide
example : (['a'].foldl tstep { file := 0 }).out.length = 0 ∧
          (['a', ')'].foldl tstep { file := 0 }).out.length = 2 := by decide
/-- positions with a newline and a non-ASCII character: after `a⏎λb` we are at line 2, col 3 -/
example : (['a', '\n', 'λ', 'b'].foldl tstep { file := 0 }).here = ⟨2, 3⟩ := by decide
example : ['a', '\n', 'λ', 'b'].foldl advPos ⟨1, 1⟩ = ⟨2, 3⟩ := by decide

end Tulisp.C08
