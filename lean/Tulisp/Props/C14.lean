/-
  Props/C14.lean — C14: `eq`, `equal`, symbol identity and hash tables.

  "eq holds exactly between an object and itself, and reading or interning the same symbol name
   in one context always gives the same (eq) symbol while make-symbol and gensym never do; equal
   holds exactly for structurally equal values (strings by content, lists element-wise to any
   depth including dotted tails, numbers by numeric value), is reflexive and symmetric, and eq
   implies equal.  A hash table behaves as a finite map keyed by eql: after any sequence of
   puthash and gethash calls, gethash returns the value most recently stored under an eql key,
   and nil otherwise."

  Model objects: `eqV`, `eqlV`, `equalV` (Model/ListOps.lean; the builtins `eq`, `equal` call
  them directly), `Ctx.intern` / `Ctx.newSym` (Model/Ctx.lean; the reader and `intern` call the
  former, `make-symbol` / `gensym` / closure cells the latter), `tablePut` / `tableLookup`
  (Model/Table.lean; `puthash` / `gethash` call them directly).

  Sections
    A. eq          : `eq_refl`, `eq_symm`, `eq_iff_same`, `eq_sym_iff`
    B. equal       : `equal_refl`, `equal_symm`, `eq_imp_equal`, `equal_iff_structural`,
                     `equal_iff_erase`, number lemmas
    C. symbols     : `intern_same`, `intern_same_later`, `intern_injective`,
                     `intern_injective_later`, `newSym_fresh`, `newSym_never_interned`,
                     `newSym_increasing`, `newSym_not_eq_interned`
    D. hash tables : `eql_refl`, `eql_symm`, `eql_trans`, `lookup_put_same`, `lookup_put_self`,
                     `lookup_put_other`, `lookup_put_other_table`, `lookup_empty`,
                     `table_refines_map`, `table_refines_map_ops`
-/
import Tulisp.Proofs.C14
namespace Tulisp.C14
open Tulisp

/-! ## A. `eq` -/

/-- `eq` holds between an object and itself (every data value that has an identity). -/
theorem eq_refl (c : Ctx) {v : Val} (_hd : Data v) (hk : KeyOk v) : eqV c v v = true :=
  eqV_refl c hk

theorem eq_symm (c : Ctx) (a b : Val) : eqV c a b = eqV c b a := eqV_symm c a b

/-- `eq` holds *exactly* between an object and itself: in a coherent heap (an allocation id
    denotes one object) and for plain symbols, `eq` decides sameness. -/
theorem eq_iff_same (c : Ctx) {a b : Val} (ha : Data a) (hk : KeyOk a)
    (hc : IdsCoherent a b) (na : NoCells c a) (nb : NoCells c b) :
    eqV c a b = true ↔ a = b :=
  eqV_iff_eq_top c ha hk (hc a b (Sub.refl a) (Sub.refl b))
    (fun n e => na n (e ▸ Sub.refl a)) (fun n e => nb n (e ▸ Sub.refl b))

/-- On symbols in general (closure cells included) `eq` is "stands for the same symbol". -/
theorem eq_sym_iff (c : Ctx) (a b : Nat) :
    eqV c (.sym a) (.sym b) = true ↔ symRoot c a = symRoot c b := by
  simpa [eqV] using symEq_iff_root c a b

/-- Two distinct plain symbols are never `eq`. -/
theorem eq_sym_ne (c : Ctx) {a b : Nat} (ha : (c.symD a).base = none)
    (hb : (c.symD b).base = none) (h : a ≠ b) : eqV c (.sym a) (.sym b) = false := by
  cases hh : eqV c (.sym a) (.sym b)
  · rfl
  · have := (eq_sym_iff c a b).mp hh
    rw [symRoot_self c a ha, symRoot_self c b hb] at this
    exact absurd this h

/-! ## B. `equal` -/

theorem equal_refl (c : Ctx) {v : Val} (h : Data v) : equalV c v v = true := equalV_refl c h

/-- Symmetric on all values (not only data). -/
theorem equal_symm (c : Ctx) (a b : Val) : equalV c a b = equalV c b a := equalV_symm c a b

/-- `eq` implies `equal` in a coherent heap.  The coherence hypothesis cannot be dropped for
    arbitrary `Val` trees, see `eq_not_equal_incoherent` below. -/
theorem eq_imp_equal (c : Ctx) {a b : Val} (ha : Data a) (hb : Data b) (hc : IdsCoherent a b)
    (h : eqV c a b = true) : equalV c a b = true :=
  eqV_imp_equalV_top c ha hb (hc a b (Sub.refl a) (Sub.refl b)) h

/-- why `IdsCoherent` is needed: the `Val` type itself does not force ids to be unique -/
example (c : Ctx) : eqV c (.str 1 "a") (.str 1 "b") = true ∧
    equalV c (.str 1 "a") (.str 1 "b") = false := by
  simp [eqV, equalV]

/-
  Full statement wanted: `equalV c a b = true ↔ structure a = structure b` for a normal-form
  function `structure` on all data values.  With integers facing floats no such function exists:
  `equal` compares an integer with a float after converting the integer to binary64, which is
  lossy above 2^53, so `equal` is not transitive there ((equal 9007199254740993 9007199254740992.0)
  and (equal 9007199254740992 9007199254740992.0) hold, the two integers are not equal).
  Proved: the characterisation for all pairs of data values in which no integer faces a float
  (`NoMix`); the int/float comparison itself is `equal_int_float`.
-/

/-- `equal` holds exactly for structurally equal values: same shape to any depth (including the
    dotted tail), strings by content, integers by value, floats by numeric value (`-0.0 = 0.0`),
    symbols by the symbol they stand for; allocation identities are irrelevant. -/
theorem equal_iff_structural (c : Ctx) {a b : Val} (ha : Data a) (hb : Data b) (hm : NoMix a b) :
    equalV c a b = true ↔ canon c a = canon c b :=
  equalV_iff_canon c ha hb hm

/-- Without closure cells: `equal` is equality after erasing the allocation ids. -/
theorem equal_iff_erase (c : Ctx) {a b : Val} (ha : Data a) (hb : Data b) (hm : NoMix a b)
    (na : NoCells c a) (nb : NoCells c b) :
    equalV c a b = true ↔ erase a = erase b := by
  rw [equal_iff_structural c ha hb hm, canon_eq_erase c na, canon_eq_erase c nb]

/-- values without floats never mix -/
theorem equal_iff_erase_noFloat (c : Ctx) {a b : Val} (ha : Data a) (hb : Data b)
    (fa : NoFloat a) (fb : NoFloat b) (na : NoCells c a) (nb : NoCells c b) :
    equalV c a b = true ↔ erase a = erase b :=
  equal_iff_erase c ha hb (noMix_of_noFloat fa fb) na nb

theorem equal_int_int (c : Ctx) (a b : Int) : equalV c (.int a) (.int b) = true ↔ a = b := by
  simp [equalV]

theorem equal_float_float (c : Ctx) (a b : UInt64) (ha : f64IsNaN a = false)
    (hb : f64IsNaN b = false) :
    equalV c (.float a) (.float b) = true ↔ normZero a = normZero b := by
  simpa [equalV] using fEq_iff_normZero a b ha hb

/-- an integer and a float are `equal` iff the integer, converted to binary64, is IEEE-`==`
    to the float -/
theorem equal_int_float (c : Ctx) (a : Int) (b : UInt64) :
    equalV c (.int a) (.float b) = fEq (intToF64 a) b ∧
    equalV c (.float b) (.int a) = fEq b (intToF64 a) := ⟨rfl, rfl⟩

/-- The reason for `NoMix`: across int/float, `equal` is not transitive (2^53 + 1 and 2^53 are
    both `equal` to the float 2^53 = bits 0x4340000000000000), so no normal form characterises it. -/
theorem equal_not_transitive_on_mixed_numbers (c : Ctx) :
    equalV c (.int 9007199254740993) (.float 0x4340000000000000) = true ∧
    equalV c (.float 0x4340000000000000) (.int 9007199254740992) = true ∧
    equalV c (.int 9007199254740993) (.int 9007199254740992) = false := by
  refine ⟨?_, ?_, ?_⟩
  · show fEq (intToF64 9007199254740993) 0x4340000000000000 = true
    decide
  · show fEq 0x4340000000000000 (intToF64 9007199254740992) = true
    decide
  · simp [equalV]

/-- why NaN is excluded: a NaN is not `equal` to itself -/
theorem equal_nan (c : Ctx) (a : UInt64) (h : f64IsNaN a = true) :
    equalV c (.float a) (.float a) = false := by
  simp [equalV, fEq, h]

/-! ## C. symbols -/

/-- Interning a name twice in a row gives the same symbol and leaves the context alone. -/
theorem intern_same (c : Ctx) (name : String) :
    ((c.intern name).2.intern name) = ((c.intern name).1, (c.intern name).2) :=
  intern_some (intern_obarray c name)

/-- … and so does interning it again after any sequence of `intern` / `newSym` / other
    operations (reading the same name later in the same context gives the same symbol). -/
theorem intern_same_later (c : Ctx) (name : String) (ops : List SymOp) :
    ((runOps (c.intern name).2 ops).intern name).1 = (c.intern name).1 := by
  rw [intern_some (obarray_mono_runOps _ ops (intern_obarray c name))]

/-- hence the two symbols are `eq` -/
theorem intern_same_eq (c c' : Ctx) (name : String) (ops : List SymOp) :
    eqV c' (.sym ((runOps (c.intern name).2 ops).intern name).1) (.sym (c.intern name).1) = true := by
  rw [intern_same_later]; simp [eqV, symEq_refl]

/-- Different names give different symbols. -/
theorem intern_injective {c : Ctx} (h : ObarrayOk c) {a b : String}
    (hn : (c.intern a).1 = ((c.intern a).2.intern b).1) : a = b := by
  have h1 := obarrayOk_intern h a
  have h2 := obarrayOk_intern h1 b
  have na := (h2 _ _ (intern_obarray_mono _ b (intern_obarray c a))).2
  have nb := (h2 _ _ (intern_obarray _ b)).2
  rw [hn] at na
  exact na.symm.trans nb

/-- Different names give different symbols, whatever happens in between. -/
theorem intern_injective_later {c : Ctx} (h : ObarrayOk c) {a b : String} (ops : List SymOp)
    (hn : (c.intern a).1 = ((runOps (c.intern a).2 ops).intern b).1) : a = b := by
  have h1 := obarrayOk_intern h a
  have h1' := obarrayOk_runOps h1 ops
  have h2 := obarrayOk_intern h1' b
  have na := (h2 _ _ (intern_obarray_mono _ b
    (obarray_mono_runOps _ ops (intern_obarray c a)))).2
  have nb := (h2 _ _ (intern_obarray _ b)).2
  rw [hn] at na
  exact na.symm.trans nb

/-- the invariant: true of the empty context, preserved by every symbol-table operation -/
theorem obarrayOk_init : ObarrayOk {} := obarrayOk_empty
theorem obarrayOk_preserved {c : Ctx} (h : ObarrayOk c) (ops : List SymOp) :
    ObarrayOk (runOps c ops) := obarrayOk_runOps h ops

/-- `make-symbol` / `gensym`: the new symbol is the next free index and no name reaches it. -/
theorem newSym_fresh {c : Ctx} (h : ObarrayOk c) (s : SymSt) :
    (c.newSym s).1 = c.syms.size ∧
    (∀ name : String, (c.newSym s).2.obarray[name]? ≠ some (c.newSym s).1) ∧
    (∀ n, n < c.syms.size → (c.newSym s).1 ≠ n) :=
  ⟨rfl, (newSym_notInterned h s).2, fun n hn e => by
    have : c.syms.size = n := e; omega⟩

/-- … and no later `intern`, of any name, after any sequence of operations, returns it. -/
theorem newSym_never_interned {c : Ctx} (h : ObarrayOk c) (s : SymSt) (ops : List SymOp)
    (name : String) :
    ((runOps (c.newSym s).2 ops).intern name).1 ≠ (c.newSym s).1 :=
  notInterned_ne_intern (notInterned_runOps (newSym_notInterned h s) ops) name

/-- Results of `newSym` are strictly increasing: a later `make-symbol` never returns an earlier
    one … -/
theorem newSym_increasing (c : Ctx) (s s' : SymSt) (ops : List SymOp) :
    (c.newSym s).1 < ((runOps (c.newSym s).2 ops).newSym s').1 := by
  have := size_le_runOps (c.newSym s).2 ops
  simp only [Ctx.newSym, Array.size_push] at this ⊢
  omega

/-- … nor a symbol interned earlier. -/
theorem newSym_ne_earlier_intern {c : Ctx} (h : ObarrayOk c) (name : String) (s' : SymSt)
    (ops : List SymOp) :
    (c.intern name).1 < ((runOps (c.intern name).2 ops).newSym s').1 := by
  have h1 := intern_lt h name
  have := size_le_runOps (c.intern name).2 ops
  simp only [Ctx.newSym] at this ⊢
  omega

/-- In `eq` terms: the fresh symbol is not `eq` to any symbol interned later (both plain
    symbols in the context `c'` where they are compared). -/
theorem newSym_not_eq_interned {c : Ctx} (h : ObarrayOk c) (s : SymSt) (ops : List SymOp)
    (name : String) (c' : Ctx)
    (h1 : (c'.symD (c.newSym s).1).base = none)
    (h2 : (c'.symD ((runOps (c.newSym s).2 ops).intern name).1).base = none) :
    eqV c' (.sym (c.newSym s).1) (.sym ((runOps (c.newSym s).2 ops).intern name).1) = false :=
  eq_sym_ne c' h1 h2 (Ne.symm (newSym_never_interned h s ops name))

/-! ## D. hash tables -/

theorem eql_refl {k : Val} (h : KeyOk k) : eqlV k k = true := eqlV_refl h
theorem eql_symm (a b : Val) : eqlV a b = eqlV b a := eqlV_symm a b
theorem eql_trans {a b d : Val} (h1 : eqlV a b = true) (h2 : eqlV b d = true) :
    eqlV a d = true := eqlV_trans h1 h2

/-- data values are keys -/
theorem keyOk_of_data_atom_or_cons {v : Val} (h : Data v)
    (hq : ∀ w, v ≠ .quote w ∧ v ≠ .backquote w ∧ v ≠ .unquote w ∧ v ≠ .splice w) : KeyOk v := by
  cases h <;> simp_all [KeyOk]

theorem lookup_put_same (c : Ctx) (id : Nat) {k k' : Val} (v : Val) (h : eqlV k k' = true) :
    tableLookup (tablePut c id k v) id k' = v := tableLookup_put_same c id v h

theorem lookup_put_self (c : Ctx) (id : Nat) {k : Val} (v : Val) (h : KeyOk k) :
    tableLookup (tablePut c id k v) id k = v := tableLookup_put_same c id v (eqlV_refl h)

theorem lookup_put_other (c : Ctx) (id : Nat) {k k' : Val} (v : Val) (h : eqlV k k' = false) :
    tableLookup (tablePut c id k v) id k' = tableLookup c id k' :=
  tableLookup_put_other c id v h

theorem lookup_put_other_table (c : Ctx) {id id' : Nat} (h : id ≠ id') (k v k' : Val) :
    tableLookup (tablePut c id k v) id' k' = tableLookup c id' k' :=
  tableLookup_put_other_table c h k v k'

theorem lookup_empty (c : Ctx) (id : Nat) (k : Val) (h : c.tables.find? (·.1 == id) = none) :
    tableLookup c id k = .nil := tableLookup_empty c id k h

/-- `eql` keys are interchangeable for lookup -/
theorem lookup_congr (c : Ctx) (id : Nat) {k k' : Val} (h : eqlV k k' = true) :
    tableLookup c id k = tableLookup c id k' := by
  unfold tableLookup
  have : (fun x : Val × Val => eqlV x.1 k) = (fun x : Val × Val => eqlV x.1 k') :=
    funext fun x => eqlV_congr_right h x.1
  show (match List.find? (fun x : Val × Val => eqlV x.1 k) _ with
        | some (_, v) => v | none => Val.nil) = _
  rw [this]
  rfl

/-- The value found by the reference finite map after a list of `puthash`es on one table:
    the value of the LAST put whose key is `eql` to the looked-up key. -/
def lastPut (ops : List (Val × Val)) (k' : Val) : Option Val :=
  (ops.reverse.find? (fun (k, _) => eqlV k k')).map (·.2)

/-- A hash table is a finite map keyed by `eql` (one table, puts only). -/
theorem table_refines_map (c : Ctx) (id : Nat) (ops : List (Val × Val)) (k' : Val) :
    tableLookup (ops.foldl (fun c (k, v) => tablePut c id k v) c) id k' =
      match lastPut ops k' with
      | some v => v
      | none => tableLookup c id k' := by
  induction ops generalizing c with
  | nil => simp [lastPut]
  | cons op ops ih =>
    obtain ⟨k, v⟩ := op
    rw [List.foldl_cons, ih]
    simp only [lastPut, List.reverse_cons, List.find?_append, List.find?_singleton]
    cases hf : List.find? (fun x : Val × Val => eqlV x.1 k') ops.reverse with
    | some x => simp
    | none =>
      simp only [Option.map_none, Option.none_or]
      cases hk : eqlV k k' with
      | true => simp [lookup_put_same c id v hk]
      | false => simp [lookup_put_other c id v hk]

/-- … starting from a fresh table: the last value stored under an `eql` key, `nil` otherwise. -/
theorem table_refines_map_fresh (c : Ctx) (id : Nat) (hfresh : c.tables.find? (·.1 == id) = none)
    (ops : List (Val × Val)) (k' : Val) :
    tableLookup (ops.foldl (fun c (k, v) => tablePut c id k v) c) id k' =
      (lastPut ops k').getD .nil := by
  rw [table_refines_map, lookup_empty c id k' hfresh]
  cases lastPut ops k' <;> rfl

/-- Operations on hash tables: `puthash` (on table `id`) and `gethash` (no effect on the
    context; its answer is `tableLookup` in the context reached so far). -/
inductive TOp where
  | put (id : Nat) (k v : Val)
  | get (id : Nat) (k : Val)

def TOp.run (c : Ctx) : TOp → Ctx
  | .put id k v => tablePut c id k v
  | .get _ _ => c

/-- is this operation a put into table `id` under a key `eql` to `k'`? -/
def TOp.hits (id : Nat) (k' : Val) : TOp → Bool
  | .put i k _ => i == id && eqlV k k'
  | .get _ _ => false

def TOp.val : TOp → Val
  | .put _ _ v => v
  | .get _ _ => .nil

/-- General refinement: after ANY sequence of `puthash` / `gethash` calls on any tables, a
    `gethash` on table `id` with key `k'` returns the value most recently stored in that table
    under an `eql` key, and what the table held initially (`nil` for a new table) otherwise. -/
theorem table_refines_map_ops (c : Ctx) (ops : List TOp) (id : Nat) (k' : Val) :
    tableLookup (ops.foldl TOp.run c) id k' =
      match ops.reverse.find? (TOp.hits id k') with
      | some op => op.val
      | none => tableLookup c id k' := by
  induction ops generalizing c with
  | nil => simp
  | cons op ops ih =>
    rw [List.foldl_cons, ih]
    simp only [List.reverse_cons, List.find?_append, List.find?_singleton]
    cases hf : List.find? (TOp.hits id k') ops.reverse with
    | some x => simp
    | none =>
      simp only [Option.none_or]
      cases op with
      | get i k => simp [TOp.hits, TOp.run]
      | put i k v =>
        by_cases hi : i = id
        · subst hi
          cases hk : eqlV k k' with
          | true => simp [TOp.hits, TOp.run, TOp.val, hk, lookup_put_same c i v hk]
          | false => simp [TOp.hits, TOp.run, hk, lookup_put_other c i v hk]
        · simp [TOp.hits, TOp.run, hi, lookup_put_other_table c hi]

/-! ## non-vacuity -/

/-- a data value: `(1 "x" . sym3)` with a float and a quoted element inside -/
example : Data (.cons 1 (.int 1) (.cons 2 (.str 3 "x")
    (.cons 4 (.quote (.float 0)) (.sym 3)))) :=
  .cons 1 (.int 1) (.cons 2 (.str 3 "x") (.cons 4 (.quote (.float 0 (by decide))) (.sym 3)))

/-- `IdsCoherent` holds of a value against itself when its ids are distinct -/
example : IdsCoherent (.cons 1 (.int 1) (.str 2 "x")) (.cons 1 (.int 1) (.str 2 "x")) := by
  intro x y hx hy h
  simp only [sub_cons_iff, sub_int_iff, sub_str_iff] at hx hy
  rcases hx with rfl | rfl | rfl <;> rcases hy with rfl | rfl | rfl <;> simp_all [SameObj]

/-- `eq_iff_same`, `eq_imp_equal` are not vacuous: an `eq` pair satisfying all hypotheses -/
example (c : Ctx) : eqV c (.cons 1 (.int 1) (.str 2 "x")) (.cons 1 (.int 1) (.str 2 "x")) = true := by
  simp [eqV]

/-- `equal` but not `eq`: same structure, different allocations; `NoMix`, `NoCells` hold -/
example (c : Ctx) :
    let a := Val.cons 1 (.int 1) (.str 2 "x")
    let b := Val.cons 5 (.int 1) (.str 6 "x")
    NoMix a b ∧ NoCells c a ∧ NoCells c b ∧ erase a = erase b ∧ eqV c a b = false := by
  refine ⟨by simp [NoMix], ?_, ?_, by simp [erase], by simp [eqV]⟩ <;>
  · intro n hn
    simp only [sub_cons_iff, sub_int_iff, sub_str_iff] at hn
    rcases hn with hn | hn | hn <;> cases hn

/-- the obarray invariant holds along a real run: read `foo`, `make-symbol`, read `bar` -/
example : ObarrayOk (runOps {} [.intern "foo", .newSym { name := "foo" }, .intern "bar"]) :=
  obarrayOk_preserved obarrayOk_init _

example : ((({} : Ctx).intern "foo").1) ≠ ((({} : Ctx).intern "foo").2.intern "bar").1 :=
  fun h => absurd (intern_injective obarrayOk_init h) (by decide)

/-- keys -/
example : KeyOk (.int 3) ∧ KeyOk (.str 1 "a") ∧ KeyOk (.sym 0) ∧ KeyOk (.cons 1 .nil .nil) := by
  simp [KeyOk]

/-- `(puthash 1 'a h) (puthash "s" 'b h) (puthash 1 'c h)`, then `(gethash 1 h)` is `c`,
    `(gethash 2 h)` is nil, and another string "s" (different allocation) is not found -/
example (c : Ctx) (hfresh : c.tables.find? (·.1 == 7) = none) :
    let ops : List (Val × Val) := [(.int 1, .sym 10), (.str 4 "s", .sym 11), (.int 1, .sym 12)]
    let c' := ops.foldl (fun c (k, v) => tablePut c 7 k v) c
    tableLookup c' 7 (.int 1) = .sym 12 ∧ tableLookup c' 7 (.int 2) = .nil ∧
    tableLookup c' 7 (.str 4 "other contents, same object") = .sym 11 ∧
    tableLookup c' 7 (.str 5 "s") = .nil := by
  intro ops c'
  simp only [c', ops, table_refines_map_fresh c 7 hfresh]
  simp [lastPut, eqlV]

end Tulisp.C14
