/-
  Props/C06.lean — C06: macro expansion.

  "Evaluating a form has the same result and effects as evaluating its macro-expansion; expansion
   applies each macro's definition to the unevaluated argument forms, reaches every macro call in
   an evaluated position (nested in arguments, function bodies and dotted tails) and leaves
   non-macro forms and quoted data untouched.  Expanding an already expanded form returns an equal
   form, and the built-in macros expand to forms with the meaning their Emacs definitions specify."

  Forms are compared up to cell identity: `eraseIds v = eraseIds w` (`eraseIds` sets every cons-cell
  id to 0).  `L [x1, …, xn]` is the list `(x1 … xn)`, `listTl xs tl` the dotted list `(x1 … xn . tl)`
  (ids 0).  `S c name` is the symbol `name` is interned as in context `c`.  `Ext c c'` says that `c'`
  is `c` plus fresh ids / newly interned names / new unbound symbols: no existing symbol changed.

   1. mexp_atom, mexp_quote / _backquote / _unquote / _splice / _sym / _int / _str / _nil, mexp_atom_depth
   2. MacroHead, NoMacro (Proofs/C06NoMacro.lean); mexp_untouched, mexp_untouched_depth,
      mexp_untouched_enough_depth, mexp_untouched_never_fails, onlyIds_syms
   3. mexp_result_no_macro, mexp_idempotent (for closed classes of forms, `ClosedClass`),
      mexp_result_no_macro_of_noMacro, mexp_result_no_macro_simple, mexp_idempotent_simple,
      mexp_simple_same_macros; mexp_result_no_macro_general_false, mexp_not_idempotent_example
      (the unrestricted statement is false in the model); freshS_uninterned
   4. mexpSpine_unfold, mexpSpine_spec', mexpList_nil/_cons, mexpStep_spec, finishExpand_cons,
      ExpandsEach, mexpList_iff, ExpandsEach.get, mexp_reaches, mexp_reaches_arg,
      loadText_expands_program, internSx_list_unfold
   5. macro_args_unevaluated(_obj), collectArgs_unevaluated, collectArgs_indep,
      macro_params_are_forms, macro_rest_param_is_forms, builtin_macro_args_unevaluated,
      callMacro_preserves_syms / _values / _rest
   6. when_expansion(_nil), unless_expansion, ifLetStar_nil_expansion, ifLetStar_expansion,
      ifLet_expansion, whenLet_expansion, whileLet_expansion, quote_expansion,
      threadFirst_eq_arrow, threadLast_eq_arrow, threadStep_first/_last/_sym, thread_none,
      threadForms_step, thread_unfold, threadForms_fold, thread_expansion
   7. runtime_macro_call_defmacro, runtime_macro_call_builtin
   8. eval_expansion_commutes, eval_expansion_commutes_partial, eval_when_commutes,
      binding_position_expanded, binding_position_expanded_when
   9. `example`s next to the theorems (non-vacuity, concrete expansions)
-/
import Tulisp.Proofs.C06Simple
namespace Tulisp.C06
open Tulisp Tulisp.C12
set_option linter.unusedSimpArgs false

/-! ## 1. atoms and quoted data are untouched -/

/-- `macroexpand` returns everything that is not a cons unchanged, without any effect -/
theorem mexp_atom (r : Rec) (v : Val) (h : v.isCons = false) : mexpStep r v = pure v :=
  mexpStep_atom r v h

/-- quoted data is not a list for the expander: `'(when a b)` stays as it is -/
theorem mexp_quote (r : Rec) (v : Val) : mexpStep r (.quote v) = pure (.quote v) := rfl
theorem mexp_backquote (r : Rec) (v : Val) : mexpStep r (.backquote v) = pure (.backquote v) := rfl
theorem mexp_unquote (r : Rec) (v : Val) : mexpStep r (.unquote v) = pure (.unquote v) := rfl
theorem mexp_splice (r : Rec) (v : Val) : mexpStep r (.splice v) = pure (.splice v) := rfl
theorem mexp_sym (r : Rec) (n : Nat) : mexpStep r (.sym n) = pure (.sym n) := rfl
theorem mexp_int (r : Rec) (n : Int) : mexpStep r (.int n) = pure (.int n) := rfl
theorem mexp_str (r : Rec) (i : Nat) (s : String) : mexpStep r (.str i s) = pure (.str i s) := rfl
theorem mexp_nil (r : Rec) : mexpStep r .nil = pure .nil := rfl

/-- the same for the expander of any positive depth -/
theorem mexp_atom_depth (d : Nat) (v : Val) (h : v.isCons = false) (c : Ctx) :
    (Rec.ofDepth (d + 1)).mexp v c = (.ok v, c) := by
  show mexpStep (Rec.ofDepth d) v c = _
  rw [mexp_atom _ v h]; rfl

example (d : Nat) (n : Nat) (a b : Val) (c : Ctx) :
    (Rec.ofDepth (d + 1)).mexp (.quote (L [.sym n, a, b])) c = (.ok (.quote (L [.sym n, a, b])), c) :=
  mexp_atom_depth d _ rfl c

/-! ## 2. forms without macro calls are left untouched

`MacroHead c form`: the head of the cons `form` is a macro (a non-keyword symbol whose current value
is a built-in macro or a `defmacro` object, or such an object itself).  `NoMacro c form`: no list
that the expander visits (the form, its elements, their elements, … — nothing under a quote
wrapper) has a macro head.  `OnlyIds c c'`: `c'` is `c` with a larger id counter. -/

theorem macroHead_cons (c : Ctx) (i : Nat) (h args : Val) :
    MacroHead c (.cons i h args) = isMacroValue (headValue c h) := rfl

theorem headValue_sym (c : Ctx) (n : Nat) :
    headValue c (.sym n) =
      if (c.symD n).constant then .sym n else match (c.symD n).get with | some v => v | none => .sym n :=
  rfl

/-- one level of the expander: if the level below (`r.mexp`) returns macro-free forms unchanged
    (up to cell identity) touching only the id counter, so does `mexpStep r` -/
theorem mexp_untouched (r : Rec)
    (hr : ∀ c v, NoMacro c v → ∃ v' c', r.mexp v c = (.ok v', c') ∧ eraseIds v' = eraseIds v ∧ OnlyIds c c')
    (c : Ctx) (v : Val) (hv : NoMacro c v) :
    ∃ v' c', mexpStep r v c = (.ok v', c') ∧ eraseIds v' = eraseIds v ∧ OnlyIds c c' := by
  rcases mexpStep_untouched r (fun _ => True) (fun _ => True) (fun c v hv => .inl (hr c v hv))
    (fun _ _ _ _ => trivial) c v hv with h | ⟨hn, _⟩
  · exact h
  · exact (hn trivial).elim

/-- the expander of depth `d` on a macro-free form: an equal form, or out of budget (only when
    `d < size v`) — never an error or panic — and only the id counter advances -/
theorem mexp_untouched_depth (d : Nat) (c : Ctx) (v : Val) (hv : NoMacro c v) :
    (∃ v' c', (Rec.ofDepth d).mexp v c = (.ok v', c') ∧ eraseIds v' = eraseIds v ∧ OnlyIds c c') ∨
    (d < v.size ∧ ∃ c', (Rec.ofDepth d).mexp v c = (.fuel, c') ∧ OnlyIds c c') := by
  rcases ofDepth_untouched d c v hv with h | ⟨hn, h⟩
  · exact .inl h
  · exact .inr ⟨by omega, h⟩

theorem mexp_untouched_enough_depth (d : Nat) (c : Ctx) (v : Val) (hv : NoMacro c v)
    (hd : v.size ≤ d) :
    ∃ v' c', (Rec.ofDepth d).mexp v c = (.ok v', c') ∧ eraseIds v' = eraseIds v ∧ OnlyIds c c' := by
  rcases mexp_untouched_depth d c v hv with h | ⟨hn, _⟩
  · exact h
  · omega

theorem mexp_untouched_never_fails (d : Nat) (c : Ctx) (v : Val) (hv : NoMacro c v) :
    (∀ k c', (Rec.ofDepth d).mexp v c ≠ (.err k, c')) ∧
    (∀ s c', (Rec.ofDepth d).mexp v c ≠ (.panic s, c')) := by
  rcases mexp_untouched_depth d c v hv with ⟨_, _, h, _⟩ | ⟨_, _, h, _⟩ <;>
    exact ⟨fun _ _ h' => (by rw [h] at h'; cases h'), fun _ _ h' => (by rw [h] at h'; cases h')⟩

/-- `OnlyIds`: symbols, obarray, tables, ticks, files are literally the same -/
theorem onlyIds_syms {c c' : Ctx} (h : OnlyIds c c') :
    c'.syms = c.syms ∧ c'.obarray = c.obarray ∧ c'.tables = c.tables ∧ c'.ticks = c.ticks := by
  obtain ⟨h1, _⟩ := h
  rw [h1]; exact ⟨rfl, rfl, rfl, rfl⟩

/-- non-vacuity: `(f 1 (g 2) . 3)` with `f`, `g` not bound to macros (here: unbound) -/
example : NoMacro ({} : Ctx) (listTl [.sym 0, .int 1, L [.sym 1, .int 2]] (.int 3)) := by
  refine .list rfl fun e he => ?_
  simp only [listTl, List.foldr, Val.elems, List.mem_cons, List.not_mem_nil, or_false] at he
  rcases he with rfl | rfl | rfl
  · exact .atom rfl
  · exact .atom rfl
  · refine .list rfl fun e he => ?_
    simp only [L, listTl, List.foldr, Val.elems, List.mem_cons, List.not_mem_nil, or_false] at he
    rcases he with rfl | rfl <;> exact .atom rfl

/-- a form containing quoted macro calls is macro-free: `(f '(when a b))` -/
example (w a b : Nat) (c : Ctx) (hf : isMacroValue (headValue c (.sym 0)) = false) :
    NoMacro c (L [.sym 0, .quote (L [.sym w, .sym a, .sym b])]) := by
  refine .list (by simpa [MacroHead] using hf) fun e he => ?_
  simp only [L, listTl, List.foldr, Val.elems, List.mem_cons, List.not_mem_nil, or_false] at he
  rcases he with rfl | rfl <;> exact .atom rfl

/-! ## 3. the result of expansion contains no macro call; expanding again changes nothing

The full-strength statement asked for,

    (Rec.ofDepth d).mexp v c = (.ok v', c')  →  (macro table of c' = macro table of c)  →  NoMacro c' v',

is FALSE in the model (`mexp_result_no_macro_general_false` below): when the head of a list is
itself a macro call, as in `((-> when) a)`, the head is expanded like any other element — to the
symbol `when` — AFTER the decision "the head is not a macro" has been taken, and the result
`(when a)` is a macro call.  Expanding it again gives `(if a (progn))`: `macroexpand` is not
idempotent on such forms.  (Also, comparing the macro tables of the first and last context only is
too weak in the presence of `defmacro` bodies that change the table and change it back.)

What is proved: for every class of forms that is closed under macro application and in which no
macro call stands in the head position of a list (`ClosedClass`), the result is macro-free and
re-expansion returns an equal form — `mexp_result_no_macro`, `mexp_idempotent`.  The hypotheses
are discharged for the forms whose macros are the built-in macros `when`, `unless`, `->`, `->>`,
`thread-first`, `thread-last`, `quote` (`simple_closed`; `mexp_result_no_macro_simple`,
`mexp_idempotent_simple`).  NOT proved: closure for the `if-let` family (needs a grammar of
binding lists: a binding whose variable names a macro is expanded, see section 8) and for
`defmacro` macros (their bodies are arbitrary programs; closure is then a hypothesis). -/

/-- the result of expanding a form of a closed class contains no macro call, and the context
    reached is `Rel`-related to the initial one (so the macro table is the same) -/
theorem mexp_result_no_macro {Rel : Ctx → Ctx → Prop} {Cl : Ctx → Val → Prop}
    (hcl : ClosedClass Rel Cl) (d : Nat) (c c' : Ctx) (v v' : Val) (hv : Cl c v)
    (h : (Rec.ofDepth d).mexp v c = (.ok v', c')) : Rel c c' ∧ NoMacro c' v' :=
  ofDepth_result_noMacro hcl d c c' v v' (.inl hv) h

/-- expanding an already expanded form returns an equal form (or runs out of depth budget when
    `d' < size v'`), and does nothing but advance the id counter -/
theorem mexp_idempotent {Rel : Ctx → Ctx → Prop} {Cl : Ctx → Val → Prop}
    (hcl : ClosedClass Rel Cl) (d d' : Nat) (c c' : Ctx) (v v' : Val) (hv : Cl c v)
    (h : (Rec.ofDepth d).mexp v c = (.ok v', c')) :
    (∃ v'' c'', (Rec.ofDepth d').mexp v' c' = (.ok v'', c'') ∧ eraseIds v'' = eraseIds v' ∧
      OnlyIds c' c'') ∨
    (d' < v'.size ∧ ∃ c'', (Rec.ofDepth d').mexp v' c' = (.fuel, c'') ∧ OnlyIds c' c'') :=
  mexp_untouched_depth d' c' v' (mexp_result_no_macro hcl d c c' v v' hv h).2

/-- macro-free forms themselves: the result is macro-free again (whatever the class) -/
theorem mexp_result_no_macro_of_noMacro (d : Nat) (c c' : Ctx) (v v' : Val) (hv : NoMacro c v)
    (h : (Rec.ofDepth d).mexp v c = (.ok v', c')) : NoMacro c' v' := by
  rcases mexp_untouched_depth d c v hv with ⟨w, c1, h1, he, ho⟩ | ⟨_, _, h1, _⟩
  · rw [h] at h1; cases h1
    exact (ho.noMacro hv).of_eraseIds he
  · rw [h] at h1; cases h1

/-- the instance for the simple built-in macros -/
theorem mexp_result_no_macro_simple (d : Nat) (c c' : Ctx) (v v' : Val)
    (hif : NonMacroName c "if") (hpr : NonMacroName c "progn") (hv : Simple c v)
    (h : (Rec.ofDepth d).mexp v c = (.ok v', c')) : Ext c c' ∧ NoMacro c' v' :=
  mexp_result_no_macro simple_closed d c c' v v' ⟨hif, hpr, hv⟩ h

theorem mexp_idempotent_simple (d d' : Nat) (c c' : Ctx) (v v' : Val)
    (hif : NonMacroName c "if") (hpr : NonMacroName c "progn") (hv : Simple c v)
    (h : (Rec.ofDepth d).mexp v c = (.ok v', c')) (hd : v'.size ≤ d') :
    ∃ v'' c'', (Rec.ofDepth d').mexp v' c' = (.ok v'', c'') ∧ eraseIds v'' = eraseIds v' ∧
      OnlyIds c' c'' := by
  rcases mexp_idempotent simple_closed d d' c c' v v' ⟨hif, hpr, hv⟩ h with h1 | ⟨h1, _⟩
  · exact h1
  · omega

/-- in particular the macro table is unchanged: every head denotes what it denoted -/
theorem mexp_simple_same_macros (d : Nat) (c c' : Ctx) (v v' : Val)
    (hif : NonMacroName c "if") (hpr : NonMacroName c "progn") (hv : Simple c v)
    (h : (Rec.ofDepth d).mexp v c = (.ok v', c')) :
    (∀ hd, headValue c' hd = headValue c hd) ∧ ∀ n, (c'.symD n).items = (c.symD n).items :=
  let he := (mexp_result_no_macro_simple d c c' v v' hif hpr hv h).1
  ⟨he.headValue, he.items⟩

/-- a context with `when`, `->`, `unless` bound to the built-in macros (symbols 0, 1, 2) -/
def exCtx : Ctx :=
  { syms := #[{ name := "when", items := [.builtin .when_] },
              { name := "->", items := [.builtin .threadFirstArrow] },
              { name := "unless", items := [.builtin .unless_] }] }

/-- non-vacuity: `(when (-> x f) (unless y (g z)))` is `Simple` in `exCtx`, and `if`, `progn` do not
    name macros there -/
example : NonMacroName exCtx "if" ∧ NonMacroName exCtx "progn" ∧
    Simple exCtx (L [.sym 0, L [.sym 1, .sym 3, .sym 4], L [.sym 2, .sym 5, L [.sym 6, .sym 7]]]) := by
  have unb : ∀ n, 3 ≤ n → Simple exCtx (.sym n) := fun n hn =>
    .atom rfl (fun hm => by
      rw [headValue_sym_of_size_le (by simpa [exCtx] using hn)] at hm; cases hm)
  refine ⟨fun n hn => by simp [Interned, exCtx] at hn, fun n hn => by simp [Interned, exCtx] at hn, ?_⟩
  refine .call (b := .when_) rfl rfl fun e he => ?_
  simp only [L, listTl, List.foldr, Val.elems, List.mem_cons, List.not_mem_nil, or_false] at he
  rcases he with rfl | rfl
  · refine .call (b := .threadFirstArrow) rfl rfl fun e he => ?_
    simp only [Val.elems, List.mem_cons, List.not_mem_nil, or_false] at he
    rcases he with rfl | rfl <;> exact unb _ (by omega)
  · refine .call (b := .unless_) rfl rfl fun e he => ?_
    simp only [Val.elems, List.mem_cons, List.not_mem_nil, or_false] at he
    rcases he with rfl | rfl
    · exact unb _ (by omega)
    · refine .list ?_ (fun h => by cases h) fun e he => ?_
      · simp [MacroHead, headValue_sym_of_size_le (c := exCtx) (n := 6) (by simp [exCtx]), isMacroValue]
      · simp only [Val.elems, List.mem_cons, List.not_mem_nil, or_false] at he
        rcases he with rfl | rfl <;> exact unb _ (by omega)

/-- **the general statement is false**: `((-> when) a)` expands to `(when a)`; the symbol table
    (hence the macro table) is literally unchanged, yet the result is a macro call -/
theorem mexp_result_no_macro_general_false :
    ∃ (d : Nat) (c c' : Ctx) (v v' : Val), (Rec.ofDepth d).mexp v c = (.ok v', c') ∧
      c'.syms = c.syms ∧ MacroHead c' v' = true ∧ ¬ NoMacro c' v' := by
  refine ⟨3, exCtx, { exCtx with nextId := 3 }, L [L [.sym 1, .sym 0], .sym 5],
    .cons 1 (.sym 0) (.cons 2 (.sym 5) .nil), rfl, rfl, rfl, ?_⟩
  intro h
  cases h with
  | atom ha => cases ha
  | list hm _ => cases hm

/-- … and expanding the result `(when a)` again does change it: to `(if a (progn))` -/
theorem mexp_not_idempotent_example (d : Nat) :
    ∃ v c'', (Rec.ofDepth (d + 10)).mexp (.cons 1 (.sym 0) (.cons 2 (.sym 5) .nil))
        { exCtx with nextId := 3 } = (.ok v, c'') ∧
      eraseIds v = L [.sym (S c'' "if"), .sym 5, L [.sym (S c'' "progn")]] := by
  obtain ⟨v, c'', h, hv, _, _⟩ := when_call_expands (d + 9) 1 2 (.sym 0) (.sym 5) .nil
    { exCtx with nextId := 3 } rfl
    (fun n hn => by simp [Interned, exCtx] at hn) (fun n hn => by simp [Interned, exCtx] at hn)
    (.atom rfl) (fun e he => by simp [Val.elems] at he) (by simp [Val.size])
  exact ⟨v, c'', h, by rw [hv]; rfl⟩

/-- the fresh symbol of an anonymous `if-let*` binding is uninterned (when every interned name of
    the initial context pointed into its symbol table) and named "s" -/
theorem freshS_uninterned {c c' : Ctx} {s : Nat} (h : FreshS c c' s) (hwf : ObWF c) :
    (c'.symD s).name = "s" ∧ (c'.symD s).items = [] ∧ c.syms.size ≤ s ∧
      ∀ k : String, c'.obarray[k]? ≠ some s := by
  obtain ⟨h1, _, h3, h4⟩ := h
  exact ⟨by rw [h3], by rw [h3], h1, h4 hwf⟩

/-! ## 4. the expander reaches every element of every list -/

/-- unfolding of the element loop: expand the first element, then the rest; an improper tail is
    attached verbatim -/
theorem mexpSpine_unfold (r : Rec) (i : Nat) (a d : Val) (acc : Acc) :
    mexpSpine r (.cons i a d) acc = (do
      let a' ← r.mexp a
      let acc ← acc.push a'
      match d with
      | .nil => pure acc
      | .cons .. => mexpSpine r d acc
      | other => acc.append other) :=
  mexpSpine_cons r i a d acc

/-- the element loop on a cons form: the expansions of the elements in order (left to right),
    the tail of the form kept -/
theorem mexpSpine_spec' (r : Rec) (v : Val) (acc : Acc) (hv : v.isCons = true) (ha : acc.tail = .nil) :
    mexpSpine r v acc = (do
      let ys ← mexpList r v.elems
      pure { rev := ys.reverse ++ acc.rev, tail := v.spine.2 }) :=
  mexpSpine_spec r v acc hv ha

theorem mexpList_nil (r : Rec) : mexpList r [] = pure [] := rfl
theorem mexpList_cons (r : Rec) (x : Val) (xs : List Val) :
    mexpList r (x :: xs) = (do
      let x' ← r.mexp x
      let xs' ← mexpList r xs
      pure (x' :: xs')) := rfl

/-- `macroexpand` of a cons form: look up the head; apply the macro it denotes (if any) to the
    argument forms and expand the result again (`expandHead`); then, if the result is a cons,
    expand each of its elements and rebuild the list with the same tail (`finishExpand`) -/
theorem mexpStep_spec (r : Rec) (i : Nat) (head args : Val) (c : Ctx) :
    mexpStep r (.cons i head args) c =
      (expandHead r (.cons i head args) args (headValue c head) >>= finishExpand r) c :=
  mexpStep_cons r i head args c

theorem finishExpand_cons (r : Rec) (i : Nat) (a d : Val) :
    finishExpand r (.cons i a d) = (do
      let ys ← mexpList r (a :: d.elems)
      mkListM ys d.spine.2) := rfl

/-- `ys` are the expansions of `xs`, element by element, the context threaded left to right -/
inductive ExpandsEach (r : Rec) : List Val → Ctx → List Val → Ctx → Prop
  | nil (c : Ctx) : ExpandsEach r [] c [] c
  | cons {x y : Val} {xs ys : List Val} {c c1 c2 : Ctx} :
      r.mexp x c = (.ok y, c1) → ExpandsEach r xs c1 ys c2 → ExpandsEach r (x :: xs) c (y :: ys) c2

theorem mexpList_iff (r : Rec) (xs ys : List Val) (c c' : Ctx) :
    mexpList r xs c = (.ok ys, c') ↔ ExpandsEach r xs c ys c' := by
  constructor
  · intro h
    induction xs generalizing ys c with
    | nil => cases h; exact .nil _
    | cons x xs ih =>
      rw [mexpList] at h
      change M.bind _ _ c = _ at h
      unfold M.bind at h
      rcases h1 : r.mexp x c with ⟨res, c1⟩
      rw [h1] at h
      cases res with
      | ok y =>
        simp only at h
        change M.bind _ _ c1 = _ at h
        unfold M.bind at h
        rcases h2 : mexpList r xs c1 with ⟨res2, c2⟩
        rw [h2] at h
        cases res2 with
        | ok ys' => cases h; exact .cons h1 (ih _ _ h2)
        | _ => cases h
      | _ => cases h
  · intro h
    induction h with
    | nil c => rfl
    | cons h1 _ ih => rw [mexpList, bind_ok _ h1, bind_ok _ ih]; rfl

theorem ExpandsEach.length_eq {r : Rec} {xs ys : List Val} {c c' : Ctx}
    (h : ExpandsEach r xs c ys c') : ys.length = xs.length := by
  induction h with
  | nil => rfl
  | cons _ _ ih => simp [ih]

/-- every element is expanded: the `k`-th element of the result is the expansion of the `k`-th
    element of the input (in some intermediate context) -/
theorem ExpandsEach.get {r : Rec} {xs ys : List Val} {c c' : Ctx} (h : ExpandsEach r xs c ys c')
    (k : Nat) (hk : k < xs.length) :
    ∃ ck ck', r.mexp xs[k] ck = (.ok (ys[k]'(by rw [h.length_eq]; exact hk)), ck') := by
  induction h generalizing k with
  | nil => cases hk
  | cons h1 _ ih =>
    cases k with
    | zero => exact ⟨_, _, h1⟩
    | succ k => exact ih k (by simpa using hk)

/-- **the expander reaches every element**: a successful `macroexpand` of a cons form first
    brings the head position to a fix-point `x` (`expandHead`); if `x` is a cons, the result has as
    elements the expansions of ALL elements of `x`, in order, and the tail of `x` verbatim -/
theorem mexp_reaches (r : Rec) (i : Nat) (head args v' : Val) (c c' : Ctx)
    (h : mexpStep r (.cons i head args) c = (.ok v', c')) :
    ∃ x c1, expandHead r (.cons i head args) args (headValue c head) c = (.ok x, c1) ∧
      ((x.isCons = false ∧ v' = x ∧ c' = c1) ∨
       (x.isCons = true ∧ ∃ ys c2, ExpandsEach r x.elems c1 ys c2 ∧
          v'.spine = (ys, x.spine.2) ∧ OnlyIds c2 c')) := by
  rw [mexpStep_spec] at h
  change M.bind _ _ c = _ at h
  unfold M.bind at h
  rcases h1 : expandHead r (.cons i head args) args (headValue c head) c with ⟨res, c1⟩
  rw [h1] at h
  cases res with
  | ok x =>
    refine ⟨x, c1, rfl, ?_⟩
    simp only at h
    cases x with
    | cons j a d =>
      right
      refine ⟨rfl, ?_⟩
      simp only [finishExpand, expandSpine] at h
      change M.bind _ _ c1 = _ at h
      unfold M.bind at h
      rcases h2 : mexpList r (Val.cons j a d).elems c1 with ⟨res2, c2⟩
      rw [h2] at h
      cases res2 with
      | ok ys =>
        simp only [mkListM_run] at h
        cases h
        refine ⟨ys, c2, (mexpList_iff _ _ _ _ _).mp h2, ?_, rfl, Nat.le_add_right _ _⟩
        rw [mkList_spine, spine_of_not_cons (spine_snd_not_cons _)]
        simp
      | _ => cases h
    | _ => left; cases h; exact ⟨rfl, rfl, rfl⟩
  | _ => cases h

/-- in particular, under a head that is not a macro, every argument (at any position) is
    expanded — whatever the head means: function call, special form or data -/
theorem mexp_reaches_arg (r : Rec) (i : Nat) (head args v' : Val) (c c' : Ctx)
    (hm : isMacroValue (headValue c head) = false)
    (h : mexpStep r (.cons i head args) c = (.ok v', c')) :
    ∃ ys c2, ExpandsEach r (head :: args.elems) c ys c2 ∧ v'.spine = (ys, args.spine.2) := by
  obtain ⟨x, c1, hx, hcase⟩ := mexp_reaches r i head args v' c c' h
  rw [expandHead_not_macro _ _ _ _ hm] at hx
  cases hx
  rcases hcase with ⟨h0, _⟩ | ⟨_, ys, c2, he, hs, _⟩
  · cases h0
  · exact ⟨ys, c2, he, hs⟩

/-- concrete: a macro call nested in an argument position is expanded and a dotted tail is kept:
    `(f (-> a g) . 9)` ↦ `(f (g a) . 9)` (context `exCtx`: symbol 1 is `->`) -/
example : ∃ v c', (Rec.ofDepth 5).mexp (listTl [.sym 7, L [.sym 1, .sym 5, .sym 6]] (.int 9)) exCtx
      = (.ok v, c') ∧ eraseIds v = listTl [.sym 7, L [.sym 6, .sym 5]] (.int 9) :=
  ⟨_, _, rfl, rfl⟩

/-- … at any nesting depth: `(f (g (-> a (h b))))` ↦ `(f (g (h a b)))` -/
example : ∃ v c', (Rec.ofDepth 6).mexp
      (L [.sym 7, L [.sym 8, L [.sym 1, .sym 5, L [.sym 9, .sym 10]]]]) exCtx = (.ok v, c') ∧
    eraseIds v = L [.sym 7, L [.sym 8, L [.sym 9, .sym 5, .sym 10]]] :=
  ⟨_, _, rfl, rfl⟩

/-- whole-program expansion: after reading (and evaluating the `defun` / `defmacro` lists met on
    the way), `loadText` expands the list of all top-level forms, hence — by `mexp_reaches` — every
    form of the program and every list nested in it (function bodies included) -/
theorem loadText_expands_program (r : Rec) (file : Nat) (text : String) (forms : List Sx)
    (h : (readText file text.toList).res = .ok forms) :
    loadText r file text = (do
      let (vs, _) ← internList r forms []
      let prog ← mkListM vs
      r.mexp prog) := by
  simp only [loadText, h]

/-- reading a list: once complete, a list whose head is the symbol `defun` or `defmacro` is
    macro-expanded and evaluated on the spot and replaced by its expansion (so macros defined
    earlier in a file are expanded in later definitions while reading) -/
theorem internSx_list_unfold (r : Rec) (sp : Span) (items : List Sx) (tail : Option Sx) (tab : StrTab) :
    internSx r (.list sp items tail) tab = (do
      let (vs, tab) ← internList r items tab
      let (tl, tab) ← match tail with
        | none => pure (Val.nil, tab)
        | some x => internSx r x tab
      let acc : Acc := { rev := vs.reverse }
      let acc ← acc.append tl
      let inner ← acc.build
      let c ← M.get
      if isDefHeadVal c inner then do
        let ex ← r.mexp inner
        let _ ← r.eval ex
        pure (ex, tab)
      else pure (inner, tab)) := by
  rw [internSx]
  congr 1

/-! ## 5. macros receive their arguments unevaluated -/

/-- a form whose head is bound to a `defmacro` object: the parameters are bound to the argument
    FORMS (`evaluate = false`), the body is run, and its result is expanded again -/
theorem macro_args_unevaluated (r : Rec) (i n j : Nat) (ps : Params) (body args : Val) (c : Ctx)
    (hk : (c.symD n).constant = false) (hb : (c.symD n).get = some (.defmacro j ps body)) :
    mexpStep r (.cons i (.sym n) args) c =
      ((evalFunction r false ps body args >>= r.mexp) >>= finishExpand r) c := by
  rw [mexpStep_spec]
  have : headValue c (.sym n) = .defmacro j ps body := by simp [headValue, hk, hb]
  rw [this]; rfl

/-- the same when the head is the macro object itself -/
theorem macro_args_unevaluated_obj (r : Rec) (i j : Nat) (ps : Params) (body args : Val) (c : Ctx) :
    mexpStep r (.cons i (.defmacro j ps body) args) c =
      ((evalFunction r false ps body args >>= r.mexp) >>= finishExpand r) c := by
  rw [mexpStep_spec]; rfl

/-- with `evaluate = false`, argument collection does not use the evaluator at all: it is the
    evaluator-free function `collectForms` -/
theorem collectArgs_unevaluated (r : Rec) (req opt : List Nat) (rest : Option Nat) (args : Val) :
    collectArgs r false req opt rest args = collectForms req opt rest args :=
  collectArgs_false r req opt rest args

theorem collectArgs_indep (r r' : Rec) (req opt : List Nat) (rest : Option Nat) (args : Val) :
    collectArgs r false req opt rest args = collectArgs r' false req opt rest args := by
  rw [collectArgs_false, collectArgs_false]

/-- required parameters are bound to the argument forms themselves -/
theorem macro_params_are_forms (req : List Nat) (args : Val) (h : args.len = req.length) :
    collectForms req [] none args = pure args.elems := by
  induction req generalizing args with
  | nil => cases args <;> first | (simp [Val.len] at h; done) | (rw [collectForms] <;> first | rfl | (intro _ _ _ h'; cases h'))
  | cons p ps ih =>
    cases args with
    | cons i a d =>
      rw [collectForms, ih d (by simpa [Val.len] using h)]
      rfl
    | _ => simp [Val.len] at h

/-- a `&rest` parameter is bound to a fresh list of the remaining argument forms -/
theorem macro_rest_param_is_forms (p : Nat) (args : Val) :
    collectForms [] [] (some p) args = (do let l ← mkListM args.elems; pure [l]) := by
  rw [collectForms]

/-- a form whose head denotes a built-in macro: `callMacro b` is applied to the argument forms;
    `callMacro : Bi → Val → M Val` has no access to the evaluator (it does not take a `Rec`) -/
theorem builtin_macro_args_unevaluated (r : Rec) (i : Nat) (head args : Val) (b : Bi) (c : Ctx)
    (hv : headValue c head = .builtin b) (hm : b.isMacro = true) :
    mexpStep r (.cons i head args) c =
      ((callMacro b args >>= r.mexp) >>= finishExpand r) c := by
  rw [mexpStep_spec, hv]
  simp [expandHead, hm]

/-- the typing fact: a built-in macro is a function of the argument forms (and the context) only -/
example : Bi → Val → M Val := callMacro

/-- `callMacro` — whatever the macro, the arguments and the outcome — leaves every existing
    symbol entry (name, flags, value stack) untouched: it only allocates cell ids, interns names
    and creates unbound symbols -/
theorem callMacro_preserves_syms (b : Bi) (args : Val) (c : Ctx) :
    Ext c (callMacro b args c).2 :=
  grows_callMacro b args c

/-- hence no symbol's value stack changes … -/
theorem callMacro_preserves_values (b : Bi) (args : Val) (c : Ctx) (n : Nat) :
    ((callMacro b args c).2.symD n).items = (c.symD n).items :=
  (grows_callMacro b args c).items n

/-- … and the tables, the tick log and the file system are the same -/
theorem callMacro_preserves_rest (b : Bi) (args : Val) (c : Ctx) :
    let c' := (callMacro b args c).2
    c'.tables = c.tables ∧ c'.ticks = c.ticks ∧ c'.tickCount = c.tickCount ∧
      c'.failAt = c.failAt ∧ c'.files = c.files ∧ c'.nfiles = c.nfiles :=
  (grows_callMacro b args c).rest

/-! ## 6. the built-in macros as equations on forms

Each theorem: the macro applied to the argument forms succeeds, the context only grows (`Ext`), and
the expansion is — up to cell identity — the stated form, where `S c' name` is the symbol `name`
is interned as. -/

/-- `(when c . body)` ↦ `(if c (progn . body))` -/
theorem when_expansion (i : Nat) (cnd body : Val) (c : Ctx) :
    ∃ v c', callMacro .when_ (.cons i cnd body) c = (.ok v, c') ∧ Ext c c' ∧
      eraseIds v = eraseIds (L [.sym (S c' "if"), cnd, .cons 0 (.sym (S c' "progn")) body]) :=
  run_when (.cons i cnd body) rfl c

/-- `(when)` ↦ `(if nil (progn))` -/
theorem when_expansion_nil (c : Ctx) :
    ∃ v c', callMacro .when_ .nil c = (.ok v, c') ∧ Ext c c' ∧
      eraseIds v = eraseIds (L [.sym (S c' "if"), .nil, L [.sym (S c' "progn")]]) :=
  run_when .nil rfl c

/-- `(unless c . body)` ↦ `(if c nil . body)` -/
theorem unless_expansion (i : Nat) (cnd body : Val) (c : Ctx) :
    ∃ v c', callMacro .unless_ (.cons i cnd body) c = (.ok v, c') ∧ Ext c c' ∧
      eraseIds v = eraseIds (listTl [.sym (S c' "if"), cnd, .nil] body) :=
  run_unless (.cons i cnd body) rfl c

/-- `(if-let* () then . else)` ↦ `(let* () then)` -/
theorem ifLetStar_nil_expansion (i j : Nat) (thenF rest : Val) (c : Ctx) :
    ∃ v c', callMacro .ifLetStar (.cons i .nil (.cons j thenF rest)) c = (.ok v, c') ∧ Ext c c' ∧
      eraseIds v = eraseIds (L [.sym (S c' "let*"), .nil, thenF]) :=
  run_ifLetStar_nil (.cons i .nil (.cons j thenF rest)) rfl rfl rfl c

/-- `(if-let* (b1 … bn) then . else)` ↦
    `(let* ((v1 (and t e1)) (v2 (and v1 e2)) … (vn (and v(n-1) en))) (if vn then . else))`
    where the binding `bk` stands for the pair `(vk, ek)` (`Shapes`): a symbol `x` for `(x, x)`,
    `(e)` for `(s, e)` with `s` a fresh uninterned symbol named "s" (`FreshS`), `(v e)` for
    `(v, e)`; `andChain nAnd t pairs` is the chain of `let*` bindings. -/
theorem ifLetStar_expansion (i j : Nat) (varlist thenF rest : Val) (c : Ctx)
    (hc : varlist.isCons = true) (hok : ∀ b ∈ varlist.elems, BindingOK b) :
    ∃ v c', callMacro .ifLetStar (.cons i varlist (.cons j thenF rest)) c = (.ok v, c') ∧ Ext c c' ∧
      ∃ (pairs : List (Val × Val)) (hne : pairs ≠ []),
        Shapes (FreshS c c') varlist.elems pairs ∧
        eraseIds v = eraseIds (L [.sym (S c' "let*"), L (andChain (S c' "and") .t pairs),
          listTl [.sym (S c' "if"), (pairs.getLast hne).1, thenF] rest]) :=
  run_ifLetStar (.cons i varlist (.cons j thenF rest)) rfl rfl hc hok c

/-- the chain of bindings, unfolded -/
theorem andChain_nil (nAnd : Nat) (prev : Val) : andChain nAnd prev [] = [] := rfl
theorem andChain_cons (nAnd : Nat) (prev v e : Val) (ps : List (Val × Val)) :
    andChain nAnd prev ((v, e) :: ps) = L [v, L [.sym nAnd, prev, e]] :: andChain nAnd v ps := rfl

/-- the accepted binding shapes (non-vacuity of `BindingOK`) -/
theorem bindingOK_sym (n : Nat) : BindingOK (.sym n) := ⟨_, _, .sym n⟩
theorem bindingOK_anon (e : Val) : BindingOK (L [e]) := ⟨.sym 0, _, .anon 0 e 0 trivial⟩
theorem bindingOK_pair (v e : Val) : BindingOK (L [v, e]) := ⟨_, _, .pair 0 0 v e .nil rfl⟩

/-- a concrete instance: `(if-let* ((a 1) (b a)) b 0)` ↦
    `(let* ((a (and t 1)) (b (and a a))) (if b b 0))` -/
example (a b : Nat) (c : Ctx) :
    ∃ v c', callMacro .ifLetStar
        (L [L [L [.sym a, .int 1], L [.sym b, .sym a]], .sym b, .int 0]) c = (.ok v, c') ∧
      eraseIds v = L [.sym (S c' "let*"),
        L [L [.sym a, L [.sym (S c' "and"), .t, .int 1]],
           L [.sym b, L [.sym (S c' "and"), .sym a, .sym a]]],
        L [.sym (S c' "if"), .sym b, .sym b, .int 0]] := by
  obtain ⟨v, c', h, _, pairs, hne, hsh, hv⟩ :=
    ifLetStar_expansion 0 0 (L [L [.sym a, .int 1], L [.sym b, .sym a]]) (.sym b) (L [.int 0]) c rfl
      (by intro x hx
          simp [L, listTl, Val.elems] at hx
          rcases hx with rfl | rfl <;> exact bindingOK_pair _ _)
  refine ⟨v, c', h, ?_⟩
  -- the two bindings are pairs `(v e)`, so `pairs` is determined
  simp only [L, listTl, List.foldr, Val.elems] at hsh
  cases hsh with
  | @cons _ p1 _ _ h1 hrest =>
    obtain ⟨v1, e1⟩ := p1
    cases hrest with
    | @cons _ p2 _ _ h2 hnil =>
      obtain ⟨v2, e2⟩ := p2
      cases hnil
      cases h1; cases h2
      rw [hv]
      simp [andChain, L, listTl, eraseIds]

/-- `(if-let spec then . else)` ↦ `(if-let* spec' then prog)`: `spec' = (spec)` when `spec` has
    at most two elements and its first element is not a list (a single binding), else `spec`;
    `prog` is `nil` / the single else form / `(progn . else)` -/
theorem ifLet_expansion (i j : Nat) (spec thenF rest : Val) (c : Ctx)
    (hs : spec.isList = true) (hr : rest.isList = true) :
    ∃ v c', callMacro .ifLet (.cons i spec (.cons j thenF rest)) c = (.ok v, c') ∧ Ext c c' ∧
      eraseIds v = eraseIds (L [.sym (S c' "if-let*"), ifLetSpec spec, thenF,
        prognForm (S c' "progn") rest]) :=
  run_ifLet (.cons i spec (.cons j thenF rest)) rfl rfl hs hr c

theorem ifLetSpec_single (v e : Val) (hv : v.isList = false) :
    ifLetSpec (L [v, e]) = L [L [v, e]] := by
  simp [ifLetSpec, lengthV, Val.len, L, listTl, hv]

theorem ifLetSpec_list (i j : Nat) (a d rest : Val) :
    ifLetSpec (.cons i (.cons j a d) rest) = .cons i (.cons j a d) rest := by
  simp [ifLetSpec, Val.isList, Val.isCons]

theorem prognForm_nil (n : Nat) : prognForm n .nil = .nil := rfl
theorem prognForm_one (n i : Nat) (x : Val) : prognForm n (.cons i x .nil) = x := rfl
theorem prognForm_many (n i j : Nat) (x y rest : Val) :
    prognForm n (.cons i x (.cons j y rest)) = .cons 0 (.sym n) (.cons i x (.cons j y rest)) := rfl

/-- `(when-let spec . body)` ↦ `(if-let spec prog)` -/
theorem whenLet_expansion (i : Nat) (spec body : Val) (c : Ctx) (hb : body.isList = true) :
    ∃ v c', callMacro .whenLet (.cons i spec body) c = (.ok v, c') ∧ Ext c c' ∧
      eraseIds v = eraseIds (L [.sym (S c' "if-let"), spec, prognForm (S c' "progn") body]) :=
  run_whenLet (.cons i spec body) rfl hb c

/-- `(while-let spec . body)` ↦ `(while (if-let spec (progn ,@body t) nil))` -/
theorem whileLet_expansion (i : Nat) (spec body : Val) (c : Ctx) (hb : body.isList = true)
    (hp : body.spine.2 = .nil) :
    ∃ v c', callMacro .whileLet (.cons i spec body) c = (.ok v, c') ∧ Ext c c' ∧
      eraseIds v = eraseIds (L [.sym (S c' "while"), L [.sym (S c' "if-let"), spec,
        L (.sym (S c' "progn") :: body.elems ++ [.t]), .nil]]) :=
  run_whileLet (.cons i spec body) rfl hb hp c

/-- `(quote a)` ↦ the quote object `'a` -/
theorem quote_expansion (i : Nat) (a : Val) : callMacro .quote_ (.cons i a .nil) = pure (.quote a) := rfl

/-! ### threading -/

/-- `thread-first` / `thread-last` are the same functions as `->` / `->>` -/
theorem threadFirst_eq_arrow (args : Val) :
    callMacro .threadFirst args = callMacro .threadFirstArrow args := rfl
theorem threadLast_eq_arrow (args : Val) :
    callMacro .threadLast args = callMacro .threadLastArrow args := rfl

/-- the single threading step: `x`, `(f a…)` ↦ `(f x a…)` for `->` … -/
theorem threadStep_first (x fh fargs : Val) (i : Nat) :
    threadStep true x (.cons i fh fargs) = .cons 0 fh (.cons 0 x fargs) := rfl
/-- … `(f a… x)` for `->>` … -/
theorem threadStep_last (x fh fargs : Val) (i : Nat) :
    threadStep false x (.cons i fh fargs) = L ((fh :: fargs.elems) ++ [x]) := rfl
/-- … and `x`, `f` ↦ `(f x)` for both -/
theorem threadStep_sym (first : Bool) (x : Val) (n : Nat) :
    threadStep first x (.sym n) = L [.sym n, x] := by cases first <;> rfl

/-- `(-> x)` ↦ `x` (exactly, no allocation) -/
theorem thread_none (b : Bi) (first : Bool) (hb : threadKind b = some first) (i : Nat) (x : Val) :
    callMacro b (.cons i x .nil) = pure x := by
  cases b <;> simp only [threadKind] at hb <;> cases hb <;> rfl

/-- the loop of the threading macros, unfolded: thread `x` into the first form, continue -/
theorem threadForms_step (first : Bool) (x form : Val) (more : List Val) (h : form.isNil = false) :
    threadForms first x (form :: more) =
      threadStepM first x form >>= fun s => threadForms first s more :=
  threadForms_cons first x form more h

/-- `(-> x form more…)` expands like `(-> step(x, form) more…)` -/
theorem thread_unfold (b : Bi) (first : Bool) (hb : threadKind b = some first) (i j k : Nat)
    (x form more : Val) (h : form.isNil = false) (hp : more.spine.2 = .nil) :
    callMacro b (.cons i x (.cons j form more)) =
      threadStepM first x form >>= fun s => callMacro b (.cons k s more) := by
  have key : ∀ (i : Nat) (y forms : Val), forms.spine.2 = .nil →
      callMacro b (.cons i y forms) = threadForms first y forms.elems := by
    intro i y forms hf
    cases b <;> simp only [threadKind] at hb <;> cases hb <;>
      simp [callMacro, carV, cdrV, hf, Val.isNil]
  rw [key i x _ (by simpa [Val.spine] using hp)]
  simp only [Val.elems]
  rw [threadForms_cons _ _ _ _ h]
  congr 1; funext s
  rw [key k s more hp]

/-- `threadForms` is the left fold of the threading step over the forms (those before the first
    `nil` form, which ends the threading) -/
theorem threadForms_fold (first : Bool) (x : Val) (forms : List Val) (c : Ctx)
    (hok : ∀ f ∈ activeForms forms, ThreadOK first f) :
    ∃ v c', threadForms first x forms c = (.ok v, c') ∧ Ext c c' ∧
      eraseIds v = eraseIds ((activeForms forms).foldl (threadStep first) x) :=
  run_threadForms first x forms hok c

/-- `(-> x form…)`, `(->> x form…)`, `(thread-first x form…)`, `(thread-last x form…)` -/
theorem thread_expansion (b : Bi) (first : Bool) (hb : threadKind b = some first) (i : Nat)
    (x forms : Val) (c : Ctx) (hp : forms.spine.2 = .nil)
    (hok : ∀ f ∈ activeForms forms.elems, ThreadOK first f) :
    ∃ v c', callMacro b (.cons i x forms) c = (.ok v, c') ∧ Ext c c' ∧
      eraseIds v = eraseIds ((activeForms forms.elems).foldl (threadStep first) x) :=
  run_thread b first hb (.cons i x forms) rfl hp hok c

/-- `(-> x (f a) g)` ↦ `(g (f x a))` and `(->> x (f a) g)` ↦ `(g (f a x))` -/
example (x f a g : Nat) (c : Ctx) :
    ∃ v c', callMacro .threadFirstArrow (L [.sym x, L [.sym f, .sym a], .sym g]) c = (.ok v, c') ∧
      eraseIds v = L [.sym g, L [.sym f, .sym x, .sym a]] := by
  obtain ⟨v, c', h, _, hv⟩ := thread_expansion .threadFirstArrow true rfl 0 (.sym x)
    (L [L [.sym f, .sym a], .sym g]) c rfl (fun _ _ => .inl rfl)
  exact ⟨v, c', h, by rw [hv]; rfl⟩

example (x f a g : Nat) (c : Ctx) :
    ∃ v c', callMacro .threadLastArrow (L [.sym x, L [.sym f, .sym a], .sym g]) c = (.ok v, c') ∧
      eraseIds v = L [.sym g, L [.sym f, .sym a, .sym x]] := by
  obtain ⟨v, c', h, _, hv⟩ := thread_expansion .threadLastArrow false rfl 0 (.sym x)
    (L [L [.sym f, .sym a], .sym g]) c rfl (fun f hf => by
      simp [activeForms, L, listTl, Val.elems, List.takeWhile, Val.isNil] at hf
      rcases hf with rfl | rfl
      · exact .inr (.inr rfl)
      · exact .inr (.inl rfl))
  exact ⟨v, c', h, by rw [hv]; rfl⟩

/-! ## 7. calling a macro object at run time -/

/-- `funcall` of a `defmacro` object: build the form `(f . args)`, expand it, evaluate the
    expansion -/
theorem runtime_macro_call_defmacro (r : Rec) (ev : Bool) (i : Nat) (ps : Params) (body args : Val) :
    funcallVal r ev (.defmacro i ps body) args = (do
      let cp ← deepCopy args
      let form ← mkCons (.defmacro i ps body) cp
      let ex ← r.mexp form
      r.eval ex) := rfl

/-- the same for a built-in macro object -/
theorem runtime_macro_call_builtin (r : Rec) (ev : Bool) (b : Bi) (hm : b.isMacro = true) (args : Val) :
    funcallVal r ev (.builtin b) args = (do
      let cp ← deepCopy args
      let form ← mkCons (.builtin b) cp
      let ex ← r.mexp form
      r.eval ex) := by
  simp [funcallVal, hm]

/-! ## 8. evaluation of a macro call = evaluation of its expansion -/

/-- **the evaluator evaluates macro calls by expanding them**: when the head of a form evaluates
    to a macro value `f`, `eval` builds `(f . args)` (args copied), runs `macroexpand` on it and
    evaluates the expansion.  So "evaluating a macro call has the same result and effects as
    evaluating its expansion" holds by construction of the evaluator. -/
theorem eval_expansion_commutes (r : Rec) (i : Nat) (head args f : Val) (c c1 : Ctx)
    (hf : r.eval head c = (.ok f, c1)) (hm : isMacroValue f = true) :
    evalStep r (.cons i head args) c = (do
      let cp ← deepCopy args
      let form ← mkCons f cp
      let ex ← r.mexp form
      r.eval ex) c1 := by
  rw [evalStep, bind_ok _ hf]
  cases f <;> simp [isMacroValue] at hm
  · rfl
  · simp [hm, funcallVal]

/-- specialised to `when` / `unless` (tier 2): evaluating `(when c . body)` is evaluating the
    expansion of `(#<when> c . body)`, and that expansion starts by applying `callMacro .when_` to
    the unevaluated forms -/
theorem eval_expansion_commutes_partial (r : Rec) (i : Nat) (head args : Val) (b : Bi) (c c1 : Ctx)
    (hb : b = .when_ ∨ b = .unless_) (hf : r.eval head c = (.ok (.builtin b), c1)) :
    evalStep r (.cons i head args) c = (do
      let cp ← deepCopy args
      let form ← mkCons (.builtin b) cp
      let ex ← r.mexp form
      r.eval ex) c1 ∧
    ∀ (r' : Rec) (k : Nat) (cp : Val) (c2 : Ctx), mexpStep r' (.cons k (.builtin b) cp) c2 =
      ((callMacro b cp >>= r'.mexp) >>= finishExpand r') c2 := by
  have hm : b.isMacro = true := by rcases hb with rfl | rfl <;> rfl
  exact ⟨eval_expansion_commutes r i head args _ c c1 hf (by simpa [isMacroValue] using hm),
    fun r' k cp c2 => builtin_macro_args_unevaluated r' k _ cp b c2 rfl hm⟩

/-- tier 2, for `when`: evaluating `(when c . body)` (with `c`, `body` macro-free, `when` bound to
    the built-in macro) IS evaluating a form equal to `(if c (progn . body))`, in a context that
    differs from the initial one only by fresh ids and the interned names `if`, `progn` — so both
    evaluations have the same result and the same effects -/
theorem eval_when_commutes (d i j w : Nat) (cnd body : Val) (c : Ctx)
    (hk : (c.symD w).constant = false) (hg : (c.symD w).get = some (.builtin .when_))
    (hif : NonMacroName c "if") (hpr : NonMacroName c "progn")
    (hc : NoMacro c cnd) (hb : ∀ e ∈ body.elems, NoMacro c e)
    (hd : cnd.size + body.size + 7 ≤ d) :
    ∃ ex c', evalStep (Rec.ofDepth (d + 1)) (.cons i (.sym w) (.cons j cnd body)) c =
        (Rec.ofDepth (d + 1)).eval ex c' ∧
      eraseIds ex = eraseIds (L [.sym (S c' "if"), cnd, .cons 0 (.sym (S c' "progn")) body]) ∧
      Ext c c' := by
  -- the head evaluates to the macro object
  have hhead : (Rec.ofDepth (d + 1)).eval (.sym w) c = (.ok (.builtin .when_), c) := by
    show evalStep (Rec.ofDepth d) (.sym w) c = _
    simp [evalStep, getSym, hk, hg]
  rw [eval_expansion_commutes _ i (.sym w) _ _ c c hhead rfl]
  -- the copy of the argument list
  obtain ⟨cp, ca, hcp, hea, hcpe, hcps⟩ := run_deepCopy (.cons j cnd body) c
  obtain ⟨form, cb, hform, heb, k, hk'⟩ := run_mkCons (.builtin .when_) cp ca
  subst hk'
  have hcons : cp.isCons = true := by
    rw [isCons_iff_spine, hcps]; simp [Val.spine]
  cases cp with
  | cons j' cnd' body' =>
    simp only [eraseIds_cons, Val.cons.injEq, true_and] at hcpe
    have hsp : (cnd' :: body'.elems) = cnd :: body.elems := by
      have := congrArg Prod.fst hcps
      simpa [spine_fst, Val.elems] using this
    have hcnd : cnd' = cnd := (List.cons.inj hsp).1
    have hel : body'.elems = body.elems := (List.cons.inj hsp).2
    subst hcnd
    have hext := hea.trans heb
    obtain ⟨v, c', hv, hve, he', _⟩ := when_call_expands d k j' (.builtin .when_) cnd' body' cb rfl
      (hif.mono hext) (hpr.mono hext) (hext.noMacro hc)
      (fun e he => hext.noMacro (hb e (hel ▸ he)))
      (by rw [size_eq_of_eraseIds hcpe.2]; exact hd)
    refine ⟨v, c', ?_, ?_, hext.trans he'⟩
    · rw [bind_ok _ hcp, bind_ok _ hform, bind_ok _ hv]
    · rw [hve]; simp [hcpe.2]
  | _ => simp [Val.isCons] at hcons

/-- **known deviation** (binding positions): a list whose first element is itself a list — such as
    the variable list `((m . margs) . rest)` of a `let` — is not a macro call, and every one of its
    elements, in particular the binding `(m . margs)`, is handed to the expander like a form in an
    evaluated position.  So a binding whose variable names a macro is macro-expanded. -/
theorem binding_position_expanded (r : Rec) (i j : Nat) (m margs rest : Val) (c : Ctx) :
    mexpStep r (.cons i (.cons j m margs) rest) c = (do
      let ys ← mexpList r (.cons j m margs :: rest.elems)
      mkListM ys rest.spine.2) c := by
  rw [mexpStep_spec, expandHead_not_macro _ _ _ _ rfl, pure_bind]
  rfl

/-- the concrete instance: the variable list `((when 1))` of `(let ((when 1)) x)` becomes
    `((if 1 (progn)))` (in any context where `when` is the built-in macro and `if`, `progn` do not
    name macros) -/
theorem binding_position_expanded_when (d w : Nat) (c : Ctx)
    (hw : headValue c (.sym w) = .builtin .when_)
    (hif : NonMacroName c "if") (hpr : NonMacroName c "progn") :
    ∃ v c', (Rec.ofDepth (d + 11)).mexp (L [L [.sym w, .int 1]]) c = (.ok v, c') ∧
      eraseIds v = L [L [.sym (S c' "if"), .int 1, L [.sym (S c' "progn")]]] := by
  obtain ⟨b', c1, h1, hb', _, _⟩ := when_call_expands (d + 9) 0 0 (.sym w) (.int 1) .nil c hw hif hpr
    (.atom rfl) (fun e he => by simp [Val.elems] at he) (by simp [Val.size])
  have hrun : mexpStep (Rec.ofDepth (d + 10)) (.cons 0 (.cons 0 (.sym w) (.cons 0 (.int 1) .nil)) .nil) c =
      (.ok (Val.mkList c1.nextId [b'] .nil).1, { c1 with nextId := c1.nextId + [b'].length }) := by
    rw [binding_position_expanded]
    simp only [Val.elems, mexpList, bind_assoc, pure_bind]
    rw [bind_ok _ h1, mkListM_run]
    rfl
  refine ⟨_, _, hrun, ?_⟩
  have hS : ∀ name, S { c1 with nextId := c1.nextId + [b'].length } name = S c1 name :=
    fun name => OnlyIds.S ⟨rfl, Nat.le_add_right _ _⟩ name
  simp only [eraseIds_mkList, List.map_cons, List.map_nil, hb', hS]
  rfl

/-- … and such a context exists: `when` bound to the built-in macro, nothing else -/
example (d : Nat) :
    let c0 : Ctx := { syms := #[{ name := "when", items := [.builtin .when_] }] }
    ∃ v c', (Rec.ofDepth (d + 11)).mexp (L [L [.sym 0, .int 1]]) c0 = (.ok v, c') ∧
      eraseIds v = L [L [.sym (S c' "if"), .int 1, L [.sym (S c' "progn")]]] := by
  intro c0
  refine binding_position_expanded_when d 0 c0 rfl ?_ ?_ <;>
    · intro n hn
      simp [Interned, c0] at hn

end Tulisp.C06
