/-
  Props/C11.lean — C11: evaluation never modifies the program, quoted constants or the list
  values passed to library functions.

  "Evaluating an expression never modifies the program being evaluated, quoted constants, or the
   list values passed as arguments to library functions (append, sort, mapcar, the seq-
   functions, backquote splicing and the rest)."

  In the model values (`Val`) are immutable trees, so no operation can alter a value that
  something else still refers to; what remains to be proved is
   (a) that the list-building library functions return lists whose spine is FRESH — every cons
       cell of the result's spine has an identity allocated during the call, so the result
       shares no spine cell with the arguments, the program or any older value:
         list_fresh cons_fresh append_fresh mapcar_fresh seqMap_fresh seqFilter_fresh sort_fresh
         backquote_fresh ; result_disjoint_from_old ;
         for the actual evaluator `Rec.ofDepth d`, without hypotheses: ofDepth_mono
         eval_counter_monotone library_fresh cons_fresh_eval backquote_fresh_eval
   (b) that the library list functions do not assign variables: `library_no_assign`
       (with the per-function lemmas `keepSyms_*`)
   (c) that `quote` returns the literal object itself and that function bodies are passed
       around unchanged: quote_returns_literal quote_stable lambda_call_uses_body
       bounce_reenters_same_body append_of_literals_fresh

  `MonoRec r`: the evaluator / macro expander one level down never decrease the allocation
  counter.  `KeepSyms m`: `m` leaves the symbol table exactly as it was.
-/
import Tulisp.Proofs.C11Mono
set_option linter.constructorNameAsVariable false
namespace Tulisp.C11
open Tulisp Tulisp.Fresh

/-! ## (a) fresh spines -/

/-- `(list a1 … an)`: all `n` cells of the result are new, the elements are the values. -/
theorem list_fresh (r : Rec) (hr : MonoRec r) (args : Val) (c c' : Ctx) (w : Val)
    (h : callBuiltin r .list_ args c = (.ok w, c')) :
    SpineIn c.nextId c'.nextId w ∧
      ∃ vs c1, evalEach r args c = (.ok vs, c1) ∧ w.spine = (vs, .nil) :=
  fresh_of_bind_mkListM ((monoM_iff _).2 (pres_evalEach leId_stRel r hr.eval args)) h

/-- `(cons a d)`: the one cell of the result is new. -/
theorem cons_fresh (r : Rec) (hr : MonoRec r) (args : Val) (c c' : Ctx) (w : Val)
    (h : callBuiltin r .cons_ args c = (.ok w, c')) :
    ∃ i a d, w = .cons i a d ∧ c.nextId ≤ i ∧ i < c'.nextId := by
  unfold callBuiltin at h
  simp only at h
  split at h
  · rename_i i aF j dF
    obtain ⟨a, c1, h1, h⟩ := bind_ok_inv h
    obtain ⟨d, c2, h2, h⟩ := bind_ok_inv h
    rw [mkCons_run] at h
    injection h with hw hc
    injection hw with hw
    have m1 := hr.eval aF c; rw [h1] at m1
    have m2 := hr.eval dF c1; rw [h2] at m2
    refine ⟨c2.nextId, a, d, hw.symm, Nat.le_trans m1 m2, ?_⟩
    rw [← hc]; exact Nat.lt_succ_self _
  · rw [mkCons_run] at h
    injection h with hw hc
    injection hw with hw
    exact ⟨c.nextId, .nil, .nil, hw.symm, Nat.le_refl _, by rw [← hc]; exact Nat.lt_succ_self _⟩
  · injection h with h _; cases h

/-- `(append l1 … ln)`: every cell of the result's spine is new — also the cells that carry the
    elements of the LAST argument (the implementation copies it too), so the result shares no
    spine cell with any of its arguments. -/
theorem append_fresh (r : Rec) (hr : MonoRec r) (args : Val) (c c' : Ctx) (w : Val)
    (h : callBuiltin r .append_ args c = (.ok w, c')) : SpineIn c.nextId c'.nextId w := by
  rw [C12.callBuiltin_append] at h
  obtain ⟨⟨first, rest⟩, c1, h1, h⟩ := bind_ok_inv h
  dsimp only at h
  obtain ⟨others, c2, h2, h⟩ := bind_ok_inv h
  have m1 := (monoM_iff _).2 (pres_nextArg leId_stRel r hr.eval args) c
  rw [h1] at m1
  have m2 := (monoM_iff _).2 (pres_evalEach leId_stRel r hr.eval rest) c1
  rw [h2] at m2
  exact (appendVals_fresh first others c2 c' w h).mono (Nat.le_trans m1 m2) (Nat.le_refl _)

theorem callBuiltin_mapcar (r : Rec) (args : Val) :
    callBuiltin r .mapcar args = (do
      let (fv, rest) ← nextArg r args
      let (seq, _) ← nextArg r rest
      let f ← r.eval fv
      let rs ← callBuiltin.mapVals r f seq.elems []
      mkListM rs) := rfl

theorem callBuiltin_seqFilter (r : Rec) (args : Val) :
    callBuiltin r .seqFilter args = (do
      let (fv, rest) ← nextArg r args
      let (seq, _) ← nextArg r rest
      let f ← r.eval fv
      let rs ← callBuiltin.filterVals r f seq.elems []
      mkListM rs) := rfl

theorem callBuiltin_sort (r : Rec) (args : Val) :
    callBuiltin r .sort_ args = (do
      let (seq, rest) ← nextArg r args
      let (pv, _) ← nextArg r rest
      let p ← r.eval pv
      let sorted ← sortM (sortLt r p) (seq.elems.length + 1) seq.elems
      mkListM sorted) := rfl

/-- the common shape of `mapcar` / `seq-filter` / `sort`: two arguments are evaluated, then one
    of the two values once more (the function designator), a loop computes the elements, a fresh
    list is built -/
theorem fresh_of_loop (r : Rec) (hr : MonoRec r) (pick : Val → Val → Val)
    (loop : Val → Val → Val → M (List Val))
    (hloop : ∀ f x1 x2, MonoM (loop f x1 x2)) (args : Val) (c c' : Ctx) (w : Val)
    (h : (do
      let (x1, rest) ← nextArg r args
      let (x2, _) ← nextArg r rest
      let f ← r.eval (pick x1 x2)
      let rs ← loop f x1 x2
      mkListM rs) c = (.ok w, c')) :
    SpineIn c.nextId c'.nextId w := by
  obtain ⟨⟨x1, rest⟩, c1, h1, h⟩ := bind_ok_inv h
  dsimp only at h
  obtain ⟨⟨x2, rest2⟩, c2, h2, h⟩ := bind_ok_inv h
  dsimp only at h
  obtain ⟨f, c3, h3, h⟩ := bind_ok_inv h
  have m1 := (monoM_iff _).2 (pres_nextArg leId_stRel r hr.eval args) c
  rw [h1] at m1
  have m2 := (monoM_iff _).2 (pres_nextArg leId_stRel r hr.eval rest) c1
  rw [h2] at m2
  have m3 := hr.eval (pick x1 x2) c2
  rw [h3] at m3
  have := (fresh_of_bind_mkListM (hloop f x1 x2) h).1
  exact this.mono (Nat.le_trans m1 (Nat.le_trans m2 m3)) (Nat.le_refl _)

/-- `(mapcar f l)`: the result list is new (it does not reuse the cells of `l`). -/
theorem mapcar_fresh (r : Rec) (hr : MonoRec r) (args : Val) (c c' : Ctx) (w : Val)
    (h : callBuiltin r .mapcar args c = (.ok w, c')) : SpineIn c.nextId c'.nextId w :=
  fresh_of_loop r hr (fun x1 _ => x1) (fun f _ x2 => callBuiltin.mapVals r f x2.elems [])
    (fun f _ _ => monoM_mapVals r hr f _ _) args c c' w h

theorem seqMap_fresh (r : Rec) (hr : MonoRec r) (args : Val) (c c' : Ctx) (w : Val)
    (h : callBuiltin r .seqMap args c = (.ok w, c')) : SpineIn c.nextId c'.nextId w :=
  mapcar_fresh r hr args c c' w h

/-- `(seq-filter p l)`: the result list is new, even when every element is kept. -/
theorem seqFilter_fresh (r : Rec) (hr : MonoRec r) (args : Val) (c c' : Ctx) (w : Val)
    (h : callBuiltin r .seqFilter args c = (.ok w, c')) : SpineIn c.nextId c'.nextId w :=
  fresh_of_loop r hr (fun x1 _ => x1) (fun f _ x2 => callBuiltin.filterVals r f x2.elems [])
    (fun f _ _ => monoM_filterVals r hr f _ _) args c c' w h

/-- `(sort l p)`: the result list is new — the argument list is not sorted in place. -/
theorem sort_fresh (r : Rec) (hr : MonoRec r) (args : Val) (c c' : Ctx) (w : Val)
    (h : callBuiltin r .sort_ args c = (.ok w, c')) : SpineIn c.nextId c'.nextId w :=
  fresh_of_loop r hr (fun _ x2 => x2)
    (fun p x1 _ => sortM (sortLt r p) (x1.elems.length + 1) x1.elems)
    (fun p _ _ => monoM_sortM r hr p _ _) args c c' w (callBuiltin_sort r args ▸ h)

/-- a backquoted cons template: the result's spine is new (template cells and spliced lists are
    copied) -/
theorem backquote_fresh (r : Rec) (hr : MonoRec r) (i : Nat) (a d : Val) (c c' : Ctx) (w : Val)
    (h : evalStep r (.backquote (.cons i a d)) c = (.ok w, c')) :
    SpineIn c.nextId c'.nextId w :=
  (C07.bq_spineIn r hr.toC07 i a d c c' w h).1

/-- What freshness buys: a result whose spine is fresh shares no spine cell with any value that
    existed before the call (all of whose identities are below the counter at the start) — its
    arguments, the program text, quoted constants, the values of all variables. -/
theorem result_disjoint_from_old {c c' : Ctx} {w : Val} (h : SpineIn c.nextId c'.nextId w)
    (old : Val) (hold : IdsBelow c.nextId old) : ∀ k ∈ spineIds w, k ∉ ids old :=
  fresh_disjoint_old hold h.fresh

/-! ## the hypothesis `MonoRec` holds for the actual evaluator -/

/-- The evaluator, the macro expander and the loader of every depth budget never decrease the
    allocation counter (proved by going through every built-in, special form, macro, the reader
    interface and the loader: Proofs/C11Mono.lean). -/
theorem ofDepth_mono (d : Nat) : MonoRec3 (Rec.ofDepth d) := monoRec3_ofDepth d

theorem ofDepth_monoRec (d : Nat) : MonoRec (Rec.ofDepth d) := (monoRec3_ofDepth d).toMonoRec

/-- evaluating any form, at any depth budget, in any state, never decreases the counter -/
theorem eval_counter_monotone (d : Nat) (e : Val) (c : Ctx) :
    c.nextId ≤ ((Rec.ofDepth d).eval e c).2.nextId :=
  (monoRec3_ofDepth d).eval e c

/-- (a) for the actual evaluator, without hypotheses: the list-building library functions return
    lists whose whole spine was allocated during the call. -/
theorem library_fresh (d : Nat) (b : Bi)
    (hb : b ∈ [Bi.list_, .append_, .mapcar, .seqMap, .seqFilter, .sort_]) (args : Val)
    (c c' : Ctx) (w : Val) (h : callBuiltin (Rec.ofDepth d) b args c = (.ok w, c')) :
    SpineIn c.nextId c'.nextId w := by
  have hr := ofDepth_monoRec d
  simp only [List.mem_cons, List.not_mem_nil, or_false] at hb
  rcases hb with hb | hb | hb | hb | hb | hb <;> subst hb
  · exact (list_fresh _ hr args c c' w h).1
  · exact append_fresh _ hr args c c' w h
  · exact mapcar_fresh _ hr args c c' w h
  · exact seqMap_fresh _ hr args c c' w h
  · exact seqFilter_fresh _ hr args c c' w h
  · exact sort_fresh _ hr args c c' w h

theorem cons_fresh_eval (d : Nat) (args : Val) (c c' : Ctx) (w : Val)
    (h : callBuiltin (Rec.ofDepth d) .cons_ args c = (.ok w, c')) :
    ∃ i a d', w = .cons i a d' ∧ c.nextId ≤ i ∧ i < c'.nextId :=
  cons_fresh _ (ofDepth_monoRec d) args c c' w h

theorem backquote_fresh_eval (d : Nat) (i : Nat) (a t : Val) (c c' : Ctx) (w : Val)
    (h : evalStep (Rec.ofDepth d) (.backquote (.cons i a t)) c = (.ok w, c')) :
    SpineIn c.nextId c'.nextId w :=
  backquote_fresh _ (ofDepth_monoRec d) i a t c c' w h

/-! ## (b) the library list functions assign no variable -/

section keep
variable (r : Rec) (hr : ∀ v, KeepSyms (r.eval v))
include hr

theorem keepSyms_append (args : Val) : KeepSyms (callBuiltin r .append_ args) := by
  rw [C12.callBuiltin_append]
  refine Pres.bind sameSyms_stRel (pres_nextArg sameSyms_stRel r hr args) (fun p => ?_)
  obtain ⟨first, rest⟩ := p
  exact Pres.bind sameSyms_stRel (pres_evalEach sameSyms_stRel r hr rest)
    (fun others => pres_appendVals sameSyms_stRel first others)

theorem keepSyms_length (args : Val) : KeepSyms (callBuiltin r .length_ args) :=
  Pres.bind sameSyms_stRel (pres_nextArg sameSyms_stRel r hr args)
    (fun _ => Pres.pure sameSyms_stRel _)

theorem keepSyms_nth (args : Val) : KeepSyms (callBuiltin r .nth_ args) := by
  refine Pres.bind sameSyms_stRel (pres_nextArg sameSyms_stRel r hr args) (fun p => ?_)
  obtain ⟨nv, rest⟩ := p
  refine Pres.bind sameSyms_stRel (pres_intOf sameSyms_stRel nv) (fun n => ?_)
  refine Pres.bind sameSyms_stRel (pres_nextArg sameSyms_stRel r hr rest) (fun q => ?_)
  exact Pres.liftE sameSyms_stRel _

theorem keepSyms_nthcdr (args : Val) : KeepSyms (callBuiltin r .nthcdr args) := by
  refine Pres.bind sameSyms_stRel (pres_nextArg sameSyms_stRel r hr args) (fun p => ?_)
  obtain ⟨nv, rest⟩ := p
  refine Pres.bind sameSyms_stRel (pres_intOf sameSyms_stRel nv) (fun n => ?_)
  refine Pres.bind sameSyms_stRel (pres_nextArg sameSyms_stRel r hr rest) (fun q => ?_)
  exact Pres.liftE sameSyms_stRel _

theorem keepSyms_last (args : Val) : KeepSyms (callBuiltin r .last_ args) := by
  refine Pres.bind sameSyms_stRel (pres_nextArg sameSyms_stRel r hr args) (fun p => ?_)
  obtain ⟨l, rest⟩ := p
  refine Pres.bind sameSyms_stRel (pres_nextArgOpt sameSyms_stRel r hr rest) (fun q => ?_)
  obtain ⟨nv, rest2⟩ := q
  dsimp only
  split
  · exact Pres.bind sameSyms_stRel (Pres.pure sameSyms_stRel _)
      (fun _ => Pres.liftE sameSyms_stRel _)
  · exact Pres.bind sameSyms_stRel (pres_intOf sameSyms_stRel nv)
      (fun _ => Pres.bind sameSyms_stRel (Pres.pure sameSyms_stRel _)
        (fun _ => Pres.liftE sameSyms_stRel _))

theorem keepSyms_plistGet (args : Val) : KeepSyms (callBuiltin r .plistGet args) := by
  refine Pres.bind sameSyms_stRel (pres_nextArg sameSyms_stRel r hr args) (fun p => ?_)
  obtain ⟨plist, rest⟩ := p
  refine Pres.bind sameSyms_stRel (pres_nextArg sameSyms_stRel r hr rest) (fun q => ?_)
  exact Pres.bind sameSyms_stRel (Pres.get sameSyms_stRel)
    (fun _ => Pres.liftE sameSyms_stRel _)

theorem keepSyms_equal (args : Val) : KeepSyms (callBuiltin r .equal_ args) := by
  refine Pres.bind sameSyms_stRel (pres_nextArg sameSyms_stRel r hr args) (fun p => ?_)
  obtain ⟨a, rest⟩ := p
  refine Pres.bind sameSyms_stRel (pres_nextArg sameSyms_stRel r hr rest) (fun q => ?_)
  exact Pres.bind sameSyms_stRel (Pres.get sameSyms_stRel)
    (fun _ => Pres.pure sameSyms_stRel _)

theorem keepSyms_eq (args : Val) : KeepSyms (callBuiltin r .eq_ args) := by
  refine Pres.bind sameSyms_stRel (pres_nextArg sameSyms_stRel r hr args) (fun p => ?_)
  obtain ⟨a, rest⟩ := p
  refine Pres.bind sameSyms_stRel (pres_nextArg sameSyms_stRel r hr rest) (fun q => ?_)
  exact Pres.bind sameSyms_stRel (Pres.get sameSyms_stRel)
    (fun _ => Pres.pure sameSyms_stRel _)

theorem keepSyms_cons (args : Val) : KeepSyms (callBuiltin r .cons_ args) := by
  unfold callBuiltin
  simp only
  split
  · exact Pres.bind sameSyms_stRel (hr _) (fun _ => Pres.bind sameSyms_stRel (hr _)
      (fun _ => Pres.of_idOnly sameSyms_stRel (IdOnly.mkCons _ _)))
  · exact Pres.of_idOnly sameSyms_stRel (IdOnly.mkCons _ _)
  · exact Pres.throw sameSyms_stRel _

theorem keepSyms_list (args : Val) : KeepSyms (callBuiltin r .list_ args) :=
  Pres.bind sameSyms_stRel (pres_evalEach sameSyms_stRel r hr args)
    (fun _ => Pres.of_idOnly sameSyms_stRel (IdOnly.mkListM _ _))

omit hr in
theorem pres_concatGo (vs : List Val) (acc : String) :
    Pres sameSyms (callBuiltin.go vs acc) := by
  induction vs generalizing acc with
  | nil => exact Pres.pure sameSyms_stRel _
  | cons v vs ih =>
    exact Pres.bind sameSyms_stRel (pres_strOf sameSyms_stRel v) (fun _ => ih _)

theorem keepSyms_concat (args : Val) : KeepSyms (callBuiltin r .concat_ args) :=
  Pres.bind sameSyms_stRel (pres_evalEach sameSyms_stRel r hr args)
    (fun vs => Pres.bind sameSyms_stRel (pres_concatGo vs "")
      (fun _ => Pres.of_idOnly sameSyms_stRel (IdOnly.mkStr _)))

theorem keepSyms_format (args : Val) : KeepSyms (callBuiltin r .format_ args) := by
  refine Pres.bind sameSyms_stRel (pres_nextArg sameSyms_stRel r hr args) (fun p => ?_)
  obtain ⟨fmt, rest⟩ := p
  refine Pres.bind sameSyms_stRel (pres_evalEach sameSyms_stRel r hr rest) (fun vs => ?_)
  refine Pres.bind sameSyms_stRel (pres_strOf sameSyms_stRel fmt) (fun f => ?_)
  refine Pres.bind sameSyms_stRel (Pres.get sameSyms_stRel) (fun c0 => ?_)
  exact Pres.bind sameSyms_stRel (pres_formatLoop sameSyms_stRel c0 _ _ _)
    (fun _ => Pres.of_idOnly sameSyms_stRel (IdOnly.mkStr _))

/-- the `c[ad]{1,4}r` family -/
theorem keepSyms_cxr (b : Bi) (path : List Bool) (hb : Bi.cxrPath? b = some path) (args : Val) :
    KeepSyms (callBuiltin r b args) := by
  have key : KeepSyms (do let (v, _) ← nextArg r args; liftE (cxrV path v)) :=
    Pres.bind sameSyms_stRel (pres_nextArg sameSyms_stRel r hr args)
      (fun _ => Pres.liftE sameSyms_stRel _)
  cases b <;> first
    | (simp [Bi.cxrPath?] at hb; done)
    | (simp only [Bi.cxrPath?, Option.some.injEq] at hb; subst hb; exact key)

/-- the functions of the statement -/
def libraryFns : List Bi :=
  [.append_, .length_, .nth_, .nthcdr, .last_, .plistGet, .equal_, .eq_, .cons_, .list_, .concat_,
   .format_]

/-- For every evaluator whose `eval` leaves the symbol table as it was, these built-ins — and
    every `c[ad]+r` accessor — leave the symbol table as it was, whatever their outcome: no
    variable can appear changed because of them. -/
theorem library_no_assign (b : Bi) (hb : b ∈ libraryFns ∨ (Bi.cxrPath? b).isSome = true)
    (args : Val) : KeepSyms (callBuiltin r b args) := by
  rcases hb with hb | hb
  · simp only [libraryFns, List.mem_cons, List.not_mem_nil, or_false] at hb
    rcases hb with h | h | h | h | h | h | h | h | h | h | h | h <;> subst h
    · exact keepSyms_append r hr args
    · exact keepSyms_length r hr args
    · exact keepSyms_nth r hr args
    · exact keepSyms_nthcdr r hr args
    · exact keepSyms_last r hr args
    · exact keepSyms_plistGet r hr args
    · exact keepSyms_equal r hr args
    · exact keepSyms_eq r hr args
    · exact keepSyms_cons r hr args
    · exact keepSyms_list r hr args
    · exact keepSyms_concat r hr args
    · exact keepSyms_format r hr args
  · cases hp : Bi.cxrPath? b with
    | none => rw [hp] at hb; cases hb
    | some path => exact keepSyms_cxr r hr b path hp args

end keep

/-- an evaluator satisfying the hypotheses of (a) and (b): it looks variables up and returns
    everything else unchanged -/
def lookupRec : Rec :=
  ⟨fun v => match v with | .sym n => getSym n | .quote x => pure x | other => pure other,
   fun v => pure v, fun _ => pure .nil⟩

theorem lookupRec_keep : ∀ v, KeepSyms (lookupRec.eval v) := by
  intro v c
  cases v <;> first
    | rfl
    | (show (getSym _ c).2.syms = c.syms
       unfold getSym
       simp only
       split
       · rfl
       · split <;> rfl)

theorem lookupRec_mono : MonoRec lookupRec := by
  refine ⟨fun v c => ?_, fun v c => Nat.le_refl _⟩
  cases v <;> first
    | exact Nat.le_refl _
    | (show c.nextId ≤ (getSym _ c).2.nextId
       unfold getSym
       simp only
       split
       · exact Nat.le_refl _
       · split <;> exact Nat.le_refl _)

example (args : Val) : KeepSyms (callBuiltin lookupRec .append_ args) :=
  library_no_assign lookupRec lookupRec_keep .append_ (Or.inl (by simp [libraryFns])) args

example (args : Val) : KeepSyms (callBuiltin lookupRec .caddr args) :=
  library_no_assign lookupRec lookupRec_keep .caddr (Or.inr rfl) args

/-- non-vacuity of (a): `(append x x)` with `x = (1 2)` stored in symbol 0 — a successful call
    of a monotone evaluator; the result's cells 7–10 are all new (3–6 went into the two
    intermediate copies) -/
example :
    let x : Val := .cons 1 (.int 1) (.cons 2 (.int 2) .nil)
    let c : Ctx := { syms := #[{ name := "x", items := [x] }], nextId := 3 }
    (callBuiltin lookupRec .append_ (.cons 0 (.sym 0) (.cons 0 (.sym 0) .nil)) c).1
      = .ok (.cons 7 (.int 1) (.cons 8 (.int 2) (.cons 9 (.int 1) (.cons 10 (.int 2) .nil)))) := by
  rfl

example (args : Val) (c c' : Ctx) (w : Val)
    (h : callBuiltin lookupRec .append_ args c = (.ok w, c')) : SpineIn c.nextId c'.nextId w :=
  append_fresh lookupRec lookupRec_mono args c c' w h


/-! ## (c) literals -/

/-- `(quote v)` evaluates to the literal object `v` itself (same identities): no copy is made,
    which is why nothing may ever write to it — and in the model nothing can. -/
theorem quote_returns_literal (r : Rec) (v : Val) : evalStep r (.quote v) = pure v := rfl

/-- evaluating a quoted constant any number of times, in any states, yields the same object and
    leaves the state alone -/
theorem quote_stable (r : Rec) (v : Val) (c : Ctx) : evalStep r (.quote v) c = (.ok v, c) := rfl

/-- calling a lambda runs the body stored in the function object … -/
theorem lambda_call_uses_body (r : Rec) (evaluate : Bool) (i : Nat) (ps : Params)
    (body args : Val) :
    funcallVal r evaluate (.lambda i ps body) args = evalLambda r evaluate ps body args := rfl

/-- … and every re-entry of the trampoline (a self tail call) runs that same body again:
    a call never returns, or continues with, a modified body. -/
theorem bounce_reenters_same_body (r : Rec) (ps : Params) (body : Val) (k i : Nat) (vals : Val) :
    bounceLoop r ps body (k + 1) (.cons i .bounce vals) = (do
      let res' ← evalFunction r false ps body vals
      bounceLoop r ps body k res') := rfl

/-- The body `(append '(1 2) '(3))` of a function: each evaluation returns a list with a fresh
    spine holding 1 2 3 — whatever a caller does with that result, the literals `'(1 2)` and
    `'(3)` in the function body are the same objects at the next call.  (Stated for the
    `append` built-in applied to the two quoted literals `l1`, `l2` with any identities, and any
    evaluator that evaluates `quote` forms the way `evalStep` does.) -/
theorem append_of_literals_fresh (r : Rec) (hq : ∀ v c, r.eval (.quote v) c = (.ok v, c))
    (i j : Nat) (l1 l2 : Val) (h1 : l1.spine.2 = .nil) (h2 : l2.spine.2 = .nil) (c : Ctx) :
    ∃ w c', callBuiltin r .append_ (.cons i (.quote l1) (.cons j (.quote l2) .nil)) c
        = (.ok w, c') ∧
      w.spine = (l1.elems ++ l2.elems, .nil) ∧ SpineIn c.nextId c'.nextId w ∧
      OnlyNextId c c' := by
  have e1 : nextArg r (.cons i (.quote l1) (.cons j (.quote l2) .nil)) c
      = (.ok (l1, .cons j (.quote l2) .nil), c) := by
    show (r.eval (.quote l1) >>= fun v => pure (v, Val.cons j (.quote l2) .nil)) c = _
    rw [C12.bind_ok _ (hq l1 c)]; rfl
  have e2 : evalEach r (.cons j (.quote l2) .nil) c = (.ok [l2], c) := by
    show (r.eval (.quote l2) >>= fun v => evalEach r .nil >>= fun vs => pure (v :: vs)) c = _
    rw [C12.bind_ok _ (hq l2 c)]; rfl
  have hrun : callBuiltin r .append_ (.cons i (.quote l1) (.cons j (.quote l2) .nil)) c
      = C12.appendVals l1 [l2] c := by
    rw [C12.callBuiltin_append, C12.bind_ok _ e1]
    show (evalEach r (.cons j (.quote l2) .nil) >>= fun others => C12.appendVals l1 others) c = _
    rw [C12.bind_ok _ e2]
  obtain ⟨w, c', hw, hs⟩ := appendVals_proper l1 [l2] c h1 (by simpa using h2)
  refine ⟨w, c', by rw [hrun, hw], by simpa using hs, appendVals_fresh l1 [l2] c c' w hw, ?_⟩
  have := idOnly_appendVals l1 [l2] c
  rw [hw] at this
  exact this

end Tulisp.C11
