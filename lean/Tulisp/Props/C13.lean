/-
  Props/C13.lean — C13: the numeric tower.

  "+, -, *, /, mod, 1+ and 1- compute the mathematically specified result for all integer and
  float arguments: integer operands give integer results, any float operand makes the result a
  float, integer division truncates toward zero and mod takes the sign of the divisor.  max and
  min return a number equal to the largest and smallest argument, a comparison chain with <, <=,
  > or >= holds exactly when every adjacent pair does, and arguments that are not numbers are
  rejected with an error."

  Sections
    1  integer laws of the binary step `arith` (add, sub, mul, div)
    2  mod
    3  float contagion (binary step and n-ary fold)
    4  max / min
    5  comparison chains
    6  non-numbers are rejected
    7  n-ary operations are left folds, arguments evaluated once, in order
    8  1+ / 1-
    9  dispatch: the cases of `callBuiltin`, and end-to-end statements for number literals
   10  non-vacuity examples

  Argument lists: `args.spine.2 = .nil` says that `args` is a proper list.  `reduceRest` /
  `reduceWith` (`+ * - max min`) refuse an improper argument list (dotted tail, or an atom in
  argument position) with a type error, after the arguments before the tail have been evaluated
  and folded in; the theorems of sections 6, 7 and 9 come in pairs, proper list / `_improper`,
  `_dotted`, `_atom_rejects`.

  About floats only *which* IEEE operation is applied to *which* operands and the type of the
  result is stated (Lean's `Float` is opaque).
-/
import Tulisp.Proofs.C13
import Tulisp.Model.Load
namespace Tulisp.C13
open Tulisp

/-! ## 1. integer laws -/

theorem add_int (a b : Int) :
    arith .add (.i a) (.i b) = if inI64 (a + b) then .ok (.i (a + b)) else .error .range := rfl

theorem sub_int (a b : Int) :
    arith .sub (.i a) (.i b) = if inI64 (a - b) then .ok (.i (a - b)) else .error .range := rfl

theorem mul_int (a b : Int) :
    arith .mul (.i a) (.i b) = if inI64 (a * b) then .ok (.i (a * b)) else .error .range := rfl

/-- Integer division is `Int.tdiv`, which truncates toward zero: the remainder `Int.tmod a b`
    satisfies `a = b * q + r`, `|r| < |b|` and has the sign of the dividend (or is zero). -/
theorem div_trunc (a b : Int) (hb : b ≠ 0) :
    arith .div (.i a) (.i b)
        = (if inI64 (Int.tdiv a b) then .ok (.i (Int.tdiv a b)) else .error .range)
    ∧ a = b * Int.tdiv a b + Int.tmod a b
    ∧ (Int.tmod a b).natAbs < b.natAbs
    ∧ (0 ≤ a → 0 ≤ Int.tmod a b) ∧ (a ≤ 0 → Int.tmod a b ≤ 0) := by
  refine ⟨?_, (Int.mul_tdiv_add_tmod a b).symm, natAbs_tmod_lt a hb, tmod_sign a b⟩
  simp [arith, iop, hb, chk]

example : (7 : Int) ≠ 0 := by decide

/-- ... and these three conditions determine the quotient: any `q`, `r` with `a = b*q + r`,
    `|r| < |b|`, `r` of the sign of `a`, are the quotient and remainder computed by the model. -/
theorem div_trunc_unique (a b q r : Int) (hb : b ≠ 0) (h : a = b * q + r)
    (hr : r.natAbs < b.natAbs) (hpos : 0 ≤ a → 0 ≤ r) (hneg : a ≤ 0 → r ≤ 0) :
    arith .div (.i a) (.i b) = (if inI64 q then .ok (.i q) else .error .range) := by
  obtain ⟨hq, _⟩ := tdiv_tmod_unique hb h hr hpos hneg
  rw [(div_trunc a b hb).1, hq]

example : (-7 : Int) = 2 * (-3) + (-1) ∧ (-1 : Int).natAbs < (2 : Int).natAbs := by decide

/-- magnitude form of truncation: `|a / b| = ⌊|a| / |b|⌋` -/
theorem div_trunc_natAbs (a b : Int) : (Int.tdiv a b).natAbs = a.natAbs / b.natAbs :=
  Int.natAbs_tdiv a b

theorem div_zero (a : Int) : arith .div (.i a) (.i 0) = .error .range := rfl

/-- For operands in the i64 range the only overflowing quotient is `i64::MIN / -1`. -/
theorem div_inRange_iff (a b : Int) (ha : inI64 a = true) (hb : inI64 b = true) (hb0 : b ≠ 0) :
    inI64 (Int.tdiv a b) = true ↔ ¬ (a = i64Min ∧ b = -1) :=
  tdiv_inI64_iff ha hb hb0

theorem div_error_iff (a b : Int) (ha : inI64 a = true) (hb : inI64 b = true) :
    arith .div (.i a) (.i b) = .error .range ↔ (b = 0 ∨ (a = i64Min ∧ b = -1)) := by
  by_cases hb0 : b = 0
  · subst hb0; simp [div_zero]
  · rw [(div_trunc a b hb0).1]
    have := tdiv_inI64_iff ha hb hb0
    cases h : inI64 (Int.tdiv a b) <;> simp_all

example : inI64 5 = true ∧ inI64 (-3) = true := by decide

/-! ## 2. mod -/

/-- `mod` is the floored remainder: its sign is that of the divisor, it is congruent to the
    dividend, and it never overflows. -/
theorem mod_sign (a b : Int) (hb : b ≠ 0) :
    arith .mod (.i a) (.i b)
        = (if inI64 (Int.fmod a b) then .ok (.i (Int.fmod a b)) else .error .range)
    ∧ ((0 ≤ Int.fmod a b ∧ Int.fmod a b < b) ∨ (b < Int.fmod a b ∧ Int.fmod a b ≤ 0))
    ∧ (∃ q, a = b * q + Int.fmod a b) := by
  refine ⟨?_, fmod_bounds a hb, fmod_decomp a b⟩
  simp [arith, iop, hb, chk]

theorem mod_inRange (a b : Int) (ha : inI64 a = true) (hb : inI64 b = true) (hb0 : b ≠ 0) :
    inI64 (Int.fmod a b) = true := fmod_inI64 ha hb hb0

/-- no spurious range error: for i64 operands and a non-zero divisor `mod` succeeds. -/
theorem mod_ok (a b : Int) (_ha : inI64 a = true) (hb : inI64 b = true) (hb0 : b ≠ 0) :
    arith .mod (.i a) (.i b) = .ok (.i (Int.fmod a b)) := by
  rw [(mod_sign a b hb0).1, fmod_inI64 _ha hb hb0]; rfl

/-- the two conditions determine the result -/
theorem mod_unique (a b q r : Int) (ha : inI64 a = true) (hb : inI64 b = true) (hb0 : b ≠ 0)
    (h : a = b * q + r) (hr : (0 ≤ r ∧ r < b) ∨ (b < r ∧ r ≤ 0)) :
    arith .mod (.i a) (.i b) = .ok (.i r) := by
  rw [fmod_unique hb0 h hr]; exact mod_ok a b ha hb hb0

example : (-7 : Int) = 2 * (-4) + 1 ∧ ((0 : Int) ≤ 1 ∧ (1 : Int) < 2) := by decide

theorem mod_zero (a : Int) : arith .mod (.i a) (.i 0) = .error .range := rfl

/-! ## 3. contagion -/

/-- the number is a float -/
def IsFloat (n : Num) : Prop := ∃ b, n = .f b
/-- the number is an integer -/
def IsInt (n : Num) : Prop := ∃ k, n = .i k

theorem isFloat_or_isInt (n : Num) : IsFloat n ∨ IsInt n := by
  cases n with
  | i k => exact Or.inr ⟨k, rfl⟩
  | f b => exact Or.inl ⟨b, rfl⟩

theorem not_isFloat_iff (n : Num) : ¬ IsFloat n ↔ IsInt n := by
  cases n <;> simp [IsFloat, IsInt]

/-- the mathematical integer operation behind each operator -/
def iopZ : ArithOp → Int → Int → Int
  | .add, a, b => a + b
  | .sub, a, b => a - b
  | .mul, a, b => a * b
  | .div, a, b => Int.tdiv a b
  | .mod, a, b => Int.fmod a b

/-- integer operands: the result is the mathematical one, an integer in the i64 range -/
theorem int_closed (op : ArithOp) (a b : Int) (r : Num) (h : arith op (.i a) (.i b) = .ok r) :
    r = .i (iopZ op a b) ∧ inI64 (iopZ op a b) = true := by
  cases op <;> simp only [arith, iop, chk, iopZ] at h ⊢ <;>
    (repeat' split at h) <;> simp_all

/-- integer operands never fail with anything but a range error -/
theorem int_error (op : ArithOp) (a b : Int) (e : NumErr) (h : arith op (.i a) (.i b) = .error e) :
    e = .range := by
  cases op <;> simp only [arith, iop, chk] at h <;>
    (repeat' split at h) <;> simp_all

/-- integer operands: the exact outcome -/
theorem int_exact (op : ArithOp) (a b : Int) :
    arith op (.i a) (.i b) =
      if (op = .div ∨ op = .mod) ∧ b = 0 then .error .range
      else if inI64 (iopZ op a b) then .ok (.i (iopZ op a b)) else .error .range := by
  cases op <;> by_cases hb : b = 0 <;> simp [arith, iop, chk, iopZ, hb] <;> rfl

/-- a float operand: the IEEE operation `fop op` is applied to the operands converted with
    `asF64` (a float as it is, an integer through `intToF64`), and this cannot fail -/
theorem float_step (op : ArithOp) (a b : Num) (h : IsFloat a ∨ IsFloat b) :
    arith op a b = .ok (.f (fop op a.asF64 b.asF64)) := by
  rcases h with ⟨x, rfl⟩ | ⟨y, rfl⟩
  · rfl
  · cases a <;> rfl

theorem asF64_float (x : UInt64) : (Num.f x).asF64 = x := rfl
theorem asF64_int (n : Int) : (Num.i n).asF64 = intToF64 n := rfl
theorem fop_add (x y : UInt64) : fop .add x y = (Float.ofBits x + Float.ofBits y).toBits := rfl
theorem fop_sub (x y : UInt64) : fop .sub x y = (Float.ofBits x - Float.ofBits y).toBits := rfl
theorem fop_mul (x y : UInt64) : fop .mul x y = (Float.ofBits x * Float.ofBits y).toBits := rfl
theorem fop_div (x y : UInt64) : fop .div x y = (Float.ofBits x / Float.ofBits y).toBits := rfl

/-- the result is a float exactly when one of the operands is -/
theorem contagion (op : ArithOp) (a b r : Num) (h : arith op a b = .ok r) :
    IsFloat r ↔ (IsFloat a ∨ IsFloat b) := by
  cases a with
  | f x => simp [arith] at h; subst h; simp [IsFloat]
  | i x =>
    cases b with
    | f y => simp [arith] at h; subst h; simp [IsFloat]
    | i y =>
      obtain ⟨hr, _⟩ := int_closed op x y r h
      subst hr; simp [IsFloat]

/-- integer operands give an integer result or a range error, never a float -/
theorem int_never_float (op : ArithOp) (a b : Int) :
    (∃ n, arith op (.i a) (.i b) = .ok (.i n) ∧ inI64 n = true) ∨
    arith op (.i a) (.i b) = .error .range := by
  cases h : arith op (.i a) (.i b) with
  | ok r =>
    obtain ⟨hr, hin⟩ := int_closed op a b r h
    exact Or.inl ⟨_, by rw [hr], hin⟩
  | error e => rw [int_error op a b e h]; exact Or.inr rfl

/-- `arith` never reports a type error (non-numbers are rejected before, by `numOf`) -/
theorem arith_error (op : ArithOp) (a b : Num) (e : NumErr) (h : arith op a b = .error e) :
    e = .range := by
  cases a with
  | f x => simp [arith] at h
  | i x =>
    cases b with
    | f y => simp [arith] at h
    | i y => exact int_error op x y e h

/-- n-ary contagion: the value of a left fold over any number of operands is a float exactly
    when one of the operands is. -/
theorem contagion_fold (op : ArithOp) (ns : List Num) :
    ∀ (a r : Num), List.foldlM (arith op) a ns = .ok r →
      (IsFloat r ↔ (IsFloat a ∨ ∃ n ∈ ns, IsFloat n)) := by
  induction ns with
  | nil => intro a r h; simp [pure, Except.pure] at h; subst h; simp
  | cons n ns ih =>
    intro a r h
    rw [List.foldlM_cons] at h
    cases h1 : arith op a n with
    | error e => rw [h1] at h; simp [bind, Except.bind] at h
    | ok x =>
      rw [h1] at h
      have h2 := ih x r (by simpa [bind, Except.bind] using h)
      have h3 := contagion op a n x h1
      rw [h2, h3]
      simp only [List.mem_cons, exists_eq_or_imp]
      exact or_assoc

/-- n-ary integer arithmetic: whenever a fold over integers succeeds, its value is the
    mathematical left fold. -/
theorem int_fold (op : ArithOp) (bs : List Int) :
    ∀ (a : Int) (r : Num), List.foldlM (arith op) (.i a) (bs.map .i) = .ok r →
      r = .i (bs.foldl (iopZ op) a) := by
  induction bs with
  | nil => intro a r h; simp [pure, Except.pure] at h; subst h; rfl
  | cons b bs ih =>
    intro a r h
    rw [List.map_cons, List.foldlM_cons] at h
    cases h1 : arith op (.i a) (.i b) with
    | error e => rw [h1] at h; simp [bind, Except.bind] at h
    | ok x =>
      rw [h1] at h
      obtain ⟨hx, _⟩ := int_closed op a b x h1
      subst hx
      exact ih _ r (by simpa [bind, Except.bind] using h)

/-- ... and a fold over integers can only fail with a range error -/
theorem int_fold_error (op : ArithOp) (ns : List Num) :
    ∀ (a : Num) (e : NumErr), List.foldlM (arith op) a ns = .error e → e = .range := by
  induction ns with
  | nil => intro a e h; simp [pure, Except.pure] at h
  | cons n ns ih =>
    intro a e h
    rw [List.foldlM_cons] at h
    cases h1 : arith op a n with
    | error e' =>
      rw [h1] at h
      have : e' = e := by simpa [bind, Except.bind] using h
      subst this
      exact arith_error op a n _ h1
    | ok x =>
      rw [h1] at h
      exact ih x e (by simpa [bind, Except.bind] using h)

/-- Conversely: when every intermediate result is in range (and no divisor is zero) the
    fold over integers succeeds. -/
theorem int_fold_ok (op : ArithOp) (bs : List Int) :
    ∀ (a : Int),
      ((op = .div ∨ op = .mod) → ∀ b ∈ bs, b ≠ 0) →
      (∀ k, 0 < k → k ≤ bs.length → inI64 ((bs.take k).foldl (iopZ op) a) = true) →
      List.foldlM (arith op) (.i a) (bs.map .i) = .ok (.i (bs.foldl (iopZ op) a)) := by
  induction bs with
  | nil => intro a _ _; rfl
  | cons b bs ih =>
    intro a hz hk
    have h1 : arith op (.i a) (.i b) = .ok (.i (iopZ op a b)) := by
      rw [int_exact]
      have hb : (op = .div ∨ op = .mod) → b ≠ 0 := fun h => hz h b (by simp)
      have hr := hk 1 (by omega) (by simp)
      simp only [List.take_succ_cons, List.take_zero, List.foldl_cons, List.foldl_nil] at hr
      rw [if_neg (fun h => hb h.1 h.2), if_pos hr]
    rw [List.map_cons, List.foldlM_cons, h1]
    simp only [bind, Except.bind, List.foldl_cons]
    apply ih
    · intro h b' hb'; exact hz h b' (by simp [hb'])
    · intro k hk0 hkl
      have := hk (k + 1) (by omega) (by simp; omega)
      simpa using this

/-! ## 4. max / min -/

theorem max_int (a b : Int) : maxMin true (.i a) (.i b) = .i (max a b) := by
  simp only [maxMin, ite_true]; congr 1; try omega

theorem min_int (a b : Int) : maxMin false (.i a) (.i b) = .i (min a b) := by
  simp only [maxMin, Bool.false_eq_true, ite_false]; congr 1; try omega

/-- a float operand: `f64::max` / `f64::min` of the converted operands -/
theorem maxMin_float (isMax : Bool) (a b : Num) (h : IsFloat a ∨ IsFloat b) :
    maxMin isMax a b = .f (if isMax then fmax a.asF64 b.asF64 else fmin a.asF64 b.asF64) := by
  rcases h with ⟨x, rfl⟩ | ⟨y, rfl⟩
  · rfl
  · cases a <;> rfl

/-- contagion for max / min -/
theorem maxMin_contagion (isMax : Bool) (a b : Num) :
    IsFloat (maxMin isMax a b) ↔ (IsFloat a ∨ IsFloat b) := by
  cases a <;> cases b <;> simp [maxMin, IsFloat]

theorem maxMin_fold_contagion (isMax : Bool) (ns : List Num) :
    ∀ a : Num, IsFloat (ns.foldl (maxMin isMax) a) ↔ (IsFloat a ∨ ∃ n ∈ ns, IsFloat n) := by
  induction ns with
  | nil => intro a; simp
  | cons n ns ih =>
    intro a
    rw [List.foldl_cons, ih, maxMin_contagion]
    simp only [List.mem_cons, exists_eq_or_imp]
    exact or_assoc

/-- `(max a b₁ … bₙ)` on integers: an integer, one of the arguments, and ≥ all of them -/
theorem max_fold (bs : List Int) : ∀ a : Int,
    ∃ m, List.foldl (maxMin true) (.i a) (bs.map .i) = .i m ∧ m ∈ a :: bs ∧ ∀ x ∈ a :: bs, x ≤ m := by
  induction bs with
  | nil => intro a; exact ⟨a, rfl, by simp, by simp⟩
  | cons b bs ih =>
    intro a
    obtain ⟨m, hm, hmem, hle⟩ := ih (max a b)
    refine ⟨m, ?_, ?_, ?_⟩
    · rw [List.map_cons, List.foldl_cons, max_int]; exact hm
    · simp only [List.mem_cons] at hmem ⊢
      rcases hmem with h | h
      · rcases Int.le_total a b with hab | hab
        · right; left; omega
        · left; omega
      · right; right; exact h
    · intro x hx
      have h1 := hle (max a b) (by simp)
      simp only [List.mem_cons] at hx
      rcases hx with rfl | rfl | hx
      · omega
      · omega
      · exact hle x (by simp [hx])

theorem min_fold (bs : List Int) : ∀ a : Int,
    ∃ m, List.foldl (maxMin false) (.i a) (bs.map .i) = .i m ∧ m ∈ a :: bs ∧ ∀ x ∈ a :: bs, m ≤ x := by
  induction bs with
  | nil => intro a; exact ⟨a, rfl, by simp, by simp⟩
  | cons b bs ih =>
    intro a
    obtain ⟨m, hm, hmem, hle⟩ := ih (min a b)
    refine ⟨m, ?_, ?_, ?_⟩
    · rw [List.map_cons, List.foldl_cons, min_int]; exact hm
    · simp only [List.mem_cons] at hmem ⊢
      rcases hmem with h | h
      · rcases Int.le_total a b with hab | hab
        · left; omega
        · right; left; omega
      · right; right; exact h
    · intro x hx
      have h1 := hle (min a b) (by simp)
      simp only [List.mem_cons] at hx
      rcases hx with rfl | rfl | hx
      · omega
      · omega
      · exact hle x (by simp [hx])

/-! ## 5. comparison chains -/

theorem cmp_int (op : CmpOp) (a b : Int) :
    cmpNum op (.i a) (.i b) = match op with
      | .lt => decide (a < b) | .le => decide (a ≤ b) | .gt => decide (a > b) | .ge => decide (a ≥ b) := by
  cases op <;> rfl

/-- a float operand: the IEEE comparison of the converted operands -/
theorem cmp_float (op : CmpOp) (a b : Num) (h : IsFloat a ∨ IsFloat b) :
    cmpNum op a b = op.flt (Float.ofBits a.asF64) (Float.ofBits b.asF64) := by
  rcases h with ⟨x, rfl⟩ | ⟨y, rfl⟩
  · rfl
  · cases a <;> rfl

/-- every element is a number -/
theorem allNums_eq_some_iff (vals : List Val) (ns : List Num) :
    allNums vals = some ns ↔ vals.map Val.toNum? = ns.map some := by
  induction vals generalizing ns with
  | nil => cases ns <;> simp [allNums]
  | cons v vs ih =>
    cases ns with
    | nil =>
      cases hv : v.toNum? <;> cases hvs : allNums vs <;> simp [allNums, hv, hvs]
    | cons m ms =>
      cases hv : v.toNum? with
      | none => simp [allNums, hv]
      | some n =>
        cases hvs : allNums vs with
        | none =>
          have : ¬ (vs.map Val.toNum? = ms.map some) := fun h => by
            have := (ih ms).mpr h; simp [hvs] at this
          simp [allNums, hv, hvs, this]
        | some ms' =>
          have h1 := (ih ms').mp hvs
          simp only [allNums, hv, hvs, List.map_cons, h1]
          simp only [bind, Option.bind, pure, Option.some.injEq, List.cons.injEq]
          rw [List.map_inj_right (fun _ _ h => Option.some.inj h)]

/-- some element is not a number -/
theorem allNums_eq_none_iff (vals : List Val) :
    allNums vals = none ↔ ∃ v ∈ vals, v.toNum? = none := by
  induction vals with
  | nil => simp [allNums]
  | cons v vs ih =>
    cases hv : v.toNum? with
    | none => simp [allNums, hv]
    | some n =>
      cases hvs : allNums vs with
      | none =>
        have := ih.mp hvs
        simp [allNums, hv, hvs, this]
      | some ms =>
        have : ¬ ∃ v ∈ vs, v.toNum? = none := fun h => by simp [ih.mpr h] at hvs
        simp only [allNums, hv, hvs, List.mem_cons, exists_eq_or_imp]
        simp only [bind, Option.bind, pure]
        simp [this]

theorem allNums_toVal (ns : List Num) : allNums (ns.map Num.toVal) = some ns := by
  rw [allNums_eq_some_iff, List.map_map]
  apply List.map_congr_left
  intro n _; cases n <;> rfl

/-- A chain of numbers is accepted or refused by `chainHolds`, without touching the context. -/
theorem cmpChain_spec (op : CmpOp) (vals : List Val) (ns : List Num)
    (h : allNums vals = some ns) (c : Ctx) :
    cmpChain op vals c = (.ok (ofBool (chainHolds op ns)), c) := by
  simp only [cmpChain, h]; rfl

example : allNums [.int 1, .float 0, .int 3] = some [.i 1, .f 0, .i 3] := by decide

/-- ... and `chainHolds` is true exactly when every adjacent pair compares true. -/
theorem chainHolds_iff (op : CmpOp) (ns : List Num) :
    chainHolds op ns = true ↔
      ∀ (i : Nat) (h : i + 1 < ns.length), cmpNum op ns[i] ns[i + 1] = true := by
  induction ns with
  | nil => simp [chainHolds]
  | cons a rest ih =>
    cases rest with
    | nil => simp [chainHolds]
    | cons b rest =>
      rw [chainHolds, Bool.and_eq_true, ih]
      constructor
      · rintro ⟨h0, hrest⟩ i hi
        cases i with
        | zero => exact h0
        | succ j =>
          have := hrest j (by simp at hi ⊢; omega)
          simpa using this
      · intro h
        refine ⟨h 0 (by simp), fun i hi => ?_⟩
        have := h (i + 1) (by simp at hi ⊢; omega)
        simpa using this

/-- the truth value returned is `t` exactly when the chain holds -/
theorem ofBool_eq_t_iff (b : Bool) : ofBool b = .t ↔ b = true := by
  cases b <;> simp [ofBool]

/-- A chain with an element that is not a number is a type error. -/
theorem cmpChain_rejects (op : CmpOp) (vals : List Val)
    (h : ∃ v ∈ vals, v.toNum? = none) (c : Ctx) :
    cmpChain op vals c = (.err .typeMismatch, c) := by
  simp only [cmpChain, (allNums_eq_none_iff vals).mpr h]; rfl

example : ∃ v ∈ [Val.int 1, Val.nil], v.toNum? = none := ⟨.nil, by simp, rfl⟩

/-! ## 6. non-numbers are rejected -/

theorem toNum?_eq_none_iff (v : Val) : v.toNum? = none ↔ v.isNumber = false :=
  toNum?_none_iff v

theorem toNum?_toVal (n : Num) : n.toVal.toNum? = some n := by cases n <;> rfl

/-- two numbers: the binary step on values is the binary step on numbers -/
theorem arithV_nums (op : ArithOp) (x y : Num) :
    arithV op x.toVal y.toVal = liftNum (arith op x y) := by
  funext c
  simp only [arithV, bind_apply, M.bind_ok (numOf_some (toNum?_toVal x) c),
    M.bind_ok (numOf_some (toNum?_toVal y) c)]

theorem arithV_rejects (op : ArithOp) (a b : Val) (h : a.toNum? = none ∨ b.toNum? = none)
    (c : Ctx) : arithV op a b c = (.err .typeMismatch, c) := by
  simp only [arithV, bind_apply]
  rcases numOf_cases a c with ⟨n, _, hn⟩ | ⟨_, hn⟩
  · rw [M.bind_ok hn]
    rcases h with h | h
    · simp_all
    · rw [bind_apply, M.bind_err (numOf_none h c)]
  · rw [M.bind_err hn]

theorem maxMinV_nums (isMax : Bool) (x y : Num) :
    maxMinV isMax x.toVal y.toVal = pure (maxMin isMax x y).toVal := by
  funext c
  simp only [maxMinV, bind_apply, M.bind_ok (numOf_some (toNum?_toVal x) c),
    M.bind_ok (numOf_some (toNum?_toVal y) c)]

theorem maxMinV_rejects (isMax : Bool) (a b : Val) (h : a.toNum? = none ∨ b.toNum? = none)
    (c : Ctx) : maxMinV isMax a b c = (.err .typeMismatch, c) := by
  simp only [maxMinV, bind_apply]
  rcases numOf_cases a c with ⟨n, _, hn⟩ | ⟨_, hn⟩
  · rw [M.bind_ok hn]
    rcases h with h | h
    · simp_all
    · rw [bind_apply, M.bind_err (numOf_none h c)]
  · rw [M.bind_err hn]

example : (Val.nil).toNum? = none ∨ (Val.int 1).toNum? = none := Or.inl rfl

/-- the equations of `reduceWith`: no argument ... -/
theorem reduceWith_nil (r : Rec) (method : Val → Val → M Val) :
    reduceWith r method .nil = pure .nil := rfl

/-- ... an argument "list" that is neither a cons cell nor `nil` is a type error ... -/
theorem reduceWith_atom_rejects (r : Rec) (method : Val → Val → M Val) (args : Val)
    (h : args.isCons = false) (hn : args ≠ .nil) :
    reduceWith r method args = M.throw .typeMismatch := by
  cases args <;> first | rfl | exact absurd rfl hn | simp [Val.isCons] at h

/-- ... exactly one argument: it is evaluated and has to be a number ... -/
theorem reduceWith_single (r : Rec) (method : Val → Val → M Val) (i : Nat) (a : Val) :
    reduceWith r method (.cons i a .nil) =
      r.eval a >>= fun first => if first.isNumber then pure first else M.throw .typeMismatch :=
  rfl

/-- ... one argument followed by a dotted tail (an improper argument list): the argument is
    evaluated, then the list is refused with a type error, whatever the value was ... -/
theorem reduceWith_dotted (r : Rec) (method : Val → Val → M Val) (i : Nat) (a d : Val)
    (h : d.isCons = false) (hn : d ≠ .nil) :
    reduceWith r method (.cons i a d) = r.eval a >>= fun _ => M.throw .typeMismatch := by
  cases d <;> first | rfl | exact absurd rfl hn | simp [Val.isCons] at h

/-- ... two or more: the first value is the initial accumulator of `reduceRest`. -/
theorem reduceWith_many (r : Rec) (method : Val → Val → M Val) (i j : Nat) (a b d : Val) :
    reduceWith r method (.cons i a (.cons j b d)) =
      r.eval a >>= fun first => reduceRest r method first (.cons j b d) := rfl

/-- A single argument that evaluates to a non-number is a type error (for an arbitrary
    evaluator `r`). -/
theorem reduceWith_single_rejects (r : Rec) (method : Val → Val → M Val) (i : Nat) (a v : Val)
    (c c' : Ctx) (hev : r.eval a c = (.ok v, c'))
    (hv : v.isNumber = false) :
    reduceWith r method (.cons i a .nil) c = (.err .typeMismatch, c') := by
  rw [reduceWith_single r method i a, bind_apply, M.bind_ok hev, hv]; rfl

/-- A single argument that evaluates to a number is returned unchanged. -/
theorem reduceWith_single_number (r : Rec) (method : Val → Val → M Val) (i : Nat) (a v : Val)
    (c c' : Ctx) (hev : r.eval a c = (.ok v, c'))
    (hv : v.isNumber = true) :
    reduceWith r method (.cons i a .nil) c = (.ok v, c') := by
  rw [reduceWith_single r method i a, bind_apply, M.bind_ok hev, hv]; rfl

/-- A single argument followed by a dotted tail is a type error — number or not — after the
    argument has been evaluated (its effects on the context are kept). -/
theorem reduceWith_dotted_rejects (r : Rec) (method : Val → Val → M Val) (i : Nat) (a d v : Val)
    (c c' : Ctx) (hd : d.isCons = false) (hn : d ≠ .nil) (hev : r.eval a c = (.ok v, c')) :
    reduceWith r method (.cons i a d) c = (.err .typeMismatch, c') := by
  rw [reduceWith_dotted r method i a d hd hn, bind_apply, M.bind_ok hev]; rfl

example : (Val.int 3).isCons = false ∧ Val.int 3 ≠ .nil := ⟨rfl, by simp⟩

/-! ## 7. n-ary operations are left folds -/

theorem foldVals_nil (method : Val → Val → M Val) (acc : Val) :
    foldVals method acc [] = pure acc := rfl

theorem foldVals_cons (method : Val → Val → M Val) (acc v : Val) (vs : List Val) :
    foldVals method acc (v :: vs) = method acc v >>= fun a => foldVals method a vs := rfl

/-- `foldVals` is the monadic left fold -/
theorem foldVals_eq_foldlM (method : Val → Val → M Val) (vs : List Val) :
    ∀ acc, foldVals method acc vs = List.foldlM method acc vs := by
  induction vs with
  | nil => intro acc; rfl
  | cons v vs ih =>
    intro acc
    rw [foldVals_cons, List.foldlM_cons]
    congr 1; funext a; exact ih a

theorem foldVals_append (method : Val → Val → M Val) (vs ws : List Val) :
    ∀ acc, foldVals method acc (vs ++ ws)
      = foldVals method acc vs >>= fun a => foldVals method a ws := by
  induction vs with
  | nil =>
    intro acc
    show _ = M.bind (M.pure acc) _
    rw [M.pure_bind]; rfl
  | cons v vs ih =>
    intro acc
    show M.bind (method acc v) (fun a => foldVals method a (vs ++ ws))
       = M.bind (M.bind (method acc v) (fun a => foldVals method a vs)) _
    rw [M.bind_assoc]
    congr 1; funext a; exact ih a

/-- the three equations of `reduceRest` (arbitrary evaluator `r`): a cons cell — evaluate its
    form, apply `method` to the accumulator and the value, go on with the rest ... -/
theorem reduceRest_cons (r : Rec) (method : Val → Val → M Val) (acc : Val) (i : Nat) (a d : Val) :
    reduceRest r method acc (.cons i a d) =
      r.eval a >>= fun v => method acc v >>= fun acc' => reduceRest r method acc' d := rfl

/-- ... `nil` ends the list: the accumulator is the result ... -/
theorem reduceRest_nil (r : Rec) (method : Val → Val → M Val) (acc : Val) :
    reduceRest r method acc .nil = pure acc := rfl

/-- ... any other atom (the dotted tail of an improper argument list) is a type error. -/
theorem reduceRest_atom_rejects (r : Rec) (method : Val → Val → M Val) (acc d : Val)
    (h : d.isCons = false) (hn : d ≠ .nil) :
    reduceRest r method acc d = M.throw .typeMismatch := by
  cases d <;> first | rfl | exact absurd rfl hn | simp [Val.isCons] at h

/-- For every argument value, proper list or not: `reduceRest` is the left fold, over the
    argument *forms* in order, of the step "evaluate the form, then immediately apply `method`"
    (each form is evaluated exactly once), followed by `reduceRest` on the final tail
    `args.spine.2` of the list. -/
theorem reduceRest_eq_foldVals_tail (r : Rec) (method : Val → Val → M Val) (args : Val) :
    ∀ acc, reduceRest r method acc args =
      foldVals (fun acc a => r.eval a >>= fun v => method acc v) acc args.elems
        >>= fun acc' => reduceRest r method acc' args.spine.2 := by
  induction args with
  | cons i a d _ ihd =>
    intro acc
    rw [reduceRest_cons, spine_cons]
    show _ = M.bind (M.bind (M.bind (r.eval a) (fun v => method acc v)) _) _
    rw [M.bind_assoc, M.bind_assoc]
    show M.bind _ _ = _
    congr 1; funext v
    show M.bind _ _ = M.bind _ _
    congr 1; funext acc'
    exact ihd acc'
  | _ =>
    intro acc
    show _ = M.bind (M.pure acc) _
    rw [M.pure_bind]; rfl

/-- On a proper argument list (final tail `nil`) `reduceRest` is exactly that left fold. -/
theorem reduceRest_eq_foldVals (r : Rec) (method : Val → Val → M Val) (args : Val)
    (hp : args.spine.2 = .nil) :
    ∀ acc, reduceRest r method acc args =
      foldVals (fun acc a => r.eval a >>= fun v => method acc v) acc args.elems := by
  intro acc
  rw [reduceRest_eq_foldVals_tail, hp]
  exact M.bind_pure _

/-- On an improper argument list (final tail not `nil`) the same left fold runs first — every
    form is evaluated and folded in — and then the list is refused with a type error (unless the
    fold has already failed). -/
theorem reduceRest_eq_foldVals_improper (r : Rec) (method : Val → Val → M Val) (args : Val)
    (hp : args.spine.2 ≠ .nil) :
    ∀ acc, reduceRest r method acc args =
      foldVals (fun acc a => r.eval a >>= fun v => method acc v) acc args.elems
        >>= fun _ => M.throw .typeMismatch := by
  intro acc
  rw [reduceRest_eq_foldVals_tail]
  congr 1; funext acc'
  exact reduceRest_atom_rejects r method acc' _ (spine_snd_not_cons args) hp

/-- a cons list with the given cell identities and forms, ending in `tl` -/
def consList (xs : List (Nat × Val)) (tl : Val) : Val :=
  xs.foldr (fun p d => .cons p.1 p.2 d) tl

theorem elems_consList (xs : List (Nat × Val)) (tl : Val) :
    (consList xs tl).elems = xs.map (·.2) ++ tl.elems := by
  induction xs with
  | nil => rfl
  | cons p xs ih => simp [consList, Val.elems] at ih ⊢; exact ih

/-- the final tail of a `consList` is the final tail of its tail -/
theorem spine_snd_consList (xs : List (Nat × Val)) (tl : Val) :
    (consList xs tl).spine.2 = tl.spine.2 := by
  induction xs with
  | nil => rfl
  | cons p xs ih => exact ih

/-- every value is a `consList` over a non-cons tail -/
theorem exists_consList (v : Val) : ∃ xs tl, tl.isCons = false ∧ v = consList xs tl := by
  induction v with
  | cons i a d _ ihd =>
    obtain ⟨xs, tl, htl, rfl⟩ := ihd
    exact ⟨(i, a) :: xs, tl, htl, rfl⟩
  | _ => exact ⟨[], _, rfl, rfl⟩

/-- append lemma over the spine of the argument list -/
theorem reduceRest_append (r : Rec) (method : Val → Val → M Val) (xs : List (Nat × Val))
    (rest : Val) : ∀ acc,
    reduceRest r method acc (consList xs rest) =
      reduceRest r method acc (consList xs .nil) >>= fun a => reduceRest r method a rest := by
  induction xs with
  | nil =>
    intro acc
    show _ = M.bind (M.pure acc) _
    rw [M.pure_bind]; rfl
  | cons p xs ih =>
    intro acc
    show M.bind (r.eval p.2) (fun v => M.bind (method acc v)
          (fun acc' => reduceRest r method acc' (consList xs rest)))
       = M.bind (M.bind (r.eval p.2) (fun v => M.bind (method acc v)
          (fun acc' => reduceRest r method acc' (consList xs .nil)))) _
    rw [M.bind_assoc]
    congr 1; funext v
    rw [M.bind_assoc]
    congr 1; funext acc'
    exact ih acc'

/-- an evaluator that returns `g a` for the form `a` and leaves the context alone (such as the
    real evaluator on literals): the fold of "evaluate, then apply `method`" over the forms is
    then the fold of `method` over the values -/
theorem foldVals_eval_pure (r : Rec) (method : Val → Val → M Val) (g : Val → Val) (l : List Val)
    (hg : ∀ a ∈ l, ∀ c, r.eval a c = (.ok (g a), c)) :
    ∀ acc, foldVals (fun acc a => r.eval a >>= fun v => method acc v) acc l
      = foldVals method acc (l.map g) := by
  induction l with
  | nil => intro acc; rfl
  | cons a l ih =>
    intro acc
    rw [foldVals_cons, List.map_cons, foldVals_cons]
    have h1 : r.eval a = M.pure (g a) := by funext c; exact hg a (by simp) c
    show M.bind (M.bind (r.eval a) _) _ = M.bind _ _
    rw [h1, M.pure_bind]
    congr 1; funext a'
    exact ih (fun a ha c => hg a (by simp [ha]) c) a'

/-- ... so on a proper argument list `reduceRest` is the fold of `method` over the values -/
theorem reduceRest_pure (r : Rec) (method : Val → Val → M Val) (g : Val → Val) (args : Val)
    (hp : args.spine.2 = .nil)
    (hg : ∀ a ∈ args.elems, ∀ c, r.eval a c = (.ok (g a), c)) :
    ∀ acc, reduceRest r method acc args = foldVals method acc (args.elems.map g) := by
  intro acc
  rw [reduceRest_eq_foldVals r method args hp, foldVals_eval_pure r method g _ hg]

/-- ... and on an improper argument list it is that fold followed by a type error -/
theorem reduceRest_pure_improper (r : Rec) (method : Val → Val → M Val) (g : Val → Val)
    (args : Val) (hp : args.spine.2 ≠ .nil)
    (hg : ∀ a ∈ args.elems, ∀ c, r.eval a c = (.ok (g a), c)) :
    ∀ acc, reduceRest r method acc args =
      foldVals method acc (args.elems.map g) >>= fun _ => M.throw .typeMismatch := by
  intro acc
  rw [reduceRest_eq_foldVals_improper r method args hp, foldVals_eval_pure r method g _ hg]

/-- value level = number level: folding `arithV` over numbers is `liftNum` of the fold of
    `arith` in `Except`, for every argument count -/
theorem foldVals_arithV (op : ArithOp) (ns : List Num) : ∀ acc : Num,
    foldVals (arithV op) acc.toVal (ns.map Num.toVal) = liftNum (List.foldlM (arith op) acc ns) := by
  induction ns with
  | nil => intro acc; rfl
  | cons n ns ih =>
    intro acc
    rw [List.map_cons, foldVals_cons, List.foldlM_cons, arithV_nums]
    cases h : arith op acc n with
    | ok x =>
      show M.bind (M.pure x.toVal) _ = _
      rw [M.pure_bind, ih]; rfl
    | error e =>
      cases e <;> rfl

theorem foldVals_maxMinV (isMax : Bool) (ns : List Num) : ∀ acc : Num,
    foldVals (maxMinV isMax) acc.toVal (ns.map Num.toVal)
      = pure (List.foldl (maxMin isMax) acc ns).toVal := by
  induction ns with
  | nil => intro acc; rfl
  | cons n ns ih =>
    intro acc
    rw [List.map_cons, foldVals_cons, maxMinV_nums]
    show M.bind (M.pure _) _ = _
    rw [M.pure_bind, ih]; rfl


/-- a non-number among the operands, at any position and for any argument count: the fold over
    the numbers before it runs first (it may already have overflowed), then the non-number is
    refused with a type error; in no case is there a result. -/
theorem foldVals_arithV_rejects (op : ArithOp) (acc : Num) (ns : List Num) (v : Val)
    (ws : List Val) (hv : v.toNum? = none) (c : Ctx) :
    foldVals (arithV op) acc.toVal (ns.map Num.toVal ++ v :: ws) c =
      match List.foldlM (arith op) acc ns with
      | .ok _ => (.err .typeMismatch, c)
      | .error _ => (.err .outOfRange, c) := by
  rw [foldVals_append, foldVals_arithV, bind_apply]
  cases h : List.foldlM (arith op) acc ns with
  | ok x =>
    show M.bind (M.pure x.toVal) _ c = _
    rw [M.pure_bind, foldVals_cons, bind_apply,
      M.bind_err (arithV_rejects op x.toVal v (Or.inr hv) c)]
  | error e =>
    rw [int_fold_error op ns acc e h]; rfl

theorem foldVals_maxMinV_rejects (isMax : Bool) (acc : Num) (ns : List Num) (v : Val)
    (ws : List Val) (hv : v.toNum? = none) (c : Ctx) :
    foldVals (maxMinV isMax) acc.toVal (ns.map Num.toVal ++ v :: ws) c
      = (.err .typeMismatch, c) := by
  rw [foldVals_append, foldVals_maxMinV, bind_apply]
  show M.bind (M.pure _) _ c = _
  rw [M.pure_bind, foldVals_cons, bind_apply,
    M.bind_err (maxMinV_rejects isMax _ v (Or.inr hv) c)]

example : (Val.str 0 "x").toNum? = none := rfl

/-! ## 8. 1+ / 1- -/

theorem chk_spec (n : Int) : chk n = if inI64 n then .ok (.i n) else .error .range := rfl

theorem inI64_spec (n : Int) :
    inI64 n = true ↔ (-9223372036854775808 ≤ n ∧ n ≤ 9223372036854775807) := inI64_iff n

theorem i64_bounds : i64Min = -2 ^ 63 ∧ i64Max = 2 ^ 63 - 1 := by decide

theorem inI64_spec' (n : Int) : inI64 n = true ↔ (i64Min ≤ n ∧ n ≤ i64Max) := by
  rw [inI64_iff]; simp only [i64Min, i64Max]

/-- `(1+ n)` once the argument has been evaluated to the integer `n` -/
theorem inc_int (r : Rec) (args rest : Val) (n : Int) (c c' : Ctx)
    (h : nextArg r args c = (.ok (.int n, rest), c')) :
    callBuiltin r .inc args c =
      (if inI64 (n + 1) then .ok (.int (n + 1)) else .err .outOfRange, c') := by
  show M.bind (nextArg r args) _ c = _
  rw [M.bind_ok h]
  simp only [liftNum, chk]
  split <;> rfl

theorem dec_int (r : Rec) (args rest : Val) (n : Int) (c c' : Ctx)
    (h : nextArg r args c = (.ok (.int n, rest), c')) :
    callBuiltin r .dec args c =
      (if inI64 (n - 1) then .ok (.int (n - 1)) else .err .outOfRange, c') := by
  show M.bind (nextArg r args) _ c = _
  rw [M.bind_ok h]
  simp only [liftNum, chk]
  split <;> rfl

/-- a float argument: the IEEE sum with `1.0`, a float -/
theorem inc_float (r : Rec) (args rest : Val) (x : UInt64) (c c' : Ctx)
    (h : nextArg r args c = (.ok (.float x, rest), c')) :
    callBuiltin r .inc args c = (.ok (.float (Float.ofBits x + 1.0).toBits), c') := by
  show M.bind (nextArg r args) _ c = _
  rw [M.bind_ok h]; rfl

theorem dec_float (r : Rec) (args rest : Val) (x : UInt64) (c c' : Ctx)
    (h : nextArg r args c = (.ok (.float x, rest), c')) :
    callBuiltin r .dec args c = (.ok (.float (Float.ofBits x - 1.0).toBits), c') := by
  show M.bind (nextArg r args) _ c = _
  rw [M.bind_ok h]; rfl

/-- anything else is a type error -/
theorem inc_dec_rejects (r : Rec) (b : Bi) (hb : b = .inc ∨ b = .dec) (args rest v : Val)
    (c c' : Ctx) (h : nextArg r args c = (.ok (v, rest), c')) (hv : v.isNumber = false) :
    callBuiltin r b args c = (.err .typeMismatch, c') := by
  rcases hb with rfl | rfl
  · show M.bind (nextArg r args) _ c = _
    rw [M.bind_ok h]
    cases v <;> first | rfl | simp [Val.isNumber] at hv
  · show M.bind (nextArg r args) _ c = _
    rw [M.bind_ok h]
    cases v <;> first | rfl | simp [Val.isNumber] at hv

/-! ## 9. dispatch -/

theorem add_dispatch (r : Rec) (args : Val) :
    callBuiltin r .add args = reduceWith r (arithV .add) args := rfl
theorem mul_dispatch (r : Rec) (args : Val) :
    callBuiltin r .mul args = reduceWith r (arithV .mul) args := rfl
/-- `(- x)` is `0 - x` -/
theorem neg_dispatch (r : Rec) (i : Nat) (a : Val) :
    callBuiltin r .sub (.cons i a .nil) = r.eval a >>= fun v => arithV .sub (.int 0) v := rfl
theorem sub_dispatch (r : Rec) (i j : Nat) (a b d : Val) :
    callBuiltin r .sub (.cons i a (.cons j b d))
      = reduceWith r (arithV .sub) (.cons i a (.cons j b d)) := rfl
/-- `/`: all arguments are evaluated first; a single argument is divided into `1` (the
    reciprocal), a zero single argument is refused; with two or more arguments a zero among the
    divisors (integer or float) is refused before any division; then the left fold -/
theorem div_dispatch (r : Rec) (args : Val) :
    callBuiltin r .div args = evalEach r args >>= fun vs =>
      match vs with
      | [] => pure .nil
      | [x] => if isZeroNum x then M.throw .undefined else arithV .div (.int 1) x
      | first :: rest =>
        if rest.any isZeroNum then M.throw .undefined else foldVals (arithV .div) first rest := rfl
theorem max_dispatch (r : Rec) (args : Val) :
    callBuiltin r .max_ args = reduceWith r (maxMinV true) args := rfl
theorem min_dispatch (r : Rec) (args : Val) :
    callBuiltin r .min_ args = reduceWith r (maxMinV false) args := rfl
theorem mod_dispatch (r : Rec) (args : Val) :
    callBuiltin r .mod_ args = nextArg r args >>= fun p => nextArg r p.2 >>= fun q =>
      arithV .mod p.1 q.1 := rfl

/-- the comparison operator of a built-in -/
def cmpOf : Bi → Option CmpOp
  | .lt => some .lt | .le => some .le | .gt => some .gt | .ge => some .ge | _ => none

theorem cmp_dispatch (r : Rec) (b : Bi) (op : CmpOp) (hb : cmpOf b = some op) (args : Val) :
    callBuiltin r b args =
      if args.len < 2 then M.throw .outOfRange
      else evalEach r args >>= fun vs => cmpChain op vs := by
  cases b <;> simp [cmpOf] at hb <;> subst hb <;> rfl

/-- an evaluator on which numbers evaluate to themselves without effect (true of the real
    evaluator at every positive depth, see `selfEval_ofDepth`) -/
def SelfEval (r : Rec) : Prop := ∀ (n : Num) (c : Ctx), r.eval n.toVal c = (.ok n.toVal, c)

theorem selfEval_ofDepth (d : Nat) : SelfEval (Rec.ofDepth (d + 1)) := by
  intro n c; cases n <;> rfl

theorem isNumber_toVal (n : Num) : n.toVal.isNumber = true := by cases n <;> rfl

theorem evalEach_nums (r : Rec) (hr : SelfEval r) (args : Val) :
    ∀ (ns : List Num), args.elems = ns.map Num.toVal → ∀ c,
      evalEach r args c = (.ok (ns.map Num.toVal), c) := by
  induction args with
  | cons i a d _ ihd =>
    intro ns h c
    cases ns with
    | nil => simp [Val.elems] at h
    | cons n ns =>
      simp only [Val.elems, List.map_cons, List.cons.injEq] at h
      obtain ⟨rfl, h2⟩ := h
      show M.bind (r.eval n.toVal) _ c = _
      rw [M.bind_ok (hr n c)]
      show M.bind (evalEach r d) _ c = _
      rw [M.bind_ok (ihd ns h2 c)]
      rfl
  | _ =>
    intro ns h c
    cases ns with
    | nil => rfl
    | cons n ns => simp [Val.elems] at h

/-- End to end, n-ary: for every argument count ≥ 1 and all number arguments `n, ns` (a proper
    argument list), reducing the argument list with an arithmetic operator is the left fold of
    `arith` — the result is `liftNum` of it (value, or OutOfRange), the context is unchanged. -/
theorem reduceWith_arith_nums (r : Rec) (hr : SelfEval r) (op : ArithOp) (args : Val)
    (n : Num) (ns : List Num) (hp : args.spine.2 = .nil)
    (h : args.elems = (n :: ns).map Num.toVal) :
    reduceWith r (arithV op) args = liftNum (List.foldlM (arith op) n ns) := by
  cases args with
  | cons i a d =>
    simp only [Val.elems, List.map_cons, List.cons.injEq] at h
    obtain ⟨rfl, h2⟩ := h
    have he : r.eval n.toVal = M.pure n.toVal := by funext c; exact hr n c
    cases d with
    | cons j b d' =>
      rw [reduceWith_many]
      show M.bind _ _ = _
      rw [he, M.pure_bind, reduceRest_pure r (arithV op) id (.cons j b d') hp]
      · rw [List.map_id, h2, foldVals_arithV]
      · intro a ha c
        rw [h2] at ha
        obtain ⟨m, _, rfl⟩ := List.mem_map.mp ha
        exact hr m c
    | nil =>
      cases ns with
      | cons m ms => simp [Val.elems] at h2
      | nil =>
        rw [reduceWith_single]
        show M.bind _ _ = _
        rw [he, M.pure_bind, isNumber_toVal]; rfl
    | _ => all_goals exact absurd hp (by simp [Val.spine])
  | _ => all_goals simp [Val.elems] at h

/-- The same arguments in an improper argument list (dotted tail): the same left fold runs, and
    then the list is refused with a type error (unless the fold has already overflowed). -/
theorem reduceWith_arith_nums_improper (r : Rec) (hr : SelfEval r) (op : ArithOp) (args : Val)
    (n : Num) (ns : List Num) (hp : args.spine.2 ≠ .nil)
    (h : args.elems = (n :: ns).map Num.toVal) :
    reduceWith r (arithV op) args =
      liftNum (List.foldlM (arith op) n ns) >>= fun _ => M.throw .typeMismatch := by
  cases args with
  | cons i a d =>
    simp only [Val.elems, List.map_cons, List.cons.injEq] at h
    obtain ⟨rfl, h2⟩ := h
    have he : r.eval n.toVal = M.pure n.toVal := by funext c; exact hr n c
    cases d with
    | cons j b d' =>
      rw [reduceWith_many]
      show M.bind _ _ = _
      rw [he, M.pure_bind, reduceRest_pure_improper r (arithV op) id (.cons j b d') hp]
      · rw [List.map_id, h2, foldVals_arithV]
      · intro a ha c
        rw [h2] at ha
        obtain ⟨m, _, rfl⟩ := List.mem_map.mp ha
        exact hr m c
    | nil => exact absurd rfl hp
    | _ =>
      all_goals
        (cases ns with
         | cons m ms => simp [Val.elems] at h2
         | nil =>
           rw [reduceWith_dotted _ _ _ _ _ rfl (by simp)]
           show M.bind _ _ = _
           rw [he, M.pure_bind]; rfl)
  | _ => all_goals simp [Val.elems] at h

/-- ... spelled out: a type error, or the range error of the overflowing fold; never a value;
    the context is unchanged. -/
theorem reduceWith_arith_nums_improper_rejects (r : Rec) (hr : SelfEval r) (op : ArithOp)
    (args : Val) (n : Num) (ns : List Num) (hp : args.spine.2 ≠ .nil)
    (h : args.elems = (n :: ns).map Num.toVal) (c : Ctx) :
    reduceWith r (arithV op) args c =
      match List.foldlM (arith op) n ns with
      | .ok _ => (.err .typeMismatch, c)
      | .error _ => (.err .outOfRange, c) := by
  rw [reduceWith_arith_nums_improper r hr op args n ns hp h, bind_apply]
  cases hf : List.foldlM (arith op) n ns with
  | ok x => rfl
  | error e => rw [int_fold_error op ns n e hf]; rfl

theorem reduceWith_maxMin_nums (r : Rec) (hr : SelfEval r) (isMax : Bool) (args : Val)
    (n : Num) (ns : List Num) (hp : args.spine.2 = .nil)
    (h : args.elems = (n :: ns).map Num.toVal) :
    reduceWith r (maxMinV isMax) args = pure (List.foldl (maxMin isMax) n ns).toVal := by
  cases args with
  | cons i a d =>
    simp only [Val.elems, List.map_cons, List.cons.injEq] at h
    obtain ⟨rfl, h2⟩ := h
    have he : r.eval n.toVal = M.pure n.toVal := by funext c; exact hr n c
    cases d with
    | cons j b d' =>
      rw [reduceWith_many]
      show M.bind _ _ = _
      rw [he, M.pure_bind, reduceRest_pure r (maxMinV isMax) id (.cons j b d') hp]
      · rw [List.map_id, h2, foldVals_maxMinV]
      · intro a ha c
        rw [h2] at ha
        obtain ⟨m, _, rfl⟩ := List.mem_map.mp ha
        exact hr m c
    | nil =>
      cases ns with
      | cons m ms => simp [Val.elems] at h2
      | nil =>
        rw [reduceWith_single]
        show M.bind _ _ = _
        rw [he, M.pure_bind, isNumber_toVal]; rfl
    | _ => all_goals exact absurd hp (by simp [Val.spine])
  | _ => all_goals simp [Val.elems] at h

/-- `max` / `min` of numbers in an improper argument list: a type error, context unchanged. -/
theorem reduceWith_maxMin_nums_improper (r : Rec) (hr : SelfEval r) (isMax : Bool) (args : Val)
    (n : Num) (ns : List Num) (hp : args.spine.2 ≠ .nil)
    (h : args.elems = (n :: ns).map Num.toVal) :
    reduceWith r (maxMinV isMax) args = M.throw .typeMismatch := by
  cases args with
  | cons i a d =>
    simp only [Val.elems, List.map_cons, List.cons.injEq] at h
    obtain ⟨rfl, h2⟩ := h
    have he : r.eval n.toVal = M.pure n.toVal := by funext c; exact hr n c
    cases d with
    | cons j b d' =>
      rw [reduceWith_many]
      show M.bind _ _ = _
      rw [he, M.pure_bind, reduceRest_pure_improper r (maxMinV isMax) id (.cons j b d') hp]
      · rw [List.map_id, h2, foldVals_maxMinV]
        show M.bind (M.pure _) _ = _
        rw [M.pure_bind]
      · intro a ha c
        rw [h2] at ha
        obtain ⟨m, _, rfl⟩ := List.mem_map.mp ha
        exact hr m c
    | nil => exact absurd rfl hp
    | _ =>
      all_goals
        (cases ns with
         | cons m ms => simp [Val.elems] at h2
         | nil =>
           rw [reduceWith_dotted _ _ _ _ _ rfl (by simp)]
           show M.bind _ _ = _
           rw [he, M.pure_bind])
  | _ => all_goals simp [Val.elems] at h

theorem len_eq_length_elems (v : Val) : v.len = v.elems.length := by
  induction v with
  | cons i a d _ ihd => simp [Val.len, Val.elems, ihd]
  | _ => rfl

/-- End to end, comparison chains: with two or more number arguments the built-in returns `t`
    exactly when every adjacent pair compares true, `nil` otherwise. -/
theorem cmp_nums (r : Rec) (hr : SelfEval r) (b : Bi) (op : CmpOp) (hb : cmpOf b = some op)
    (args : Val) (ns : List Num) (h : args.elems = ns.map Num.toVal) (hlen : 2 ≤ ns.length)
    (c : Ctx) :
    callBuiltin r b args c = (.ok (ofBool (chainHolds op ns)), c) := by
  rw [cmp_dispatch r b op hb]
  have hl : ¬ args.len < 2 := by
    rw [len_eq_length_elems, h, List.length_map]; omega
  rw [if_neg hl]
  show M.bind _ _ c = _
  rw [M.bind_ok (evalEach_nums r hr args ns h c)]
  exact cmpChain_spec op _ ns (allNums_toVal ns) c


/-- End to end, `/` with two or more arguments: a zero divisor is refused (`Undefined`), else the
    left fold of the truncating / IEEE division. -/
theorem div_nums (r : Rec) (hr : SelfEval r) (args : Val) (n m : Num) (ns : List Num)
    (h : args.elems = (n :: m :: ns).map Num.toVal) (c : Ctx) :
    callBuiltin r .div args c =
      if ((m :: ns).map Num.toVal).any isZeroNum then (.err .undefined, c)
      else liftNum (List.foldlM (arith .div) n (m :: ns)) c := by
  rw [div_dispatch, bind_apply, M.bind_ok (evalEach_nums r hr args (n :: m :: ns) h c)]
  simp only [List.map_cons]
  split
  · rfl
  · rw [← List.map_cons, foldVals_arithV]

/-- End to end, `/` with exactly one argument `x`: the reciprocal `1 / x` (integer `1`, so the
    truncating division for an integer `x`, the IEEE division for a float `x`); a zero `x`
    (integer or float) is refused (`Undefined`). -/
theorem div_single_nums (r : Rec) (hr : SelfEval r) (args : Val) (x : Num)
    (h : args.elems = [x.toVal]) (c : Ctx) :
    callBuiltin r .div args c =
      if isZeroNum x.toVal then (.err .undefined, c)
      else liftNum (arith .div (.i 1) x) c := by
  rw [div_dispatch, bind_apply, M.bind_ok (evalEach_nums r hr args [x] h c)]
  simp only [List.map_cons, List.map_nil]
  split
  · rfl
  · exact congrFun (arithV_nums .div (.i 1) x) c

/-- the truncated reciprocal of an integer: `x` itself for `x = ±1`, else `0` -/
theorem tdiv_one (x : Int) :
    Int.tdiv 1 x = if x = 1 then 1 else if x = -1 then -1 else 0 := by
  by_cases h1 : x = 1
  · subst h1; rfl
  · by_cases h2 : x = -1
    · subst h2; rfl
    · rw [if_neg h1, if_neg h2]
      by_cases h0 : x = 0
      · subst h0; rfl
      · apply Int.natAbs_eq_zero.mp
        rw [Int.natAbs_tdiv]
        show 1 / x.natAbs = 0
        exact Nat.div_eq_of_lt (by omega)

/-- `(/ x)` on an integer `x ≠ 0`: the integer `Int.tdiv 1 x` — that is `x` for `x = ±1`, else `0`
    — never an error. -/
theorem div_single_int (r : Rec) (hr : SelfEval r) (args : Val) (x : Int) (hx : x ≠ 0)
    (h : args.elems = [.int x]) (c : Ctx) :
    callBuiltin r .div args c = (.ok (.int (Int.tdiv 1 x)), c)
    ∧ Int.tdiv 1 x = (if x = 1 then 1 else if x = -1 then -1 else 0) := by
  refine ⟨?_, tdiv_one x⟩
  rw [div_single_nums r hr args (.i x) h c]
  have hz : isZeroNum (Num.i x).toVal = false := by
    simp [Num.toVal, isZeroNum, hx]
  rw [hz, int_exact]
  have hin : inI64 (Int.tdiv 1 x) = true := by
    rw [tdiv_one]; split
    · decide
    · split <;> decide
  simp [hx, hin, iopZ, liftNum, Num.toVal]

/-- `(/ x)` on a float `x` that is not zero: the IEEE quotient of `1` (converted) by `x`, a float. -/
theorem div_single_float (r : Rec) (hr : SelfEval r) (args : Val) (x : UInt64)
    (hx : (Float.ofBits x == 0.0) = false) (h : args.elems = [.float x]) (c : Ctx) :
    callBuiltin r .div args c
      = (.ok (.float (Float.ofBits (intToF64 1) / Float.ofBits x).toBits), c) := by
  rw [div_single_nums r hr args (.f x) h c]
  have hz : isZeroNum (Num.f x).toVal = false := hx
  rw [hz]; rfl

/-- `(/ 0)` and `(/ 0.0)`, `(/ -0.0)`: the single argument is a zero — the `Undefined` error. -/
theorem div_single_zero (r : Rec) (hr : SelfEval r) (args : Val) (x : Num)
    (hx : isZeroNum x.toVal = true) (h : args.elems = [x.toVal]) (c : Ctx) :
    callBuiltin r .div args c = (.err .undefined, c) := by
  rw [div_single_nums r hr args x h c, hx]; rfl

example : isZeroNum (Num.i 0).toVal = true := rfl
example (x : UInt64) (h : (Float.ofBits x == 0.0) = true) : isZeroNum (Num.f x).toVal = true := h

/-- End to end, `mod` -/
theorem mod_nums (r : Rec) (hr : SelfEval r) (i j : Nat) (a b : Num) (d : Val) (c : Ctx) :
    callBuiltin r .mod_ (.cons i a.toVal (.cons j b.toVal d)) c = liftNum (arith .mod a b) c := by
  rw [mod_dispatch, bind_apply]
  have h1 : nextArg r (.cons i a.toVal (.cons j b.toVal d)) c
      = (.ok (a.toVal, .cons j b.toVal d), c) := by
    show M.bind (r.eval a.toVal) _ c = _
    rw [M.bind_ok (hr a c)]; rfl
  have h2 : nextArg r (.cons j b.toVal d) c = (.ok (b.toVal, d), c) := by
    show M.bind (r.eval b.toVal) _ c = _
    rw [M.bind_ok (hr b c)]; rfl
  rw [M.bind_ok h1, bind_apply, M.bind_ok h2, arithV_nums]

/-- End to end, unary minus: `(- x)` is `0 - x` -/
theorem neg_nums (r : Rec) (hr : SelfEval r) (i : Nat) (a : Num) (c : Ctx) :
    callBuiltin r .sub (.cons i a.toVal .nil) c = liftNum (arith .sub (.i 0) a) c := by
  rw [neg_dispatch, bind_apply, M.bind_ok (hr a c)]
  exact congrFun (arithV_nums .sub (.i 0) a) c

/-- End to end, `1+` / `1-` on an integer literal -/
theorem inc_dec_nums (r : Rec) (hr : SelfEval r) (i : Nat) (n : Int) (d : Val) (c : Ctx) :
    callBuiltin r .inc (.cons i (.int n) d) c
      = (if inI64 (n + 1) then .ok (.int (n + 1)) else .err .outOfRange, c) ∧
    callBuiltin r .dec (.cons i (.int n) d) c
      = (if inI64 (n - 1) then .ok (.int (n - 1)) else .err .outOfRange, c) := by
  have h1 : nextArg r (.cons i (.int n) d) c = (.ok (.int n, d), c) := by
    show M.bind (r.eval (.int n)) _ c = _
    have h0 : r.eval (.int n) c = (.ok (.int n), c) := hr (.i n) c
    rw [M.bind_ok h0]; rfl
  exact ⟨inc_int r _ d n c c h1, dec_int r _ d n c c h1⟩

/-! ## 10. non-vacuity -/

example : arith .div (.i (-7)) (.i 2) = .ok (.i (-3)) := rfl
example : arith .div (.i 7) (.i (-2)) = .ok (.i (-3)) := rfl
example : arith .mod (.i (-7)) (.i 2) = .ok (.i 1) := rfl
example : arith .mod (.i 7) (.i (-2)) = .ok (.i (-1)) := rfl
example : arith .mod (.i (-7)) (.i (-2)) = .ok (.i (-1)) := rfl
example : arith .add (.i 9223372036854775807) (.i 1) = .error .range := rfl
example : arith .sub (.i i64Min) (.i 1) = .error .range := rfl
example : arith .mul (.i 4294967296) (.i 4294967296) = .error .range := rfl
example : arith .mul (.i 3037000499) (.i 3037000499) = .ok (.i 9223372030926249001) := rfl
example : arith .div (.i i64Min) (.i (-1)) = .error .range := rfl
example : arith .div (.i i64Min) (.i 1) = .ok (.i i64Min) := rfl
example : arith .div (.i 1) (.i 0) = .error .range := rfl
example : arith .mod (.i i64Min) (.i (-1)) = .ok (.i 0) := rfl
example : ∃ x, arith .add (.i 1) (.f 0x3FF0000000000000) = .ok (.f x) := ⟨_, rfl⟩
example : maxMin true (.i 3) (.i 5) = .i 5 := rfl
example : maxMin false (.i 3) (.i 5) = .i 3 := rfl
example : List.foldl (maxMin true) (.i 3) ([9, -4, 7].map .i) = .i 9 := rfl
example : chk 9223372036854775808 = .error .range := rfl
example : chk (-9223372036854775808) = .ok (.i (-9223372036854775808)) := rfl
example : chainHolds .lt [.i 1, .i 2, .i 3] = true := by decide
example : chainHolds .lt [.i 1, .i 3, .i 2] = false := by decide
example : chainHolds .le [.i 1, .i 1, .i 2] = true := by decide
example : List.foldlM (arith .sub) (.i 10) ([1, 2, 3].map .i) = .ok (.i 4) := rfl
example : SelfEval (Rec.ofDepth 1) := selfEval_ofDepth 0
/-- `(+ 1 2 3)` (argument list with arbitrary cell identities) at depth 3 -/
example (c : Ctx) :
    callBuiltin (Rec.ofDepth 3) .add
      (consList [(7, .int 1), (8, .int 2), (9, .int 3)] .nil) c = (.ok (.int 6), c) := by
  rw [add_dispatch, reduceWith_arith_nums _ (selfEval_ofDepth 2) .add _ (.i 1) [.i 2, .i 3] rfl rfl]
  rfl

/-- proper / improper argument lists: hypotheses of `reduceRest_eq_foldVals`, `reduceRest_pure`,
    `reduceWith_arith_nums` … and of their `_improper` counterparts -/
example : (consList [(7, .int 1), (8, .int 2)] .nil).spine.2 = .nil := rfl
example : (consList [(7, .int 1), (8, .int 2)] (.int 3)).spine.2 ≠ .nil := by
  rw [spine_snd_consList]; simp [Val.spine]
/-- `(+ 1 2 . 3)`, `(+ 1 . 2)` and `(+ . 5)` at depth 3: type errors -/
example (c : Ctx) :
    callBuiltin (Rec.ofDepth 3) .add (consList [(7, .int 1), (8, .int 2)] (.int 3)) c
      = (.err .typeMismatch, c) := by
  rw [add_dispatch, reduceWith_arith_nums_improper_rejects _ (selfEval_ofDepth 2) .add _ (.i 1)
    [.i 2] (by rw [spine_snd_consList]; simp [Val.spine]) rfl]
  rfl
example (c : Ctx) :
    callBuiltin (Rec.ofDepth 3) .add (.cons 7 (.int 1) (.int 2)) c = (.err .typeMismatch, c) := by
  rw [add_dispatch]
  exact reduceWith_dotted_rejects _ _ 7 (.int 1) (.int 2) (.int 1) c c rfl (by simp) rfl
example (c : Ctx) :
    callBuiltin (Rec.ofDepth 3) .add (.int 5) c = (.err .typeMismatch, c) := by
  rw [add_dispatch, reduceWith_atom_rejects _ _ (.int 5) rfl (by simp)]; rfl
/-- `(+ 9223372036854775807 1 . 3)`: the fold overflows before the dotted tail is reached -/
example (c : Ctx) :
    callBuiltin (Rec.ofDepth 3) .add
      (consList [(7, .int 9223372036854775807), (8, .int 1)] (.int 3)) c
      = (.err .outOfRange, c) := by
  rw [add_dispatch, reduceWith_arith_nums_improper_rejects _ (selfEval_ofDepth 2) .add _
    (.i 9223372036854775807) [.i 1] (by rw [spine_snd_consList]; simp [Val.spine]) rfl]
  rfl
/-- `(max 1 2 . 3)`: a type error -/
example (c : Ctx) :
    callBuiltin (Rec.ofDepth 3) .max_ (consList [(7, .int 1), (8, .int 2)] (.int 3)) c
      = (.err .typeMismatch, c) := by
  rw [max_dispatch, reduceWith_maxMin_nums_improper _ (selfEval_ofDepth 2) true _ (.i 1)
    [.i 2] (by rw [spine_snd_consList]; simp [Val.spine]) rfl]
  rfl

/-- hypotheses of `int_fold_ok` -/
example : (∀ k, 0 < k → k ≤ [2, 3].length →
    inI64 (([2, 3].take k).foldl (iopZ .mul) 4) = true) := by
  intro k h1 h2
  have : k = 1 ∨ k = 2 := by simp at h2; omega
  rcases this with rfl | rfl <;> decide
/-- hypotheses of `reduceWith_single_rejects`: `(+ nil)` -/
example (c : Ctx) : (Rec.ofDepth 1).eval .nil c = (.ok .nil, c) ∧ Val.nil.isNumber = false :=
  ⟨rfl, rfl⟩
/-- hypotheses of `inc_int` -/
example (c : Ctx) :
    nextArg (Rec.ofDepth 1) (.cons 0 (.int 5) .nil) c = (.ok (.int 5, .nil), c) := rfl
/-- `(< 1 2.0 3)`-shaped hypotheses of `cmp_nums` -/
example : (consList [(1, .int 1), (2, .float 0x4000000000000000), (3, .int 3)] .nil).elems
      = [Num.i 1, .f 0x4000000000000000, .i 3].map Num.toVal
    ∧ 2 ≤ [Num.i 1, .f 0x4000000000000000, .i 3].length ∧ cmpOf .lt = some .lt :=
  ⟨rfl, by decide, rfl⟩
/-- `(< 1 2 3)` and `(< 1 3 2)` end to end -/
example (c : Ctx) :
    callBuiltin (Rec.ofDepth 2) .lt (consList [(1, .int 1), (2, .int 2), (3, .int 3)] .nil) c
      = (.ok .t, c) := by
  rw [cmp_nums _ (selfEval_ofDepth 1) .lt .lt rfl _ [.i 1, .i 2, .i 3] rfl (by decide)]
  rfl
example (c : Ctx) :
    callBuiltin (Rec.ofDepth 2) .lt (consList [(1, .int 1), (2, .int 3), (3, .int 2)] .nil) c
      = (.ok .nil, c) := by
  rw [cmp_nums _ (selfEval_ofDepth 1) .lt .lt rfl _ [.i 1, .i 3, .i 2] rfl (by decide)]
  rfl
/-- `(mod -7 2)` end to end -/
example (c : Ctx) :
    callBuiltin (Rec.ofDepth 1) .mod_ (.cons 0 (.int (-7)) (.cons 1 (.int 2) .nil)) c
      = (.ok (.int 1), c) :=
  mod_nums _ (selfEval_ofDepth 0) 0 1 (.i (-7)) (.i 2) .nil c
/-- `(/ -7 2)` end to end -/
example (c : Ctx) :
    callBuiltin (Rec.ofDepth 1) .div (.cons 0 (.int (-7)) (.cons 1 (.int 2) .nil)) c
      = (.ok (.int (-3)), c) := by
  rw [div_nums _ (selfEval_ofDepth 0) _ (.i (-7)) (.i 2) [] rfl]
  rfl
/-- `(/ 2)`, `(/ -1)`, `(/ 0)` end to end: the truncated reciprocal, or `Undefined` -/
example (c : Ctx) :
    callBuiltin (Rec.ofDepth 1) .div (.cons 0 (.int 2) .nil) c = (.ok (.int 0), c) :=
  (div_single_int _ (selfEval_ofDepth 0) _ 2 (by decide) rfl c).1
example (c : Ctx) :
    callBuiltin (Rec.ofDepth 1) .div (.cons 0 (.int (-1)) .nil) c = (.ok (.int (-1)), c) :=
  (div_single_int _ (selfEval_ofDepth 0) _ (-1) (by decide) rfl c).1
example (c : Ctx) :
    callBuiltin (Rec.ofDepth 1) .div (.cons 0 (.int 0) .nil) c = (.err .undefined, c) :=
  div_single_zero _ (selfEval_ofDepth 0) _ (.i 0) rfl rfl c
/- The float hypotheses of `div_single_float` / `div_single_zero` (`Float.ofBits x == 0.0`) cannot
   be instantiated on a concrete bit pattern inside the kernel: Lean's `Float` is opaque. -/
/-- `(/ 7 2 0)`: a zero among the divisors -/
example (c : Ctx) :
    callBuiltin (Rec.ofDepth 1) .div
      (.cons 0 (.int 7) (.cons 1 (.int 2) (.cons 2 (.int 0) .nil))) c = (.err .undefined, c) := by
  rw [div_nums _ (selfEval_ofDepth 0) _ (.i 7) (.i 2) [.i 0] rfl]
  rfl

end Tulisp.C13
