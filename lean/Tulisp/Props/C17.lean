/-
  Props/C17.lean — C17: the `sort` built-in.

  "For every list and every predicate, sort returns a list or fails with the predicate's own
   error, and never panics, even for inconsistent predicates.  On success the result is a
   permutation of the input elements (the same objects with the same multiplicities); when the
   predicate is a strict weak ordering, no element is placed before one that the predicate
   orders ahead of it and elements it does not distinguish keep their original relative order;
   the input list is unchanged."

  Model: `Tulisp.sortM lt k xs` (Model/Sort.lean), a merge sort driven by the *monadic*
  predicate `lt : Val → Val → M Bool` (arbitrary: it may fail, panic, change the context, give
  inconsistent answers).  The `.sort_` case of `callBuiltin` (Model/Eval.lean) runs
  `sortM lt (xs.length + 1) xs` and then builds a *fresh* list from the result.

  Vocabulary (defined in Proofs/C17.lean):
    `Fail`, `FailsWith r x c'`   — outcome `r` is the failure `x` (err / panic / fuel), context `c'`
    `pureLt p`                    — the side-effect free predicate computing `p : Val → Val → Bool`
    `Computes lt p as bs`         — on `a ∈ as`, `b ∈ bs`, in every context, `lt a b` succeeds with
                                    the value `p a b` (it may change the context)
    `leOf p a b := !p b a`        — the `le` given to core's `List.mergeSort`
    `StrictWeak p`, `StrictWeakOn p xs` — strict weak ordering (on all values / on the elements of `xs`)

  Contents
    1. `mergeM_perm`, `sortM_perm`                         permutation, for EVERY predicate
    2. `sortM_failure_origin`, `sortM_classification`,
       `sortM_outcome(_on)`, `sortM_error_from_pred`, `sortM_no_err`,
       `sortM_panic_from_pred`, `sortM_no_panic`, `sortM_no_fuel`      outcomes
    3. `sortM_functional`, `sortM_pure`                    the algorithm is core's `List.mergeSort`
    4. `sortM_sorted(_on)`, `sortM_stable(_on)`, `sortM_stable_pair(_on)`   order and stability
    5. `sortM_ctx_inv`, `sortM_pure_ctx`                   sort itself does not touch the state
    6. non-vacuity examples
-/
import Tulisp.Proofs.C17
namespace Tulisp.C17
open Tulisp

/-! ## 1. permutation -/

/-- Whatever the predicate does: when a merge succeeds, its result is a permutation of the
    two inputs (same objects, same multiplicities). -/
theorem mergeM_perm (lt : Val → Val → M Bool) (k : Nat) (ls rs : List Val) (c : Ctx)
    (ys : List Val) (c' : Ctx) (h : mergeM lt ls rs k c = (.ok ys, c')) :
    ys.Perm (ls ++ rs) :=
  mergeM_perm_append lt k ls rs c ys c' h

/-- Whatever the predicate does (inconsistent, stateful, …) and whatever the fuel: when `sort`
    succeeds, its result is a permutation of the input. -/
theorem sortM_perm (lt : Val → Val → M Bool) (k : Nat) (xs : List Val) (c : Ctx)
    (ys : List Val) (c' : Ctx) (h : sortM lt k xs c = (.ok ys, c')) :
    ys.Perm xs :=
  sortM_perm_aux lt k xs c ys c' h

/-! ## 2. outcomes -/

/-- Master statement, for every predicate and every fuel: a failure `x` of `sort` (error, panic or
    fuel; final context `c'`) is either lack of fuel with `k < length + 1`, or it is the failure
    of one call `lt a b` of the predicate on two elements of the list, with the very same final
    context (the failure is propagated untouched). -/
theorem sortM_failure_origin (lt : Val → Val → M Bool) (k : Nat) (xs : List Val) (c : Ctx)
    (x : Fail) (c' : Ctx) (h : FailsWith (sortM lt k xs c) x c') :
    (x = .fuel ∧ k < xs.length + 1) ∨
      ∃ a ∈ xs, ∃ b ∈ xs, ∃ c0, FailsWith (lt a b c0) x c' :=
  sortM_fails lt k xs c x c' h

/-- With the fuel the built-in gives (`k ≥ length + 1`), for every predicate: `sort` returns a
    list that is a permutation of the input, or it fails exactly as one call of the predicate on
    two elements of the list failed (same failure, same final context). -/
theorem sortM_classification (lt : Val → Val → M Bool) (k : Nat) (xs : List Val) (c : Ctx)
    (hk : xs.length + 1 ≤ k) :
    (∃ ys c', sortM lt k xs c = (.ok ys, c') ∧ ys.Perm xs) ∨
    (∃ x c', FailsWith (sortM lt k xs c) x c' ∧
      ∃ a ∈ xs, ∃ b ∈ xs, ∃ c0, FailsWith (lt a b c0) x c') := by
  rcases ok_or_fails (sortM lt k xs c) with ⟨ys, h⟩ | ⟨x, h⟩
  · exact .inl ⟨ys, _, h, sortM_perm lt k xs c ys _ h⟩
  · rcases sortM_fails lt k xs c x _ h with ⟨_, hlt⟩ | h'
    · omega
    · exact .inr ⟨x, _, h, h'⟩

/-- If the predicate succeeds on all pairs of elements of the list (in every context), `sort`
    succeeds: the fuel `length + 1` is enough for the recursion of `sortM` and for every merge. -/
theorem sortM_outcome_on (lt : Val → Val → M Bool) (k : Nat) (xs : List Val) (c : Ctx)
    (hlt : ∀ a ∈ xs, ∀ b ∈ xs, ∀ c, ∃ v c', lt a b c = (.ok v, c'))
    (hk : xs.length + 1 ≤ k) :
    ∃ ys c', sortM lt k xs c = (.ok ys, c') := by
  rcases sortM_classification lt k xs c hk with ⟨ys, c', h, _⟩ | ⟨x, c', _, a, ha, b, hb, c0, h0⟩
  · exact ⟨ys, c', h⟩
  · obtain ⟨v, c1, h1⟩ := hlt a ha b hb c0
    rw [h1] at h0
    exact absurd h0 not_failsWith_ok

/-- The form asked for: a predicate that always succeeds makes `sort` succeed. -/
theorem sortM_outcome (lt : Val → Val → M Bool) (k : Nat) (xs : List Val) (c : Ctx)
    (hlt : ∀ a b c, ∃ v c', lt a b c = (.ok v, c'))
    (hk : xs.length + 1 ≤ k) :
    ∃ ys c', sortM lt k xs c = (.ok ys, c') :=
  sortM_outcome_on lt k xs c (fun a _ b _ c => hlt a b c) hk

/-- An error of `sort` is the predicate's own error: some call `lt a b` on two elements of the
    list ended in this very error and final context.  (No assumption on the fuel.) -/
theorem sortM_error_from_pred (lt : Val → Val → M Bool) (k : Nat) (xs : List Val) (c : Ctx)
    (e : ErrKind) (c' : Ctx) (h : sortM lt k xs c = (.err e, c')) :
    ∃ a ∈ xs, ∃ b ∈ xs, ∃ c0, lt a b c0 = (.err e, c') := by
  rcases sortM_fails lt k xs c (.err e) c' (failsWith_err.2 h) with ⟨hx, _⟩ | ⟨a, ha, b, hb, c0, h0⟩
  · cases hx
  · exact ⟨a, ha, b, hb, c0, failsWith_err.1 h0⟩

/-- Contrapositive form: if no call of the predicate returns the error `e`, neither does `sort`. -/
theorem sortM_no_err (lt : Val → Val → M Bool) (k : Nat) (xs : List Val) (c : Ctx) (e : ErrKind)
    (hlt : ∀ a b c, (lt a b c).1 ≠ .err e) :
    (sortM lt k xs c).1 ≠ .err e := by
  intro h
  obtain ⟨a, _, b, _, c0, h0⟩ := sortM_error_from_pred lt k xs c e (sortM lt k xs c).2
    (Prod.ext h rfl)
  exact hlt a b c0 (by rw [h0])

/-- `sort` has no panic site of its own: a panic can only come out of a predicate call. -/
theorem sortM_panic_from_pred (lt : Val → Val → M Bool) (k : Nat) (xs : List Val) (c : Ctx)
    (s : String) (c' : Ctx) (h : sortM lt k xs c = (.panic s, c')) :
    ∃ a ∈ xs, ∃ b ∈ xs, ∃ c0, lt a b c0 = (.panic s, c') := by
  rcases sortM_fails lt k xs c (.panic s) c' (failsWith_panic.2 h) with
    ⟨hx, _⟩ | ⟨a, ha, b, hb, c0, h0⟩
  · cases hx
  · exact ⟨a, ha, b, hb, c0, failsWith_panic.1 h0⟩

/-- If the predicate never panics, `sort` never panics — for every list, every fuel, also for
    inconsistent predicates. -/
theorem sortM_no_panic (lt : Val → Val → M Bool) (k : Nat) (xs : List Val) (c : Ctx)
    (hlt : ∀ a b c s, (lt a b c).1 ≠ .panic s) (s : String) :
    (sortM lt k xs c).1 ≠ .panic s := by
  intro h
  obtain ⟨a, _, b, _, c0, h0⟩ := sortM_panic_from_pred lt k xs c s (sortM lt k xs c).2
    (Prod.ext h rfl)
  exact hlt a b c0 s (by rw [h0])

/-- With `k ≥ length + 1`, `sort` gives up (`fuel`) only if a predicate call did. -/
theorem sortM_no_fuel (lt : Val → Val → M Bool) (k : Nat) (xs : List Val) (c : Ctx)
    (hlt : ∀ a b c, (lt a b c).1 ≠ .fuel) (hk : xs.length + 1 ≤ k) :
    (sortM lt k xs c).1 ≠ .fuel := by
  intro h
  rcases sortM_fails lt k xs c .fuel (sortM lt k xs c).2 (failsWith_fuel.2 (Prod.ext h rfl)) with
    ⟨_, hlt'⟩ | ⟨a, _, b, _, c0, h0⟩
  · omega
  · exact hlt a b c0 (by rw [failsWith_fuel.1 h0])

/-! ## 3. functional predicates: `sort` is core's `List.mergeSort` -/

/-- If, on the elements of the list, the predicate computes a boolean function `p` (the value does
    not depend on the context; the context may change), then `sort` succeeds and returns exactly
    `List.mergeSort xs (fun a b => !p b a)`: same split at `(n+1)/2`, same merge.  The order in
    which the halves are sorted (right first) is irrelevant. -/
theorem sortM_functional (lt : Val → Val → M Bool) (p : Val → Val → Bool) (k : Nat)
    (xs : List Val) (c : Ctx)
    (hlt : ∀ a ∈ xs, ∀ b ∈ xs, ∀ c, ∃ c', lt a b c = (.ok (p a b), c'))
    (hk : xs.length + 1 ≤ k) :
    ∃ c', sortM lt k xs c = (.ok (List.mergeSort xs (fun a b => !p b a)), c') :=
  sortM_computes lt p k xs c hlt hk

/-- For a pure predicate: the result is `List.mergeSort`, and the context is untouched. -/
theorem sortM_pure (p : Val → Val → Bool) (k : Nat) (xs : List Val) (c : Ctx)
    (hk : xs.length + 1 ≤ k) :
    sortM (pureLt p) k xs c = (.ok (List.mergeSort xs (fun a b => !p b a)), c) := by
  obtain ⟨c', h⟩ := sortM_computes (pureLt p) p k xs c (computes_pureLt p xs xs) hk
  have hc : c = (sortM (pureLt p) k xs c).2 :=
    sortM_rel (pureLt p) (· = ·) (fun _ => rfl) (fun _ _ _ h1 h2 => h1.trans h2)
      (fun _ _ _ => rfl) k xs c
  rw [h] at hc
  have hc' : c' = c := hc.symm
  rw [h, hc']; rfl

/-! ## 4. order and stability for strict weak orderings -/

/-- `le a b := !p b a` is total and transitive when `p` is a strict weak ordering (what core's
    `mergeSort` lemmas ask for). -/
theorem strictWeak_le (p : Val → Val → Bool) (h : StrictWeak p) :
    (∀ a b, (!p b a || !p a b) = true) ∧
    (∀ a b c, (!p b a) = true → (!p c b) = true → (!p c a) = true) :=
  ⟨h.le_total, h.le_trans⟩

/-- General form.  The predicate computes `p` on the elements of the list and `p` is a strict weak
    ordering on these elements: in the result no element is placed before one that `p` orders
    ahead of it. -/
theorem sortM_sorted_on (lt : Val → Val → M Bool) (p : Val → Val → Bool) (k : Nat)
    (xs : List Val) (c : Ctx) (ys : List Val) (c' : Ctx)
    (hlt : Computes lt p xs xs) (hp : StrictWeakOn p xs) (hk : xs.length + 1 ≤ k)
    (h : sortM lt k xs c = (.ok ys, c')) :
    ys.Pairwise (fun a b => p b a = false) := by
  obtain ⟨c1, h1⟩ := sortM_computes lt p k xs c hlt hk
  rw [h1] at h
  simp only [Prod.mk.injEq, Res.ok.injEq] at h
  rw [← h.1]
  exact mergeSort_sorted_on hp

/-- General form of stability: a sublist of the input that is already in order is a sublist of the
    result. -/
theorem sortM_stable_on (lt : Val → Val → M Bool) (p : Val → Val → Bool) (k : Nat)
    (xs : List Val) (c : Ctx) (ys : List Val) (c' : Ctx)
    (hlt : Computes lt p xs xs) (hp : StrictWeakOn p xs) (hk : xs.length + 1 ≤ k)
    (h : sortM lt k xs c = (.ok ys, c'))
    (zs : List Val) (hz : zs.Pairwise (fun a b => p b a = false)) (hsub : zs.Sublist xs) :
    zs.Sublist ys := by
  obtain ⟨c1, h1⟩ := sortM_computes lt p k xs c hlt hk
  rw [h1] at h
  simp only [Prod.mk.injEq, Res.ok.injEq] at h
  rw [← h.1]
  exact mergeSort_stable_on hp hz hsub

/-- Elements the predicate does not distinguish keep their relative order (general form). -/
theorem sortM_stable_pair_on (lt : Val → Val → M Bool) (p : Val → Val → Bool) (k : Nat)
    (xs : List Val) (c : Ctx) (ys : List Val) (c' : Ctx)
    (hlt : Computes lt p xs xs) (hp : StrictWeakOn p xs) (hk : xs.length + 1 ≤ k)
    (h : sortM lt k xs c = (.ok ys, c'))
    (a b : Val) (_hab : p a b = false) (hba : p b a = false) (hsub : [a, b].Sublist xs) :
    [a, b].Sublist ys :=
  sortM_stable_on lt p k xs c ys c' hlt hp hk h [a, b] (List.pairwise_pair.2 hba) hsub

/-- Pure predicate, strict weak ordering on all values: the result is sorted — no element is
    placed before one that the predicate orders ahead of it. -/
theorem sortM_sorted (p : Val → Val → Bool) (hp : StrictWeak p) (k : Nat) (xs : List Val) (c : Ctx)
    (ys : List Val) (c' : Ctx) (hk : xs.length + 1 ≤ k)
    (h : sortM (pureLt p) k xs c = (.ok ys, c')) :
    ys.Pairwise (fun a b => p b a = false) :=
  sortM_sorted_on (pureLt p) p k xs c ys c' (computes_pureLt p xs xs) (hp.on xs) hk h

/-- Pure predicate, strict weak ordering: every sublist of the input that is already in order
    (pairwise `¬ b < a`) is a sublist of the result. -/
theorem sortM_stable (p : Val → Val → Bool) (hp : StrictWeak p) (k : Nat) (xs : List Val) (c : Ctx)
    (ys : List Val) (c' : Ctx) (hk : xs.length + 1 ≤ k)
    (h : sortM (pureLt p) k xs c = (.ok ys, c'))
    (zs : List Val) (hz : zs.Pairwise (fun a b => p b a = false)) (hsub : zs.Sublist xs) :
    zs.Sublist ys :=
  sortM_stable_on (pureLt p) p k xs c ys c' (computes_pureLt p xs xs) (hp.on xs) hk h zs hz hsub

/-- Pure predicate, strict weak ordering: if `a` occurs before `b` in the input and the predicate
    does not distinguish them, `a` occurs before `b` in the result. -/
theorem sortM_stable_pair (p : Val → Val → Bool) (hp : StrictWeak p) (k : Nat) (xs : List Val)
    (c : Ctx) (ys : List Val) (c' : Ctx) (hk : xs.length + 1 ≤ k)
    (h : sortM (pureLt p) k xs c = (.ok ys, c'))
    (a b : Val) (hab : p a b = false) (hba : p b a = false) (hsub : [a, b].Sublist xs) :
    [a, b].Sublist ys :=
  sortM_stable_pair_on (pureLt p) p k xs c ys c' (computes_pureLt p xs xs) (hp.on xs) hk h
    a b hab hba hsub

/-! ## 5. "the input list is unchanged"

  In the model a list is an immutable value and `sortM` returns a new `List Val`; the built-in
  then allocates fresh conses for it (`mkListM`).  The only way the input could change is through
  the context, and `sortM`/`mergeM` never write to the context themselves: every relation between
  contexts that is reflexive, transitive and respected by each predicate call is respected by
  the whole sort — whatever its outcome. -/

theorem sortM_ctx_inv (lt : Val → Val → M Bool) (R : Ctx → Ctx → Prop)
    (hrefl : ∀ c, R c c) (htrans : ∀ c1 c2 c3, R c1 c2 → R c2 c3 → R c1 c3)
    (hlt : ∀ a b c, R c (lt a b c).2) (k : Nat) (xs : List Val) (c : Ctx) :
    R c (sortM lt k xs c).2 :=
  sortM_rel lt R hrefl htrans hlt k xs c

/-- In particular, with a pure predicate the context after `sort` is the context before, for
    every fuel and outcome. -/
theorem sortM_pure_ctx (p : Val → Val → Bool) (k : Nat) (xs : List Val) (c : Ctx) :
    (sortM (pureLt p) k xs c).2 = c :=
  (sortM_ctx_inv (pureLt p) (· = ·) (fun _ => rfl) (fun _ _ _ h1 h2 => h1.trans h2)
    (fun _ _ _ => rfl) k xs c).symm

/-! ## 6. non-vacuity -/

/-- integer key of a value (non-integers count as 0) -/
def intKey : Val → Int
  | .int n => n
  | _ => 0

/-- `<` on the integer keys: a strict weak ordering on all values -/
def intLt : Val → Val → Bool := fun a b => decide (intKey a < intKey b)

theorem intLt_strictWeak : StrictWeak intLt := strictWeak_ofKey intKey

/-- `<` on integers, `false` as soon as one argument is not an integer. -/
def intLtPartial : Val → Val → Bool := fun a b =>
  match a, b with
  | .int x, .int y => decide (x < y)
  | _, _ => false

/-- NB: `intLtPartial` is irreflexive and transitive but NOT a strict weak ordering on all values:
    `nil` is incomparable with `1` and with `2`, yet `1 < 2`. -/
example : ¬ StrictWeak intLtPartial := by
  intro h
  have := (h.incomp_trans (.int 1) .nil (.int 2) rfl rfl rfl rfl).1
  simp [intLtPartial] at this

/-- …but it is one on every list of integers, which is what the `_on` theorems need. -/
theorem intLtPartial_strictWeakOn (xs : List Val) (hx : ∀ a ∈ xs, ∃ n, a = .int n) :
    StrictWeakOn intLtPartial xs where
  irrefl a ha := by
    obtain ⟨n, rfl⟩ := hx a ha
    simp [intLtPartial]
  trans a ha b hb c hc := by
    obtain ⟨x, rfl⟩ := hx a ha
    obtain ⟨y, rfl⟩ := hx b hb
    obtain ⟨z, rfl⟩ := hx c hc
    simp only [intLtPartial, decide_eq_true_eq]; omega
  incomp_trans a ha b hb c hc := by
    obtain ⟨x, rfl⟩ := hx a ha
    obtain ⟨y, rfl⟩ := hx b hb
    obtain ⟨z, rfl⟩ := hx c hc
    simp only [intLtPartial, decide_eq_false_iff_not]; omega

/-- hypotheses of `sortM_outcome` / `sortM_no_err` / `sortM_no_panic`: every pure predicate. -/
example (p : Val → Val → Bool) : ∀ a b c, ∃ v c', pureLt p a b c = (.ok v, c') :=
  fun a b c => ⟨p a b, c, rfl⟩
example (p : Val → Val → Bool) (e : ErrKind) : ∀ a b c, (pureLt p a b c).1 ≠ .err e := by
  intro a b c h; cases h
example (p : Val → Val → Bool) : ∀ a b c s, (pureLt p a b c).1 ≠ .panic s := by
  intro a b c s h; cases h

/-- a concrete run -/
example (c : Ctx) :
    sortM (pureLt intLt) 6 [.int 3, .int 1, .int 2, .int 1, .int 0] c
      = (.ok [.int 0, .int 1, .int 1, .int 2, .int 3], c) := rfl

/-- stability, concretely: sorting pairs by their `car` keeps the `cdr`s of equal keys in input
    order. -/
def carLt : Val → Val → Bool := fun a b =>
  decide (intKey (match a with | .cons _ x _ => x | _ => .nil) <
          intKey (match b with | .cons _ x _ => x | _ => .nil))

example : StrictWeak carLt := strictWeak_ofKey _

example (c : Ctx) :
    sortM (pureLt carLt) 5
        [.cons 1 (.int 2) (.int 10), .cons 2 (.int 1) (.int 20),
         .cons 3 (.int 2) (.int 30), .cons 4 (.int 1) (.int 40)] c
      = (.ok [.cons 2 (.int 1) (.int 20), .cons 4 (.int 1) (.int 40),
              .cons 1 (.int 2) (.int 10), .cons 3 (.int 2) (.int 30)], c) := rfl

/-- an inconsistent predicate ("everything is before everything"): still a list, a permutation. -/
example (c : Ctx) :
    sortM (pureLt (fun _ _ => true)) 4 [.int 1, .int 2, .int 3] c
      = (.ok [.int 3, .int 2, .int 1], c) := rfl

/-- a failing predicate: its error is the outcome of `sort` -/
example (c : Ctx) :
    sortM (fun _ _ => M.throw .typeMismatch) 4 [.int 1, .int 2, .int 3] c
      = (.err .typeMismatch, c) := rfl

/-- the fuel bound `length + 1` is not vacuous either: with `length` the merge can give up. -/
example (c : Ctx) : sortM (pureLt intLt) 1 [.int 2, .int 1] c = (.fuel, c) := rfl

end Tulisp.C17
