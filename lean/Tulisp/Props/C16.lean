/-
  Props/C16.lean — C16 (reader part): the spans the reader attaches to forms — the positions a
  located backtrace entry reports — are start-before-end positions inside the text, and for
  list forms and symbols they coincide with the extent of the form as written.

    E. tokens      `token_span_extent`, `token_spans_ordered`, `P_line_col`:
         every token's span ends at the position after a prefix `p ++ w` of the text and, for
         every token other than an error token, starts at the position after `p`, with `w`
         non-empty and equal to the token as written (`Written`: `(` is one character, an
         identifier is its name, an integer literal has that value, a string's span starts
         after the opening quote and covers an encoding of the string and the closing quote);
         tokens do not overlap and are in text order.
    F. forms       `form_tokens` (every form and sub-form is `Parsed` from a contiguous
         segment of the tokens), `list_span` (a list's span runs from the start of its `(` to
         the end of its matching `)`, items and tail parsed from the tokens in between),
         `list_extent` / `ident_extent` (the same in terms of characters of the text),
         `ident_span`, `span_start_before_end`.
    G. nesting     `sub_spans_within`, `sub_spans_strictly_within`.

  Model fact: the start of the "Unknown escape char" error token is computed as `col - 1`
  after the offending character; when that character is a newline the result, column 0 of the
  next line, is not a position of the text (it still lies between the neighbouring positions,
  so the order of tokens is unaffected).  Error tokens never occur in a successfully read form.
-/
import Tulisp.Proofs.C16Span
namespace Tulisp.C16
open Tulisp Tulisp.C09

/-! ## E. Token spans -/

/-- `P pre` in closed form: line = 1 + newlines in `pre`, column = 1 + characters after the
    last newline (every character counts one column, ASCII or not). -/
theorem P_line_col (pre : List Char) :
    (P pre).line = 1 + pre.count '\n' ∧
    (P pre).col = 1 + (pre.reverse.takeWhile (· ≠ '\n')).length :=
  C08.advPos_line_col pre

/-- Every token the tokenizer emits for a text `cs` extends over a piece `w` of the text after
    a prefix `p`: its end is the position after `p ++ w`, its start lies between the position
    after `p` and its end; unless it is an error token, its start IS the position after `p`
    (so start < end), `w` is non-empty and is the token as written. -/
theorem token_span_extent (f : Nat) (cs : List Char) (t : Token) (ht : t ∈ tokenize f cs) :
    ∃ p w r, cs = p ++ w ++ r ∧ t.sp.file = f ∧ t.sp.e = P (p ++ w) ∧
      PosLe (P p) t.sp.s ∧ PosLe t.sp.s t.sp.e ∧
      (isErrTok t.tok = false →
        t.sp.s = P p ∧ w ≠ [] ∧ Written t.tok w ∧ PosLt t.sp.s t.sp.e) := by
  obtain ⟨p, w, r, h1, hg⟩ := token_extent f cs t ht
  refine ⟨p, w, r, h1, hg.file, hg.e, hg.sLo, hg.sHi, fun hx => ?_⟩
  obtain ⟨h2, h3, h4⟩ := hg.exact hx
  exact ⟨h2, h3, h4, (good_le hg).2 hx⟩

/-- Parentheses: the span of a `(` / `)` token covers exactly that one character. -/
theorem paren_token_extent (f : Nat) (cs : List Char) (t : Token) (ht : t ∈ tokenize f cs)
    (hk : t.tok = .open ∨ t.tok = .close) :
    ∃ p ch r, cs = p ++ ch :: r ∧ (t.tok = .open → ch = '(') ∧ (t.tok = .close → ch = ')') ∧
      t.sp.s = P p ∧ t.sp.e = P (p ++ [ch]) := by
  obtain ⟨p, w, r, h1, _, he, _, _, hx⟩ := token_span_extent f cs t ht
  rcases hk with hk | hk
  · obtain ⟨h2, _, h4, _⟩ := hx (by rw [hk]; rfl)
    rw [hk] at h4; simp only [Written] at h4; subst h4
    refine ⟨p, '(', r, by simp [h1], fun _ => rfl, ?_, h2, he⟩
    intro h; rw [hk] at h; cases h
  · obtain ⟨h2, _, h4, _⟩ := hx (by rw [hk]; rfl)
    rw [hk] at h4; simp only [Written] at h4; subst h4
    refine ⟨p, ')', r, by simp [h1], ?_, fun _ => rfl, h2, he⟩
    intro h; rw [hk] at h; cases h

/-- Identifiers: the characters between start and end are exactly the name. -/
theorem ident_token_extent (f : Nat) (cs : List Char) (sp : Span) (name : String)
    (ht : (⟨.ident name, sp⟩ : Token) ∈ tokenize f cs) :
    ∃ p r, cs = p ++ name.toList ++ r ∧ sp.s = P p ∧ sp.e = P (p ++ name.toList) := by
  obtain ⟨p, w, r, h1, _, he, _, _, hx⟩ := token_span_extent f cs _ ht
  obtain ⟨h2, _, h4, _⟩ := hx rfl
  simp only [Written] at h4
  obtain ⟨rfl, _⟩ := h4
  exact ⟨p, r, h1, h2, he⟩

/-- Integers: the characters between start and end are a literal with the token's value. -/
theorem int_token_extent (f : Nat) (cs : List Char) (sp : Span) (n : Int)
    (ht : (⟨.int n, sp⟩ : Token) ∈ tokenize f cs) :
    ∃ p w r, cs = p ++ w ++ r ∧ parseIntText w = n ∧ sp.s = P p ∧ sp.e = P (p ++ w) := by
  obtain ⟨p, w, r, h1, _, he, _, _, hx⟩ := token_span_extent f cs _ ht
  obtain ⟨h2, _, h4, _⟩ := hx rfl
  simp only [Written] at h4
  exact ⟨p, w, r, h1, h4.1, h2, he⟩

/-- Tokens are in text order and do not overlap: each has start ≤ end (< for non-error tokens),
    and every token ends at or before the start of every later token. -/
theorem token_spans_ordered (f : Nat) (cs : List Char) : TokOrdered (tokenize f cs) :=
  tokenize_ordered f cs

/-! ## F. Spans of forms -/

/-- Every form read from a text, and every sub-form at any depth, was built by the parser from
    a contiguous segment of the text's tokens (`Parsed` fixes all spans in terms of those
    tokens). -/
theorem form_tokens {f : Nat} {cs : List Char} {forms : List Sx} {form y : Sx}
    (h : (readText f cs).res = .ok forms) (hf : form ∈ forms) (hy : Sub y form) :
    ∃ ys, ys <:+: tokenize f cs ∧ Parsed y ys :=
  sub_tokens h hf hy

/-- A list's extent runs from its `(` to its matching `)`: for every list form occurring in what
    was read, the token list splits as `pre ++ ( :: mid ++ ) :: post`, the list's span is
    (start of that `(`, end of that `)`), and the items and the dotted tail are parsed from
    consecutive segments that together are exactly `mid`. -/
theorem list_span {f : Nat} {cs : List Char} {forms : List Sx} {form : Sx} {sp : Span}
    {items : List Sx} {tail : Option Sx}
    (h : (readText f cs).res = .ok forms) (hf : form ∈ forms)
    (hy : Sub (.list sp items tail) form) :
    ∃ pre o mid c post, tokenize f cs = pre ++ o :: (mid ++ c :: post) ∧
      o.tok = .open ∧ c.tok = .close ∧ sp = ⟨o.sp.file, o.sp.s, c.sp.e⟩ ∧
      ∃ iseg tseg, mid = iseg ++ tseg ∧ ParsedL items iseg ∧ ParsedO tail tseg := by
  obtain ⟨ys, ⟨pre, post, hin⟩, hp⟩ := sub_tokens h hf hy
  simp only [Parsed] at hp
  obtain ⟨o, c, iseg, tseg, rfl, ho, hc, hsp, hi, ht⟩ := hp
  exact ⟨pre, o, iseg ++ tseg, c, post, by rw [← hin]; simp, ho, hc, hsp, iseg, tseg, rfl, hi, ht⟩

/-- The same in terms of the text: the list's span starts at the position of a `(` of the text
    and ends at the position just after a later `)`. -/
theorem list_extent_in_text {f : Nat} {cs : List Char} {forms : List Sx} {form : Sx} {sp : Span}
    {items : List Sx} {tail : Option Sx}
    (h : (readText f cs).res = .ok forms) (hf : form ∈ forms)
    (hy : Sub (.list sp items tail) form) :
    ∃ p k r, cs = p ++ '(' :: (k ++ ')' :: r) ∧ sp.file = f ∧ sp.s = P p ∧
      sp.e = P (p ++ '(' :: (k ++ [')'])) := by
  obtain ⟨ys, hin, hp⟩ := sub_tokens h hf hy
  exact list_extent hin hp

/-- A symbol's span is its token's span … -/
theorem ident_span {f : Nat} {cs : List Char} {forms : List Sx} {form : Sx} {sp : Span}
    {name : String} (h : (readText f cs).res = .ok forms) (hf : form ∈ forms)
    (hy : Sub (.ident sp name) form) : (⟨.ident name, sp⟩ : Token) ∈ tokenize f cs := by
  obtain ⟨ys, hin, hp⟩ := sub_tokens h hf hy
  simp only [Parsed] at hp
  subst hp
  exact hin.subset (by simp)

/-- … which covers exactly the characters of its name. -/
theorem ident_extent_in_text {f : Nat} {cs : List Char} {forms : List Sx} {form : Sx} {sp : Span}
    {name : String} (h : (readText f cs).res = .ok forms) (hf : form ∈ forms)
    (hy : Sub (.ident sp name) form) :
    ∃ p r, cs = p ++ name.toList ++ r ∧ name.toList ≠ [] ∧ sp.file = f ∧ sp.s = P p ∧
      sp.e = P (p ++ name.toList) := by
  obtain ⟨ys, hin, hp⟩ := sub_tokens h hf hy
  exact ident_extent hin hp

/-- Start strictly before end (lexicographically on line, column), for every list form and
    every identifier occurring in what was read. -/
theorem span_start_before_end {f : Nat} {cs : List Char} {forms : List Sx} {form y : Sx}
    (h : (readText f cs).res = .ok forms) (hf : form ∈ forms) (hy : Sub y form)
    (hk : (∃ sp items tail, y = .list sp items tail) ∨ (∃ sp name, y = .ident sp name)) :
    PosLt y.span.s y.span.e := by
  obtain ⟨ys, hin, hp⟩ := sub_tokens h hf hy
  have ho := tokOrdered_infix (tokenize_ordered f cs) hin
  rcases hk with ⟨sp, items, tail, rfl⟩ | ⟨sp, name, rfl⟩
  · exact list_start_lt_end hp ho
  · exact ident_start_lt_end hp ho

/-! ## G. Nesting -/

/-- The span of every form inside a list (item, dotted tail, or anything nested in those) lies
    strictly inside the span of the list. -/
theorem sub_spans_strictly_within {f : Nat} {cs : List Char} {forms : List Sx} {form x y : Sx}
    {sp : Span} {items : List Sx} {tail : Option Sx}
    (h : (readText f cs).res = .ok forms) (hf : form ∈ forms)
    (hl : Sub (.list sp items tail) form) (hx : x ∈ items ∨ tail = some x) (hy : Sub y x) :
    PosLt sp.s y.span.s ∧ PosLt y.span.e sp.e := by
  obtain ⟨ys, hin, hp⟩ := sub_tokens h hf hl
  exact inner_span_within hp (tokOrdered_infix (tokenize_ordered f cs) hin) hx hy

/-- … in the form of the model's own `spanWithin` test (used by `maximalEvents`). -/
theorem sub_spans_within {f : Nat} {cs : List Char} {forms : List Sx} {form x y : Sx}
    {sp : Span} {items : List Sx} {tail : Option Sx}
    (h : (readText f cs).res = .ok forms) (hf : form ∈ forms)
    (hl : Sub (.list sp items tail) form) (hx : x ∈ items ∨ tail = some x) (hy : Sub y x) :
    spanWithin y.span sp = true := by
  obtain ⟨ys, hin, hp⟩ := sub_tokens h hf hl
  exact inner_spanWithin hp (tokOrdered_infix (tokenize_ordered f cs) hin) hx hy

/-! ## Non-vacuity: `(a⏎ (b . c))` -/

def exText : List Char := ['(', 'a', '\n', ' ', '(', 'b', ' ', '.', ' ', 'c', ')', ')']

def exInner : Sx := .list ⟨0, ⟨2, 2⟩, ⟨2, 9⟩⟩ [.ident ⟨0, ⟨2, 3⟩, ⟨2, 4⟩⟩ "b"]
  (some (.ident ⟨0, ⟨2, 7⟩, ⟨2, 8⟩⟩ "c"))
def exOuter : Sx := .list ⟨0, ⟨1, 1⟩, ⟨2, 10⟩⟩ [.ident ⟨0, ⟨1, 2⟩, ⟨1, 3⟩⟩ "a", exInner] none

theorem exRead : (readText 0 exText).res = .ok [exOuter] := by rfl

/-- the hypotheses of the theorems above are satisfiable: `c` is a sub-form, via the inner
    list's dotted tail -/
example : Sub (.ident ⟨0, ⟨2, 7⟩, ⟨2, 8⟩⟩ "c") exOuter :=
  Sub.item (x := exInner) (by simp) (Sub.tail (Sub.refl _))

example : spanWithin (Sx.span (.ident ⟨0, ⟨2, 7⟩, ⟨2, 8⟩⟩ "c")) ⟨0, ⟨1, 1⟩, ⟨2, 10⟩⟩ = true :=
  sub_spans_within (form := exOuter) (x := exInner) (items := [.ident ⟨0, ⟨1, 2⟩, ⟨1, 3⟩⟩ "a", exInner])
    (tail := none) exRead (by simp) (Sub.refl _) (Or.inl (by simp)) (Sub.tail (Sub.refl _))

example : P ['(', 'a', '\n', ' '] = ⟨2, 2⟩ := by decide

end Tulisp.C16
