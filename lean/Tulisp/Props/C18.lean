/-
  Props/C18.lean — property C18:

  "Building, measuring, traversing, copying, appending, comparing with equal, printing, reporting an
   error about and discarding lists works for any length without exhausting the host stack: no list
   operation recurses once per element along the spine."

  Reading in the model.  Host-stack depth is the depth parameter of `Rec.ofDepth`: a computation
  consumes depth only by calling `r.eval` / `r.mexp` / `r.load`, which run at the next smaller
  budget.  A function that does not take `r` consumes no depth at all; a loop that calls `r` on every
  element with the SAME `r` consumes a depth that is independent of the number of elements.

    A. operations without `Rec` (`pure_ops_depth_free`, the built-ins `length`, `nth`, `nthcdr`,
       `last`, `equal`, `prin1-to-string` for a list of any length)
    B. `mapVals_any_length`, `filterVals_any_length`, `reduceVals_any_length`,
       `findVals_any_length`, `assocLoop_any_length`, `evalEach_any_length`,
       `evalProgn_any_length`, `dolistLoop_any_length`, `sortM_any_length`, `sort_any_length`:
       if every per-element step succeeds under `r`, the whole loop succeeds under the same `r`, for a
       list of ANY length
    C. `mapcar_depth_indep`, `seqReduce_depth_indep`: for the real evaluator, the stack budget that
       suffices for the calls on the empty and on all one-element lists suffices for every list
    D. `equal_spine_iterative`, `equal_lists`: `equal` follows the spine without `Rec`
    E. `depth_zero_is_fuel`, `plain_recursion_grows`, `flat_list_constant_depth`: nesting (as opposed
       to length) DOES consume depth — the model distinguishes the two.

  Not modelled (and therefore not covered): Rust's `Drop` of a long list ("discarding") and the
  formatting of error messages ("reporting an error about"); errors of the model carry only their
  kind.
-/
import Tulisp.Proofs.C18
namespace Tulisp.C18
open Tulisp

/-! ## A. operations that do not take the evaluator -/

/-- The list primitives are functions of the value (and, for `eq`/`equal`/printing, of the context)
    alone — none of them has a `Rec` parameter, so none of them can consume stack budget.  (The
    statement is the *typing* of these constants; the conjunction below merely exhibits it.) -/
theorem pure_ops_depth_free :
    (∃ f : Val → Int, f = lengthV) ∧
    (∃ f : Int → Val → E Val, f = nthcdrV) ∧
    (∃ f : Int → Val → E Val, f = nthV) ∧
    (∃ f : Val → Option Int → E Val, f = lastV) ∧
    (∃ f : Ctx → Val → Val → Bool, f = equalV) ∧
    (∃ f : Ctx → Val → Val → Bool, f = eqV) ∧
    (∃ f : (Val → Bool) → Val → Val, f = assocFind) ∧
    (∃ f : Ctx → Val → Val → E Val, f = plistGet) ∧
    (∃ f : Ctx → Val → Option String, f = printV) ∧
    (∃ f : Val → M Val, f = deepCopy) ∧
    (∃ f : Acc → M Val, f = Acc.build) ∧
    (∃ f : Val → List Val, f = Val.elems) ∧
    (∃ f : Val → List Val × Val, f = Val.spine) :=
  ⟨⟨_, rfl⟩, ⟨_, rfl⟩, ⟨_, rfl⟩, ⟨_, rfl⟩, ⟨_, rfl⟩, ⟨_, rfl⟩, ⟨_, rfl⟩, ⟨_, rfl⟩, ⟨_, rfl⟩,
   ⟨_, rfl⟩, ⟨_, rfl⟩, ⟨_, rfl⟩, ⟨_, rfl⟩⟩

/-- `(length l)`: `r` is used for the argument form only; the list `l` it evaluates to may have any
    length -/
theorem length_builtin_any_length (r : Rec) (i : Nat) (a l : Val) (c c1 : Ctx)
    (h : r.eval a c = (.ok l, c1)) :
    callBuiltin r .length_ (.cons i a .nil) c = (.ok (.int (l.elems.length : Nat)), c1) := by
  have e : callBuiltin r .length_ (.cons i a .nil) = (do
      let (l, _) ← nextArg r (.cons i a .nil)
      pure (.int (lengthV l))) := rfl
  have hn : nextArg r (.cons i a .nil) c = (.ok (l, .nil), c1) := by
    show M.bind (r.eval a) _ c = _
    simp [M.bind, h, pure, M.pure]
  rw [e, C12.bind_ok _ hn]
  simp [pure, M.pure, lengthV, C12.len_eq_length_elems]

/-- `(equal a b)` on two values of any size: `r` evaluates the two argument forms, the comparison
    itself is `equalV` -/
theorem equal_builtin_any_length (r : Rec) (i j : Nat) (a b x y : Val) (c c1 c2 : Ctx)
    (h1 : r.eval a c = (.ok x, c1)) (h2 : r.eval b c1 = (.ok y, c2)) :
    callBuiltin r .equal_ (.cons i a (.cons j b .nil)) c = (.ok (ofBool (equalV c2 x y)), c2) := by
  have e : callBuiltin r .equal_ (.cons i a (.cons j b .nil)) = (do
      let (a, rest) ← nextArg r (.cons i a (.cons j b .nil))
      let (b', _) ← nextArg r rest
      let c ← M.get
      pure (ofBool (equalV c a b'))) := rfl
  have hn1 : nextArg r (.cons i a (.cons j b .nil)) c = (.ok (x, .cons j b .nil), c1) := by
    show M.bind (r.eval a) _ c = _
    simp [M.bind, h1, pure, M.pure]
  have hn2 : nextArg r (.cons j b .nil) c1 = (.ok (y, .nil), c2) := by
    show M.bind (r.eval b) _ c1 = _
    simp [M.bind, h2, pure, M.pure]
  rw [e, C12.bind_ok _ hn1]
  simp only [C12.bind_ok _ hn2]
  rfl

/-- `(list a₁ … aₙ)` / building: one `r.eval` per argument form, all with the same `r`, then an
    allocation loop without `r` -/
theorem list_builtin_any_length (r : Rec) (args : Val)
    (h : ∀ x ∈ args.elems, Succeeds (r.eval x)) : Succeeds (callBuiltin r .list_ args) := by
  have e : callBuiltin r .list_ args = (do let vs ← evalEach r args; mkListM vs) := rfl
  rw [e]
  exact (evalEach_succeeds r args h).bind (fun vs => succeeds_mkListM vs .nil)

/-- copying: `deepCopy` always succeeds, whatever the length -/
theorem deepCopy_any_length (v : Val) : Succeeds (deepCopy v) := by
  intro c
  obtain ⟨w, c', h, _⟩ := C12.deepCopy_spec v c
  exact ⟨w, c', h⟩

/-- appending: the evaluator is used for the argument forms only; copying the arguments and linking
    them up (`C12.appendVals`) does not take `r` -/
theorem append_builtin_depth_free (r : Rec) (args : Val) :
    callBuiltin r .append_ args = (do
      let (first, rest) ← nextArg r args
      let others ← evalEach r rest
      C12.appendVals first others) := C12.callBuiltin_append r args

/-- printing: likewise; the printer `princV` / `printV` does not take `r` -/
theorem prin1_builtin_depth_free (r : Rec) (args : Val) :
    callBuiltin r .prin1ToString args = (do
      let (v, _) ← nextArg r args
      let c ← M.get
      let s ← printOrSkip (princV c v)
      mkStr s) := rfl

/-! ## B. the element loops: success for a list of any length under one `r` -/

theorem mapVals_any_length (r : Rec) (f : Val) (xs : List Val)
    (h : ∀ x ∈ xs, Succeeds (C12.app1 r f x)) (acc : List Val) :
    Succeeds (callBuiltin.mapVals r f xs acc) := mapVals_succeeds r f xs h acc

theorem filterVals_any_length (r : Rec) (f : Val) (xs : List Val)
    (h : ∀ x ∈ xs, Succeeds (C12.app1 r f x)) (acc : List Val) :
    Succeeds (callBuiltin.filterVals r f xs acc) := filterVals_succeeds r f xs h acc

theorem findVals_any_length (r : Rec) (f dflt : Val) (xs : List Val)
    (h : ∀ x ∈ xs, Succeeds (C12.app1 r f x)) :
    Succeeds (callBuiltin.findVals r f dflt xs) := findVals_succeeds r f dflt xs h

/-- `seq-reduce`; `A` is any invariant of the accumulator (take `fun _ => True` when the function
    succeeds on everything) -/
theorem reduceVals_any_length (r : Rec) (f : Val) (A : Val → Prop) (xs : List Val)
    (h : ∀ a, A a → ∀ x ∈ xs, ∀ c, ∃ v c', C12.app2 r f a x c = (.ok v, c') ∧ A v)
    (a : Val) (ha : A a) (c : Ctx) :
    ∃ v c', callBuiltin.reduceVals r f a xs c = (.ok v, c') ∧ A v :=
  reduceVals_succeeds r f A xs h a ha c

theorem assocLoop_any_length (r : Rec) (p key : Val) (l : Val)
    (h : ∀ item ∈ l.elems, ∀ i k d, item = .cons i k d → Succeeds (C12.app2 r p k key)) :
    Succeeds (callBuiltin.assocLoop r p key l) := assocLoop_succeeds r p key l h

theorem evalEach_any_length (r : Rec) (l : Val) (h : ∀ x ∈ l.elems, Succeeds (r.eval x)) :
    Succeeds (evalEach r l) := evalEach_succeeds r l h

theorem evalProgn_any_length (r : Rec) (l : Val) (h : ∀ x ∈ l.elems, Succeeds (r.eval x)) :
    Succeeds (evalProgn r l) := evalProgn_succeeds r l h

theorem dolistLoop_any_length (r : Rec) (var : Nat) (body : Val) (l : Val)
    (hbody : Succeeds (evalProgn r body)) (hl : l.spine.2 = .nil) :
    Succeeds (dolistLoop r var body l) := dolistLoop_succeeds r var body l hbody hl

theorem sortM_any_length (lt : Val → Val → M Bool) (xs : List Val)
    (h : ∀ a ∈ xs, ∀ b ∈ xs, Succeeds (lt a b)) : Succeeds (sortM lt (xs.length + 1) xs) :=
  sortM_succeeds lt xs h

/-- the comparison the `sort` built-in hands to the merge sort -/
def sortLt (r : Rec) (p : Val) : Val → Val → M Bool := fun a b => do
  let l ← mkListM [a, b]
  let v ← callBuiltin.applyVals r p l
  pure (truthy v)

theorem callBuiltin_sort (r : Rec) (args : Val) :
    callBuiltin r .sort_ args = (do
      let (seq, rest) ← nextArg r args
      let (pv, _) ← nextArg r rest
      let p ← r.eval pv
      let sorted ← sortM (sortLt r p) (seq.elems.length + 1) seq.elems
      mkListM sorted) := rfl

/-- the `sort` loop for a list of any length: the fuel the built-in supplies always suffices -/
theorem sort_any_length (r : Rec) (p : Val) (xs : List Val)
    (h : ∀ a ∈ xs, ∀ b ∈ xs, Succeeds (C12.app2 r p a b)) :
    Succeeds (sortM (sortLt r p) (xs.length + 1) xs) := by
  apply sortM_any_length
  intro a ha b hb
  have e : sortLt r p a b = (C12.app2 r p a b >>= fun v => pure (truthy v)) := by
    simp only [sortLt, C12.app2, bind_assoc]
  rw [e]
  exact (h a ha b hb).bind (fun v => Succeeds.pure _)

/-- non-vacuity of the hypotheses of section B: an evaluator under which everything succeeds -/
def idRec : Rec := ⟨fun v => pure v, fun v => pure v, fun _ => pure .nil⟩

example (x : Val) : Succeeds (idRec.eval x) := Succeeds.pure x

example (l : Val) : Succeeds (evalEach idRec l) :=
  evalEach_any_length idRec l (fun x _ => Succeeds.pure x)

/-! ## D. `equal` walks the spine without the evaluator -/

/-- `equal` on two conses compares the cars, then continues with the cdrs; it is a function of the
    context and the two values only (`equalV : Ctx → Val → Val → Bool`, no `Rec`, no depth) -/
theorem equal_spine_iterative (c : Ctx) (i j : Nat) (a d a' d' : Val) :
    equalV c (.cons i a d) (.cons j a' d') = (equalV c a a' && equalV c d d') := by
  simp [equalV]

/-- on proper lists of any length: same length and element-wise `equal` -/
theorem equal_lists (c : Ctx) (xs ys : List Val) :
    equalV c (Val.ofList xs) (Val.ofList ys) =
      (decide (xs.length = ys.length) && (xs.zip ys).all (fun p => equalV c p.1 p.2)) := by
  induction xs generalizing ys with
  | nil => cases ys <;> simp [Val.ofList, equalV]
  | cons x xs ih =>
    cases ys with
    | nil => simp [Val.ofList, equalV]
    | cons y ys =>
      simp only [Val.ofList, equalV, ih, List.length_cons, List.zip_cons_cons, List.all_cons,
        Nat.add_right_cancel_iff]
      cases equalV c x y <;> simp

/-! ## E. contrast: nesting does consume depth -/

/-- with no budget left every evaluation answers `fuel` -/
theorem depth_zero_is_fuel (e : Val) (c : Ctx) : (Rec.ofDepth 0).eval e c = (.fuel, c) := rfl

/-- evaluating a call descends one level: head and arguments are evaluated by the evaluator of the
    next smaller budget -/
theorem eval_call_nests (d : Nat) (i : Nat) (head args : Val) :
    (Rec.ofDepth (d + 1)).eval (.cons i head args) =
      (do
        let f ← (Rec.ofDepth d).eval head
        match f with
        | .builtin b =>
          if b.isMacro then funcallVal (Rec.ofDepth d) true f args
          else callBuiltin (Rec.ofDepth d) b args
        | _ => funcallVal (Rec.ofDepth d) true f args) := rfl

/-- `(progn (progn … (progn 1)))` with `n` levels of nesting -/
def nest : Nat → Val
  | 0 => .int 1
  | n + 1 => Val.ofList [.builtin .progn_, nest n]

/-- `(progn 1 1 … 1)` with `n` elements -/
def flat (n : Nat) : Val := .cons 0 (.builtin .progn_) (Val.ofList (List.replicate n (.int 1)))

theorem eval_builtin_self (d : Nat) (b : Bi) (c : Ctx) :
    (Rec.ofDepth (d + 1)).eval (.builtin b) c = (.ok (.builtin b), c) := rfl

theorem eval_int_self (d : Nat) (n : Int) (c : Ctx) :
    (Rec.ofDepth (d + 1)).eval (.int n) c = (.ok (.int n), c) := rfl

/-- **Nested structure consumes depth**: `n` levels of nesting need budget `n + 1` exactly. -/
theorem plain_recursion_grows (n d : Nat) (c : Ctx) :
    (Rec.ofDepth d).eval (nest n) c = if n < d then (.ok (.int 1), c) else (.fuel, c) := by
  induction n generalizing d with
  | zero => cases d <;> rfl
  | succ n ih =>
    cases d with
    | zero => rfl
    | succ d =>
      cases d with
      | zero =>
        have : ¬ (n + 1 < 0 + 1) := by omega
        simp only [this, if_false]
        rfl
      | succ d =>
        show (Rec.ofDepth (d + 1 + 1)).eval (.cons 0 (.builtin .progn_) (.cons 0 (nest n) .nil)) c = _
        rw [eval_call_nests]
        rw [C12.bind_ok _ (eval_builtin_self d .progn_ c)]
        show (Rec.ofDepth (d + 1)).eval (nest n) c = _
        rw [ih]
        by_cases h : n < d + 1 <;> simp [h]

/-- in particular no budget suffices for all nesting depths … -/
theorem nesting_unbounded (d : Nat) (c : Ctx) : (Rec.ofDepth d).eval (nest d) c = (.fuel, c) := by
  rw [plain_recursion_grows]; simp

/-- … whereas a flat list of ANY length evaluates within budget 2 -/
theorem flat_list_constant_depth (n : Nat) (c : Ctx) :
    ∃ v, (Rec.ofDepth 2).eval (flat n) c = (.ok v, c) := by
  show ∃ v, (Rec.ofDepth (0 + 1 + 1)).eval (.cons 0 (.builtin .progn_) _) c = (.ok v, c)
  rw [eval_call_nests, C12.bind_ok _ (eval_builtin_self 0 .progn_ c)]
  show ∃ v, evalProgn (Rec.ofDepth 1) (Val.ofList (List.replicate n (.int 1))) c = (.ok v, c)
  induction n with
  | zero => exact ⟨.nil, rfl⟩
  | succ n ih =>
    obtain ⟨v, hv⟩ := ih
    cases n with
    | zero => exact ⟨.int 1, rfl⟩
    | succ n =>
      refine ⟨v, ?_⟩
      show evalProgn (Rec.ofDepth 1) (.cons 0 (.int 1) (.cons 0 (.int 1) _)) c = _
      rw [evalProgn, C12.bind_ok _ (eval_int_self 0 1 c)]
      exact hv


/-! ## C. the real evaluator: the budget needed does not grow with the length -/

/-- evaluating `e` with stack budget `D` succeeds from every context -/
def SucceedsAt (D : Nat) (e : Val) : Prop := Succeeds ((Rec.ofDepth D).eval e)

/-- the call `(mapcar 'f 'l)` on a function value `f` and a list value `l` (the built-in object in
    head position evaluates to itself) -/
def mapcarForm (f l : Val) : Val := Val.ofList [.builtin .mapcar, .quote f, .quote l]

/-- the call `(seq-reduce 'f 'l 'init)` -/
def reduceForm (f l init : Val) : Val :=
  Val.ofList [.builtin .seqReduce, .quote f, .quote l, .quote init]

theorem eval_selfEvaluating (d : Nat) (f : Val) (hf : selfEvaluating f = true) (c : Ctx) :
    (Rec.ofDepth (d + 1)).eval f c = (.ok f, c) := by
  cases f <;> first | rfl | simp [selfEvaluating] at hf

theorem eval_quote (d : Nat) (v : Val) (c : Ctx) :
    (Rec.ofDepth (d + 1)).eval (.quote v) c = (.ok v, c) := rfl

theorem nextArg_quote (d : Nat) (i : Nat) (v rest : Val) (c : Ctx) :
    nextArg (Rec.ofDepth (d + 1)) (.cons i (.quote v) rest) c = (.ok (v, rest), c) := by
  simp only [nextArg]
  rw [C12.bind_ok _ (eval_quote d v c)]; rfl

theorem depth_lt_two_fails (D : Nat) (hD : D < 2) (i : Nat) (b : Bi) (args : Val) (c : Ctx) :
    (Rec.ofDepth D).eval (.cons i (.builtin b) args) c = (.fuel, c) := by
  cases D with
  | zero => rfl
  | succ D =>
    have : D = 0 := by omega
    subst this; rfl

/-- what `(mapcar 'f 'l)` does at budget `d + 2`: the element loop under `Rec.ofDepth (d + 1)`, then
    the allocation of the result -/
theorem eval_mapcarForm (d : Nat) (f l : Val) (hf : selfEvaluating f = true) :
    (Rec.ofDepth (d + 2)).eval (mapcarForm f l) =
      (callBuiltin.mapVals (Rec.ofDepth (d + 1)) f l.elems [] >>= fun rs => mkListM rs) := by
  funext c
  show (Rec.ofDepth (d + 1 + 1)).eval (.cons 0 (.builtin .mapcar) _) c = _
  rw [eval_call_nests, C12.bind_ok _ (eval_builtin_self d .mapcar c)]
  show callBuiltin (Rec.ofDepth (d + 1)) .mapcar _ c = _
  have e : ∀ args, callBuiltin (Rec.ofDepth (d + 1)) .mapcar args = (do
      let (fv, rest) ← nextArg (Rec.ofDepth (d + 1)) args
      let (seq, _) ← nextArg (Rec.ofDepth (d + 1)) rest
      let f ← (Rec.ofDepth (d + 1)).eval fv
      let rs ← callBuiltin.mapVals (Rec.ofDepth (d + 1)) f seq.elems []
      mkListM rs) := fun _ => rfl
  simp only [Val.ofList]
  rw [e, C12.bind_ok _ (nextArg_quote d 0 f _ c)]
  simp only [C12.bind_ok _ (nextArg_quote d 0 l _ c), C12.bind_ok _ (eval_selfEvaluating d f hf c)]

theorem eval_reduceForm (d : Nat) (f l init : Val) (hf : selfEvaluating f = true) :
    (Rec.ofDepth (d + 2)).eval (reduceForm f l init) =
      callBuiltin.reduceVals (Rec.ofDepth (d + 1)) f init l.elems := by
  funext c
  show (Rec.ofDepth (d + 1 + 1)).eval (.cons 0 (.builtin .seqReduce) _) c = _
  rw [eval_call_nests, C12.bind_ok _ (eval_builtin_self d .seqReduce c)]
  show callBuiltin (Rec.ofDepth (d + 1)) .seqReduce _ c = _
  have e : ∀ args, callBuiltin (Rec.ofDepth (d + 1)) .seqReduce args = (do
      let (fv, rest) ← nextArg (Rec.ofDepth (d + 1)) args
      let (seq, rest2) ← nextArg (Rec.ofDepth (d + 1)) rest
      let (init, _) ← nextArg (Rec.ofDepth (d + 1)) rest2
      let f ← (Rec.ofDepth (d + 1)).eval fv
      callBuiltin.reduceVals (Rec.ofDepth (d + 1)) f init seq.elems) := fun _ => rfl
  simp only [Val.ofList]
  rw [e, C12.bind_ok _ (nextArg_quote d 0 f _ c)]
  simp only [C12.bind_ok _ (nextArg_quote d 0 l _ c), C12.bind_ok _ (nextArg_quote d 0 init _ c),
    C12.bind_ok _ (eval_selfEvaluating d f hf c)]

/-- **`mapcar`: the depth needed does not grow with the length.**  If, with stack budget `D`, the
    call on the empty list and the calls on all one-element lists `(x)` with `x ∈ S` succeed (from
    every context), then with the SAME budget the call on every list over `S`, of any length,
    succeeds. -/
theorem mapcar_depth_indep (D : Nat) (f : Val) (hf : selfEvaluating f = true) (S : Val → Prop)
    (h0 : SucceedsAt D (mapcarForm f .nil))
    (h1 : ∀ x, S x → SucceedsAt D (mapcarForm f (Val.ofList [x])))
    (l : Val) (hl : ∀ x ∈ l.elems, S x) : SucceedsAt D (mapcarForm f l) := by
  by_cases hD : D < 2
  · exfalso
    obtain ⟨v, c', h⟩ := h0 default
    rw [show mapcarForm f .nil = .cons 0 (.builtin .mapcar) _ from rfl,
      depth_lt_two_fails D hD] at h
    cases h
  · obtain ⟨d, rfl⟩ : ∃ d, D = d + 2 := ⟨D - 2, by omega⟩
    unfold SucceedsAt
    rw [eval_mapcarForm d f l hf]
    refine (mapVals_any_length _ f l.elems ?_ []).bind (fun rs => succeeds_mkListM rs .nil)
    intro x hx c
    obtain ⟨v, c', h⟩ := h1 x (hl x hx) c
    rw [eval_mapcarForm d f _ hf] at h
    obtain ⟨rs, c1, h, _⟩ := ok_of_bind_ok h
    simp only [Val.ofList, Val.elems, C12.mapVals_cons] at h
    obtain ⟨w, c2, h, _⟩ := ok_of_bind_ok h
    exact ⟨w, c2, h⟩

/-- **`seq-reduce`: the depth needed does not grow with the length.**  `A` describes the possible
    accumulators (closed under what `f` returns on elements of `S`). -/
theorem seqReduce_depth_indep (D : Nat) (f : Val) (hf : selfEvaluating f = true) (S A : Val → Prop)
    (h0 : SucceedsAt D (reduceForm f .nil .nil))
    (h1 : ∀ a x, A a → S x → ∀ c, ∃ v c',
      (Rec.ofDepth D).eval (reduceForm f (Val.ofList [x]) a) c = (.ok v, c') ∧ A v)
    (l : Val) (hl : ∀ x ∈ l.elems, S x) (a : Val) (ha : A a) (c : Ctx) :
    ∃ v c', (Rec.ofDepth D).eval (reduceForm f l a) c = (.ok v, c') ∧ A v := by
  by_cases hD : D < 2
  · exfalso
    obtain ⟨v, c', h⟩ := h0 default
    rw [show reduceForm f .nil .nil = .cons 0 (.builtin .seqReduce) _ from rfl,
      depth_lt_two_fails D hD] at h
    cases h
  · obtain ⟨d, rfl⟩ : ∃ d, D = d + 2 := ⟨D - 2, by omega⟩
    rw [eval_reduceForm d f l a hf]
    apply reduceVals_any_length _ f A l.elems _ a ha c
    intro a ha x hx c
    obtain ⟨v, c', h, hv⟩ := h1 a x ha (hl x hx) c
    rw [eval_reduceForm d f _ a hf] at h
    simp only [Val.ofList, Val.elems, C12.reduceVals_cons] at h
    obtain ⟨w, c2, h, h'⟩ := ok_of_bind_ok h
    simp only [C12.reduceVals_nil, pure, M.pure, Prod.mk.injEq, Res.ok.injEq] at h'
    exact ⟨w, c2, h, h'.1 ▸ hv⟩


/-! ### non-vacuity of the hypotheses of section C, and a concrete instance -/

example : selfEvaluating (.builtin .null_) = true := rfl
example : SucceedsAt 3 (mapcarForm (.builtin .null_) .nil) := fun _ => ⟨_, _, rfl⟩
example (n : Int) : SucceedsAt 3 (mapcarForm (.builtin .null_) (Val.ofList [.int n])) :=
  fun _ => ⟨_, _, rfl⟩

/-- `(mapcar #'null l)` on a list of integers of ANY length runs within stack budget 3 -/
theorem mapcar_null_budget_three (l : Val) (hl : ∀ x ∈ l.elems, ∃ n, x = .int n) :
    SucceedsAt 3 (mapcarForm (.builtin .null_) l) :=
  mapcar_depth_indep 3 (.builtin .null_) rfl (fun x => ∃ n, x = .int n)
    (fun _ => ⟨_, _, rfl⟩) (fun _ ⟨_, hx⟩ => hx ▸ fun _ => ⟨_, _, rfl⟩) l hl

example : SucceedsAt 3 (reduceForm (.builtin .eq_) .nil .nil) := fun _ => ⟨_, _, rfl⟩

/-- `(seq-reduce #'eq l nil)` on a list of integers of ANY length runs within stack budget 3 -/
theorem seqReduce_eq_budget_three (l : Val) (hl : ∀ x ∈ l.elems, ∃ n, x = .int n) (c : Ctx) :
    ∃ v c', (Rec.ofDepth 3).eval (reduceForm (.builtin .eq_) l .nil) c = (.ok v, c') ∧ v = .nil :=
  seqReduce_depth_indep 3 (.builtin .eq_) rfl (fun x => ∃ n, x = .int n) (fun a => a = .nil)
    (fun _ => ⟨_, _, rfl⟩)
    (fun a x ha ⟨n, hx⟩ c => by subst ha; subst hx; exact ⟨_, _, rfl, rfl⟩) l hl .nil rfl c

end Tulisp.C18
