/-
  Props/C07.lean — C07: a backquoted template evaluates to the structure of the equivalent
  list / cons / append construction.

  "A backquoted template evaluates to a structure equal to that of the equivalent
   list/cons/append construction: unquoted expressions are replaced by their values (also in
   dotted-tail position and under nested quote marks), spliced expressions by the elements of
   their list values, and all other parts are literal.  Unquoted parts are evaluated once each,
   left to right; evaluating a template never alters the template or the lists spliced into it,
   so repeated evaluation yields equal and mutually independent results."

  Model: `evalBackquote r` / `bqRest r` (Model/Eval.lean); `evalStep r (.backquote t)` is
  `evalBackquote r t` (`backquote_step`).  Vocabulary (Proofs/Fresh.lean, Proofs/C07.lean):
  `eraseIds` (structure without cons identities), `spineIds`, `SpineIn lo hi`, `OnlyNextId c c'`
  (only the allocation counter differs), `NoUnq` (no `,`/`,@` in the template), `bqSpec` (the
  construction), `Refines`, `unquoted` (the forms under `,`/`,@` in evaluation order).

   (a) unfolding equations   bq_unquote bq_splice bq_quote bq_cons bq_atom bq_nested_backquote
                             bq_rest_unquote bq_rest_cons bq_rest_literal
   (b) literal templates     bq_literal bq_literal_no_eval
   (c) specification         bq_eq_spec bq_spec_ok bq_spec_cons bq_spec_proper_list
                             bq_spec_tail_proper  bq_push_after_improper bq_unquote_after_improper
                             bq_end_after_improper bq_splice_proper
   (d) evaluation order      bq_once_in_order (+ the concrete tick logger)
   (e) freshness             bq_fresh bq_independent bq_disjoint_from_old bq_elements_shared
                             bq_splice_fresh ; for `Rec.ofDepth d`: ofDepth_recMono bq_fresh_eval
                             bq_independent_eval
-/
import Tulisp.Proofs.C07
import Tulisp.Proofs.C11Mono
set_option linter.constructorNameAsVariable false
namespace Tulisp.C07
open Tulisp Tulisp.Fresh

/-- the evaluator on a backquote form is `evalBackquote` on the template -/
theorem backquote_step (r : Rec) (t : Val) : evalStep r (.backquote t) = evalBackquote r t := rfl

/-! ## (a) unfolding equations -/

/-- `` `,e `` is the value of `e` -/
theorem bq_unquote (r : Rec) (e : Val) : evalBackquote r (.unquote e) = r.eval e :=
  evalBackquote_unquote r e

/-- `` `,@e `` (a splice that is the whole template) is a copy of the value of `e` -/
theorem bq_splice (r : Rec) (e : Val) :
    evalBackquote r (.splice e) = (do let x ← r.eval e; deepCopy x) :=
  evalBackquote_splice r e

/-- under a nested quote mark the template is still processed: `` `',e `` -/
theorem bq_quote (r : Rec) (t : Val) :
    evalBackquote r (.quote t) = (do let x ← evalBackquote r t; pure (.quote x)) :=
  evalBackquote_quote r t

/-- a cons template: process the first element, then the rest of the spine, then build the list -/
theorem bq_cons (r : Rec) (i : Nat) (first rest : Val) :
    evalBackquote r (.cons i first rest) = (do
      let acc ← bqItem r first {}
      let acc ← bqRest r rest acc
      acc.build) :=
  evalBackquote_cons r i first rest

/-- one element: `,e` pushes the value, `,@e` appends a copy of the value, anything else pushes
    its own value as a template -/
theorem bq_item (r : Rec) (first : Val) (acc : Acc) :
    bqItem r first acc = (match first with
      | .unquote v => do let x ← r.eval v; acc.push x
      | .splice v => do let x ← r.eval v; let x ← deepCopy x; acc.append x
      | other => do let x ← evalBackquote r other; acc.push x) := rfl

/-- every other template is literal -/
theorem bq_atom (r : Rec) (v : Val) (h1 : v.isCons = false)
    (h2 : ∀ x, v ≠ .unquote x) (h3 : ∀ x, v ≠ .splice x) (h4 : ∀ x, v ≠ .quote x) :
    evalBackquote r v = pure v :=
  evalBackquote_atom r v h1 h2 h3 h4

/-- in particular a nested backquote is not entered -/
theorem bq_nested_backquote (r : Rec) (t : Val) :
    evalBackquote r (.backquote t) = pure (.backquote t) :=
  evalBackquote_atom r _ rfl (by intro x h; cases h) (by intro x h; cases h) (by intro x h; cases h)

/-- `` `(… . ,e) ``: the value of `e` becomes the tail -/
theorem bq_rest_unquote (r : Rec) (e : Val) (acc : Acc) :
    bqRest r (.unquote e) acc = (do let x ← r.eval e; acc.append x) :=
  bqRest_unquote r e acc

theorem bq_rest_cons (r : Rec) (i : Nat) (first rest : Val) (acc : Acc) :
    bqRest r (.cons i first rest) acc = (do
      let acc ← bqItem r first acc
      bqRest r rest acc) :=
  bqRest_cons r i first rest acc

/-- any other tail (nil at the end of a proper template, or a literal dotted tail) -/
theorem bq_rest_literal (r : Rec) (v : Val) (acc : Acc) (h1 : v.isCons = false)
    (h2 : ∀ x, v ≠ .unquote x) : bqRest r v acc = acc.append v :=
  bqRest_other r v acc h1 h2

/-! ## (b) literal templates -/

/-- A template without `,` / `,@` evaluates — for ANY evaluator `r`, in any state — to a value
    with the structure of the template; nothing but the allocation counter changes. -/
theorem bq_literal (r : Rec) (t : Val) (h : NoUnq t) (c : Ctx) :
    ∃ w c', evalBackquote r t c = (.ok w, c') ∧ eraseIds w = eraseIds t ∧ OnlyNextId c c' :=
  (bq_literal_aux r t).1 h c

/-- … and the evaluator is not consulted: the outcome is the same with any other evaluator. -/
theorem bq_literal_no_eval (r r' : Rec) (t : Val) (h : NoUnq t) :
    evalBackquote r t = evalBackquote r' t :=
  (bq_literal_indep_aux r r' t).1 h

/-- an evaluator that fails on everything -/
def failRec : Rec := ⟨fun _ => M.throw .undefined, fun _ => M.throw .undefined,
  fun _ => M.throw .undefined⟩

/-- the template `(1 (a . "s") 'q)` (with arbitrary identities) is literal -/
def litTemplate : Val :=
  .cons 7 (.int 1) (.cons 8 (.cons 9 (.sym 3) (.str 4 "s")) (.cons 10 (.quote (.sym 5)) .nil))

example : NoUnq litTemplate := by simp [litTemplate, NoUnq]

example : ∃ w c', evalBackquote failRec litTemplate {} = (.ok w, c') ∧
    eraseIds w = eraseIds litTemplate ∧ OnlyNextId {} c' :=
  bq_literal failRec litTemplate (by simp [litTemplate, NoUnq]) {}

/-! ## (c) the specification -/

/-- The specification decides the implementation: in every state, whatever `bqSpec` answers —
    a value, an error other than TypeMismatch, a panic, out-of-fuel — `evalBackquote` answers
    the same, with the same final state (and the same identities).  `bqSpec` answers
    TypeMismatch (besides where the evaluator does) exactly when a spliced value is not a proper
    list; those cases are left open. -/
theorem bq_eq_spec (r : Rec) (t : Val) (c c' : Ctx) (res : Res Val)
    (h : bqSpec r.eval t c = (res, c')) (hne : res ≠ .err .typeMismatch) :
    evalBackquote r t c = (res, c') := by
  rcases (bq_refines_aux r t).1 c with h1 | ⟨c1, h1⟩
  · rw [← h1, h]
  · rw [h] at h1
    injection h1 with h1 _
    exact absurd h1 hne

/-- the successful runs of the specification are runs of the implementation -/
theorem bq_spec_ok (r : Rec) (t : Val) (c c' : Ctx) (w : Val)
    (h : bqSpec r.eval t c = (.ok w, c')) : evalBackquote r t c = (.ok w, c') :=
  bq_eq_spec r t c c' _ h (by intro h; cases h)

/-- what the specification says for a cons template: the contributions of the elements
    (`bqContrib`: `,e` ↦ `[value]`, `,@e` ↦ the elements of (a copy of) the value, other ↦
    `[its value as a template]`) are concatenated left to right with the elements contributed by
    the rest; a `,e` in dotted-tail position contributes the elements and tail of its value. -/
theorem bq_spec_cons (ev : Val → M Val) (i : Nat) (first rest : Val) :
    bqSpec ev (.cons i first rest) = (do
      let xs ← bqContrib ev first
      let p ← bqSpecTail ev rest
      finish (xs ++ p.1) p.2) :=
  bqSpec_cons ev i first rest

theorem bq_spec_contrib (ev : Val → M Val) (first : Val) :
    bqContrib ev first = (match first with
      | .unquote v => do let x ← ev v; pure [x]
      | .splice v => do let x ← ev v; let x ← deepCopy x; properElems x
      | other => do let x ← bqSpec ev other; pure [x]) := rfl

theorem bq_spec_tail_unquote (ev : Val → M Val) (e : Val) :
    bqSpecTail ev (.unquote e) = (do let x ← ev e; pure (x.spine.1, x.spine.2)) :=
  bqSpecTail_unquote ev e

theorem bq_spec_tail_cons (ev : Val → M Val) (i : Nat) (first rest : Val) :
    bqSpecTail ev (.cons i first rest) = (do
      let xs ← bqContrib ev first
      let p ← bqSpecTail ev rest
      pure (xs ++ p.1, p.2)) :=
  bqSpecTail_cons ev i first rest

/-- The element-wise reading: for a template that is a proper list of items, the result is the
    fresh list of the concatenation (`List.flatten`) of the contributions of the items, computed
    left to right. -/
theorem bq_spec_proper_list (ev : Val → M Val) (i : Nat) (a d : Val) (h : d.spine.2 = .nil) :
    bqSpec ev (.cons i a d) = (do
      let parts ← (a :: d.spine.1).mapM (bqContrib ev)
      mkListM parts.flatten .nil) :=
  bqSpec_proper ev i a d h

theorem bq_spec_tail_proper (ev : Val → M Val) (d : Val) (h : d.spine.2 = .nil) :
    bqSpecTail ev d = (do
      let parts ← d.spine.1.mapM (bqContrib ev)
      pure (parts.flatten, .nil)) :=
  bqSpecTail_proper ev d h

/-- a spliced proper list contributes exactly its elements -/
theorem bq_splice_proper (x : Val) (h : x.spine.2 = .nil) : properElems x = pure x.spine.1 := by
  simp [properElems, h, Val.isNil]

/-- The error case: once an improper list (or an atom after other elements) has been spliced in,
    the list under construction has a non-nil tail, and processing any further element fails
    (after that element's own evaluation) — it never succeeds. -/
theorem bq_push_after_improper (r : Rec) (first : Val) (acc : Acc) (h : acc.tail.isNil = false)
    (c : Ctx) (acc' : Acc) (c' : Ctx) : bqItem r first acc c ≠ (.ok acc', c') := by
  intro hrun
  have hne : acc.tail ≠ .nil := by intro h'; rw [h'] at h; cases h
  have hpush : ∀ (m : M Val), (m >>= fun x => acc.push x) c ≠ (.ok acc', c') := by
    intro m hm
    obtain ⟨x, c1, _, h2⟩ := bind_ok_inv hm
    exact hne (Acc.push_tail h2).2.1
  cases first with
  | splice v =>
    rw [bqItem_splice] at hrun
    obtain ⟨x, c1, _, h2⟩ := bind_ok_inv hrun
    obtain ⟨x', c2, _, h3⟩ := bind_ok_inv h2
    exact hne (Acc.append_tail_notCons h3).2.1
  | _ => exact hpush _ hrun

/-- … with the precise outcome for `,e`: TypeMismatch, in the state left by evaluating `e` -/
theorem bq_unquote_after_improper (r : Rec) (e : Val) (acc : Acc) (h : acc.tail.isNil = false)
    (c c1 : Ctx) (x : Val) (he : r.eval e c = (.ok x, c1)) :
    bqItem r (.unquote e) acc c = (.err .typeMismatch, c1) := by
  rw [bqItem_unquote, C12.bind_ok _ he, Acc.push_tail_error acc x c1 h]

/-- … and so does reaching the end of the template (or a literal dotted tail): the terminating
    nil is appended like any other tail.  So in a cons template a spliced improper list is
    always an error; a dotted result is obtained with `` `(… . ,x) ``. -/
theorem bq_end_after_improper (r : Rec) (v : Val) (acc : Acc) (h : acc.tail.isNil = false)
    (h1 : v.isCons = false) (h2 : ∀ x, v ≠ .unquote x) (c : Ctx) :
    bqRest r v acc c = (.err .typeMismatch, c) := by
  rw [bqRest_other r v acc h1 h2, C12.Acc.append_tail_error acc v c h]

/-! ## (d) once each, left to right -/

/-- Let the evaluator record every form it is given (`key form`) in a log that can be read off
    the state, always succeeding with a proper list.  Then evaluating a template `t` extends the
    log by exactly the forms under `,` / `,@` of `t` (`unquoted t`), each once, in template
    order (the log is most-recent-first). -/
theorem bq_once_in_order {α : Type} (r : Rec) (log : Ctx → List α) (key : Val → α)
    (hl : Logging r log key) (t : Val) (c : Ctx) :
    ∃ w c', evalBackquote r t c = (.ok w, c') ∧
      log c' = ((unquoted t).map key).reverse ++ log c :=
  (bq_log_aux r log key hl t).1 c

/-- a concrete logger: forms are integers, logged into `Ctx.ticks`; every form evaluates to nil -/
def tickRec : Rec :=
  ⟨fun v c => (.ok .nil, { c with ticks := (match v with | .int n => n | _ => -1) :: c.ticks }),
   fun v => pure v, fun _ => pure .nil⟩

theorem tickRec_logging :
    Logging tickRec (fun c => c.ticks) (fun v => match v with | .int n => n | _ => -1) where
  eval := fun _ _ => ⟨.nil, _, rfl, rfl, rfl⟩
  alloc := fun _ _ h => h.ticks

/-- `` `(,1 (x ,@2) ',3 . ,4) ``: the log grows by 1, 2, 3, 4 in this order -/
example (c : Ctx) :
    let t : Val := .cons 0 (.unquote (.int 1))
      (.cons 0 (.cons 0 (.sym 0) (.cons 0 (.splice (.int 2)) .nil))
        (.cons 0 (.quote (.unquote (.int 3))) (.unquote (.int 4))))
    ∃ w c', evalBackquote tickRec t c = (.ok w, c') ∧ c'.ticks = [4, 3, 2, 1] ++ c.ticks := by
  intro t
  obtain ⟨w, c', h1, h2⟩ := bq_once_in_order tickRec _ _ tickRec_logging t c
  exact ⟨w, c', h1, by simpa [t, unquoted, unqRest] using h2⟩

/-! ## (e) fresh spine: the template and the spliced lists are copied, never shared -/

/-- For an evaluator that never decreases the allocation counter: every cons cell on the spine of
    the value of a cons template was allocated during this evaluation — its identity lies in
    `[c.nextId, c'.nextId)`.  This covers the cells that correspond to template cells and the
    cells that carry the elements of spliced lists (and of a list unquoted in tail position). -/
theorem bq_fresh (r : Rec) (hr : RecMono r) (i : Nat) (a d : Val) (c c' : Ctx) (w : Val)
    (h : evalBackquote r (.cons i a d) c = (.ok w, c')) :
    SpineIn c.nextId c'.nextId w ∧ SpineFresh c.nextId w ∧ c.nextId ≤ c'.nextId :=
  let ⟨h1, h2⟩ := bq_spineIn r hr i a d c c' w h
  ⟨h1, h1.fresh, h2⟩

/-- a template that is one big splice: the copy is fresh as well -/
theorem bq_splice_fresh (r : Rec) (e : Val) (c c' : Ctx) (w : Val)
    (h : evalBackquote r (.splice e) c = (.ok w, c')) :
    ∃ x c1, r.eval e c = (.ok x, c1) ∧ SpineIn c1.nextId c'.nextId w ∧ w.spine = x.spine := by
  rw [evalBackquote_splice] at h
  obtain ⟨x, c1, h1, h2⟩ := bind_ok_inv h
  obtain ⟨w', c2, h3, _, h4, h5, _⟩ := deepCopy_fresh x c1
  rw [h3] at h2
  injection h2 with hw hc
  injection hw with hw
  subst hw; subst hc
  exact ⟨x, c1, h1, h4, h5⟩

/-- Two evaluations (of the same or of different templates), the second starting no earlier than
    the first ended: the spines of the two results share no cell. -/
theorem bq_independent (r : Rec) (hr : RecMono r) (i j : Nat) (a d a' d' : Val)
    (c1 c1' c2 c2' : Ctx) (w1 w2 : Val)
    (h1 : evalBackquote r (.cons i a d) c1 = (.ok w1, c1'))
    (h2 : evalBackquote r (.cons j a' d') c2 = (.ok w2, c2'))
    (hseq : c1'.nextId ≤ c2.nextId) :
    ∀ k ∈ spineIds w1, k ∉ spineIds w2 :=
  spineIn_disjoint (bq_fresh r hr i a d c1 c1' w1 h1).1 (bq_fresh r hr j a' d' c2 c2' w2 h2).1 hseq

/-- The result shares no spine cell with any value all of whose identities are older than the
    evaluation — the template itself, the values of variables (among them the lists that are
    spliced in), earlier results: none of them can be altered through the result's spine. -/
theorem bq_disjoint_from_old (r : Rec) (hr : RecMono r) (i : Nat) (a d : Val) (c c' : Ctx)
    (w old : Val) (h : evalBackquote r (.cons i a d) c = (.ok w, c'))
    (hold : IdsBelow c.nextId old) : ∀ k ∈ spineIds w, k ∉ ids old :=
  fresh_disjoint_old hold (bq_fresh r hr i a d c c' w h).2.1

/-! ### for the actual evaluator: no hypothesis on the evaluator is left -/

/-- the evaluator of every depth budget never decreases the allocation counter
    (Proofs/C11Mono.lean) -/
theorem ofDepth_recMono (d : Nat) : RecMono (Rec.ofDepth d) := (C11.monoRec3_ofDepth d).eval

/-- `bq_fresh` for the evaluator itself, at any depth budget -/
theorem bq_fresh_eval (d : Nat) (i : Nat) (a t : Val) (c c' : Ctx) (w : Val)
    (h : evalBackquote (Rec.ofDepth d) (.cons i a t) c = (.ok w, c')) :
    SpineIn c.nextId c'.nextId w ∧ SpineFresh c.nextId w ∧ c.nextId ≤ c'.nextId :=
  bq_fresh _ (ofDepth_recMono d) i a t c c' w h

/-- `bq_independent` for the evaluator itself: two evaluations of backquoted cons templates, the
    second starting in a state whose counter is not behind the one the first ended with (e.g. any
    later state of the same session: `C11.eval_counter_monotone`), have disjoint spines. -/
theorem bq_independent_eval (d1 d2 : Nat) (i j : Nat) (a t a' t' : Val)
    (c1 c1' c2 c2' : Ctx) (w1 w2 : Val)
    (h1 : evalBackquote (Rec.ofDepth d1) (.cons i a t) c1 = (.ok w1, c1'))
    (h2 : evalBackquote (Rec.ofDepth d2) (.cons j a' t') c2 = (.ok w2, c2'))
    (hseq : c1'.nextId ≤ c2.nextId) :
    ∀ k ∈ spineIds w1, k ∉ spineIds w2 :=
  spineIn_disjoint (bq_fresh_eval d1 i a t c1 c1' w1 h1).1 (bq_fresh_eval d2 j a' t' c2 c2' w2 h2).1
    hseq

/-- The elements are shared, not copied: `` `(,e) `` is a fresh one-cell list whose car is the
    very value of `e`. -/
theorem bq_elements_shared (r : Rec) (i : Nat) (e x : Val) (c c1 : Ctx)
    (he : r.eval e c = (.ok x, c1)) :
    evalBackquote r (.cons i (.unquote e) .nil) c
      = (.ok (.cons c1.nextId x .nil), { c1 with nextId := c1.nextId + 1 }) := by
  rw [evalBackquote_cons, bqItem_unquote, bind_assoc, C12.bind_ok _ he,
    C12.bind_ok _ (C12.Acc.push_ok {} x c1 rfl),
    bqRest_other r .nil _ rfl (by intro x h; cases h),
    C12.bind_ok _ (C12.Acc.append_list _ .nil c1 rfl rfl), Acc.build_run]
  rfl

/-- a monotone evaluator to instantiate the freshness theorems with: variables are looked up in a
    fixed list of values -/
def constRec (env : Nat → Val) : Rec :=
  ⟨fun v => match v with | .sym n => pure (env n) | other => pure other, fun v => pure v,
   fun _ => pure .nil⟩

theorem constRec_mono (env : Nat → Val) : RecMono (constRec env) := by
  intro v c
  cases v <;> exact Nat.le_refl _

/-- `` `(a ,@x b) `` with `x = (1 2)` (cells 1, 2): the result `(a 1 2 b)` has the four fresh
    cells 5, 6, 7, 8 (3 and 4 went into the intermediate copy of `x`) -/
example :
    let x : Val := .cons 1 (.int 1) (.cons 2 (.int 2) .nil)
    let t : Val := .cons 0 (.sym 7) (.cons 0 (.splice (.sym 0)) (.cons 0 (.sym 8) .nil))
    (evalBackquote (constRec fun _ => x) t { nextId := 3 }).1
      = .ok (.cons 5 (.sym 7) (.cons 6 (.int 1) (.cons 7 (.int 2) (.cons 8 (.sym 8) .nil)))) := by
  rfl


/-- non-vacuity of `bq_eq_spec` / `bq_spec_ok`: on `` `(a ,@x b . ,y) `` with `x = (1 2)`,
    `y = 7` the specification succeeds (so it determines what `evalBackquote` returns) -/
example :
    let x : Val := .cons 1 (.int 1) (.cons 2 (.int 2) .nil)
    let t : Val := .cons 0 (.sym 7) (.cons 0 (.splice (.sym 0)) (.cons 0 (.sym 8) (.unquote (.int 7))))
    (bqSpec (constRec fun _ => x).eval t { nextId := 3 }).1
      = .ok (.cons 5 (.sym 7) (.cons 6 (.int 1) (.cons 7 (.int 2) (.cons 8 (.sym 8) (.int 7))))) := by
  rfl

/-- non-vacuity of `bq_fresh` / `bq_independent`: two evaluations in sequence -/
example :
    let x : Val := .cons 1 (.int 1) (.cons 2 (.int 2) .nil)
    let t : Val := .cons 0 (.sym 7) (.cons 0 (.splice (.sym 0)) .nil)
    let r := constRec fun _ => x
    let run1 := evalBackquote r t { nextId := 3 }
    let run2 := evalBackquote r t run1.2
    (run1.1 = .ok (.cons 5 (.sym 7) (.cons 6 (.int 1) (.cons 7 (.int 2) .nil)))) ∧
    (run2.1 = .ok (.cons 10 (.sym 7) (.cons 11 (.int 1) (.cons 12 (.int 2) .nil)))) := by
  exact ⟨rfl, rfl⟩

/-- the error case concretely: `` `(,@x b) `` with the dotted `x = (1 . 2)` fails -/
example :
    let x : Val := .cons 1 (.int 1) (.int 2)
    let t : Val := .cons 0 (.splice (.sym 0)) (.cons 0 (.sym 8) .nil)
    (evalBackquote (constRec fun _ => x) t { nextId := 3 }).1 = .err .typeMismatch := by
  rfl

/-- … and so does `` `(b ,@x) `` with the same `x` (the terminating nil of the template is
    appended like any other tail), whereas `` `(b . ,x) `` is the dotted list `(b 1 . 2)` -/
example :
    let x : Val := .cons 1 (.int 1) (.int 2)
    let t : Val := .cons 0 (.sym 8) (.cons 0 (.splice (.sym 0)) .nil)
    (evalBackquote (constRec fun _ => x) t { nextId := 3 }).1 = .err .typeMismatch := by
  rfl

example :
    let x : Val := .cons 1 (.int 1) (.int 2)
    let t : Val := .cons 0 (.sym 8) (.unquote (.sym 0))
    (evalBackquote (constRec fun _ => x) t { nextId := 3 }).1
      = .ok (.cons 3 (.sym 8) (.cons 4 (.int 1) (.int 2))) := by
  rfl

/-- the corner recorded in `finish`: `` `(,@nil . 5) `` is `(5)` -/
example :
    (evalBackquote (constRec fun _ => .nil) (.cons 0 (.splice (.sym 0)) (.int 5)) { nextId := 3 }).1
      = .ok (.cons 3 (.int 5) .nil) := by
  rfl

end Tulisp.C07
