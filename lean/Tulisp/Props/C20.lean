/-
  Props/C20.lean — property C20:

  "… the object-level list operations (cons, push, append, the car/cdr family, iterators,
   destruct_bind!, the alist and plist helpers) and symbol operations (intern, set, set_scope,
   unset, get, boundp) behave like a sequence model and a stack model under every sequence of
   calls.  Conversions between Rust values and interpreter objects round-trip exactly and reject
   wrong types with an error."

  Reading of the property in the model (Model/Api.lean, namespace `Tulisp.Api`)
  ---------------------------------------------------------------------------
  A `TulispObject` is a reference (`Nat`) into `Heap.cells`; several references may reach the same
  cells.  All statements are for ARBITRARY heaps (no size bound), under the hypotheses shown.

  * `WF h`                : every cons cell of `h` points into `h` (Proofs/C20.lean).
  * `ListAt h r xs tl`    : the cdr-chain from `r` passes cons cells with cars `xs` and ends in the
                            non-cons reference `tl`; a finite derivation IS acyclicity of the chain.
  * `Chain h r cs xs tl`  : the same, also naming the spine cells `cs` (`ListAt ↔ ∃ cs, Chain`).
  * `Abs h r xs`          : `r` denotes the proper list `xs` (the chain ends in a nil cell).
  * `pushed h tl v`       : `h` with ONE cell appended (a nil) and ONE cell assigned (`tl := cons v new`).
  * `ElemCopy h h' x y`   : `y` is `deep_copy`'s copy of element `x`: an atom is shared (`y = x`), a cons
                            gets a NEW top cell with the same car / cdr.
  * `TailCopy h h' tl t2` : the copied tail: a symbol is shared, any other atom (nil too) is a NEW cell.
  * `Pointwise R xs ys`   : same length and `R` element by element.

  Sections: 1 lists / `toList`; 2 `push` (sequence model + aliasing + frame + errors); 3 `deepCopy`;
  4 `append`; 5 iterators, `car`/`cdr`; 6 symbol API = stack machine; 7 conversions; 8 `equal`;
  9 non-vacuity on a concrete heap with two handles sharing a tail;
  10 the list helpers of `src/lists.rs`: `length`, `nthcdr`, `nth`, `last`, `assoc`, `alist_get`
  (a key present with a nil value yields that value, NOT the default), `alist_from`, `plist_from`
  (lemmas in Proofs/C20Lists.lean), with their own non-vacuity examples on the alist `((a . 1) (b) 5 (b . 7))`.

  * `IsListObj o`         : `o` is nil or a cons cell (what `assoc` accepts as an alist).
  * `assocPred h key`     : the test `assoc` applies to an element: a cons cell whose car is `equal` to `key`.
-/
import Tulisp.Proofs.C20
import Tulisp.Proofs.C20Copy
import Tulisp.Proofs.C20Sym
import Tulisp.Proofs.C20Equal
import Tulisp.Proofs.C20Lists
namespace Tulisp.C20
open Tulisp Tulisp.Api Tulisp.Api.State

/-- `r` denotes the proper list `xs` -/
def Abs (h : Heap) (r : Nat) (xs : List Nat) : Prop := ∃ tl, ListAt h r xs tl ∧ h.get tl = .nil

/-! ## 1. lists on the heap -/

/-- `toList` with enough fuel computes the chain. -/
theorem toList_spec' {h : Heap} {r : Nat} {xs : List Nat} {tl : Nat} (l : ListAt h r xs tl)
    (fuel : Nat) (hf : xs.length < fuel) : h.toList fuel r = (xs, tl) :=
  toList_spec l fuel hf

/-- `ListAt` is functional: a reference has at most one chain. -/
theorem listAt_functional {h : Heap} {r : Nat} {xs xs' : List Nat} {tl tl' : Nat}
    (l : ListAt h r xs tl) (l' : ListAt h r xs' tl') : xs = xs' ∧ tl = tl' :=
  l.functional l'

/-- hence so is the abstraction -/
theorem abs_functional {h : Heap} {r : Nat} {xs xs' : List Nat} (a : Abs h r xs) (a' : Abs h r xs') :
    xs = xs' := by
  obtain ⟨_, l, _⟩ := a; obtain ⟨_, l', _⟩ := a'; exact (l.functional l').1

/-- acyclicity: the spine of a chain has no repeated cell, and all its cells are cons cells of the heap … -/
theorem chain_nodup {h : Heap} {r : Nat} {cs xs : List Nat} {tl : Nat} (c : Chain h r cs xs tl) :
    cs.Nodup ∧ ∀ x ∈ cs, x < h.cells.size :=
  ⟨c.nodup, c.spine_lt⟩

/-- … so a list never has more elements than the heap has cells: the fuel `cells.size + 1` used by
    `elems`, `push`, `append`, `deepCopy` is always enough. -/
theorem listAt_length_le {h : Heap} {r : Nat} {xs : List Nat} {tl : Nat} (l : ListAt h r xs tl) :
    xs.length ≤ h.cells.size :=
  l.length_le

theorem listAt_iff_chain {h : Heap} {r : Nat} {xs : List Nat} {tl : Nat} :
    ListAt h r xs tl ↔ ∃ cs, Chain h r cs xs tl :=
  ⟨fun l => l.chain, fun ⟨_, c⟩ => c.listAt⟩

/-- `toList` is also sound: what it returns (when it stops at a non-cons) is the chain. -/
theorem listAt_of_toList {h : Heap} (fuel r : Nat) (xs : List Nat) (tl : Nat)
    (he : h.toList fuel r = (xs, tl)) (hn : h.isCons tl = false) : ListAt h r xs tl :=
  toList_sound fuel r xs tl he hn

/-- `cons`: allocating `cons a d` in front of a list. -/
theorem cons_spec {h : Heap} {d : Nat} {xs : List Nat} {tl : Nat} (l : ListAt h d xs tl)
    (htl : tl < h.cells.size) (a : Nat) :
    ListAt (h.alloc (.cons a d)).2 (h.alloc (.cons a d)).1 (a :: xs) tl ∧
    Ext h (h.alloc (.cons a d)).2 :=
  ⟨.step (alloc_get_new h _) (l.ext (ext_alloc h _) htl), ext_alloc h _⟩

/-! ## 2. `push` -/

/-- **push ↦ xs ++ [v]**: on a proper list (terminating nil cell `tl`, in range) `push` succeeds, changes
    the heap to `pushed h tl v`, and `r` now denotes `xs ++ [v]`, terminated by the fresh nil cell. -/
theorem push_spec {h : Heap} {r : Nat} {xs : List Nat} {tl : Nat} (l : ListAt h r xs tl)
    (hnil : h.get tl = .nil) (htl : tl < h.cells.size) (v : Nat) :
    h.push r v = .ok (pushed h tl v) ∧
    ListAt (pushed h tl v) r (xs ++ [v]) h.cells.size ∧
    (pushed h tl v).get h.cells.size = .nil := by
  obtain ⟨cs, c⟩ := l.chain
  exact ⟨push_eq l hnil v, ((c.pushed htl hnil).1 rfl).listAt, pushed_get_new htl⟩

/-- the same on the abstraction -/
theorem push_abs {h : Heap} (hw : WF h) {r : Nat} (hr : r < h.cells.size) {xs : List Nat}
    (a : Abs h r xs) (v : Nat) : ∃ h', h.push r v = .ok h' ∧ Abs h' r (xs ++ [v]) := by
  obtain ⟨tl, l, hnil⟩ := a
  obtain ⟨cs, c⟩ := l.chain
  have htl := c.tail_lt hw hr
  obtain ⟨h1, h2, h3⟩ := push_spec l hnil htl v
  exact ⟨_, h1, _, h2, h3⟩

/-- `push` changes exactly the cell `tl` and appends exactly one (nil) cell. -/
theorem push_changes_only_tail {h : Heap} {tl : Nat} (htl : tl < h.cells.size) (v : Nat) :
    (pushed h tl v).cells.size = h.cells.size + 1 ∧
    (pushed h tl v).get tl = .cons v h.cells.size ∧
    (pushed h tl v).get h.cells.size = .nil ∧
    ∀ i : Nat, i < h.cells.size → i ≠ tl → (pushed h tl v).get i = h.get i :=
  ⟨pushed_size h tl v, pushed_get_tl htl, pushed_get_new htl, fun _ hi hne => pushed_get_other hne hi⟩

/-- **aliasing**: EVERY reference `r2` whose chain ends in the same tail cell `tl` sees the new element. -/
theorem push_aliases {h : Heap} {tl : Nat} (hnil : h.get tl = .nil) (htl : tl < h.cells.size) (v : Nat)
    {r2 : Nat} {ys : List Nat} (l2 : ListAt h r2 ys tl) :
    ListAt (pushed h tl v) r2 (ys ++ [v]) h.cells.size := by
  obtain ⟨cs, c⟩ := l2.chain
  exact ((c.pushed htl hnil).1 rfl).listAt

/-- **frame**: a chain that ends in another tail is unchanged (its spine cannot contain `tl`, a nil cell). -/
theorem push_frame {h : Heap} {tl : Nat} (hnil : h.get tl = .nil) (htl : tl < h.cells.size) (v : Nat)
    {r3 : Nat} {zs : List Nat} {tl3 : Nat} (l3 : ListAt h r3 zs tl3) (hne : tl3 ≠ tl) :
    ListAt (pushed h tl v) r3 zs tl3 := by
  obtain ⟨cs, c⟩ := l3.chain
  exact ((c.pushed htl hnil).2 hne).listAt

/-- an improper list (the chain ends in a non-nil atom) — in particular a non-list atom (`xs = []`) —
    is rejected; an `Except` error carries no heap, the caller keeps `h`. -/
theorem push_error {h : Heap} {r : Nat} {xs : List Nat} {tl : Nat} (l : ListAt h r xs tl)
    (hnn : h.get tl ≠ .nil) (v : Nat) : h.push r v = .error .typeMismatch := by
  cases l with
  | done hn =>
    unfold Heap.push
    cases hc : h.get r with
    | cons a d => exact absurd hc (hn a d)
    | nil => exact absurd hc hnn
    | _ => rfl
  | @step _ a d xs _ hg l' =>
    obtain ⟨cs, c⟩ := l'.chain
    unfold Heap.push
    rw [hg]; simp only
    rw [walk_spec c _ none (Nat.lt_succ_of_le c.length_le)]
    simp [Heap.isNil, hnn]

/-- pushing onto a non-list atom is an error -/
theorem push_error_atom {h : Heap} {r : Nat} (hn : NotCons (h.get r)) (hnn : h.get r ≠ .nil) (v : Nat) :
    h.push r v = .error .typeMismatch :=
  push_error (.done hn) hnn v

/-- `push` keeps the heap well-formed. -/
theorem push_wf {h : Heap} (hw : WF h) {tl v : Nat} (hv : v < h.cells.size) : WF (pushed h tl v) :=
  wf_pushed hw hv

/-- `list!` / `from_iter`: pushing `vs` one after the other onto a list `xs` gives `xs ++ vs`
    (the sequence model under every sequence of pushes). -/
theorem push_many {h : Heap} (hw : WF h) {r : Nat} (hr : r < h.cells.size) {xs : List Nat} (a : Abs h r xs)
    (vs : List Nat) (hvs : ∀ v ∈ vs, v < h.cells.size) :
    ∃ h', vs.foldl (fun (acc : Except AErr Heap) x =>
            match acc with | .ok h => h.push r x | .error e => .error e) (.ok h) = .ok h' ∧
          Abs h' r (xs ++ vs) ∧ WF h' ∧ h.cells.size ≤ h'.cells.size := by
  induction vs generalizing h xs with
  | nil => exact ⟨h, rfl, by simpa using a, hw, Nat.le_refl _⟩
  | cons v vs ih =>
    obtain ⟨tl, l, hnil⟩ := a
    obtain ⟨cs, c⟩ := l.chain
    have htl := c.tail_lt hw hr
    obtain ⟨h1, h2, h3⟩ := push_spec l hnil htl v
    have hw' : WF (pushed h tl v) := wf_pushed hw (hvs v (by simp))
    have hs := pushed_size h tl v
    obtain ⟨h', e, a', w', le'⟩ := ih hw' (by omega) ⟨_, h2, h3⟩
      (fun x hx => by have := hvs x (by simp [hx]); omega)
    refine ⟨h', ?_, by simpa using a', w', by omega⟩
    simp only [List.foldl_cons, h1]
    exact e

/-! ## 3. `deepCopy` -/

/-- `deep_copy` of a reference with a finite chain in a well-formed heap (a proper list, a dotted
    list, or an atom: `xs = []`): the result `r'` has a chain with the same number of elements whose
    spine cells are all NEW, old cells are unchanged, the elements are copied element-wise (atoms
    shared, conses get a new top cell with the same car / cdr), the tail is copied (`TailCopy`: nil or an
    atom into a new cell, a symbol shared). -/
theorem deepCopy_spec {h : Heap} (hw : WF h) {r : Nat} {cs xs : List Nat} {tl : Nat}
    (c : Chain h r cs xs tl) :
    ∃ (r' : Nat) (h' : Heap) (cs' xs' : List Nat) (tl' : Nat),
      h.deepCopy r = (r', h') ∧ Chain h' r' cs' xs' tl' ∧
      xs'.length = xs.length ∧ Pointwise (ElemCopy h h') xs xs' ∧
      (∀ c ∈ cs', h.cells.size ≤ c) ∧
      (h.cells.size ≤ h'.cells.size ∧ ∀ i : Nat, i < h.cells.size → h'.get i = h.get i) ∧
      TailCopy h h' tl tl' ∧ WF h' := by
  obtain ⟨cp, h1, cs2, ys2, tl2, e, c2, p, n, x, w1, t, _, _⟩ := deepCopy_chain hw c
  exact ⟨cp, h1, cs2, ys2, tl2, e, c2, p.length_eq, p, n, x, t, w1⟩

/-- for a proper list the copy is a proper list (its terminating nil is a new cell), element-wise a copy,
    and the original still denotes the same list -/
theorem deepCopy_proper {h : Heap} (hw : WF h) {r : Nat} (hr : r < h.cells.size) {xs : List Nat}
    (a : Abs h r xs) :
    ∃ xs', Abs (h.deepCopy r).2 (h.deepCopy r).1 xs' ∧ Pointwise (ElemCopy h (h.deepCopy r).2) xs xs' ∧
      Abs (h.deepCopy r).2 r xs := by
  obtain ⟨tl, l, hnil⟩ := a
  obtain ⟨cs, c⟩ := l.chain
  obtain ⟨cp, h1, cs2, ys2, tl2, e, c2, p, n, x, w1, t, _, _⟩ := deepCopy_chain hw c
  rw [e]
  have ht2 : h1.get tl2 = .nil := by
    rcases t with ⟨⟨s, hs⟩, _⟩ | ⟨_, _, _, hg⟩
    · rw [hnil] at hs; cases hs
    · rw [hg, hnil]
  have htl := c.tail_lt hw hr
  exact ⟨ys2, ⟨tl2, c2.listAt, ht2⟩, p, tl, l.ext x htl, by rw [x.2 tl htl]; exact hnil⟩

/-- index form of the element-wise statement -/
theorem pointwise_get {R : Nat → Nat → Prop} {xs ys : List Nat} (p : Pointwise R xs ys)
    (i : Nat) (hx : i < xs.length) (hy : i < ys.length) : R xs[i] ys[i] :=
  p.get i hx hy

/-- symbols are never copied -/
theorem deepCopy_sym {h : Heap} {r : Nat} {s : String} (hg : h.get r = .sym s) : h.deepCopy r = (r, h) := by
  simp only [Heap.deepCopy, hg]

/-! ## 4. `append` -/

/-- **append ↦ xs ++ copy of ys**: `r` a non-empty proper list, `v` a proper list (a valid handle).
    `append` succeeds; `r` denotes `xs ++ ys'` with `ys'` the element-wise copy of `ys`; the spine of `r`
    is its old spine followed by NEW cells only — none of them is a spine cell of `v` (NO SHARING);
    exactly one old cell changed (`l`, the last spine cell of `r`, whose cdr was `tl`); `v` is unchanged
    unless its chain ends in `r`'s own tail cell; every handle whose chain runs through `l` (e.g. `v = r`)
    sees the appended elements; the heap stays well-formed. -/
theorem append_spec {h : Heap} (hw : WF h) {r : Nat} {cs xs : List Nat} {tl : Nat}
    (c : Chain h r cs xs tl) (hne : xs ≠ []) (hnil : h.get tl = .nil)
    {v : Nat} {csv ys : List Nat} {tlv : Nat} (cv : Chain h v csv ys tlv) (hvn : h.get tlv = .nil)
    (hv : v < h.cells.size) :
    ∃ (h' : Heap) (l : Nat) (cs2 ys' : List Nat) (tl' : Nat),
      h.append r v = .ok h' ∧
      Chain h' r (cs ++ cs2) (xs ++ ys') tl' ∧ h'.get tl' = .nil ∧
      Pointwise (ElemCopy h h') ys ys' ∧
      (∀ c ∈ cs2, h.cells.size ≤ c ∧ c ∉ csv) ∧
      l ∈ cs ∧ (∀ i : Nat, i < h.cells.size → i ≠ l → h'.get i = h.get i) ∧
      (tlv ≠ tl → Chain h' v csv ys tlv ∧ h'.get tlv = .nil) ∧
      (∀ (r2 : Nat) (cs' xs' : List Nat), Chain h r2 cs' xs' tl → l ∈ cs' →
        Chain h' r2 (cs' ++ cs2) (xs' ++ ys') tl') ∧
      WF h' := by
  have hcs : cs ≠ [] := by
    intro e; have := c.length_eq; rw [e] at this
    exact hne (List.eq_nil_of_length_eq_zero this.symm)
  obtain ⟨h', l, cs2, ys2, tl2, ea, c', p, t, n, hl, ⟨al, hgl⟩, fr, un, w', _, al'⟩ :=
    append_chain hw c hcs hnil cv hv
  have ht2 : h'.get tl2 = .nil := by
    rcases t with ⟨⟨s, hs⟩, _⟩ | ⟨_, _, _, hg⟩
    · rw [hvn] at hs; cases hs
    · rw [hg, hvn]
  refine ⟨h', l, cs2, ys2, tl2, ea, c', ht2, p, ?_, hl, fr, ?_, al', w'⟩
  · intro x hx
    refine ⟨n x hx, fun hm => ?_⟩
    have := cv.spine_lt x hm
    have := n x hx
    omega
  · intro hne'
    refine ⟨un hne', ?_⟩
    have htlv : tlv < h.cells.size := cv.tail_lt hw hv
    rw [fr tlv htlv (by intro e; rw [e, hgl] at hvn; cases hvn)]
    exact hvn

/-- the same on the abstraction -/
theorem append_abs {h : Heap} (hw : WF h) {r v : Nat} (hv : v < h.cells.size)
    {xs ys : List Nat} (a : Abs h r xs) (hne : xs ≠ []) (b : Abs h v ys) :
    ∃ h' ys', h.append r v = .ok h' ∧ Abs h' r (xs ++ ys') ∧ Pointwise (ElemCopy h h') ys ys' := by
  obtain ⟨tl, l, hnil⟩ := a
  obtain ⟨tlv, lv, hvn⟩ := b
  obtain ⟨cs, c⟩ := l.chain
  obtain ⟨csv, cv⟩ := lv.chain
  obtain ⟨h', _, cs2, ys', tl', ea, c', ht, p, _⟩ := append_spec hw c hne hnil cv hvn hv
  exact ⟨h', ys', ea, ⟨tl', c'.listAt, ht⟩, p⟩

/-- **append onto a nil cell** (behaviour after the repair of the real code): `r` itself becomes the first
    cell of the COPY of the non-empty list `v`; the rest of `r`'s spine is new, so `v`'s cells are not
    shared; only the cell `r` changed; `v` is unchanged unless its chain ends in the cell `r`. -/
theorem append_onto_nil_spec {h : Heap} (hw : WF h) {r : Nat} (hr : r < h.cells.size)
    (hrn : h.get r = .nil) {v : Nat} {csv ys : List Nat} {tlv : Nat} (cv : Chain h v csv ys tlv)
    (hys : ys ≠ []) (hvn : h.get tlv = .nil) :
    ∃ (h' : Heap) (cs2 ys' : List Nat) (tl' : Nat),
      h.append r v = .ok h' ∧ Chain h' r (r :: cs2) ys' tl' ∧ h'.get tl' = .nil ∧
      Pointwise (ElemCopy h h') ys ys' ∧
      (∀ c ∈ r :: cs2, c ∉ csv) ∧ (∀ c ∈ cs2, h.cells.size ≤ c) ∧
      (∀ i : Nat, i < h.cells.size → i ≠ r → h'.get i = h.get i) ∧
      (tlv ≠ r → Chain h' v csv ys tlv ∧ h'.get tlv = .nil) ∧ WF h' := by
  have hcs : csv ≠ [] := by
    intro e; have := cv.length_eq; rw [e] at this
    exact hys (List.eq_nil_of_length_eq_zero this.symm)
  obtain ⟨h', cs2, ys2, tl2, ea, c', p, t, n, fr, un, w', _⟩ := append_onto_nil_chain hw hr hrn cv hcs
  have ht2 : h'.get tl2 = .nil := by
    rcases t with ⟨⟨s, hs⟩, _⟩ | ⟨_, _, _, hg⟩
    · rw [hvn] at hs; cases hs
    · rw [hg, hvn]
  have hv : v < h.cells.size := by
    cases cv with
    | done => exact absurd rfl hcs
    | step hg _ => exact lt_of_get_cons hg
  refine ⟨h', cs2, ys2, tl2, ea, c', ht2, p, ?_, n, fr, ?_, w'⟩
  · intro x hx hm
    rcases List.mem_cons.mp hx with rfl | hx
    · obtain ⟨a, d, hg⟩ := cv.spine_cons _ hm
      rw [hrn] at hg; cases hg
    · have := cv.spine_lt x hm
      have := n x hx
      omega
  · intro hne'
    refine ⟨un hne', ?_⟩
    rw [fr tlv (cv.tail_lt hw hv) hne']
    exact hvn

/-- appending nil onto a nil cell changes nothing -/
theorem append_nil_nil {h : Heap} {r v : Nat} (hrn : h.get r = .nil) (hvn : h.get v = .nil) :
    h.append r v = .ok h := by
  unfold Heap.append; rw [hrn]; simp only; rw [hvn]

/-- appending a non-nil atom onto a nil cell: the cell becomes the one-element list of the atom's copy -/
theorem append_atom_onto_nil {h : Heap} (hw : WF h) {r : Nat} (hr : r < h.cells.size)
    (hrn : h.get r = .nil) {v : Nat} (hv : NotCons (h.get v)) (hvn : h.get v ≠ .nil) :
    ∃ h' cp, h.append r v = .ok h' ∧ Abs h' r [cp] ∧ TailCopy h h' v cp := by
  obtain ⟨h', cp, n, ea, l, hn, t, _⟩ := append_onto_nil_atom hw hr hrn hv hvn
  exact ⟨h', cp, ea, ⟨n, l, hn⟩, t⟩

/-- **append_nil**: appending a nil `v` leaves the abstraction of `r` unchanged. -/
theorem append_nil {h : Heap} (hw : WF h) {r v : Nat} (hv : v < h.cells.size)
    {xs : List Nat} (a : Abs h r xs) (hne : xs ≠ []) (hvn : h.get v = .nil) :
    ∃ h', h.append r v = .ok h' ∧ Abs h' r xs := by
  obtain ⟨h', ys', ea, a', p⟩ := append_abs hw hv a hne ⟨v, .done (notCons_of_eq_nil hvn), hvn⟩
  cases p
  exact ⟨h', ea, by simpa using a'⟩

/-- `append` onto an improper list or a non-list atom is an error -/
theorem append_error {h : Heap} {r : Nat} {xs : List Nat} {tl : Nat} (l : ListAt h r xs tl)
    (hnn : h.get tl ≠ .nil) (v : Nat) : h.append r v = .error .typeMismatch := by
  cases l with
  | done hn =>
    unfold Heap.append
    cases hc : h.get r with
    | cons a d => exact absurd hc (hn a d)
    | nil => exact absurd hc hnn
    | _ => rfl
  | @step _ a d xs _ hg l' =>
    obtain ⟨cs, c⟩ := l'.chain
    unfold Heap.append
    rw [hg]; simp only
    rw [walk_spec c _ none (Nat.lt_succ_of_le c.length_le)]
    simp [Heap.isNil, hnn]

/-! ## 5. iterators, `car` / `cdr` -/

/-- what `base_iter` enumerates: exactly the elements of the chain. -/
theorem elems_spec' {h : Heap} {r : Nat} {xs : List Nat} {tl : Nat} (l : ListAt h r xs tl) :
    h.elems r = xs ∧ (h.toList (h.cells.size + 1) r).1 = xs :=
  ⟨elems_spec l, elems_spec l⟩

theorem abs_elems {h : Heap} {r : Nat} {xs : List Nat} (a : Abs h r xs) : h.elems r = xs := by
  obtain ⟨_, l, _⟩ := a; exact elems_spec l

/-- `car` / `cdr` of a non-empty list: head and tail of the sequence, heap unchanged. -/
theorem car_cdr_spec {h : Heap} {r a : Nat} {xs : List Nat} {tl : Nat} (l : ListAt h r (a :: xs) tl) :
    h.car r = .ok (a, h) ∧ ∃ d, h.cdr r = .ok (d, h) ∧ ListAt h d xs tl := by
  cases l with
  | @step _ _ d _ _ hg l' =>
    exact ⟨by simp only [Heap.car, hg], d, by simp only [Heap.cdr, hg], l'⟩

/-- `car` / `cdr` of nil: a fresh nil cell (nil-tolerant). -/
theorem car_cdr_nil {h : Heap} {r : Nat} (hn : h.get r = .nil) :
    h.car r = .ok (h.cells.size, (h.alloc .nil).2) ∧ h.cdr r = .ok (h.cells.size, (h.alloc .nil).2) ∧
    (h.alloc .nil).2.get h.cells.size = .nil ∧ Ext h (h.alloc .nil).2 :=
  ⟨by simp only [Heap.car, hn]; rfl, by simp only [Heap.cdr, hn]; rfl, alloc_get_new h _, ext_alloc h _⟩

/-- `car` / `cdr` of a non-list atom is an error. -/
theorem car_cdr_atom {h : Heap} {r : Nat} (hn : NotCons (h.get r)) (hnn : h.get r ≠ .nil) :
    h.car r = .error .typeMismatch ∧ h.cdr r = .error .typeMismatch := by
  unfold Heap.car Heap.cdr
  cases hc : h.get r with
  | cons a d => exact absurd hc (hn a d)
  | nil => exact absurd hc hnn
  | _ => exact ⟨rfl, rfl⟩

/-! ## 6. the symbol API refines a stack machine -/

theorem upd_same (σ : Stacks) (n : String) (l : List Nat) : (σ.upd n l) n = l := by simp [Stacks.upd]
theorem upd_other (σ : Stacks) {n m : String} (l : List Nat) (hne : m ≠ n) : (σ.upd n l) m = σ m := by
  simp [Stacks.upd, hne]

/-- `set_scope` ↦ cons (frame: `Stacks.upd` changes the stack of `n` only; the heap is untouched) -/
theorem symPush_spec (s : State) {n : String} (v : Nat) (hk : isKeyword n = false) :
    ∃ s', s.symPush n v = .ok s' ∧ s'.stackOf = Stacks.upd s.stackOf n (v :: s.stackOf n) ∧
      s'.heap = s.heap :=
  ⟨_, by simp [State.symPush, hk], stackOf_setStack s n _, rfl⟩

/-- `unset` ↦ tail -/
theorem symPop_spec (s : State) {n : String} {x : Nat} {rest : List Nat} (hs : s.stackOf n = x :: rest) :
    ∃ s', s.symPop n = .ok s' ∧ s'.stackOf = Stacks.upd s.stackOf n rest ∧ s'.heap = s.heap :=
  ⟨_, by simp [State.symPop, hs], stackOf_setStack s n _, rfl⟩

/-- `unset` fails iff the stack is empty (and an error carries no state: the caller keeps `s`) -/
theorem symPop_error_iff (s : State) (n : String) :
    s.symPop n = .error .uninitialized ↔ s.stackOf n = [] := by
  unfold State.symPop
  cases s.stackOf n <;> simp

theorem symPop_ok_iff (s : State) (n : String) : (∃ s', s.symPop n = .ok s') ↔ s.stackOf n ≠ [] := by
  unfold State.symPop
  cases s.stackOf n <;> simp

/-- `set` ↦ replace the top, or create `[v]` on an empty stack -/
theorem symSet_spec (s : State) {n : String} (v : Nat) (hk : isKeyword n = false) :
    ∃ s', s.symSet n v = .ok s' ∧ s'.stackOf = Stacks.upd s.stackOf n (v :: (s.stackOf n).tail) ∧
      s'.heap = s.heap := by
  unfold State.symSet
  cases hs : s.stackOf n with
  | nil => exact ⟨s.setStack n [v], by simp [hk], by rw [stackOf_setStack]; rfl, rfl⟩
  | cons x rest => exact ⟨s.setStack n (v :: rest), by simp [hk], by rw [stackOf_setStack]; rfl, rfl⟩

/-- keywords are constants: `set` / `set_scope` on a keyword is an error -/
theorem sym_keyword_const (s : State) {n : String} (v : Nat) (hk : isKeyword n = true) :
    s.symSet n v = .error .undefined ∧ s.symPush n v = .error .undefined ∧ s.symGet n = .ok none := by
  simp [State.symSet, State.symPush, State.symGet, hk]

/-- `get` ↦ head; error iff the stack is empty -/
theorem symGet_spec (s : State) {n : String} (hk : isKeyword n = false) :
    s.symGet n = (match s.stackOf n with | [] => .error .typeMismatch | v :: _ => .ok (some v)) ∧
    (s.symGet n = .error .typeMismatch ↔ s.stackOf n = []) ∧
    (∀ v, s.symGet n = .ok (some v) ↔ (s.stackOf n).head? = some v) := by
  unfold State.symGet
  cases s.stackOf n <;> simp [hk]

/-- `boundp` ↦ non-empty -/
theorem symBoundp_spec (s : State) (n : String) : s.symBoundp n = true ↔ s.stackOf n ≠ [] := by
  unfold State.symBoundp
  cases s.stackOf n <;> simp

/-- frame, spelled out: an operation on name `op.name` leaves the stack of every other name as it was -/
theorem sym_frame (s : State) (op : StackOp) (m : String) (hne : m ≠ op.name) :
    (stepModel s op).1.stackOf m = s.stackOf m := by
  rw [(step_refines s op).1]
  have hu : ∀ l, (Stacks.upd s.stackOf op.name l) m = s.stackOf m := fun l => upd_other _ l hne
  cases op <;> simp only [stepStack, StackOp.name] at hu ⊢ <;> (try split) <;> (try split) <;>
    first | rfl | exact hu _

/-- **the symbol API is a stack machine**: for every sequence of operations, from every state, the
    answers of the model are the answers of the `List`-based stack machine started from the abstraction
    `stackOf`, the final abstraction is the final abstract state, and the heap is untouched. -/
theorem sym_refines_stack (s : State) (ops : List StackOp) :
    (runModel s ops).2 = (runStack s.stackOf ops).2 ∧
    (runModel s ops).1.stackOf = (runStack s.stackOf ops).1 ∧
    (runModel s ops).1.heap = s.heap :=
  let ⟨a, b, c⟩ := run_refines ops s; ⟨b, a, c⟩

/-- one step, for reference -/
theorem sym_step_refines (s : State) (op : StackOp) :
    (stepModel s op).2 = (stepStack s.stackOf op).2 ∧
    (stepModel s op).1.stackOf = (stepStack s.stackOf op).1 :=
  let ⟨a, b, _⟩ := step_refines s op; ⟨b, a⟩

/-- from the initial state (no bindings) keywords are never bound, whatever is called -/
theorem keyword_never_bound (ops : List StackOp) (n : String) (hk : isKeyword n = true) :
    (runModel {} ops).1.symBoundp n = false := by
  have h0 : KwFree (({} : State).stackOf) := fun _ _ => rfl
  have := kwFree_run h0 ops n hk
  rw [← (sym_refines_stack {} ops).2.1] at this
  simp [State.symBoundp, this]

/-! ## 7. conversions (the `conv` cases of the driver, as functions on `Obj`) -/

def asInt : Obj → Option Int | .int n => some n | _ => none
def tryInt : Obj → Option Int | .int n => some n | .float b => some (f64ToI64Trunc b) | _ => none
def asFloat : Obj → Option UInt64 | .float b => some b | _ => none
def tryFloat : Obj → Option UInt64 | .float b => some b | .int n => some (intToF64 n) | _ => none
def asString : Obj → Option String | .str s => some s | _ => none
def asSymbol : Obj → Option String | .sym s => some s | _ => none
def asBool (o : Obj) : Bool := o != .nil
/-- `Option<i64>`: outer `none` = conversion error -/
def asOptInt : Obj → Option (Option Int) | .nil => some none | .int n => some (some n) | _ => none
def asOptString : Obj → Option (Option String) | .nil => some none | .str s => some (some s) | _ => none

def ofBool (b : Bool) : Obj := if b then .t else .nil
def ofOptInt : Option Int → Obj | none => .nil | some n => .int n
def ofOptString : Option String → Obj | none => .nil | some s => .str s

/-- Rust value → object → Rust value is the identity -/
theorem conv_roundtrip (n : Int) (b : UInt64) (s : String) (c : Bool) (oi : Option Int) (os : Option String) :
    asInt (.int n) = some n ∧ tryInt (.int n) = some n ∧
    asFloat (.float b) = some b ∧ tryFloat (.float b) = some b ∧
    asString (.str s) = some s ∧ asSymbol (.sym s) = some s ∧
    asBool (ofBool c) = c ∧ asOptInt (ofOptInt oi) = some oi ∧ asOptString (ofOptString os) = some os := by
  refine ⟨rfl, rfl, rfl, rfl, rfl, rfl, ?_, ?_, ?_⟩
  · cases c <;> rfl
  · cases oi <;> rfl
  · cases os <;> rfl

/-- the coercing conversions: `try_int` truncates a float, `try_float` widens an int -/
theorem conv_coerce (n : Int) (b : UInt64) :
    tryInt (.float b) = some (f64ToI64Trunc b) ∧ tryFloat (.int n) = some (intToF64 n) := ⟨rfl, rfl⟩

/-- exactness: a conversion succeeds ONLY on its own type(s) — every other object is rejected -/
theorem conv_exact (o : Obj) :
    (∀ n, asInt o = some n ↔ o = .int n) ∧
    (∀ b, asFloat o = some b ↔ o = .float b) ∧
    (∀ s, asString o = some s ↔ o = .str s) ∧
    (∀ s, asSymbol o = some s ↔ o = .sym s) ∧
    (tryInt o = none ↔ ∀ n b, o ≠ .int n ∧ o ≠ .float b) ∧
    (tryFloat o = none ↔ ∀ n b, o ≠ .int n ∧ o ≠ .float b) ∧
    (asOptInt o = none ↔ o ≠ .nil ∧ ∀ n, o ≠ .int n) ∧
    (asOptString o = none ↔ o ≠ .nil ∧ ∀ s, o ≠ .str s) ∧
    (asBool o = false ↔ o = .nil) := by
  cases o <;> simp [asInt, asFloat, asString, asSymbol, tryInt, tryFloat, asOptInt, asOptString, asBool]

/-- wrong types are rejected (the instances used by the campaign) -/
theorem conv_reject (n : Int) (b : UInt64) (s : String) (a d : Nat) :
    asInt (.float b) = none ∧ asInt (.str s) = none ∧ asInt .nil = none ∧ asInt (.cons a d) = none ∧
    asFloat (.int n) = none ∧ asString (.sym s) = none ∧ asSymbol (.str s) = none ∧
    tryInt (.str s) = none ∧ tryFloat .t = none ∧ asOptInt (.float b) = none ∧ asOptInt .t = none := by
  simp [asInt, asFloat, asString, asSymbol, tryInt, tryFloat, asOptInt]

/-- a handle made from a value reads back that value: `new` then `get` -/
theorem new_get (h : Heap) (o : Obj) : (h.alloc o).2.get (h.alloc o).1 = o ∧ Ext h (h.alloc o).2 :=
  ⟨alloc_get_new h o, ext_alloc h o⟩

/-! ## 8. `equal` -/

/-- `equal` is symmetric (all references, every fuel) -/
theorem equal_symm' (h : Heap) (fuel a b : Nat) : h.equal fuel a b = h.equal fuel b a :=
  equal_symm h fuel a b

/-- on two proper lists (elements of the left one atoms) and enough fuel, `equal` holds iff the lists have
    the same length and are element-wise `equal`. -/
theorem equal_lists_iff {h : Heap} {a b : Nat} {xs ys : List Nat} (la : Abs h a xs) (lb : Abs h b ys)
    (hxs : ∀ x ∈ xs, NotCons (h.get x)) (fuel : Nat) (hf : xs.length < fuel) :
    h.equal fuel a b = true ↔ Pointwise (fun x y => h.equal 1 x y = true) xs ys := by
  obtain ⟨_, l1, n1⟩ := la
  obtain ⟨_, l2, n2⟩ := lb
  exact equal_lists l1 n1 hxs l2 n2 fuel hf

/-- the fuel the driver uses (`cells.size + 2`) is enough -/
theorem equal_lists_driver_fuel {h : Heap} {a b : Nat} {xs ys : List Nat} (la : Abs h a xs) (lb : Abs h b ys)
    (hxs : ∀ x ∈ xs, NotCons (h.get x)) :
    h.equal (h.cells.size + 2) a b = true ↔ Pointwise (fun x y => h.equal 1 x y = true) xs ys := by
  have hl : xs.length ≤ h.cells.size := by
    obtain ⟨_, l1, _⟩ := la; exact l1.length_le
  exact equal_lists_iff la lb hxs _ (by omega)

/-- `equal` is reflexive on proper lists of atoms other than NaN (ints, strings, symbols, nil, t, floats) -/
theorem equal_refl_list {h : Heap} {a : Nat} {xs : List Nat} (la : Abs h a xs)
    (hxs : ∀ x ∈ xs, SelfEqual (h.get x)) (fuel : Nat) (hf : xs.length < fuel) :
    h.equal fuel a a = true := by
  have hn : ∀ x ∈ xs, NotCons (h.get x) := by
    intro x hx a d e
    have := hxs x hx
    rw [e] at this; exact this
  rw [equal_lists_iff la la hn fuel hf]
  exact Pointwise.refl xs (fun x hx => equal_self_atom (hxs x hx))

/-! ## 9. non-vacuity: two handles sharing a tail -/

/-- cells: 0 ↦ 10, 1 ↦ 20, 2 ↦ nil, 3 ↦ (20 . nil@2), 4 ↦ (10 20), 5 ↦ (20 . nil@2), 6 ↦ 30, 7 ↦ nil,
    8 ↦ (30 . nil@7).  Handles 4 = `(10 20)` and 5 = `(20)` share the terminating nil cell 2;
    handle 8 = `(30)` ends in another nil cell. -/
def exHeap : Heap :=
  { cells := #[.int 10, .int 20, .nil, .cons 1 2, .cons 0 3, .cons 1 2, .int 30, .nil, .cons 6 7] }

theorem ex_wf : WF exHeap := wf_of_wfb (by decide)
theorem ex_a : ListAt exHeap 4 [0, 1] 2 := toList_sound 9 4 _ _ (by decide) (by decide)
theorem ex_b : ListAt exHeap 5 [1] 2 := toList_sound 9 5 _ _ (by decide) (by decide)
theorem ex_c : ListAt exHeap 8 [6] 7 := toList_sound 9 8 _ _ (by decide) (by decide)
example : exHeap.get 2 = .nil ∧ 2 < exHeap.cells.size := by decide

/-- pushing 30 (cell 6) through handle 4 is seen through handle 5; handle 8 is unchanged -/
example :
    (match exHeap.push 4 6 with
     | .ok h' => (h'.elems 4, h'.elems 5, h'.elems 8)
     | .error _ => ([], [], [])) = ([0, 1, 6], [1, 6], [6]) := by decide

/-- the same from the theorems -/
example : exHeap.push 4 6 = .ok (pushed exHeap 2 6) ∧
    ListAt (pushed exHeap 2 6) 4 [0, 1, 6] 9 ∧ ListAt (pushed exHeap 2 6) 5 [1, 6] 9 ∧
    ListAt (pushed exHeap 2 6) 8 [6] 7 :=
  ⟨(push_spec ex_a (by decide) (by decide) 6).1, (push_spec ex_a (by decide) (by decide) 6).2.1,
   push_aliases (by decide) (by decide) 6 ex_b, push_frame (by decide) (by decide) 6 ex_c (by decide)⟩

/-- `append`: handle 8 gets a COPY of `(10 20)`; handle 4 then does not see a later push through 8 -/
example :
    (match exHeap.append 8 4 with
     | .ok h1 =>
       (match h1.push 8 1 with
        | .ok h2 => (h2.elems 8, h2.elems 4)
        | .error _ => ([], []))
     | .error _ => ([], [])) = ([6, 0, 1, 1], [0, 1]) := by decide

/-- the hypotheses of `deepCopy_spec`, `append_spec`, `append_onto_nil_spec`, `append_nil` hold on the example
    (handle 8 / the nil cell 7 as `r`, handle 4 as `v`) -/
example : ∃ cs csv, Chain exHeap 8 cs [6] 7 ∧ [6] ≠ [] ∧ exHeap.get 7 = .nil ∧
    Chain exHeap 4 csv [0, 1] 2 ∧ exHeap.get 2 = .nil ∧ 4 < exHeap.cells.size ∧ WF exHeap ∧
    7 < exHeap.cells.size := by
  obtain ⟨cs, c⟩ := ex_c.chain
  obtain ⟨csv, cv⟩ := ex_a.chain
  exact ⟨cs, csv, c, by decide, by decide, cv, by decide, by decide, ex_wf, by decide⟩

/-- appending onto the nil cell 7: it becomes the head of a copy of `(10 20)`; handle 8 = `(30 . cell 7)`
    sees it (aliasing through the cell), handle 4 is not shared: a push through 7 is not seen by 4 -/
example :
    (match exHeap.append 7 4 with
     | .ok h1 =>
       (match h1.push 7 6 with
        | .ok h2 => (h2.elems 7, h2.elems 8, h2.elems 4)
        | .error _ => ([], [], []))
     | .error _ => ([], [], [])) = ([0, 1, 6], [6, 0, 1, 6], [0, 1]) := by decide

/-- `deepCopy` of `(10 20)`: same elements (atoms are shared), new spine -/
example : (exHeap.deepCopy 4).1 = 11 ∧ (exHeap.deepCopy 4).2.elems 11 = [0, 1] ∧
    (exHeap.deepCopy 4).2.cells.size = 12 := by decide

/-- `equal`: handles 3 and 5 are both `(20)`; 4 = `(10 20)` differs from them and equals itself -/
example : exHeap.equal 11 3 5 = true ∧ exHeap.equal 11 4 5 = false ∧ exHeap.equal 11 4 4 = true ∧
    Abs exHeap 4 [0, 1] ∧ (∀ x ∈ [0, 1], SelfEqual (exHeap.get x)) :=
  ⟨by decide, by decide, by decide, ⟨2, ex_a, by decide⟩, by
    intro x hx
    simp only [List.mem_cons, List.not_mem_nil, or_false] at hx
    rcases hx with rfl | rfl <;> exact trivial⟩

/-- errors: push / append onto an int, car of an int -/
example : exHeap.push 0 1 = .error .typeMismatch ∧ exHeap.append 0 1 = .error .typeMismatch :=
  ⟨push_error_atom (notCons_of_isCons (by decide)) (by decide) 1,
   append_error (.done (notCons_of_isCons (by decide))) (by decide) 1⟩

/-- the stack machine: set_scope, set, get, unset, unset, unset (error) -/
example : (runStack (fun _ => []) [.push "x" 1, .set "x" 2, .get "x", .pop "x", .pop "x", .boundp "x"]).2 =
    [.done, .done, .val (some 2), .done, .err .uninitialized, .bool false] := by
  simp [runStack, stepStack, isKeyword, Stacks.upd]

/-! ## 10. the alist / plist / list helpers (`src/lists.rs`) -/

/-! ### `length` -/

/-- `length` counts the elements of the chain; a dotted tail is not counted. -/
theorem length_spec {h : Heap} {r : Nat} {xs : List Nat} {tl : Nat} (l : ListAt h r xs tl) :
    h.length r = xs.length :=
  length_eq l

theorem length_abs {h : Heap} {r : Nat} {xs : List Nat} (a : Abs h r xs) : h.length r = xs.length := by
  obtain ⟨_, l, _⟩ := a; exact length_eq l

/-! ### `nthcdr` -/

theorem nthcdr_zero (h : Heap) (r : Nat) : h.nthcdr 0 r = .ok r := nthcdr_zero' h r

/-- **nthcdr ↦ drop**: within the chain, `n` steps reach the cell whose chain is `xs.drop n` (for
    `n = xs.length` that is the tail cell); at or past the end of a proper list the answer is the
    terminating nil cell; past the end of a dotted list (tail another atom) it is a type error. -/
theorem nthcdr_spec {h : Heap} {r : Nat} {xs : List Nat} {tl : Nat} (l : ListAt h r xs tl) (n : Nat) :
    (n ≤ xs.length → ∃ r', h.nthcdr n r = .ok r' ∧ ListAt h r' (xs.drop n) tl) ∧
    (xs.length ≤ n → h.get tl = .nil → h.nthcdr n r = .ok tl) ∧
    (xs.length < n → h.get tl ≠ .nil → h.nthcdr n r = .error .typeMismatch) :=
  ⟨nthcdr_in_range l n, fun hn hnil => nthcdr_past_proper l hnil n hn,
   fun hn hnn => nthcdr_past_dotted l hnn n hn⟩

/-- the cell reached is the `n`-th cell of the spine (followed by the tail cell) -/
theorem nthcdr_spine {h : Heap} {r : Nat} {cs xs : List Nat} {tl : Nat} (c : Chain h r cs xs tl)
    (n : Nat) (hn : n ≤ xs.length) : ∃ r', (cs ++ [tl])[n]? = some r' ∧ h.nthcdr n r = .ok r' :=
  ⟨_, nthcdr_chain c n hn⟩

/-- on the abstraction: `nthcdr n` of a proper list denotes `xs.drop n`, for EVERY `n` -/
theorem nthcdr_abs {h : Heap} {r : Nat} {xs : List Nat} (a : Abs h r xs) (n : Nat) :
    ∃ r', h.nthcdr n r = .ok r' ∧ Abs h r' (xs.drop n) := by
  obtain ⟨tl, l, hnil⟩ := a
  rcases Nat.le_total n xs.length with hn | hn
  · obtain ⟨r', e, l'⟩ := nthcdr_in_range l n hn
    exact ⟨r', e, tl, l', hnil⟩
  · refine ⟨tl, nthcdr_past_proper l hnil n hn, tl, ?_, hnil⟩
    rw [List.drop_eq_nil_of_le hn]; exact .done (notCons_of_eq_nil hnil)

/-- composition, on every heap and every reference: `m + n` steps are `m` steps, then `n` steps -/
theorem nthcdr_add (h : Heap) (m n r : Nat) :
    h.nthcdr (m + n) r = (h.nthcdr m r >>= fun r' => h.nthcdr n r') := by
  rw [nthcdr_add']
  cases h.nthcdr m r <;> rfl

/-! ### `nth` -/

/-- the law `(nth n l) = (car (nthcdr n l))`; a negative `n` counts as 0 (`Int.toNat`) -/
theorem nth_eq_car_nthcdr (h : Heap) (n : Int) (r : Nat) :
    h.nth n r = (h.nthcdr n.toNat r >>= fun x => h.car x) :=
  nth_def' h n r

/-- **nth ↦ xs[n]**: in range the `n`-th element, heap unchanged; at or past the end of a proper list a
    fresh nil cell (the only change to the heap); at or past the end of a dotted list a type error. -/
theorem nth_spec {h : Heap} {r : Nat} {xs : List Nat} {tl : Nat} (l : ListAt h r xs tl) (n : Int) :
    (∀ hn : n.toNat < xs.length, h.nth n r = .ok (xs[n.toNat], h)) ∧
    (xs.length ≤ n.toNat → h.get tl = .nil →
      h.nth n r = .ok (h.cells.size, (h.alloc .nil).2) ∧
      (h.alloc .nil).2.get h.cells.size = .nil ∧ Ext h (h.alloc .nil).2) ∧
    (xs.length ≤ n.toNat → h.get tl ≠ .nil → h.nth n r = .error .typeMismatch) :=
  ⟨nth_in_range' l n,
   fun hn hnil => ⟨nth_past_proper' l hnil n hn, alloc_get_new h _, ext_alloc h _⟩,
   fun hn hnn => nth_past_dotted' l hnn n hn⟩

/-- with a natural-number index -/
theorem nth_nat {h : Heap} {r : Nat} {xs : List Nat} {tl : Nat} (l : ListAt h r xs tl) (i : Nat)
    (hi : i < xs.length) : h.nth (i : Int) r = .ok (xs[i], h) := by
  have := nth_in_range' l (i : Int) (by simpa using hi)
  simpa using this

/-- a negative index behaves like 0 -/
theorem nth_neg (h : Heap) {n : Int} (hn : n ≤ 0) (r : Nat) : h.nth n r = h.nth 0 r := by
  unfold Heap.nth
  rw [Int.toNat_of_nonpos hn]; rfl

/-! ### `last` -/

/-- **last** on a non-empty chain (proper or dotted: only the cons cells count):
    without `n`, the LAST CONS CELL (its chain is `[xs.getLast]`); with `some k`: `k < 0` is out of
    range, `k < length` gives the chain of the last `k` elements, otherwise the list itself. -/
theorem last_spec {h : Heap} {r : Nat} {xs : List Nat} {tl : Nat} (l : ListAt h r xs tl) (hne : xs ≠ []) :
    (∃ r', h.last r none = .ok r' ∧ ListAt h r' [xs.getLast hne] tl) ∧
    (∀ k : Int, k < 0 → h.last r (some k) = .error .outOfRange) ∧
    (∀ k : Int, 0 ≤ k → k < (xs.length : Int) →
      ∃ r', h.last r (some k) = .ok r' ∧ ListAt h r' (xs.drop (xs.length - k.toNat)) tl) ∧
    (∀ k : Int, (xs.length : Int) ≤ k → h.last r (some k) = .ok r) := by
  refine ⟨?_, ?_, ?_, ?_⟩
  · obtain ⟨r', e, l'⟩ := nthcdr_in_range l (xs.length - 1) (Nat.sub_le _ _)
    rw [drop_length_pred hne] at l'
    exact ⟨r', by rw [last_of_cons l hne]; exact e, l'⟩
  · intro k hk
    rw [last_of_cons l hne]; simp only [hk, if_true]
  · intro k h0 hk
    obtain ⟨r', e, l'⟩ := nthcdr_in_range l (xs.length - k.toNat) (Nat.sub_le _ _)
    refine ⟨r', ?_, l'⟩
    rw [last_of_cons l hne]; simp only [Int.not_lt.mpr h0, hk, if_true, if_false]; exact e
  · intro k hk
    have h0 : ¬ k < 0 := by omega
    have h1 : ¬ k < (xs.length : Int) := by omega
    rw [last_of_cons l hne]; simp only [h0, h1, if_false]

/-- `last` of nil is that nil; of another atom a type error -/
theorem last_nil {h : Heap} {r : Nat} (hg : h.get r = .nil) (n : Option Int) : h.last r n = .ok r :=
  last_of_nil hg n

theorem last_atom {h : Heap} {r : Nat} (hn : NotCons (h.get r)) (hnn : h.get r ≠ .nil) (n : Option Int) :
    h.last r n = .error .typeMismatch :=
  last_of_atom hn hnn n

/-! ### `assoc` -/

/-- **assoc ↦ find?**: on a list object whose chain is `xs`, `assoc` returns the FIRST element of `xs` that
    is a cons cell whose car is `equal` to the key (`assocPred`, the very test of the model), heap
    unchanged; a fresh nil cell when there is none. -/
theorem assoc_spec {h : Heap} {r : Nat} {xs : List Nat} {tl : Nat} (l : ListAt h r xs tl)
    (hl : IsListObj (h.get r)) (key : Nat) :
    h.assoc key r =
      (match xs.find? (assocPred h key) with
       | some item => .ok (item, h)
       | none => .ok (h.cells.size, (h.alloc .nil).2)) :=
  assoc_eq l hl key

/-- `assocPred` is: a cons cell whose car is `equal` (fuel `cells.size + 2`) to the key -/
theorem assocPred_spec {h : Heap} {key item : Nat} :
    assocPred h key item = true ↔
      ∃ a d, h.get item = .cons a d ∧ h.equal (h.cells.size + 2) a key = true :=
  assocPred_iff

/-- the first matching pair wins: everything before it fails the test -/
theorem assoc_first {h : Heap} {r : Nat} {pre post : List Nat} {p tl : Nat}
    (l : ListAt h r (pre ++ p :: post) tl) (key : Nat)
    (hpre : ∀ q ∈ pre, assocPred h key q = false) (hp : assocPred h key p = true) :
    h.assoc key r = .ok (p, h) := by
  have hl : IsListObj (h.get r) := by
    cases pre <;> cases l with
    | step hg _ => exact .inr ⟨_, _, hg⟩
  rw [assoc_eq l hl key]
  have : (pre ++ p :: post).find? (assocPred h key) = some p := by
    rw [List.find?_eq_some_iff_append]
    exact ⟨hp, pre, post, rfl, fun a ha => by simp [hpre a ha]⟩
  rw [this]

/-- conversely: what `assoc` answers is either a matching pair of the list with no match before it and
    the heap unchanged, or (no element matches) a fresh nil cell -/
theorem assoc_result {h : Heap} {r : Nat} {xs : List Nat} {tl : Nat} (l : ListAt h r xs tl)
    (hl : IsListObj (h.get r)) (key : Nat) :
    (∃ p pre post, h.assoc key r = .ok (p, h) ∧ xs = pre ++ p :: post ∧
        (∀ q ∈ pre, assocPred h key q = false) ∧ assocPred h key p = true) ∨
    (h.assoc key r = .ok (h.cells.size, (h.alloc .nil).2) ∧ ∀ q ∈ xs, assocPred h key q = false) := by
  rw [assoc_eq l hl key]
  cases hf : xs.find? (assocPred h key) with
  | some p =>
    obtain ⟨hp, pre, post, e, hpre⟩ := List.find?_eq_some_iff_append.mp hf
    exact .inl ⟨p, pre, post, rfl, e, fun q hq => by simpa using hpre q hq, hp⟩
  | none =>
    exact .inr ⟨rfl, fun q hq => by simpa using (List.find?_eq_none.mp hf) q hq⟩

/-- no pair matches: a fresh nil cell -/
theorem assoc_none {h : Heap} {r : Nat} {xs : List Nat} {tl : Nat} (l : ListAt h r xs tl)
    (hl : IsListObj (h.get r)) (key : Nat) (hno : ∀ q ∈ xs, assocPred h key q = false) :
    h.assoc key r = .ok (h.cells.size, (h.alloc .nil).2) ∧ (h.alloc .nil).2.get h.cells.size = .nil := by
  rw [assoc_eq l hl key]
  have : xs.find? (assocPred h key) = none := List.find?_eq_none.mpr (fun q hq => by simp [hno q hq])
  rw [this]
  exact ⟨rfl, alloc_get_new h _⟩

/-- elements that are not cons cells are skipped: `assoc` answers as on the list of the pairs only -/
theorem assoc_skips_non_pairs {h : Heap} {r : Nat} {xs : List Nat} {tl : Nat} (l : ListAt h r xs tl)
    (hl : IsListObj (h.get r)) (key : Nat) :
    h.assoc key r =
      (match (xs.filter (fun x => h.isCons x)).find? (assocPred h key) with
       | some item => .ok (item, h)
       | none => .ok (h.cells.size, (h.alloc .nil).2)) := by
  rw [assoc_eq l hl key, find_assocPred_filter]; rfl

/-- an alist argument that is not a list is rejected -/
theorem assoc_not_list {h : Heap} {r : Nat} (hn : NotCons (h.get r)) (hnn : h.get r ≠ .nil) (key : Nat) :
    h.assoc key r = .error .typeMismatch :=
  assoc_of_atom hn hnn key

/-! ### `alist_get` -/

/-- **alist_get**: when `assoc` finds the pair `p = (a . d)` the answer is `d` — whatever `d` holds and
    whatever the default; when no pair matches it is the default if one is given, else a fresh nil
    (in both of these cases the nil cell made by `assoc` stays allocated). -/
theorem alistGet_spec {h : Heap} {r : Nat} {xs : List Nat} {tl : Nat} (l : ListAt h r xs tl)
    (hl : IsListObj (h.get r)) (key : Nat) (dflt : Option Nat) :
    (∀ p a d, xs.find? (assocPred h key) = some p → h.get p = .cons a d →
      h.alistGet key r dflt = .ok (d, h)) ∧
    (xs.find? (assocPred h key) = none →
      h.alistGet key r dflt =
        (match dflt with
         | some d => .ok (d, (h.alloc .nil).2)
         | none => .ok (h.cells.size + 1, ((h.alloc .nil).2.alloc .nil).2))) :=
  ⟨fun _ _ _ hf hg => alistGet_found l hl key dflt hf hg, fun hf => by
    rw [alistGet_missing l hl key dflt hf]; cases dflt <;> simp [Heap.alloc]⟩

/-- the first pair whose key is `equal` decides -/
theorem alistGet_first {h : Heap} {r : Nat} {pre post : List Nat} {p a d tl : Nat}
    (l : ListAt h r (pre ++ p :: post) tl) (key : Nat) (dflt : Option Nat)
    (hpre : ∀ q ∈ pre, assocPred h key q = false)
    (hg : h.get p = .cons a d) (he : h.equal (h.cells.size + 2) a key = true) :
    h.alistGet key r dflt = .ok (d, h) := by
  have hl : IsListObj (h.get r) := by
    cases pre <;> cases l with
    | step hg _ => exact .inr ⟨_, _, hg⟩
  have hp : assocPred h key p = true := assocPred_iff.mpr ⟨a, d, hg, he⟩
  have : (pre ++ p :: post).find? (assocPred h key) = some p := by
    rw [List.find?_eq_some_iff_append]
    exact ⟨hp, pre, post, rfl, fun a ha => by simp [hpre a ha]⟩
  exact alistGet_found l hl key dflt this hg

/-- **a key that is PRESENT with a NIL value yields that nil value, NOT the default.**
    (The defect once seeded into the code — "treat a nil value like a missing key and return the
    default" — contradicts this theorem: here the answer is the stored cell `d`, a nil, on the unchanged
    heap, and it is not the default object `x` unless they are the same cell.) -/
theorem alistGet_present_nil_value {h : Heap} {r : Nat} {pre post : List Nat} {p a d tl : Nat}
    (l : ListAt h r (pre ++ p :: post) tl) (key x : Nat)
    (hpre : ∀ q ∈ pre, assocPred h key q = false)
    (hg : h.get p = .cons a d) (he : h.equal (h.cells.size + 2) a key = true)
    (hd : h.get d = .nil) :
    h.alistGet key r (some x) = .ok (d, h) ∧ h.get d = .nil ∧
    (x ≠ d → ∀ h', h.alistGet key r (some x) ≠ .ok (x, h')) := by
  have e := alistGet_first l key (some x) hpre hg he
  refine ⟨e, hd, fun hne h' he' => ?_⟩
  rw [e] at he'
  injection he' with he'
  exact hne (congrArg Prod.fst he').symm

/-- absent key: the default when given, else a nil -/
theorem alistGet_absent {h : Heap} {r : Nat} {xs : List Nat} {tl : Nat} (l : ListAt h r xs tl)
    (hl : IsListObj (h.get r)) (key : Nat) (hno : ∀ q ∈ xs, assocPred h key q = false) :
    (∀ x, ∃ h', h.alistGet key r (some x) = .ok (x, h') ∧ Ext h h') ∧
    (∃ n h', h.alistGet key r none = .ok (n, h') ∧ h'.get n = .nil ∧ Ext h h' ∧ h.cells.size ≤ n) := by
  have hf : xs.find? (assocPred h key) = none := List.find?_eq_none.mpr (fun q hq => by simp [hno q hq])
  refine ⟨fun x => ⟨_, by rw [alistGet_missing l hl key _ hf], ext_alloc h _⟩, ?_⟩
  refine ⟨h.cells.size + 1, ((h.alloc .nil).2.alloc .nil).2, ?_, ?_,
    (ext_alloc h _).trans (ext_alloc _ _), by omega⟩
  · rw [alistGet_missing l hl key _ hf]; simp [Heap.alloc]
  · have := alloc_get_new (h.alloc .nil).2 .nil
    rwa [alloc_size] at this

/-- a non-list alist argument is rejected -/
theorem alistGet_not_list {h : Heap} {r : Nat} (hn : NotCons (h.get r)) (hnn : h.get r ≠ .nil)
    (key : Nat) (dflt : Option Nat) : h.alistGet key r dflt = .error .typeMismatch := by
  unfold Heap.alistGet; rw [assoc_of_atom hn hnn key]

/-! ### `alist_from` / `plist_from` -/

/-- **alist_from**: on EVERY heap the call succeeds; the result (the cell `h.cells.size`) denotes a proper
    list `ps` of NEW, pairwise different cells, one per input pair, in input order, the i-th holding
    `(kᵢ . vᵢ)`; no cell of `h` is modified (frame); a well-formed heap with valid handles stays well-formed. -/
theorem alistFrom_spec (h : Heap) (kvs : List (Nat × Nat)) :
    ∃ (h' : Heap) (ps : List Nat),
      h.alistFrom kvs = .ok (h.cells.size, h') ∧ Abs h' h.cells.size ps ∧
      ps.map h'.get = kvs.map (fun kv => Obj.cons kv.1 kv.2) ∧
      (∀ p ∈ ps, h.cells.size < p ∧ p < h'.cells.size) ∧ ps.Pairwise (· < ·) ∧
      Ext h h' ∧
      (WF h → (∀ kv ∈ kvs, kv.1 < h.cells.size ∧ kv.2 < h.cells.size) → WF h') := by
  obtain ⟨h', ps, tl', ef, b, hm, hq, hp, _, _, hwf⟩ := alist_fold kvs (BuildInv.init h)
  refine ⟨h', ps, ?_, ⟨tl', by simpa using b.list, b.nil⟩, hm, ?_, hp, b.ext, ?_⟩
  · rw [alistFrom_eq, ef]
  · intro p hp'
    have := hq p hp'
    rw [alloc_size] at this; omega
  · intro w hkv
    apply hwf (wf_alloc w (fun a d e => by cases e))
    intro kv hkv'
    have := hkv kv hkv'
    rw [alloc_size]; omega

/-- index form: as many pairs as inputs, the i-th pair cell holds `(kᵢ . vᵢ)` -/
theorem alistFrom_get {h' : Heap} {ps : List Nat} {kvs : List (Nat × Nat)}
    (hm : ps.map h'.get = kvs.map (fun kv => Obj.cons kv.1 kv.2)) :
    ps.length = kvs.length ∧
    ∀ (i : Nat) (hi : i < ps.length) (hk : i < kvs.length), h'.get ps[i] = .cons kvs[i].1 kvs[i].2 := by
  have hlen : ps.length = kvs.length := by simpa using congrArg List.length hm
  refine ⟨hlen, fun i hi hk => ?_⟩
  have := congrArg (fun l => l[i]?) hm
  simpa [hi, hk] using this

/-- **plist_from**: on EVERY heap the call succeeds; the result denotes the alternating list
    `[k₁, v₁, k₂, v₂, …]` (the handles themselves, not copies); exactly `1 + 2·n` cells are added, no cell of
    `h` is modified (frame); a well-formed heap with valid handles stays well-formed. -/
theorem plistFrom_spec (h : Heap) (kvs : List (Nat × Nat)) :
    ∃ h' : Heap,
      h.plistFrom kvs = .ok (h.cells.size, h') ∧
      Abs h' h.cells.size (kvs.flatMap (fun kv => [kv.1, kv.2])) ∧
      h'.cells.size = h.cells.size + 1 + 2 * kvs.length ∧
      Ext h h' ∧
      (WF h → (∀ kv ∈ kvs, kv.1 < h.cells.size ∧ kv.2 < h.cells.size) → WF h') := by
  obtain ⟨h', tl', ef, b, hsz, _, hwf⟩ := plist_fold kvs (BuildInv.init h)
  refine ⟨h', ?_, ⟨tl', by simpa using b.list, b.nil⟩, by rw [hsz, alloc_size], b.ext, ?_⟩
  · rw [plistFrom_eq, ef]
  · intro w hkv
    apply hwf (wf_alloc w (fun a d e => by cases e))
    intro kv hkv'
    have := hkv kv hkv'
    rw [alloc_size]; omega

/-! ### non-vacuity: the alist `((a . 1) (b) 5 (b . 7))` -/

/-- keys are ints (`a` = 100, `b` = 200).  cells: 0 ↦ a, 1 ↦ 1, 2 ↦ (a . 1); 3 ↦ b, 4 ↦ nil, 5 ↦ (b) = (b . nil);
    6 ↦ 5; 7 ↦ 7, 8 ↦ (b . 7); 9 ↦ nil; spine 13 → 12 → 11 → 10 → nil@9 with cars 2, 5, 6, 8;
    14 ↦ b (another object `equal` to the key of cell 3, not the same cell), 15 ↦ 300 (an absent key),
    16 ↦ 0 (a default), 17 ↦ (a . 1) as a DOTTED pair handle (tail the int 1). -/
def exAlist : Heap :=
  { cells := #[.int 100, .int 1, .cons 0 1, .int 200, .nil, .cons 3 4, .int 5, .int 7, .cons 3 7, .nil,
               .cons 8 9, .cons 6 10, .cons 5 11, .cons 2 12, .int 200, .int 300, .int 0, .cons 0 1] }

theorem exAlist_wf : WF exAlist := wf_of_wfb (by decide)
theorem exAlist_list : ListAt exAlist 13 [2, 5, 6, 8] 9 := toList_sound 18 13 _ _ (by decide) (by decide)
theorem exAlist_abs : Abs exAlist 13 [2, 5, 6, 8] := ⟨9, exAlist_list, by decide⟩
theorem exAlist_isList : IsListObj (exAlist.get 13) := .inr ⟨2, 12, by decide⟩
theorem exAlist_dotted : ListAt exAlist 17 [0] 1 := toList_sound 18 17 _ _ (by decide) (by decide)

/-- the hypotheses of `alistGet_present_nil_value` hold for the key `b` (cell 14): the first pair `(a . 1)`
    does not match, the second `(b)` does, its value cell 4 is nil … -/
example : ListAt exAlist 13 ([2] ++ 5 :: [6, 8]) 9 ∧ (∀ q ∈ [2], assocPred exAlist 14 q = false) ∧
    exAlist.get 5 = .cons 3 4 ∧ exAlist.equal (exAlist.cells.size + 2) 3 14 = true ∧
    exAlist.get 4 = .nil ∧ (16 : Nat) ≠ 4 :=
  ⟨exAlist_list, by decide, by decide, by decide, by decide, by decide⟩

/-- … so `alist_get b alist 0` is the stored nil (cell 4), not the default (cell 16), although the later
    pair `(b . 7)` and the default are both non-nil -/
example : exAlist.alistGet 14 13 (some 16) = .ok (4, exAlist) :=
  (alistGet_present_nil_value (pre := [2]) (post := [6, 8]) exAlist_list 14 16
    (by decide) (by decide : exAlist.get 5 = .cons 3 4) (by decide) (by decide)).1

/-- the same by evaluation (projecting the heap to its size: `Heap` has no decidable equality) -/
example :
    (match exAlist.alistGet 14 13 (some 16) with
     | .ok (x, h') => some (x, exAlist.get x, h'.cells.size) | .error _ => none) = some (4, .nil, 18) ∧
    (match exAlist.alistGet 0 13 (some 16) with
     | .ok (x, h') => some (x, exAlist.get x, h'.cells.size) | .error _ => none) = some (1, .int 1, 18) ∧
    -- an absent key: the default; without default: a fresh nil (cell 19, after the nil cell 18 of `assoc`)
    (match exAlist.alistGet 15 13 (some 16) with
     | .ok (x, h') => some (x, h'.cells.size) | .error _ => none) = some (16, 19) ∧
    (match exAlist.alistGet 15 13 none with
     | .ok (x, h') => some (x, h'.get x, h'.cells.size) | .error _ => none) = some (19, .nil, 20) ∧
    -- an int as the alist: an error
    (match exAlist.alistGet 14 6 none with | .ok _ => none | .error e => some e) = some .typeMismatch := by
  decide

/-- `assoc`: the first matching pair; the element `5` (not a pair) is skipped; the pair list is `[2, 5, 8]` -/
example :
    (match exAlist.assoc 14 13 with | .ok (x, _) => some x | .error _ => none) = some 5 ∧
    (match exAlist.assoc 15 13 with | .ok (x, h') => some (x, h'.get x) | .error _ => none) = some (18, .nil) ∧
    [2, 5, 6, 8].find? (assocPred exAlist 14) = some 5 ∧
    [2, 5, 6, 8].filter (fun x => exAlist.isCons x) = [2, 5, 8] ∧
    exAlist.assoc 14 6 = .error .typeMismatch := by
  refine ⟨by decide, by decide, by decide, by decide, ?_⟩
  exact assoc_not_list (notCons_of_isCons (by decide)) (by decide) 14

/-- (only for `decide` in the examples below) -/
local instance : DecidableEq (Except AErr Nat)
  | .ok a, .ok b => if h : a = b then isTrue (h ▸ rfl) else isFalse (fun e => h (Except.ok.inj e))
  | .error a, .error b => if h : a = b then isTrue (h ▸ rfl) else isFalse (fun e => h (Except.error.inj e))
  | .ok _, .error _ => isFalse nofun
  | .error _, .ok _ => isFalse nofun

/-- `length`, `nthcdr`, `nth`, `last` on the same list (and on the dotted pair 17 = `(a . 1)`) -/
example :
    exAlist.length 13 = 4 ∧ exAlist.length 17 = 1 ∧
    exAlist.nthcdr 0 13 = .ok 13 ∧ exAlist.nthcdr 2 13 = .ok 11 ∧ exAlist.nthcdr 4 13 = .ok 9 ∧
    exAlist.nthcdr 9 13 = .ok 9 ∧ exAlist.nthcdr 1 17 = .ok 1 ∧
    exAlist.nthcdr 2 17 = .error .typeMismatch ∧
    exAlist.last 13 none = .ok 10 ∧ exAlist.last 13 (some 2) = .ok 11 ∧ exAlist.last 13 (some 0) = .ok 9 ∧
    exAlist.last 13 (some 4) = .ok 13 ∧ exAlist.last 13 (some 9) = .ok 13 ∧
    exAlist.last 13 (some (-1)) = .error .outOfRange ∧ exAlist.last 9 none = .ok 9 ∧
    exAlist.last 6 none = .error .typeMismatch := by
  decide

example :
    (match exAlist.nth 2 13 with | .ok (x, h') => some (x, h'.cells.size) | .error _ => none) = some (6, 18) ∧
    (match exAlist.nth (-3) 13 with | .ok (x, h') => some (x, h'.cells.size) | .error _ => none) = some (2, 18) ∧
    (match exAlist.nth 4 13 with | .ok (x, h') => some (x, h'.get x, h'.cells.size) | .error _ => none)
      = some (18, .nil, 19) ∧
    (match exAlist.nth 1 17 with | .ok _ => none | .error e => some e) = some .typeMismatch := by
  decide

/-- the same from the theorems -/
example : exAlist.nth 2 13 = .ok (6, exAlist) ∧ exAlist.length 13 = 4 ∧
    (∃ r', exAlist.last 13 none = .ok r' ∧ ListAt exAlist r' [8] 9) ∧
    (∃ r', exAlist.nthcdr 3 13 = .ok r' ∧ Abs exAlist r' [8]) :=
  ⟨nth_nat exAlist_list 2 (by decide), length_spec exAlist_list,
   (last_spec exAlist_list (by decide)).1, nthcdr_abs exAlist_abs 3⟩

/-- `alist_from` / `plist_from` of the pairs (a . 1), (b . 7) (handles 0, 1, 3, 7, all valid in the
    well-formed `exAlist`): evaluated, and then looked up with `alist_get` -/
example : WF exAlist ∧ ∀ kv ∈ [((0 : Nat), (1 : Nat)), (3, 7)], kv.1 < exAlist.cells.size ∧ kv.2 < exAlist.cells.size :=
  ⟨exAlist_wf, by decide⟩

example :
    (match exAlist.alistFrom [(0, 1), (3, 7)] with
     | .ok (r, h') => some (r, h'.elems r, (h'.elems r).map h'.get, h'.cells.size)
     | .error _ => none) = some (18, [19, 21], [.cons 0 1, .cons 3 7], 23) ∧
    (match exAlist.plistFrom [(0, 1), (3, 7)] with
     | .ok (r, h') => some (r, h'.elems r, h'.cells.size)
     | .error _ => none) = some (18, [0, 1, 3, 7], 23) ∧
    (match exAlist.alistFrom [(0, 1), (3, 7)] with
     | .ok (r, h') => (match h'.alistGet 14 r none with | .ok (x, _) => some x | .error _ => none)
     | .error _ => none) = some 7 := by
  decide

end Tulisp.C20
