/-
  Props/C05.lean — C05: closures capture lexically bound variables in private cells.

  "A lambda that mentions a variable which is locally bound at the place where the lambda is
   created uses, each time it is later called, the value that variable had at creation,
   regardless of what a same-named variable is bound to in the caller at call time; its own
   assignments to that variable persist from one call to the next.  Variables that are not
   locally bound at creation, and the lambda's own parameters, are resolved normally at call
   time."

  Model: the `.lambda_` case of `callBuiltin` runs `captureVars ps.all body []`
  (`lambda_builtin`, `lambda_run`).  The theorems below are about one such run

      captureVars excl body [] c = (.ok (body', cap), c')

  under the hypotheses (collected in `Run`)
    * `WF c`                       every cell is younger than the symbol it stands for,
    * `∀ p ∈ excl, p < c.syms.size`, `SymsBelow c.syms.size body`
                                   the parameters and the symbols of the body are valid indices.
  Vocabulary (Proofs/C05.lean): `capturable c n` (locally bound, or already a cell),
  `excluded c excl n` (`eq` to a parameter), `SymMap c excl cap n m` (where `n` goes),
  `CapRel P body body'` (same structure up to cons identities, symbols related by `P`),
  `symOccs` (symbol occurrences), `cellFor c n v` (the entry created for `n` with value `v`).

   (a) capture_other_unchanged  capture_structure  capture_eraseIds  capture_nothing_to_capture
       sym_resolved_at_call
   (b) capture_complete  capture_image
   (c) cell_init
   (d) one_cell_per_symbol  distinct_symbols_distinct_cells  separate_evaluations_disjoint
   (e) cells_private  capture_rest_unchanged  modSym_frame  modSyms_frame
       closure_sees_creation_value  cell_ne_old  cell_unaffected_by_rebinding
       (push / pop / set / set-global on the captured name)
   (f) cell_persist  cell_persist_frame
   (g) symEq_cell ; capture_preserves_wf ; wf_invariant
-/
import Tulisp.Proofs.C05
set_option linter.constructorNameAsVariable false
namespace Tulisp.C05
open Tulisp Tulisp.Fresh

/-! ## the lambda built-in -/

/-- what `(lambda params . body)` does -/
theorem lambda_builtin (r : Rec) (args : Val) :
    callBuiltin r .lambda_ args = (do
      let (params, rest) ← nextForm args
      let body ← callBuiltin.stripDoc rest
      let c ← M.get
      let ps ← liftE (parseParams c params)
      let (body', _) ← captureVars ps.all body []
      let i ← newId
      pure (.lambda i ps body')) := rfl

theorem nextForm_state (args : Val) (c : Ctx) : (nextForm args c).2 = c := by
  cases args <;> rfl

theorem bind_noState {α β} {m : M α} {f : α → M β} (hm : ∀ c, (m c).2 = c)
    (hf : ∀ a c, (f a c).2 = c) : ∀ c, ((m >>= f) c).2 = c := by
  intro c
  rcases bind_snd_cases m f c with ⟨a, c1, h1, h2⟩ | ⟨_, _, h2, _⟩
  · rw [h2, hf a c1]
    have := hm c
    rw [h1] at this
    exact this
  · rw [h2]; exact hm c

theorem liftE_state {α} (e : E α) (c : Ctx) : (liftE e c).2 = c := by
  cases e <;> rfl

theorem stripDoc_state (rest : Val) (c : Ctx) : (callBuiltin.stripDoc rest c).2 = c := by
  unfold callBuiltin.stripDoc
  refine bind_noState (liftE_state _) (fun first => bind_noState (liftE_state _) (fun d c => ?_)) c
  cases first <;> first | rfl | (dsimp only; split <;> rfl)

/-- A successful evaluation of a lambda form is: parse the parameters, run the capture on the
    body in the *unchanged* state `c` with the parameters excluded, allocate one identity. -/
theorem lambda_run (r : Rec) (args : Val) (c c' : Ctx) (w : Val)
    (h : callBuiltin r .lambda_ args c = (.ok w, c')) :
    ∃ params body ps body' cap c1, parseParams c params = .ok ps ∧
      captureVars ps.all body [] c = (.ok (body', cap), c1) ∧
      w = .lambda c1.nextId ps body' ∧ c' = { c1 with nextId := c1.nextId + 1 } := by
  rw [lambda_builtin] at h
  obtain ⟨⟨params, rest⟩, c1, h1, ha⟩ := bind_ok_inv h
  have e1 : c1 = c := by have := nextForm_state args c; rw [h1] at this; exact this
  rw [e1] at ha
  dsimp only at ha
  obtain ⟨body, c2, h2, hb⟩ := bind_ok_inv ha
  have e2 : c2 = c := by have := stripDoc_state rest c; rw [h2] at this; exact this
  rw [e2] at hb
  obtain ⟨cc, c3, h3, hc⟩ := bind_ok_inv hb
  have e3 : cc = c ∧ c3 = c := by
    injection h3 with h3a h3b
    injection h3a with h3a
    exact ⟨h3a.symm, h3b.symm⟩
  rw [e3.1, e3.2] at hc
  obtain ⟨ps, c4, h4, hd⟩ := bind_ok_inv hc
  have hp : parseParams c params = .ok ps ∧ c4 = c := by
    unfold liftE at h4
    cases hpp : parseParams c params with
    | error k => rw [hpp] at h4; simp at h4
    | ok ps' =>
      rw [hpp] at h4
      injection h4 with h4a h4b
      injection h4a with h4a
      exact ⟨by rw [h4a], h4b.symm⟩
  rw [hp.2] at hd
  obtain ⟨⟨body', cap⟩, c5, h5, he⟩ := bind_ok_inv hd
  dsimp only at he
  obtain ⟨i, c6, h6, hf⟩ := bind_ok_inv he
  rw [newId_run] at h6
  injection h6 with h6a h6b
  injection h6a with h6a
  obtain ⟨e7, e8⟩ := pure_ok_inv hf
  exact ⟨params, body, ps, body', cap, c5, hp.1, h5, by rw [← e7, ← h6a], by rw [← e8, ← h6b]⟩

/-! ## the hypotheses of the capture theorems -/

/-- a successful capture run from the empty capture list, in a well-formed state, on a body
    and parameters whose symbols are valid indices -/
structure Run (c : Ctx) (excl : List Nat) (body body' : Val) (cap : Captured) (c' : Ctx) :
    Prop where
  wf : WF c
  excl_valid : ∀ p ∈ excl, p < c.syms.size
  body_valid : SymsBelow c.syms.size body
  run : captureVars excl body [] c = (.ok (body', cap), c')

theorem Run.inv {c : Ctx} {excl : List Nat} {body body' : Val} {cap : Captured} {c' : Ctx}
    (h : Run c excl body body' cap c') : Inv c excl c' cap :=
  (capture_run h.wf h.excl_valid h.body_valid h.run).1

theorem Run.rel {c : Ctx} {excl : List Nat} {body body' : Val} {cap : Captured} {c' : Ctx}
    (h : Run c excl body body' cap c') : CapRel (SymMap c excl cap) body body' :=
  (capture_run h.wf h.excl_valid h.body_valid h.run).2.1

theorem Run.cap_occ {c : Ctx} {excl : List Nat} {body body' : Val} {cap : Captured} {c' : Ctx}
    (h : Run c excl body body' cap c') : ∀ p ∈ cap, p.1 ∈ symOccs body :=
  (capture_run h.wf h.excl_valid h.body_valid h.run).2.2

/-! ## (a) what is not captured stays as it is -/

/-- The captured body has the structure of the body (same shape up to the identities of the
    rebuilt cons cells; non-symbol atoms — numbers, strings, nil, t, functions, tables —
    identical), every symbol `n` being replaced by an `m` with `SymMap c excl cap n m`.
    This holds at any nesting depth, inside quote / backquote / unquote / splice wrappers and in
    dotted tails (see the definition of `CapRel`). -/
theorem capture_structure {c : Ctx} {excl : List Nat} {body body' : Val} {cap : Captured}
    {c' : Ctx} (h : Run c excl body body' cap c') : CapRel (SymMap c excl cap) body body' :=
  h.rel

/-- … where a symbol that is not capturable (only globally bound, unbound, a keyword: no local
    binding and not a cell) or that is `eq` to a parameter is mapped to itself. -/
theorem capture_other_unchanged (c : Ctx) (excl : List Nat) (cap : Captured) (n m : Nat)
    (h : SymMap c excl cap n m) (hn : capturable c n = false ∨ excluded c excl n = true) :
    m = n := by
  unfold SymMap at h
  rw [if_neg] at h
  · exact h
  · rintro ⟨h1, h2⟩
    rcases hn with hn | hn
    · rw [h1] at hn; cases hn
    · rw [h2] at hn; cases hn

/-- the symbols that do not have a local binding: globals, unbound symbols, keywords (as long
    as they are not cells) -/
theorem not_capturable_of_not_lexBound (c : Ctx) (n : Nat) (h1 : (c.symD n).lexBound = false)
    (h2 : (c.symD n).base = none) : capturable c n = false := by
  simp [capturable, h1, h2]

/-- a symbol with only a global value, and an unbound symbol, are not locally bound -/
theorem lexBound_global_only (s : SymSt) (h : s.hasGlobal = true) (hi : s.items.length ≤ 1) :
    s.lexBound = false := by
  simp only [SymSt.lexBound, h, if_true, decide_eq_false_iff_not]
  omega

theorem lexBound_unbound (s : SymSt) (hi : s.items = []) : s.lexBound = false := by
  simp [SymSt.lexBound, hi]

/-- a parameter is excluded -/
theorem excluded_of_mem (c : Ctx) (excl : List Nat) (n : Nat) (h : n ∈ excl) :
    excluded c excl n = true := by
  unfold excluded
  rw [List.any_eq_true]
  exact ⟨n, h, symEq_refl c n⟩

/-- the `eraseIds` form: the captured body is the body with its symbols renamed by the capture
    map `capFun c excl cap` (first matching entry of `cap`; identity on everything not
    captured), up to the identities of cons cells -/
theorem capture_eraseIds {c : Ctx} {excl : List Nat} {body body' : Val} {cap : Captured}
    {c' : Ctx} (h : Run c excl body body' cap c') :
    eraseIds body' = eraseIds (mapSyms (capFun c excl cap) body) :=
  h.rel.eraseIds_eq (fun _ _ _ hm => h.inv.symMap_fun hm)

theorem mapSyms_id (v : Val) : mapSyms id v = v := by
  induction v <;> simp_all [mapSyms]

/-- If no symbol of the body is a capturable non-parameter, the lambda's body is the given body
    (up to cons identities) and no symbol-table entry is created. -/
theorem capture_nothing_to_capture {c : Ctx} {excl : List Nat} {body body' : Val}
    {cap : Captured} {c' : Ctx} (h : Run c excl body body' cap c')
    (hno : ∀ n ∈ symOccs body, capturable c n = false ∨ excluded c excl n = true) :
    eraseIds body' = eraseIds body ∧ c'.syms.size = c.syms.size := by
  constructor
  · have := h.rel.eraseIds_eq (σ := id)
      (fun n hn m hm => capture_other_unchanged c excl cap n m hm (hno n hn))
    rw [this, mapSyms_id]
  · have hsz := h.inv.size
    by_cases hlt : c.syms.size < c'.syms.size
    · obtain ⟨n, v, _, _, h3, h4, _, h6⟩ := h.inv.cells c.syms.size (Nat.le_refl _) hlt
      rcases hno n (h.cap_occ _ h6) with hn | hn
      · rw [h3] at hn; cases hn
      · rw [h4] at hn; cases hn
    · omega

/-- a symbol left in the body is looked up in the ordinary way when the body runs: its own
    entry, at call time -/
theorem sym_resolved_at_call (r : Rec) (n : Nat) : evalStep r (.sym n) = getSym n := rfl

/-! ## (b) everything capturable is captured -/

/-- No occurrence of an old symbol that was capturable and not a parameter remains in the
    captured body … -/
theorem capture_complete {c : Ctx} {excl : List Nat} {body body' : Val} {cap : Captured}
    {c' : Ctx} (h : Run c excl body body' cap c') (m : Nat) (hm : m ∈ symOccs body')
    (hold : m < c.syms.size) : capturable c m = false ∨ excluded c excl m = true := by
  obtain ⟨n, _, hp⟩ := h.rel.occ_back m hm
  by_cases hc : capturable c n = true ∧ excluded c excl n = false
  · unfold SymMap at hp
    rw [if_pos hc] at hp
    obtain ⟨f, hf, _⟩ := hp
    have := (h.inv.capd _ hf).2.1
    exact absurd hold (by simpa using this)
  · have hmn : m = n := by
      unfold SymMap at hp
      rw [if_neg hc] at hp
      exact hp
    subst hmn
    by_cases h1 : capturable c m = true
    · right
      by_cases h2 : excluded c excl m = true
      · exact h2
      · exact absurd ⟨h1, by simpa using h2⟩ hc
    · left; simpa using h1

/-- … every such occurrence has been replaced by a cell: a new entry (index `≥ c.syms.size`)
    whose `base` is a symbol `eq` to the one replaced. -/
theorem capture_image {c : Ctx} {excl : List Nat} {body body' : Val} {cap : Captured}
    {c' : Ctx} (h : Run c excl body body' cap c') (n : Nat) (hn : n ∈ symOccs body)
    (h1 : capturable c n = true) (h2 : excluded c excl n = false) :
    ∃ cell f, cell ∈ symOccs body' ∧ (f, cell) ∈ cap ∧ symEq c n f = true ∧
      c.syms.size ≤ cell ∧ cell < c'.syms.size ∧ (c'.symD cell).base = some f := by
  obtain ⟨m, hm, hp⟩ := h.rel.occ_forth n hn
  unfold SymMap at hp
  rw [if_pos ⟨h1, h2⟩] at hp
  obtain ⟨f, hf, he⟩ := hp
  obtain ⟨_, a2, a3, a4⟩ := h.inv.capd _ hf
  exact ⟨m, f, hm, hf, he, a2, a3, a4⟩

/-! ## (c) the cells -/

/-- Every entry created by the capture is the cell of an old symbol `n` that occurs in the
    body, is capturable and is not a parameter; it holds exactly one value, the value `n` had
    when the lambda was created; it is flagged as having a global value, carries `n`'s name and
    records `n` as its base. -/
theorem cell_init {c : Ctx} {excl : List Nat} {body body' : Val} {cap : Captured}
    {c' : Ctx} (h : Run c excl body body' cap c') (k : Nat) (h1 : c.syms.size ≤ k)
    (h2 : k < c'.syms.size) :
    ∃ n v, n < c.syms.size ∧ n ∈ symOccs body ∧ (c.symD n).get = some v ∧
      capturable c n = true ∧ excluded c excl n = false ∧ (n, k) ∈ cap ∧
      c'.symD k = { name := (c.symD n).name, hasGlobal := true, items := [v], base := some n } := by
  obtain ⟨n, v, a1, a2, a3, a4, a5, a6⟩ := h.inv.cells k h1 h2
  exact ⟨n, v, a1, h.cap_occ _ a6, a2, a3, a4, a6, a5⟩

/-- reading a fresh cell yields the captured value -/
theorem cell_read {c : Ctx} {excl : List Nat} {body body' : Val} {cap : Captured}
    {c' : Ctx} (h : Run c excl body body' cap c') (k : Nat) (h1 : c.syms.size ≤ k)
    (h2 : k < c'.syms.size) :
    ∃ n v, (n, k) ∈ cap ∧ (c.symD n).get = some v ∧ getSym k c' = (.ok v, c') := by
  obtain ⟨n, v, _, _, a3, _, _, a6, a7⟩ := cell_init h k h1 h2
  exact ⟨n, v, a6, a3, getSym_run k c' v (by rw [a7]) (by rw [a7]; rfl)⟩

/-! ## (d) one cell per symbol and evaluation -/

/-- Two captured occurrences of the same symbol (up to `eq`) in one body get the same cell. -/
theorem one_cell_per_symbol {c : Ctx} {excl : List Nat} {body body' : Val} {cap : Captured}
    {c' : Ctx} (h : Run c excl body body' cap c') (n1 n2 m1 m2 : Nat)
    (hc1 : capturable c n1 = true ∧ excluded c excl n1 = false)
    (hc2 : capturable c n2 = true ∧ excluded c excl n2 = false)
    (he : symEq c n1 n2 = true)
    (hm1 : SymMap c excl cap n1 m1) (hm2 : SymMap c excl cap n2 m2) : m1 = m2 := by
  unfold SymMap at hm1 hm2
  rw [if_pos hc1] at hm1
  rw [if_pos hc2] at hm2
  obtain ⟨f1, hf1, e1⟩ := hm1
  obtain ⟨f2, hf2, e2⟩ := hm2
  have : symEq c f1 f2 = true := symEq_trans (symEq_trans (symEq_symm e1) he) e2
  have := h.inv.cap_unique hf1 hf2 this
  exact congrArg Prod.snd this

/-- Conversely two symbols that are not `eq` never share a cell. -/
theorem distinct_symbols_distinct_cells {c : Ctx} {excl : List Nat} {body body' : Val}
    {cap : Captured} {c' : Ctx} (h : Run c excl body body' cap c') (n1 n2 m : Nat)
    (hc1 : capturable c n1 = true ∧ excluded c excl n1 = false)
    (hc2 : capturable c n2 = true ∧ excluded c excl n2 = false)
    (hm1 : SymMap c excl cap n1 m) (hm2 : SymMap c excl cap n2 m) : symEq c n1 n2 = true := by
  unfold SymMap at hm1 hm2
  rw [if_pos hc1] at hm1
  rw [if_pos hc2] at hm2
  obtain ⟨f1, hf1, e1⟩ := hm1
  obtain ⟨f2, hf2, e2⟩ := hm2
  have b1 := (h.inv.capd _ hf1).2.2.2
  have b2 := (h.inv.capd _ hf2).2.2.2
  simp only at b1 b2
  rw [b1] at b2
  injection b2 with b2
  subst b2
  exact symEq_trans e1 (symEq_symm e2)

/-- Two separate evaluations of a lambda form — the second in any state whose symbol table is at
    least as large as the one the first left — create disjoint sets of cells. -/
theorem separate_evaluations_disjoint {c1 c2 : Ctx} {excl1 excl2 : List Nat}
    {body1 body1' body2 body2' : Val} {cap1 cap2 : Captured} {c1' c2' : Ctx}
    (h1 : Run c1 excl1 body1 body1' cap1 c1') (h2 : Run c2 excl2 body2 body2' cap2 c2')
    (hseq : c1'.syms.size ≤ c2.syms.size) :
    ∀ p ∈ cap1, ∀ q ∈ cap2, p.2 < q.2 := by
  intro p hp q hq
  have a := (h1.inv.capd p hp).2.2.1
  have b := (h2.inv.capd q hq).2.1
  omega

/-! ## (e) the cells are private -/

/-- The capture touches no entry that existed before … -/
theorem cells_private {c : Ctx} {excl : List Nat} {body body' : Val} {cap : Captured}
    {c' : Ctx} (h : Run c excl body body' cap c') :
    ∀ n, n < c.syms.size → c'.symD n = c.symD n :=
  h.inv.old

/-- … nor anything else in the state except the allocation counter (which only grows). -/
theorem capture_rest_unchanged {c : Ctx} {excl : List Nat} {body body' : Val} {cap : Captured}
    {c' : Ctx} (h : Run c excl body body' cap c') :
    c'.obarray = c.obarray ∧ c'.tables = c.tables ∧ c'.ticks = c.ticks ∧
      c'.tickCount = c.tickCount ∧ c'.files = c.files ∧ c.nextId ≤ c'.nextId ∧
      c.syms.size ≤ c'.syms.size :=
  ⟨h.inv.obarray, h.inv.tables, h.inv.ticks, h.inv.tickCount, h.inv.files, h.inv.nextId,
    h.inv.size⟩

/-- the frame lemma: changing the entry of `n` leaves every other entry alone -/
theorem modSym_frame (c : Ctx) (n m : Nat) (f : SymSt → SymSt) (h : m ≠ n) :
    (c.modSym n f).symD m = c.symD m :=
  symD_modSym_ne c n m f h

/-- A cell has an index different from every old symbol — in particular from the one it stands
    for — so whatever a caller later does to the captured *name* (binding it with `let` or as a
    parameter: push; leaving that scope: pop; `setq` / `set`; `defun`: set-global), in whatever
    state, the cell's own stack is not affected. -/
theorem cell_unaffected_by_rebinding (n cell : Nat) (h : cell ≠ n) (v : Val) (s : Ctx) :
    (pushV (.sym n) v s).2.symD cell = s.symD cell ∧
    (popV (.sym n) s).2.symD cell = s.symD cell ∧
    (setV (.sym n) v s).2.symD cell = s.symD cell ∧
    (setGlobalV (.sym n) v s).2.symD cell = s.symD cell ∧
    (popSymCtx s n).symD cell = s.symD cell :=
  ⟨pushV_frame n cell v s h, popV_frame n cell s h, setV_frame n cell v s h,
    setGlobalV_frame n cell v s h, popSymCtx_frame n cell s h⟩

/-- the cells of a run are different from all old symbols -/
theorem cell_ne_old {c : Ctx} {excl : List Nat} {body body' : Val} {cap : Captured}
    {c' : Ctx} (h : Run c excl body body' cap c') (p : Nat × Nat) (hp : p ∈ cap) (n : Nat)
    (hn : n < c.syms.size) : p.2 ≠ n := by
  have := (h.inv.capd p hp).2.1
  omega

/-- any number of changes to entries other than `k` -/
theorem modSyms_frame (k : Nat) (ops : List (Nat × (SymSt → SymSt))) (hops : ∀ op ∈ ops, op.1 ≠ k)
    (s : Ctx) : (ops.foldl (fun s op => s.modSym op.1 op.2) s).symD k = s.symD k := by
  induction ops generalizing s with
  | nil => rfl
  | cons op ops ih =>
    rw [List.foldl_cons, ih (fun o ho => hops o (List.mem_cons_of_mem _ ho))]
    exact symD_modSym_ne s op.1 k op.2 (Ne.symm (hops op List.mem_cons_self))

/-- The value a closure sees: in ANY later state in which the cell's own entry is what the
    capture left (in particular after any number of bindings, unbindings and assignments of
    other symbols — `modSyms_frame`, `cell_unaffected_by_rebinding` — among them the captured
    name itself), reading the cell yields the value the captured symbol had when the lambda was
    created. -/
theorem closure_sees_creation_value {c : Ctx} {excl : List Nat} {body body' : Val}
    {cap : Captured} {c' : Ctx} (h : Run c excl body body' cap c') (k : Nat)
    (h1 : c.syms.size ≤ k) (h2 : k < c'.syms.size) (s : Ctx) (hs : s.symD k = c'.symD k) :
    ∃ n v, (n, k) ∈ cap ∧ (c.symD n).get = some v ∧ getSym k s = (.ok v, s) := by
  obtain ⟨n, v, _, _, a3, _, _, a6, a7⟩ := cell_init h k h1 h2
  exact ⟨n, v, a6, a3, getSym_run k s v (by rw [hs, a7]) (by rw [hs, a7]; rfl)⟩

/-! ## (f) assignments to a cell persist -/

/-- Assigning to a cell (what `setq` on the captured variable does inside the lambda's body)
    succeeds, changes the cell's entry only, and the next read of the cell — in the same call
    or in a later one — yields the assigned value. -/
theorem cell_persist (cell : Nat) (v : Val) (s : Ctx) (hlt : cell < s.syms.size)
    (hconst : (s.symD cell).constant = false) :
    ∃ s', setV (.sym cell) v s = (.ok (), s') ∧ getSym cell s' = (.ok v, s') ∧
      (∀ m, m ≠ cell → s'.symD m = s.symD m) ∧ (s'.symD cell).base = (s.symD cell).base ∧
      s'.syms.size = s.syms.size := by
  refine ⟨s.modSym cell (·.set v), setV_run cell v s hconst, ?_, ?_, ?_, size_modSym _ _ _⟩
  · apply getSym_run
    · rw [symD_modSym_self s cell _ hlt, SymSt.constant_set]; exact hconst
    · rw [symD_modSym_self s cell _ hlt, SymSt.get_set]
  · intro m hm
    exact symD_modSym_ne s cell m _ hm
  · rw [symD_modSym_self s cell _ hlt, SymSt.base_set]

/-- a cell created by a capture run can be assigned (it is not a constant) -/
theorem cell_assignable {c : Ctx} {excl : List Nat} {body body' : Val} {cap : Captured}
    {c' : Ctx} (h : Run c excl body body' cap c') (k : Nat) (h1 : c.syms.size ≤ k)
    (h2 : k < c'.syms.size) : (c'.symD k).constant = false := by
  obtain ⟨n, v, _, _, _, _, _, _, a7⟩ := cell_init h k h1 h2
  rw [a7]

/-! ## (g) a cell is `eq` to its symbol; well-formedness is kept -/

theorem symEq_cell (c : Ctx) (cell n : Nat) (hcell : (c.symD cell).base = some n)
    (hroot : (c.symD n).base = none) (hlt : cell < c.syms.size) : symEq c cell n = true :=
  symEq_cell_root c cell n hcell hroot hlt

theorem capture_preserves_wf {c : Ctx} {excl : List Nat} {body body' : Val} {cap : Captured}
    {c' : Ctx} (h : Run c excl body body' cap c') : WF c' :=
  h.inv.wf h.wf

/-- The hypothesis `WF` is an invariant of the interpreter's states: it holds initially and is
    kept by interning, by creating plain symbols, by every change of a binding stack (set, push,
    pop, set-global keep `base`) and (`capture_preserves_wf`) by closure creation, the only place
    where cells are made. -/
theorem wf_invariant :
    WF Ctx.initial ∧
    (∀ c name, WF c → WF (c.intern name).2) ∧
    (∀ c s, WF c → s.base = none → WF (c.newSym s).2) ∧
    (∀ c n v, WF c → WF (c.modSym n (·.set v)) ∧ WF (c.modSym n (·.push v)) ∧
      WF (c.modSym n (·.setGlobal v)) ∧ WF (popSymCtx c n)) := by
  refine ⟨wf_initial, fun c name h => wf_intern h name, fun c s h hs => wf_newSym_plain h s hs,
    fun c n v h => ⟨wf_modSym h n _ (fun s => SymSt.base_set s v), wf_modSym h n _ (fun _ => rfl),
      wf_modSym h n _ (fun s => ?_), ?_⟩⟩
  · unfold SymSt.setGlobal
    split <;> rfl
  · unfold popSymCtx
    cases hp : (c.symD n).pop with
    | none => exact h
    | some s' =>
      simp only
      -- `fun _ => s'` replaces the entry; its base is that of the popped entry
      intro m b hb
      by_cases hmn : m = n
      · subst hmn
        by_cases hlt : m < c.syms.size
        · rw [symD_modSym_self c m _ hlt] at hb
          have : s'.base = (c.symD m).base := by
            unfold SymSt.pop at hp
            split at hp
            · cases hp
            · injection hp with hp; rw [← hp]
          rw [this] at hb
          exact h m b hb
        · rw [symD_of_ge (by rw [size_modSym]; omega)] at hb
          cases hb
      · rw [symD_modSym_ne c n m _ hmn] at hb
        exact h m b hb

/-! ## a concrete instance (non-vacuity)

  Symbols: 0 = `x` (locally bound to 5 over a global 1), 1 = `y` (global only), 2 = `p`
  (locally bound; the parameter).  Body `(x y p x . x)`. -/

def exCtx : Ctx :=
  { syms := #[{ name := "x", hasGlobal := true, items := [.int 5, .int 1] },
              { name := "y", hasGlobal := true, items := [.int 2] },
              { name := "p", items := [.int 3] }] }

def exBody : Val :=
  .cons 0 (.sym 0) (.cons 0 (.sym 1) (.cons 0 (.sym 2) (.cons 0 (.sym 0) (.sym 0))))

theorem exCtx_wf : WF exCtx := by
  intro n b h
  match n with
  | 0 => simp [exCtx, Ctx.symD] at h
  | 1 => simp [exCtx, Ctx.symD] at h
  | 2 => simp [exCtx, Ctx.symD] at h
  | n + 3 =>
    rw [symD_of_ge (by simp [exCtx])] at h
    cases h

/-- the result: `x` ↦ the new cell 3 (everywhere, also in the dotted tail), `y` and `p` stay -/
theorem exRun : ∃ c', Run exCtx [2] exBody
    (.cons 1 (.sym 3) (.cons 2 (.sym 1) (.cons 3 (.sym 2) (.cons 4 (.sym 3) (.sym 3)))))
    [(0, 3)] c' := by
  refine ⟨(captureVars [2] exBody [] exCtx).2, exCtx_wf, ?_, ?_, ?_⟩
  · intro p hp
    simp at hp
    subst hp
    simp [exCtx]
  · simp [exBody, SymsBelow, exCtx]
  · rfl

example : ∃ c' : Ctx, (c'.symD 3).items = [Val.int 5] ∧ (c'.symD 3).base = some 0 ∧
    c'.symD 0 = exCtx.symD 0 := by
  obtain ⟨c', h⟩ := exRun
  have hsz : c'.syms.size = 4 := by
    have : c' = (captureVars [2] exBody [] exCtx).2 := by rw [h.run]
    rw [this]; rfl
  obtain ⟨n, v, _, _, a3, _, _, a6, a7⟩ := cell_init h 3 (by simp [exCtx]) (by omega)
  simp at a6
  subst a6
  have : v = .int 5 := by
    have : (exCtx.symD 0).get = some (.int 5) := rfl
    rw [this] at a3
    injection a3 with a3
    exact a3.symm
  subst this
  exact ⟨c', by rw [a7], by rw [a7], cells_private h 0 (by simp [exCtx])⟩

end Tulisp.C05
