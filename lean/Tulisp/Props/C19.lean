/-
  Props/C19.lean — property C19:

  "Evaluating the same sequence of texts in any two fresh contexts produces identical results,
   errors and variable states, independent of other contexts alive in the process, of hashing order
   and of memory addresses, and nothing defined in one context is visible in another.  Loading a
   file gives the same value, effects and error (apart from the reported file name) as evaluating
   its contents as a string, also for nested loads."

  Reading of the property in the model
  ------------------------------------
  * A context is a value `c : Ctx`; a request is `evalString d text : Ctx → Res Val × Ctx`
    (`d` = host stack budget).  There is no other input: no global mutable state, no addresses
    (object identity is the `nextId` counter *inside* the context), no hash iteration order (the
    only hash map, `Ctx.obarray`, is used through `get?` / `insert` exclusively; hash *tables* of the
    language are association lists).
  * A. `deterministic`, `fresh_contexts_agree`: transcripts (answers and final state) are a function
       of the initial context and the texts.
  * B. `serve_other`, `isolated`, `interleaving_irrelevant`, `not_visible`: a process is an array of
       contexts; a request on context `i` changes no other context, and the transcript / final state
       of context `i` under ANY interleaving with requests on other contexts is the one it has when
       run alone.
  * C. `readText_file_irrelevant`, `internSx_span_irrelevant`, `loadText_file_irrelevant`,
       `load_eq_eval`, `load_missing`, `load_eq_eval_ofDepth`: `load` = `eval_string` of the
       file's contents (the model's errors carry no file name, so the equality is exact), in the
       context whose file counter has been incremented; for every `r`, hence at every nesting level.
  * D. `table_order_free`: hash-table lookups depend only on the sequence of puts (cites C14).
-/
import Tulisp.Proofs.C19
import Tulisp.Props.C14
namespace Tulisp.C19
open Tulisp

/-! ## A. determinism -/

/-- `eval_string` against an arbitrary evaluator `r` (the body of `evalString`). -/
def evalStringWith (r : Rec) (text : String) : M Val := do
  let prog ← loadText r 0 text
  evalProgn r prog

theorem evalString_eq (d : Nat) (text : String) :
    evalString d text = evalStringWith (Rec.ofDepth d) text := rfl

/-- Serve a sequence of texts in one context: the answers, in order, and the final state. -/
def runHistory (d : Nat) : List String → Ctx → List (Res Val) × Ctx
  | [], c => ([], c)
  | t :: ts, c =>
    let p := evalString d t c
    let q := runHistory d ts p.2
    (p.1 :: q.1, q.2)

/-- Two runs of the same texts from equal contexts give the same answers (values and errors alike)
    and the same final state, hence the same value of every variable.  (The model has no input
    besides the context, so this holds by construction: that `evalString` can be *typed* as a
    function of `Ctx` is the content.) -/
theorem deterministic (d : Nat) (texts : List String) (c1 c2 : Ctx) (h : c1 = c2) :
    runHistory d texts c1 = runHistory d texts c2 := by
  subst h; rfl

/-- Two fresh contexts (`TulispContext::new()` twice) produce identical transcripts. -/
theorem fresh_contexts_agree (d : Nat) (texts : List String) (c1 c2 : Ctx)
    (h1 : c1 = Ctx.initial) (h2 : c2 = Ctx.initial) :
    (runHistory d texts c1).1 = (runHistory d texts c2).1 ∧
    (runHistory d texts c1).2 = (runHistory d texts c2).2 := by
  rw [h1, h2]; exact ⟨rfl, rfl⟩

/-- histories compose: the transcript of `ts ++ us` is the transcript of `ts` followed by that of
    `us` started in the state `ts` left behind. -/
theorem runHistory_append (d : Nat) (ts us : List String) (c : Ctx) :
    runHistory d (ts ++ us) c =
      ((runHistory d ts c).1 ++ (runHistory d us (runHistory d ts c).2).1,
       (runHistory d us (runHistory d ts c).2).2) := by
  induction ts generalizing c with
  | nil => rfl
  | cons t ts ih => simp [runHistory, ih]

/-! ## B. isolation of the contexts of one process -/

/-- a request addressed to the context with index `ctx` of the process -/
structure Req where
  ctx : Nat
  text : String

/-- state change of the process caused by one request (`Array.modify`: only slot `q.ctx`) -/
def serve (d : Nat) (p : Array Ctx) (q : Req) : Array Ctx :=
  p.modify q.ctx (fun c => (evalString d q.text c).2)

/-- the answer to a request (`none` if there is no such context) -/
def answer (d : Nat) (p : Array Ctx) (q : Req) : Option (Res Val) :=
  p[q.ctx]?.map (fun c => (evalString d q.text c).1)

/-- serve a schedule of requests; the log records (context index, answer) in order -/
def runProc (d : Nat) : List Req → Array Ctx → List (Nat × Res Val) × Array Ctx
  | [], p => ([], p)
  | q :: qs, p =>
    let rest := runProc d qs (serve d p q)
    (match answer d p q with
      | some a => (q.ctx, a) :: rest.1
      | none => rest.1, rest.2)

/-- what the client of context `i` sees -/
def transcriptOf (i : Nat) (log : List (Nat × Res Val)) : List (Res Val) :=
  (log.filter (·.1 == i)).map (·.2)

/-- the texts a schedule sends to context `i` -/
def textsFor (i : Nat) (qs : List Req) : List String :=
  (qs.filter (·.ctx == i)).map (·.text)

/-- A request leaves every other context of the process unchanged. -/
theorem serve_other (d : Nat) (p : Array Ctx) (q : Req) (j : Nat) (h : j ≠ q.ctx) :
    (serve d p q)[j]? = p[j]? := by
  simp [serve, Array.getElem?_modify, Ne.symm h]

theorem serve_self (d : Nat) (p : Array Ctx) (q : Req) :
    (serve d p q)[q.ctx]? = p[q.ctx]?.map (fun c => (evalString d q.text c).2) := by
  simp [serve, Array.getElem?_modify]

theorem serve_size (d : Nat) (p : Array Ctx) (q : Req) : (serve d p q).size = p.size := by
  simp [serve]

/-- **Isolation.**  Under any schedule `qs` (any interleaving with requests to other contexts),
    the transcript and the final state of context `i` are those of running the texts addressed to
    `i` alone, from the state `c` context `i` had at the start. -/
theorem isolated (d : Nat) (qs : List Req) (p : Array Ctx) (i : Nat) (c : Ctx)
    (h : p[i]? = some c) :
    transcriptOf i (runProc d qs p).1 = (runHistory d (textsFor i qs) c).1 ∧
    (runProc d qs p).2[i]? = some (runHistory d (textsFor i qs) c).2 := by
  induction qs generalizing p c with
  | nil => simp [runProc, transcriptOf, textsFor, runHistory, h]
  | cons q qs ih =>
    by_cases hq : q.ctx = i
    · have hs : (serve d p q)[i]? = some (evalString d q.text c).2 := by
        rw [← hq, serve_self, hq, h]; rfl
      have ha : answer d p q = some (evalString d q.text c).1 := by
        simp [answer, hq, h]
      obtain ⟨ih1, ih2⟩ := ih _ _ hs
      have ht : textsFor i (q :: qs) = q.text :: textsFor i qs := by
        simp [textsFor, hq]
      simp only [runProc, ha, ht, runHistory]
      refine ⟨?_, ih2⟩
      simp only [transcriptOf] at ih1 ⊢
      simp [hq, ih1]
    · have hs : (serve d p q)[i]? = some c := by
        rw [serve_other d p q i (Ne.symm hq), h]
      obtain ⟨ih1, ih2⟩ := ih _ _ hs
      have ht : textsFor i (q :: qs) = textsFor i qs := by
        simp [textsFor, hq]
      simp only [runProc, ht]
      refine ⟨?_, ih2⟩
      cases answer d p q with
      | none => exact ih1
      | some a =>
        simp only [transcriptOf] at ih1 ⊢
        simp [hq, ih1]

/-- Two contexts (of the same or of different processes) that start equal and receive the same
    texts produce the same transcript and end in the same state, whatever else the two processes
    are doing in between. -/
theorem interleaving_irrelevant (d : Nat) (qs qs' : List Req) (p p' : Array Ctx) (i j : Nat)
    (c : Ctx) (h : p[i]? = some c) (h' : p'[j]? = some c)
    (htexts : textsFor i qs = textsFor j qs') :
    transcriptOf i (runProc d qs p).1 = transcriptOf j (runProc d qs' p').1 ∧
    (runProc d qs p).2[i]? = (runProc d qs' p').2[j]? := by
  obtain ⟨a1, a2⟩ := isolated d qs p i c h
  obtain ⟨b1, b2⟩ := isolated d qs' p' j c h'
  rw [a1, a2, b1, b2, htexts]; exact ⟨rfl, rfl⟩

/-- Nothing defined in one context is visible in another: a schedule that never addresses context
    `i` leaves it exactly as it was. -/
theorem not_visible (d : Nat) (qs : List Req) (p : Array Ctx) (i : Nat)
    (hq : ∀ q ∈ qs, q.ctx ≠ i) : (runProc d qs p).2[i]? = p[i]? := by
  cases h : p[i]? with
  | some c =>
    have ht : textsFor i qs = [] := by
      simp only [textsFor, List.map_eq_nil_iff, List.filter_eq_nil_iff]
      intro q hmem; simpa using hq q hmem
    have := (isolated d qs p i c h).2
    rw [ht] at this; exact this
  | none =>
    induction qs generalizing p with
    | nil => simpa [runProc] using h
    | cons q qs ih =>
      simp only [runProc]
      apply ih
      · intro q' hq'; exact hq q' (by simp [hq'])
      · rw [serve_other d p q i (Ne.symm (hq q (by simp))), h]

/-- non-vacuity of the hypotheses of `isolated` / `interleaving_irrelevant` -/
example (c0 c1 : Ctx) : (#[c0, c1] : Array Ctx)[1]? = some c1 := rfl
example : textsFor 1 [⟨0, "(setq a 1)"⟩, ⟨1, "a"⟩, ⟨0, "a"⟩] = textsFor 0 [⟨0, "a"⟩, ⟨7, "b"⟩] := by
  simp [textsFor]

/-! ## C. load = eval of the contents -/

/-- renaming of the file ids in the output of the reader (spans only) -/
abbrev ReadResult.mapFile := mapRead
abbrev Sx.mapFile := mapSx

/-- The tokenizer and parser never inspect the file id: reading the same characters under another
    file id gives the same result — forms, error, events — with the `file` field of every span
    renamed accordingly. -/
theorem readText_file_irrelevant (g : Nat → Nat) (f : Nat) (cs : List Char) :
    readText (g f) cs = ReadResult.mapFile g (readText f cs) := readText_map g f cs

/-- in particular for any two file ids -/
theorem readText_two_files (f1 f2 : Nat) (cs : List Char) :
    readText f2 cs = ReadResult.mapFile (fun _ => f2) (readText f1 cs) :=
  readText_map (fun _ => f2) f1 cs

/-- Turning syntax into values ignores spans. -/
theorem internSx_span_irrelevant (r : Rec) (g : Nat → Nat) (s : Sx) (tab : StrTab) :
    internSx r (Sx.mapFile g s) tab = internSx r s tab := internSx_map r g s tab

/-- The selection of definition events replayed after a parse error compares positions only. -/
theorem maximalEvents_file_irrelevant (g : Nat → Nat) (es : List Sx) :
    maximalEvents (es.map (Sx.mapFile g)) = (maximalEvents es).map (Sx.mapFile g) :=
  maximalEvents_map g es

/-- Hence parsing + definition effects + macro expansion of a text do not depend on the file id. -/
theorem loadText_file_irrelevant (r : Rec) (f1 f2 : Nat) (text : String) :
    loadText r f1 text = loadText r f2 text := loadText_any_file r f1 f2 text

/-- **Loading a file = evaluating its contents as a string** (value, error and effects), in the
    context whose file counter has been incremented.  `r` is arbitrary: the statement applies at
    every nesting level of `load`. -/
theorem load_eq_eval (r : Rec) (name : String) (c : Ctx) (nm text : String)
    (h : c.files.find? (·.1 == name) = some (nm, text)) :
    loadFile r name c = evalStringWith r text { c with nfiles := c.nfiles + 1 } := by
  unfold loadFile evalStringWith
  rw [loadText_file_irrelevant r 0 c.nfiles text]
  show M.bind M.get _ c = _
  simp only [M.bind, M.get, h]
  rfl

/-- … stated with membership, for a file system without duplicate names. -/
theorem load_eq_eval_mem (r : Rec) (name text : String) (c : Ctx)
    (hmem : (name, text) ∈ c.files)
    (huniq : c.files.Pairwise (fun a b => a.1 ≠ b.1)) :
    loadFile r name c = evalStringWith r text { c with nfiles := c.nfiles + 1 } := by
  apply load_eq_eval r name c name text
  generalize c.files = fs at hmem huniq
  induction fs with
  | nil => simp at hmem
  | cons p fs ih =>
    rw [List.pairwise_cons] at huniq
    rcases List.mem_cons.1 hmem with rfl | hm
    · simp
    · have : p.1 ≠ name := huniq.1 _ hm
      simp [this, ih hm huniq.2]

/-- a missing file is an `Undefined` error and changes nothing -/
theorem load_missing (r : Rec) (name : String) (c : Ctx)
    (h : c.files.find? (·.1 == name) = none) :
    loadFile r name c = (.err .undefined, c) := by
  unfold loadFile
  show M.bind M.get _ c = _
  simp only [M.bind, M.get, h]
  rfl

/-- For the real evaluator: `load` at stack budget `d + 1` is `eval_string` at budget `d`; nested
    loads are covered because this holds for every `d`. -/
theorem load_eq_eval_ofDepth (d : Nat) (name : String) (c : Ctx) (nm text : String)
    (h : c.files.find? (·.1 == name) = some (nm, text)) :
    (Rec.ofDepth (d + 1)).load name c = evalString d text { c with nfiles := c.nfiles + 1 } :=
  load_eq_eval (Rec.ofDepth d) name c nm text h

/-- the `(load "name")` form itself: the built-in evaluates its argument and hands the string to
    the loader -/
theorem load_builtin (r : Rec) (i : Nat) (a : Val) (j : Nat) (name : String) (c c1 : Ctx)
    (ha : r.eval a c = (.ok (.str j name), c1)) :
    callBuiltin r .load_ (.cons i a .nil) c = r.load name c1 := by
  unfold callBuiltin
  show M.bind (nextArg r _) _ c = _
  simp only [nextArg, M.bind, bind, pure, M.pure, ha, strOf]

/-- non-vacuity: a context with a file -/
example : ({ files := [("a.el", "(setq x 1)")] } : Ctx).files.find? (·.1 == "a.el") =
    some ("a.el", "(setq x 1)") := by simp

/-! ## D. independence of hashing order -/

/-- Hash-table lookups depend only on the sequence of `puthash` calls: the value found is the one
    most recently stored under an `eql` key.  Table ids and keys are only ever compared for
    equality, never ordered or hashed (cites `Tulisp.C14.table_refines_map`). -/
theorem table_order_free (c : Ctx) (id : Nat) (ops : List (Val × Val)) (k' : Val) :
    tableLookup (ops.foldl (fun c (k, v) => tablePut c id k v) c) id k' =
      match C14.lastPut ops k' with
      | some v => v
      | none => tableLookup c id k' :=
  C14.table_refines_map c id ops k'

end Tulisp.C19
