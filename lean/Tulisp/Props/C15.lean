/-
  Props/C15.lean — property C15:

  "concat, format (directives %s %S %d %f %%), prin1-to-string, the return values of print and
   princ, string<, string>, string=, string-lessp, string-greaterp, string-equal, intern,
   make-symbol and gensym behave as specified for all strings and all argument counts.  In
   particular concat is associative with the empty string as identity, the string orderings form a
   strict total order consistent with string=, format consumes one argument per directive in order
   and reports missing arguments and unknown directives as errors, and successive gensym names
   never repeat."

  Sections
    A. concat          : `concat_builtin`, `concat_type_error`, `concatStrs_append`, `concat_assoc`,
                         `concat_empty_left/right`, `concat_no_args`
    B. string orders   : `strCmp_aliases`, `string_cmp_builtin`, `string_cmp_arity`,
                         `string_cmp_type_error`, `string_lt_irrefl`, `string_lt_trans`,
                         `string_trichotomy`, `string_gt_converse`, `string_eq_iff`
    C. format          : `format_eq_spec`, `format_ctx_unchanged`, `format_no_directive`,
                         `format_percent`, `format_directive_step`, `format_args_in_order`,
                         `format_missing`, `format_missing_first`, `format_unknown`,
                         `format_unknown_at`, `format_trailing_percent`, `format_builtin`, …
    D. gensym          : `gensym_builtin`, `gensym_overflow`, `gensym_counter_increments`,
                         `gensym_names_distinct`, `gensym_run_names_nodup`, `gensym_fresh`, …
    E. printing/symbols: `prin1_princ_partial`, `print_princ_return`, `intern_builtin`,
                         `make_symbol_builtin`
-/
import Tulisp.Proofs.C15
import Tulisp.Props.C14
namespace Tulisp.C15
open Tulisp

/-! ## A. concat -/

theorem callBuiltin_concat (r : Rec) (args : Val) :
    callBuiltin r .concat_ args = (do
      let vs ← evalEach r args
      let s ← callBuiltin.go vs ""
      mkStr s) := rfl

/-- `(concat a₁ … aₙ)`: when the arguments evaluate (in order, `evalEach`) to strings, the result is
    a fresh string holding their concatenation in order — for any number of arguments. -/
theorem concat_builtin (r : Rec) (args : Val) (vs : List Val) (s : String) (c c1 : Ctx)
    (hev : evalEach r args c = (.ok vs, c1)) (hs : concatStrs vs = some s) :
    callBuiltin r .concat_ args c = (.ok (.str c1.nextId s), { c1 with nextId := c1.nextId + 1 }) := by
  rw [callBuiltin_concat, C12.bind_ok _ hev, C12.bind_ok _ (a := s) (c' := c1) (by rw [go_spec, hs]; simp)]
  rfl

/-- a non-string argument is a `TypeMismatch` error (after all arguments have been evaluated) -/
theorem concat_type_error (r : Rec) (args : Val) (vs : List Val) (c c1 : Ctx)
    (hev : evalEach r args c = (.ok vs, c1)) (hs : concatStrs vs = none) :
    callBuiltin r .concat_ args c = (.err .typeMismatch, c1) := by
  rw [callBuiltin_concat, C12.bind_ok _ hev, C12.bind_err _ (k := .typeMismatch) (c' := c1) (by rw [go_spec, hs])]

theorem concatStrs_eq_none_iff (vs : List Val) :
    concatStrs vs = none ↔ ∃ v ∈ vs, ∀ i s, v ≠ .str i s := by
  induction vs with
  | nil => simp [concatStrs]
  | cons v vs ih =>
    cases v <;> simp [concatStrs, ih]

/-- `concat` distributes over splitting the argument list -/
theorem concatStrs_append (xs ys : List Val) :
    concatStrs (xs ++ ys) = (· ++ ·) <$> concatStrs xs <*> concatStrs ys := by
  induction xs with
  | nil =>
    cases h : concatStrs ys
    · simp only [List.nil_append, h, concatStrs]; rfl
    · simp only [List.nil_append, h, concatStrs]
      show some _ = some _
      simp only [String.empty_append]
  | cons v xs ih =>
    cases v <;> simp only [List.cons_append, concatStrs, ih] <;> try rfl
    case str i s =>
      cases concatStrs xs <;> cases concatStrs ys <;> try rfl
      show some _ = some _
      simp only [String.append_assoc]

/-- the same, spelled out -/
theorem concatStrs_append' (xs ys : List Val) (a b : String) (ha : concatStrs xs = some a)
    (hb : concatStrs ys = some b) : concatStrs (xs ++ ys) = some (a ++ b) := by
  rw [concatStrs_append, ha, hb]; rfl

/-- `(concat)` is the empty string -/
theorem concat_no_args : concatStrs [] = some "" := rfl

theorem concat_single (i : Nat) (s : String) : concatStrs [.str i s] = some s := by
  simp [concatStrs]

theorem concat_two (i j : Nat) (a b : String) : concatStrs [.str i a, .str j b] = some (a ++ b) := by
  simp [concatStrs]

/-- associativity: `(concat (concat a b) c)` and `(concat a (concat b c))` hold the same text, which
    is also that of `(concat a b c)` -/
theorem concat_assoc (i j k l m : Nat) (a b d : String) :
    concatStrs [.str l (a ++ b), .str k d] = concatStrs [.str i a, .str m (b ++ d)] ∧
    concatStrs [.str l (a ++ b), .str k d] = concatStrs [.str i a, .str j b, .str k d] := by
  simp [concatStrs, String.append_assoc]

/-- the empty string is a left and right identity -/
theorem concat_empty_left (i j : Nat) (a : String) : concatStrs [.str i "", .str j a] = some a := by
  simp [concatStrs]

theorem concat_empty_right (i j : Nat) (a : String) : concatStrs [.str i a, .str j ""] = some a := by
  simp [concatStrs]

/-- non-vacuity of `concat_builtin`: with an evaluator that evaluates strings to themselves -/
example : concatStrs [.str 1 "ab", .str 2 "", .str 3 "c"] = some ("ab" ++ ("" ++ ("c" ++ ""))) := rfl

/-! ## B. string comparisons -/

/-- `string-lessp`, `string-greaterp`, `string-equal` are the same functions as `string<`,
    `string>`, `string=` -/
theorem strCmp_aliases :
    strCmp? .stringLessp = strCmp? .stringLt ∧
    strCmp? .stringGreaterp = strCmp? .stringGt ∧
    strCmp? .stringEqual = strCmp? .stringEq := ⟨rfl, rfl, rfl⟩

theorem strCmp_lt : strCmp? .stringLt = some (fun a b => decide (a < b)) := rfl
theorem strCmp_gt : strCmp? .stringGt = some (fun a b => decide (b < a)) := rfl
theorem strCmp_eq : strCmp? .stringEq = some (fun a b => a == b) := rfl

/-- the six comparison built-ins -/
def IsStrCmp (b : Bi) : Prop :=
  b = .stringLt ∨ b = .stringGt ∨ b = .stringEq ∨ b = .stringLessp ∨ b = .stringGreaterp ∨ b = .stringEqual

theorem strCmp_isSome {b : Bi} (h : IsStrCmp b) : ∃ f, strCmp? b = some f := by
  rcases h with rfl | rfl | rfl | rfl | rfl | rfl <;> exact ⟨_, rfl⟩

theorem callBuiltin_strCmp {b : Bi} (h : IsStrCmp b) (r : Rec) (args : Val) :
    callBuiltin r b args =
      match args with
      | .cons _ a1 (.cons _ a2 .nil) => do
        let s1 ← r.eval a1
        let s2 ← r.eval a2
        match s1, s2, strCmp? b with
        | .str _ x, .str _ y, some f => pure (ofBool (f x y))
        | _, _, _ => M.throw .typeMismatch
      | .cons _ a1 .nil => do
        let _ ← r.eval a1
        M.throw .typeMismatch
      | .nil => M.throw .typeMismatch
      | _ => M.throw .typeMismatch := by
  rcases h with rfl | rfl | rfl | rfl | rfl | rfl <;> rfl

/-- With exactly two arguments that evaluate to strings `x`, `y`, the comparison built-in returns
    `t` / `nil` according to its comparison function on the two texts. -/
theorem string_cmp_builtin {b : Bi} (h : IsStrCmp b) (f : String → String → Bool)
    (hf : strCmp? b = some f) (r : Rec) (i j k l : Nat) (a1 a2 : Val) (x y : String) (c c1 c2 : Ctx)
    (h1 : r.eval a1 c = (.ok (.str k x), c1)) (h2 : r.eval a2 c1 = (.ok (.str l y), c2)) :
    callBuiltin r b (.cons i a1 (.cons j a2 .nil)) c = (.ok (ofBool (f x y)), c2) := by
  rw [callBuiltin_strCmp h]
  simp only [C12.bind_ok _ h1, C12.bind_ok _ h2, hf]
  rfl

/-- any other number of arguments (0, 1, 3 or more, or an improper argument list) never yields a
    value … -/
theorem string_cmp_arity {b : Bi} (h : IsStrCmp b) (r : Rec) (args : Val) (c : Ctx)
    (hn : ∀ i j a1 a2, args ≠ .cons i a1 (.cons j a2 .nil)) (v : Val) (c' : Ctx) :
    callBuiltin r b args c ≠ (.ok v, c') := by
  rw [callBuiltin_strCmp h]
  split
  · rename_i i a1 j a2; exact absurd rfl (hn i j a1 a2)
  · rename_i i a1
    show M.bind _ _ c ≠ _
    unfold M.bind
    rcases r.eval a1 c with ⟨res, c1⟩
    cases res <;> simp [M.throw]
  · simp [M.throw]
  · simp [M.throw]

/-- … the error being `TypeMismatch`: no argument -/
theorem string_cmp_arity_zero {b : Bi} (h : IsStrCmp b) (r : Rec) (c : Ctx) :
    callBuiltin r b .nil c = (.err .typeMismatch, c) := by
  rw [callBuiltin_strCmp h]; rfl

/-- one argument (it is evaluated first) -/
theorem string_cmp_arity_one {b : Bi} (h : IsStrCmp b) (r : Rec) (i : Nat) (a1 v : Val) (c c1 : Ctx)
    (h1 : r.eval a1 c = (.ok v, c1)) :
    callBuiltin r b (.cons i a1 .nil) c = (.err .typeMismatch, c1) := by
  rw [callBuiltin_strCmp h]
  simp only [C12.bind_ok _ h1]; rfl

/-- three or more arguments (none is evaluated) -/
theorem string_cmp_arity_many {b : Bi} (h : IsStrCmp b) (r : Rec) (i j k : Nat) (a1 a2 a3 rest : Val)
    (c : Ctx) :
    callBuiltin r b (.cons i a1 (.cons j a2 (.cons k a3 rest))) c = (.err .typeMismatch, c) := by
  rw [callBuiltin_strCmp h]; rfl

/-- a non-string among the two arguments is a `TypeMismatch` error -/
theorem string_cmp_type_error {b : Bi} (h : IsStrCmp b) (r : Rec) (i j : Nat) (a1 a2 v1 v2 : Val)
    (c c1 c2 : Ctx) (h1 : r.eval a1 c = (.ok v1, c1)) (h2 : r.eval a2 c1 = (.ok v2, c2))
    (hns : (∀ k x, v1 ≠ .str k x) ∨ (∀ k y, v2 ≠ .str k y)) :
    callBuiltin r b (.cons i a1 (.cons j a2 .nil)) c = (.err .typeMismatch, c2) := by
  rw [callBuiltin_strCmp h]
  simp only [C12.bind_ok _ h1, C12.bind_ok _ h2]
  rcases hns with hns | hns
  · cases v1 <;> first | rfl | exact absurd rfl (hns _ _)
  · cases v2 <;> first | (cases v1 <;> rfl) | exact absurd rfl (hns _ _)

/-! ### the order: `string<` is a strict total order, `string=` its equality, `string>` its
    converse (Lean's `String.lt` is the lexicographic order on the characters, compared by code
    point — `String.lt_iff : s < t ↔ s.toList < t.toList`) -/

/-- the comparison functions, as selected by `strCmp?` -/
def sLt (a b : String) : Bool := decide (a < b)
def sGt (a b : String) : Bool := decide (b < a)
def sEq (a b : String) : Bool := a == b

theorem strCmp_table :
    strCmp? .stringLt = some sLt ∧ strCmp? .stringGt = some sGt ∧ strCmp? .stringEq = some sEq ∧
    strCmp? .stringLessp = some sLt ∧ strCmp? .stringGreaterp = some sGt ∧
    strCmp? .stringEqual = some sEq := ⟨rfl, rfl, rfl, rfl, rfl, rfl⟩

theorem string_eq_iff (a b : String) : sEq a b = true ↔ a = b := by simp [sEq]

theorem string_lt_irrefl (a : String) : sLt a a = false := by simp [sLt]

theorem string_lt_trans (a b c : String) (h1 : sLt a b = true) (h2 : sLt b c = true) :
    sLt a c = true := by
  simp only [sLt, decide_eq_true_eq] at *
  exact String.lt_trans h1 h2

theorem string_lt_asymm (a b : String) (h : sLt a b = true) : sLt b a = false := by
  simp only [sLt, decide_eq_true_eq, decide_eq_false_iff_not] at *
  exact String.lt_asymm h

/-- `string>` is the converse of `string<` -/
theorem string_gt_converse (a b : String) : sGt a b = sLt b a := rfl

/-- trichotomy: exactly one of `a < b`, `a = b`, `b < a` holds -/
theorem string_trichotomy (a b : String) :
    (sLt a b = true ∧ sEq a b = false ∧ sGt a b = false) ∨
    (sLt a b = false ∧ sEq a b = true ∧ sGt a b = false) ∨
    (sLt a b = false ∧ sEq a b = false ∧ sGt a b = true) := by
  simp only [sLt, sGt, sEq, decide_eq_true_eq, decide_eq_false_iff_not, beq_iff_eq, beq_eq_false_iff_ne]
  by_cases h1 : a < b
  · exact Or.inl ⟨h1, String.ne_of_lt h1, String.lt_asymm h1⟩
  · by_cases h2 : b < a
    · exact Or.inr (Or.inr ⟨h1, (String.ne_of_lt h2).symm, h2⟩)
    · refine Or.inr (Or.inl ⟨h1, ?_, h2⟩)
      exact String.le_antisymm (String.not_lt.1 h2) (String.not_lt.1 h1)

/-- consistency with `string=`: equal strings are unrelated by `<`, and `<` respects `=` -/
theorem string_lt_of_eq (a b : String) (h : sEq a b = true) : sLt a b = false ∧ sLt b a = false := by
  rw [string_eq_iff] at h; subst h; exact ⟨string_lt_irrefl a, string_lt_irrefl a⟩

/-- the order is the lexicographic order of the character lists -/
theorem string_lt_lex (a b : String) : sLt a b = true ↔ a.toList < b.toList := by
  simp [sLt, String.lt_iff]

/-- the empty string is the least element -/
theorem string_empty_least (a : String) : sLt a "" = false := by
  simp only [sLt, decide_eq_false_iff_not, String.lt_iff]
  simp


/-! ## C. format -/

/-- **Specification of the format loop.**  For every format string `cs`, argument list and output
    prefix, `formatLoop` returns what the pure left-to-right pass `renderP` over the pieces of `cs`
    (`parseFmt`) returns, and leaves the context unchanged. -/
theorem format_eq_spec (c0 : Ctx) (cs : List Char) (args : List Val) (out : String) (c : Ctx) :
    formatLoop c0 cs args out c = (renderP c0 (parseFmt cs).1 args out, c) :=
  formatLoop_eq_renderP c0 cs args out c

/-- every format string consists of well-formed pieces — ordinary characters, `%%`, directives
    `%ch` — possibly followed by one lone `%` -/
theorem format_pieces_complete (cs : List Char) :
    (∀ p ∈ (parseFmt cs).1, p.WF) ∧
    cs = fmtChars (parseFmt cs).1 ++ (if (parseFmt cs).2 then ['%'] else []) := parseFmt_spec cs

/-- the same specification for a format string given by its pieces -/
theorem format_pieces (c0 : Ctx) (ps : List Piece) (hwf : ∀ p ∈ ps, p.WF) (args : List Val)
    (out : String) (c : Ctx) :
    formatLoop c0 (fmtChars ps) args out c = (renderP c0 ps args out, c) := by
  simpa using formatLoop_pieces c0 ps hwf [] (Or.inl rfl) args out c

theorem format_ctx_unchanged (c0 : Ctx) (cs : List Char) (args : List Val) (out : String) (c : Ctx) :
    (formatLoop c0 cs args out c).2 = c := by rw [format_eq_spec]

/-- a trailing lone `%` ends the output: it is dropped -/
theorem format_trailing_percent (c0 : Ctx) (ps : List Piece) (hwf : ∀ p ∈ ps, p.WF)
    (args : List Val) (out : String) (c : Ctx) :
    formatLoop c0 (fmtChars ps ++ ['%']) args out c = formatLoop c0 (fmtChars ps) args out c := by
  rw [formatLoop_pieces c0 ps hwf ['%'] (Or.inr rfl), format_pieces c0 ps hwf]

/-- a format string without `%` is copied to the output; all arguments are ignored -/
theorem format_no_directive (c0 : Ctx) (cs : List Char) (args : List Val) (out : String) (c : Ctx)
    (h : '%' ∉ cs) :
    formatLoop c0 cs args out c = (.ok (out ++ String.ofList cs), c) := by
  induction cs generalizing out with
  | nil => simp [formatLoop, pure, M.pure]
  | cons ch cs ih =>
    have hch : ch ≠ '%' := fun e => h (by simp [e])
    rw [formatLoop.eq_6 _ _ _ _ _ (fun e => hch e), ih _ (fun hm => h (by simp [hm]))]
    congr 2
    apply String.toList_inj.1
    simp [String.toList_push]

/-- `%%` produces `%` and consumes no argument -/
theorem format_percent (c0 : Ctx) (rest : List Char) (args : List Val) (out : String) :
    formatLoop c0 ('%' :: '%' :: rest) args out = formatLoop c0 rest args (out.push '%') :=
  formatLoop.eq_3 c0 args out rest

/-- a directive consumes exactly the next argument: the text `renderArgP` gives for it is appended
    and the loop continues with the remaining arguments; a failing conversion ends the loop -/
theorem format_directive_step (c0 : Ctx) (ch : Char) (rest : List Char) (a : Val) (args : List Val)
    (out : String) (c : Ctx) (h : ch ≠ '%') :
    formatLoop c0 ('%' :: ch :: rest) (a :: args) out c =
      match renderArgP c0 ch a with
      | .ok s => formatLoop c0 rest args (out ++ s) c
      | .err e => (.err e, c)
      | .panic s => (.panic s, c)
      | .fuel => (.fuel, c) := formatLoop_dir c0 ch rest a args out c h

/-- what the four directives produce -/
theorem directive_s (c0 : Ctx) (a : Val) (s : String) (h : princV c0 a = some s) :
    renderArgP c0 's' a = .ok s := by simp [renderArgP, h]

theorem directive_S (c0 : Ctx) (a : Val) (s : String) (h : printV c0 a = some s) :
    renderArgP c0 'S' a = .ok s := by simp [renderArgP, h]

theorem directive_d_int (c0 : Ctx) (n : Int) : renderArgP c0 'd' (.int n) = .ok (toString n) := by
  simp [renderArgP, Val.toNum?, truncI]

theorem directive_d_float (c0 : Ctx) (b : UInt64) :
    renderArgP c0 'd' (.float b) = .ok (toString (f64ToI64Trunc b)) := by
  simp [renderArgP, Val.toNum?, truncI]

theorem directive_d_type_error (c0 : Ctx) (a : Val) (h : a.isNumber = false) :
    renderArgP c0 'd' a = .err .typeMismatch := by
  have := (C13.toNum?_none_iff a).2 h
  simp [renderArgP, this]

theorem directive_f (c0 : Ctx) (a : Val) (n : Num) (s : String) (hn : a.toNum? = some n)
    (hs : f64Display n.asF64 = some s) : renderArgP c0 'f' a = .ok s := by
  simp [renderArgP, hn, hs]

/-- `%f` inserts `f64Display` as it is (statement independent of the printer): floats with a short
    exact decimal expansion as before, all other finite floats through the shortest round-trip
    printer; an integer argument is converted first -/
example (c0 : Ctx) : renderArgP c0 'f' (.float 0x3FE0000000000000) = .ok "0.5" :=
  directive_f c0 _ (.f _) _ rfl (by decide)
example (c0 : Ctx) : renderArgP c0 'f' (.float 0x3FB999999999999A) = .ok "0.1" :=
  directive_f c0 _ (.f _) _ rfl (by decide)
example (c0 : Ctx) : renderArgP c0 'f' (.int 3) = .ok "3" :=
  directive_f c0 _ (.i 3) _ rfl (by decide)

theorem directive_f_type_error (c0 : Ctx) (a : Val) (h : a.isNumber = false) :
    renderArgP c0 'f' a = .err .typeMismatch := by
  have := (C13.toNum?_none_iff a).2 h
  simp [renderArgP, this]

/-- `%s` of a string inserts it as it is, `%S` inserts it quoted and escaped -/
theorem directive_s_string (c0 : Ctx) (i : Nat) (s : String) :
    renderArgP c0 's' (.str i s) = .ok s := directive_s c0 _ _ rfl

theorem directive_S_string (c0 : Ctx) (i : Nat) (s : String) :
    renderArgP c0 'S' (.str i s) = .ok (escapeString s) := by
  apply directive_S; simp [printV, printAtom]

/-- any other directive character is a `SyntaxError` (once an argument is available) -/
theorem directive_unknown (c0 : Ctx) (ch : Char) (a : Val)
    (h : ch ≠ 's' ∧ ch ≠ 'S' ∧ ch ≠ 'd' ∧ ch ≠ 'f') :
    renderArgP c0 ch a = .err .syntaxError := by
  simp [renderArgP, h.1, h.2.1, h.2.2.1, h.2.2.2]

/-- **One argument per directive, in order.**  If the directives of `ps` render the arguments
    `used` (the k-th directive the k-th argument) to the texts `ss`, the result is the assembled
    text; surplus arguments `rest` are ignored. -/
theorem format_args_in_order (c0 : Ctx) (ps : List Piece) (hwf : ∀ p ∈ ps, p.WF)
    (used rest : List Val) (ss : List String) (out : String) (c : Ctx)
    (h : Rendered c0 ps used ss) :
    formatLoop c0 (fmtChars ps) (used ++ rest) out c = (.ok (assemble ps ss out), c) := by
  rw [format_pieces c0 ps hwf]
  have := renderP_prefix c0 ps [] used rest ss out h
  simp only [List.append_nil] at this
  rw [this]; rfl

/-- the number of arguments used is the number of directives -/
theorem format_args_used (c0 : Ctx) (ps : List Piece) (used : List Val) (ss : List String)
    (h : Rendered c0 ps used ss) : used.length = dirCount ps ∧ ss.length = dirCount ps :=
  Rendered.lengths h

/-- a directive (known or not) with no argument left is a `MissingArgument` error … -/
theorem format_missing (c0 : Ctx) (ps1 ps2 : List Piece) (ch : Char)
    (hwf : ∀ p ∈ ps1 ++ .dir ch :: ps2, p.WF) (used : List Val) (ss : List String) (out : String)
    (c : Ctx) (h : Rendered c0 ps1 used ss) :
    formatLoop c0 (fmtChars (ps1 ++ .dir ch :: ps2)) used out c = (.err .missingArgument, c) := by
  rw [format_pieces c0 _ hwf]
  have := renderP_prefix c0 ps1 (.dir ch :: ps2) used [] ss out h
  simp only [List.append_nil] at this
  rw [this]; rfl

/-- … in particular at the first directive -/
theorem format_missing_first (c0 : Ctx) (ch : Char) (rest : List Char) (out : String) (c : Ctx)
    (h : ch ≠ '%') :
    formatLoop c0 ('%' :: ch :: rest) [] out c = (.err .missingArgument, c) := by
  rw [formatLoop.eq_4 _ _ _ _ (fun e => h e)]; rfl

/-- `%x` for an unknown `x` is a `SyntaxError` when an argument is available (the model, like the
    Rust code, checks for the argument first: without one the error is `MissingArgument`,
    see `format_missing`) -/
theorem format_unknown (c0 : Ctx) (ch : Char) (rest : List Char) (a : Val) (args : List Val)
    (out : String) (c : Ctx) (h : ch ≠ '%' ∧ ch ≠ 's' ∧ ch ≠ 'S' ∧ ch ≠ 'd' ∧ ch ≠ 'f') :
    formatLoop c0 ('%' :: ch :: rest) (a :: args) out c = (.err .syntaxError, c) := by
  rw [format_directive_step _ _ _ _ _ _ _ h.1, directive_unknown c0 ch a h.2]

/-- … at any position -/
theorem format_unknown_at (c0 : Ctx) (ps1 ps2 : List Piece) (ch : Char)
    (hwf : ∀ p ∈ ps1 ++ .dir ch :: ps2, p.WF) (used : List Val) (a : Val) (rest : List Val)
    (ss : List String) (out : String) (c : Ctx) (h : Rendered c0 ps1 used ss)
    (hch : ch ≠ 's' ∧ ch ≠ 'S' ∧ ch ≠ 'd' ∧ ch ≠ 'f') :
    formatLoop c0 (fmtChars (ps1 ++ .dir ch :: ps2)) (used ++ a :: rest) out c =
      (.err .syntaxError, c) := by
  rw [format_pieces c0 _ hwf, renderP_prefix c0 ps1 (.dir ch :: ps2) used (a :: rest) ss out h]
  simp [renderP, directive_unknown c0 ch a hch, andThenP]

theorem callBuiltin_format (r : Rec) (args : Val) :
    callBuiltin r .format_ args = (do
      let (fmt, rest) ← nextArg r args
      let vs ← evalEach r rest
      let f ← strOf fmt
      let c ← M.get
      let s ← formatLoop c f.toList vs ""
      mkStr s) := rfl

/-- the `format` built-in: evaluate the format argument, then all others in order; the result is a
    fresh string with the rendered text -/
theorem format_builtin (r : Rec) (args fmtRest : Val) (i : Nat) (f : String) (vs : List Val)
    (c c1 c2 : Ctx) (h1 : nextArg r args c = (.ok (.str i f, fmtRest), c1))
    (h2 : evalEach r fmtRest c1 = (.ok vs, c2)) :
    callBuiltin r .format_ args c =
      match renderP c2 (parseFmt f.toList).1 vs "" with
      | .ok s => (.ok (.str c2.nextId s), { c2 with nextId := c2.nextId + 1 })
      | .err e => (.err e, c2)
      | .panic p => (.panic p, c2)
      | .fuel => (.fuel, c2) := by
  rw [callBuiltin_format, C12.bind_ok _ h1]
  simp only [C12.bind_ok _ h2]
  show M.bind (strOf (.str i f)) _ c2 = _
  simp only [M.bind, strOf, pure, M.pure, bind, M.get, format_eq_spec]
  cases renderP c2 (parseFmt f.toList).1 vs "" <;> rfl

/-- a format argument that is not a string is a `TypeMismatch` error -/
theorem format_not_string (r : Rec) (args fmt fmtRest : Val) (vs : List Val)
    (c c1 c2 : Ctx) (h1 : nextArg r args c = (.ok (fmt, fmtRest), c1))
    (h2 : evalEach r fmtRest c1 = (.ok vs, c2)) (hf : ∀ i f, fmt ≠ .str i f) :
    callBuiltin r .format_ args c = (.err .typeMismatch, c2) := by
  rw [callBuiltin_format, C12.bind_ok _ h1]
  simp only [C12.bind_ok _ h2]
  show M.bind (strOf fmt) _ c2 = _
  cases fmt <;> first | rfl | exact absurd rfl (hf _ _)

/-- non-vacuity: `(format "a%d%%%s" 5 "x" 'surplus)` -/
example (c0 : Ctx) :
    Rendered c0 [.lit 'a', .dir 'd', .pct, .dir 's'] [.int 5, .str 0 "x"] [toString (5 : Int), "x"] := by
  simp [Rendered, directive_d_int, directive_s_string]

example : ∀ p ∈ [Piece.lit 'a', .dir 'd', .pct, .dir 's'], p.WF := by
  simp [Piece.WF]

example : fmtChars [.lit 'a', .dir 'd', .pct, .dir 's'] = "a%d%%%s".toList := by
  simp [fmtChars, Piece.chars]

/-! ## D. gensym -/

/-- `(gensym)` / `(gensym "prefix")`: the new symbol is named prefix ++ decimal value of
    `gensym-counter` (0 if unbound or not an integer), the counter is set to that value + 1, and
    the symbol is a new symbol-table entry that is not entered into the obarray
    (`gensymStep`). -/
theorem gensym_builtin (r : Rec) (args pv rest : Val) (c c1 : Ctx) (pfx : String)
    (h : nextArgOpt r args c = (.ok (pv, rest), c1))
    (hp : (pv = .nil ∧ pfx = "g") ∨ ∃ i, pv = .str i pfx)
    (hr : inI64 (gensymCounter c1 + 1) = true)
    (hnc : ((c1.intern "gensym-counter").2.symD (c1.intern "gensym-counter").1).constant = false) :
    callBuiltin r .gensym args c = (.ok (.sym (gensymStep pfx c1).1), (gensymStep pfx c1).2) :=
  callBuiltin_gensym r args pv rest c c1 pfx h hp hr hnc

/-- without arguments the prefix is "g" -/
theorem gensym_no_args (r : Rec) (c : Ctx) (hr : inI64 (gensymCounter c + 1) = true)
    (hnc : ((c.intern "gensym-counter").2.symD (c.intern "gensym-counter").1).constant = false) :
    callBuiltin r .gensym .nil c = (.ok (.sym (gensymStep "g" c).1), (gensymStep "g" c).2) :=
  gensym_builtin r .nil .nil .nil c c "g" rfl (Or.inl ⟨rfl, rfl⟩) hr hnc

/-- the name of the symbol returned -/
theorem gensym_name (pfx : String) {c : Ctx} (h : C14.ObarrayOk c) :
    (gensymStep pfx c).2.symName (gensymStep pfx c).1 = pfx ++ toString (gensymCounter c) := by
  obtain ⟨_, _, _, _, h5, _, _⟩ := gensymStep_facts pfx h
  simp only [Ctx.symName, h5]; rfl

/-- the counter is incremented by exactly one -/
theorem gensym_counter_increments (pfx : String) {c : Ctx} (h : C14.ObarrayOk c) :
    gensymCounter (gensymStep pfx c).2 = gensymCounter c + 1 := gensymStep_counter pfx h

/-- the invariants needed for the next call are preserved -/
theorem gensym_preserves (pfx : String) {c : Ctx} (h : C14.ObarrayOk c)
    (hnc : ((c.intern "gensym-counter").2.symD (c.intern "gensym-counter").1).constant = false) :
    C14.ObarrayOk (gensymStep pfx c).2 ∧
    (((gensymStep pfx c).2.intern "gensym-counter").2.symD
      ((gensymStep pfx c).2.intern "gensym-counter").1).constant = false :=
  ⟨(gensymStep_facts pfx h).2.2.2.2.2.2, gensymStep_notConstant pfx h hnc⟩

/-- `toString` on integers is injective (needed for the distinctness of the names) -/
theorem int_toString_injective {a b : Int} (h : toString a = toString b) : a = b := intToString_inj h

/-- **Successive gensym names never repeat**: a call in context `c` and a later call in context
    `c'`, with no assignment to `gensym-counter` in between (the counter in `c'` is the one the
    first call left), use different names. -/
theorem gensym_names_distinct (pfx : String) {c c' : Ctx} (h : C14.ObarrayOk c)
    (hkeep : gensymCounter c' = gensymCounter (gensymStep pfx c).2) :
    gensymName pfx c ≠ gensymName pfx c' := by
  intro e
  have := gensymName_inj pfx e
  rw [hkeep, gensym_counter_increments pfx h] at this
  omega

/-- more generally, whenever the counter has only grown -/
theorem gensym_names_distinct_of_lt (pfx : String) {c c' : Ctx}
    (hlt : gensymCounter c < gensymCounter c') : gensymName pfx c ≠ gensymName pfx c' := by
  intro e
  have := gensymName_inj pfx e
  omega

/-- `k` successive calls: the names are `pfx ++ n`, `pfx ++ (n+1)`, … and pairwise different; the
    symbols are pairwise different new entries; the counter ends at `n + k`. -/
theorem gensym_run_names (pfx : String) (k : Nat) {c : Ctx} (h : C14.ObarrayOk c) :
    (gensymRun pfx k c).1.map (·.2) =
      (List.range k).map (fun (i : Nat) => pfx ++ toString (gensymCounter c + (i : Int))) :=
  (gensymRun_spec pfx k h).1

theorem gensym_run_names_nodup (pfx : String) (k : Nat) {c : Ctx} (h : C14.ObarrayOk c) :
    ((gensymRun pfx k c).1.map (·.2)).Nodup := by
  rw [gensym_run_names pfx k h]
  rw [List.Nodup, List.pairwise_map]
  refine List.Pairwise.imp ?_ (List.nodup_range (n := k))
  intro i j hne e
  have := intToString_inj ((String.append_right_inj pfx).1 e)
  exact hne (by omega)

theorem gensym_run_symbols_distinct (pfx : String) (k : Nat) {c : Ctx} (h : C14.ObarrayOk c) :
    (gensymRun pfx k c).1.Pairwise (fun a b => a.1 < b.1) ∧
    (∀ p ∈ (gensymRun pfx k c).1, c.syms.size ≤ p.1) ∧
    gensymCounter (gensymRun pfx k c).2 = gensymCounter c + k :=
  ⟨(gensymRun_spec pfx k h).2.2.1, (gensymRun_spec pfx k h).2.1, (gensymRun_spec pfx k h).2.2.2⟩

/-- The symbol returned is fresh and uninterned: its index is the size of the symbol table at the
    time of creation, no obarray name reaches it, and it differs from every existing symbol
    (cites `Tulisp.C14.newSym_fresh`). -/
theorem gensym_fresh (pfx : String) {c : Ctx} (h : C14.ObarrayOk c) :
    (gensymStep pfx c).1 = (c.intern "gensym-counter").2.syms.size ∧
    (∀ name : String, (gensymStep pfx c).2.obarray[name]? ≠ some (gensymStep pfx c).1) ∧
    (∀ n, n < c.syms.size → (gensymStep pfx c).1 ≠ n) := by
  have h2 : C14.ObarrayOk (c.intern "gensym-counter").2 := C14.obarrayOk_intern h _
  have h3 : C14.ObarrayOk ((c.intern "gensym-counter").2.modSym (c.intern "gensym-counter").1
      (·.set (.int (gensymCounter c + 1)))) :=
    C14.obarrayOk_run h2 (.other _ (fun c => C14.modSym_frame _ _ (fun s => SymSt.name_set s _) c))
  obtain ⟨f1, f2, f3⟩ := C14.newSym_fresh h3
    { name := gensymName pfx c, constant := (gensymName pfx c).startsWith ":" }
  have hsz := (gensymStep_facts pfx h).1
  refine ⟨hsz, f2, ?_⟩
  intro n hn e
  have : c.syms.size ≤ (c.intern "gensym-counter").2.syms.size := C14.intern_size_le c _
  rw [hsz] at e; omega

/-- when the incremented counter does not fit an i64 the call fails with `OutOfRange` -/
theorem gensym_overflow (r : Rec) (c : Ctx) (hr : inI64 (gensymCounter c + 1) = false) :
    callBuiltin r .gensym .nil c = (.err .outOfRange, (c.intern "gensym-counter").2) := by
  rw [callBuiltin_gensym_eq]
  unfold gensymCounter counterOf at hr
  show M.bind (nextArgOpt r .nil) _ c = _
  simp only [M.bind, nextArgOpt, pure, M.pure, Val.isNil, if_true, bind, internM, M.get, hr,
    Bool.not_false, M.throw]

/-- Remark: distinctness is per prefix; across prefixes names can coincide
    (`(gensym "g1")` at counter 0 and `(gensym)` at counter 10 are both named "g10"), as in Emacs.
    The symbols are different objects all the same (`gensym_fresh`). -/
theorem gensym_names_may_coincide_across_prefixes :
    "g1" ++ toString (0 : Int) = "g" ++ toString (10 : Int) := by decide

/-- non-vacuity: the empty context satisfies the invariants, and the counter is in range -/
example : C14.ObarrayOk {} := C14.obarrayOk_empty
example : ((({} : Ctx).intern "gensym-counter").2.symD (({} : Ctx).intern "gensym-counter").1).constant
    = false := by
  simp [Ctx.intern, Ctx.symD]

/-! ## E. printing and symbols -/

theorem callBuiltin_prin1 (r : Rec) (args : Val) :
    callBuiltin r .prin1ToString args = (do
      let (v, _) ← nextArg r args
      let c ← M.get
      let s ← printOrSkip (princV c v)
      mkStr s) := rfl

/-- **Known deviation, stated as a theorem.**  `prin1-to-string` renders its argument with `princV`
    (the `fmt_string` of the Rust code): everything except strings is printed as `print` would, but a
    *string* argument is returned without surrounding quotes and without escapes.  (Emacs:
    `(prin1-to-string "a")` is `"\"a\""`.)  The full-strength statement — result = `printV` text —
    does NOT hold for strings; this is what holds. -/
theorem prin1_princ_partial (r : Rec) (args v rest : Val) (s : String) (c c1 : Ctx)
    (h : nextArg r args c = (.ok (v, rest), c1)) (hs : princV c1 v = some s) :
    callBuiltin r .prin1ToString args c =
      (.ok (.str c1.nextId s), { c1 with nextId := c1.nextId + 1 }) := by
  rw [callBuiltin_prin1, C12.bind_ok _ h]
  show M.bind M.get _ c1 = _
  simp only [M.bind, M.get, bind, hs, printOrSkip, pure, M.pure]
  rfl

/-- on a string: the string's own text, unquoted -/
theorem prin1_to_string_of_string (r : Rec) (args rest : Val) (i : Nat) (s : String) (c c1 : Ctx)
    (h : nextArg r args c = (.ok (.str i s, rest), c1)) :
    callBuiltin r .prin1ToString args c =
      (.ok (.str c1.nextId s), { c1 with nextId := c1.nextId + 1 }) :=
  prin1_princ_partial r args _ rest s c c1 h rfl

/-- on anything else it agrees with the printer -/
theorem princ_eq_print_of_not_string (c : Ctx) (v : Val) (h : ∀ i s, v ≠ .str i s) :
    princV c v = printV c v := by
  cases v <;> first | rfl | exact absurd rfl (h _ _)

/-- `print` and `princ` return their (evaluated) first argument unchanged; further arguments are
    ignored unevaluated, a missing argument reads as nil -/
theorem print_princ_return (r : Rec) (b : Bi) (hb : b = .print_ ∨ b = .princ) (args v rest : Val)
    (c c1 : Ctx) (h : nextArg r args c = (.ok (v, rest), c1)) :
    callBuiltin r b args c = (.ok v, c1) := by
  have e : callBuiltin r b args = (do let (v, _) ← nextArg r args; pure v) := by
    rcases hb with rfl | rfl <;> rfl
  rw [e, C12.bind_ok _ h]; rfl

theorem print_no_args (r : Rec) (b : Bi) (hb : b = .print_ ∨ b = .princ) (c : Ctx) :
    callBuiltin r b .nil c = (.ok .nil, c) :=
  print_princ_return r b hb .nil .nil .nil c c rfl

/-- `(intern "name")` returns the obarray symbol of that name, creating it if necessary; a second
    `intern` of the same name returns the same symbol (`Tulisp.C14.intern_same`). -/
theorem intern_builtin (r : Rec) (args rest : Val) (i : Nat) (s : String) (c c1 : Ctx)
    (h : nextArg r args c = (.ok (.str i s, rest), c1)) :
    callBuiltin r .intern_ args c = (.ok (.sym (c1.intern s).1), (c1.intern s).2) := by
  have e : callBuiltin r .intern_ args = (do
      let (v, _) ← nextArg r args
      let s ← strOf v
      symVal s) := rfl
  rw [e, C12.bind_ok _ h]; rfl

theorem intern_twice_same (c : Ctx) (name : String) :
    ((c.intern name).2.intern name) = ((c.intern name).1, (c.intern name).2) :=
  C14.intern_same c name

theorem intern_type_error (r : Rec) (args v rest : Val) (c c1 : Ctx)
    (h : nextArg r args c = (.ok (v, rest), c1)) (hv : ∀ i s, v ≠ .str i s) :
    callBuiltin r .intern_ args c = (.err .typeMismatch, c1) := by
  have e : callBuiltin r .intern_ args = (do
      let (v, _) ← nextArg r args
      let s ← strOf v
      symVal s) := rfl
  rw [e, C12.bind_ok _ h]
  cases v <;> first | rfl | exact absurd rfl (hv _ _)

/-- `(make-symbol "name")` returns a new symbol-table entry of that name which is not entered into
    the obarray: it is different from every existing symbol, in particular from `(intern "name")`
    (`Tulisp.C14.newSym_fresh`). -/
theorem make_symbol_builtin (r : Rec) (args rest : Val) (i : Nat) (s : String) (c c1 : Ctx)
    (h : nextArg r args c = (.ok (.str i s, rest), c1)) :
    callBuiltin r .makeSymbol args c =
      (.ok (.sym c1.syms.size), (c1.newSym { name := s, constant := s.startsWith ":" }).2) := by
  have e : callBuiltin r .makeSymbol args = (do
      let (v, _) ← nextArg r args
      let s ← strOf v
      callBuiltin.makeSymbolM s) := rfl
  rw [e, C12.bind_ok _ h]; rfl

theorem make_symbol_fresh {c : Ctx} (h : C14.ObarrayOk c) (s : SymSt) :
    (c.newSym s).1 = c.syms.size ∧
    (∀ name : String, (c.newSym s).2.obarray[name]? ≠ some (c.newSym s).1) ∧
    (∀ n, n < c.syms.size → (c.newSym s).1 ≠ n) := C14.newSym_fresh h s

theorem make_symbol_type_error (r : Rec) (args v rest : Val) (c c1 : Ctx)
    (h : nextArg r args c = (.ok (v, rest), c1)) (hv : ∀ i s, v ≠ .str i s) :
    callBuiltin r .makeSymbol args c = (.err .typeMismatch, c1) := by
  have e : callBuiltin r .makeSymbol args = (do
      let (v, _) ← nextArg r args
      let s ← strOf v
      callBuiltin.makeSymbolM s) := rfl
  rw [e, C12.bind_ok _ h]
  cases v <;> first | rfl | exact absurd rfl (hv _ _)

end Tulisp.C15
