/-
  Props/C09.lean — C09: reading well-formed text yields exactly the value it denotes, and
  printing a data value and reading the text back yields a value of the same structure.

  The property is established in layers (definitions in Proofs/C09*.lean):

    A. tokens → trees   `parse_toks`, `parse_toks_fn`, `parseValue_toks`:
         the parser inverts `toks : D → List Tok` for every datum `D` (integers, floats,
         strings, symbols, proper and dotted lists, the four shorthands, `#'` read as `'`),
         any nesting, any spans, anything following.
    B. characters → tokens   `tokenize_render` (general layouts: any separators — whitespace
         and comments — between tokens, possibly none where tokens cannot fuse),
         `tokenize_render_spaced`, and the round trips `tokenize_string` (every string, all
         characters), `tokenize_string_enc` (every admissible way of writing a string),
         `tokenize_int` (every i64), `tokenize_ident`, `tokenize_punct`; `digits_value`.
       A + B: `read_wellformed` — a well-formed text reads as exactly the data it denotes.
    C. printer → reader   `print_read`: for every data value of the float-free fragment,
         `readText (printV v)` is one tree that `Denotes` `v`.
       Floats: `float_display_integral`, `float_display_nonintegral` (integral finite floats are
         printed with ALL digits of their integer value and `.0`, Rust's `{:.1}`; the others by
         `f64Display`, Rust's `{}`), `float_prints_as_float`, `float_reads_as_float` (every integral
         float); shortest printing (`{}`): `float_display_exact`, `float_display_shortest`,
         `shortest_roundtrip`, `float_display_roundtrip`, `integral_float_reads_exactly`.
    D. `intern_same` (from C14) and `read_ident_twice`.

  Model facts worth knowing (all proved or exhibited below):
    * a `,` at the very end of a text is dropped by the tokenizer; an identifier directly
      followed by `;` swallows the comment (`Compat` excludes both);
    * a symbol whose name starts with `@` does not survive `,`-printing: `,@foo` reads as a
      splice (hence `SymOk.noAt`); symbols named `t` / `nil` print like the constants.
-/
import Tulisp.Proofs.C09Print
import Tulisp.Proofs.C09Float
import Tulisp.Props.C14
import Tulisp.Model.Load
namespace Tulisp.C09
open Tulisp

/-! ## A. The parser inverts the token-level printer -/

/-- For every sequence of data `ds` and any spans attached to their tokens, the parser returns
    exactly one tree per datum, and forgetting the spans of the trees gives `ds` back. -/
theorem parse_toks (ds : List D) (tks : List Token) (h : tks.map Token.tok = toksAll ds) :
    ∃ ss, (parseTokens tks).res = .ok ss ∧ ss.map erase = ds := by
  obtain ⟨ss, h1, h2⟩ := parseTokens_toks ds tks h
  exact ⟨ss, h1, by rw [← eraseL_eq_map]; exact h2⟩

/-- The same when `#'` is written for `'` anywhere (function-quote reads as quote). -/
theorem parse_toks_fn (ds : List D) (tks : List Token)
    (h : tks.map (fun t => normTok t.tok) = toksAll ds) :
    ∃ ss, (parseTokens tks).res = .ok ss ∧ ss.map erase = ds := by
  obtain ⟨ss, h1, h2⟩ := parseTokens_toksN ds tks h
  exact ⟨ss, h1, by rw [← eraseL_eq_map]; exact h2⟩

/-- `parse_value` on the tokens of one datum followed by anything: it returns a tree denoting
    the datum and leaves exactly what followed (fuel as in C08). -/
theorem parseValue_toks (d : D) (tks rest : List Token) (ev : List Sx) (fuel : Nat)
    (h : tks.map Token.tok = toks d) (hf : 2 * (tks ++ rest).length + 1 ≤ fuel) :
    ∃ s ev', parseValue fuel ⟨tks ++ rest, ev⟩ = (.ok s, ⟨rest, ev'⟩) ∧ erase s = d := by
  have hN : tks.map tokN = toks d := by
    have : tks.map tokN = (tks.map Token.tok).map normTok := by
      simp [tokN, List.map_map, Function.comp_def]
    rw [this, h, norm_toks]
  exact pvd_all fuel d tks rest ev hN (C08.parseValue_fuel fuel ⟨tks ++ rest, ev⟩ hf)

/-- non-vacuity: `(a . (1 "s")) 'x` as tokens -/
example : toksAll [.list [.sym "a"] (some (.list [.int 1, .str "s"] none)), .quote (.sym "x")]
    = [.open, .ident "a", .dot, .open, .int 1, .str "s", .close, .close, .quote, .ident "x"] := by
  decide

/-! ## B. The tokenizer inverts token rendering, with arbitrary layout -/

/-- General statement: a text made of a leading separator, then tokens each written in any
    admissible way (`Renders`) and followed by a separator (`Sep`: whitespace and comments,
    possibly empty) such that no token fuses with what follows (`Compat`: after a number or
    identifier comes `)`, whitespace or the end; after `,` comes a character other than `@`),
    then possibly an unterminated comment, tokenizes to exactly those tokens. -/
theorem tokenize_render (f : Nat) (sep0 : List Char) (items : List Item) (tr : List Char)
    (h0 : Sep sep0) (hv : Valid items tr) (ht : Trailer tr) :
    (tokenize f (sep0 ++ layout items tr)).map Token.tok = items.map Item.tok :=
  tokenize_layout f sep0 items tr h0 hv ht

/-- A separator that starts with a whitespace character. -/
def SepWs (sep : List Char) : Prop := Sep sep ∧ ∃ c r, sep = c :: r ∧ isWs c = true

theorem valid_spaced (ts : List (Tok × List Char)) (h : ∀ p ∈ ts, Renderable p.1 ∧ SepWs p.2) :
    Valid (ts.map (fun p => ⟨p.1, render p.1, p.2⟩)) [] ∧
    layout (ts.map (fun p => ⟨p.1, render p.1, p.2⟩)) [] = ts.flatMap (fun p => render p.1 ++ p.2) := by
  induction ts with
  | nil => exact ⟨trivial, rfl⟩
  | cons p ts ih =>
    obtain ⟨hr, hs, c, r, hc, hw⟩ := h p (by simp)
    obtain ⟨iv, il⟩ := ih (fun q hq => h q (by simp [hq]))
    refine ⟨⟨renders_render _ hr, hs, ?_, iv⟩, by simp [layout, il]⟩
    show Compat p.1 (p.2 ++ _)
    rw [hc]
    exact compat_of_ws _ c _ hw

/-- Sequences in which every token (written as the printer writes it) is followed by a
    separator starting with whitespace: the tokenizer returns exactly the tokens. -/
theorem tokenize_render_spaced (f : Nat) (sep0 : List Char) (ts : List (Tok × List Char))
    (h0 : Sep sep0) (h : ∀ p ∈ ts, Renderable p.1 ∧ SepWs p.2) :
    (tokenize f (sep0 ++ ts.flatMap (fun p => render p.1 ++ p.2))).map Token.tok
      = ts.map Prod.fst := by
  obtain ⟨hv, hl⟩ := valid_spaced ts h
  have := tokenize_layout f sep0 _ [] h0 hv Trailer.nil
  rw [hl] at this
  rw [this]; simp

/-- `digits` really are the decimal digits: the tokenizer's digit fold gives the number back. -/
theorem digits_value (n : Nat) : digitsToNat (digits n) = n := digitsToNat_digits n

/-- String round trip, for EVERY string (any characters: quotes, backslashes, newlines,
    non-ASCII): the printed literal between any separators is one string token with that string. -/
theorem string_roundtrip (f : Nat) (s : String) (a b : List Char) (ha : Sep a) (hb : Sep b) :
    (tokenize f (a ++ (escapeString s).toList ++ b)).map Token.tok = [.str s] := by
  rw [escapeString_toList]; exact tokenize_string f s a b ha hb

/-- … and for every admissible way of writing the string (`\n`, `\t` escaped or raw). -/
theorem string_roundtrip_enc (f : Nat) (raw cs a b : List Char) (h : StrEnc raw cs)
    (ha : Sep a) (hb : Sep b) :
    (tokenize f (a ++ '"' :: (raw ++ '"' :: b))).map Token.tok = [.str (String.ofList cs)] :=
  tokenize_string_enc f raw cs a b h ha hb

/-- Integer round trip, for every i64: `toString n` between separators is the token `int n`. -/
theorem int_roundtrip (f : Nat) (n : Int) (h : inI64 n = true) (a b : List Char) (ha : Sep a)
    (hb : Sep b) (hc : Compat (.int n) b) :
    (tokenize f (a ++ (toString n).toList ++ b)).map Token.tok = [.int n] := by
  rw [toString_int_toList]; exact tokenize_int f n h a b ha hb hc

/-- Identifier round trip under `IdentOk`. -/
theorem ident_roundtrip (f : Nat) (w a b : List Char) (h : IdentOk w) (ha : Sep a) (hb : Sep b)
    (hc : Compat (.ident (String.ofList w)) b) :
    (tokenize f (a ++ w ++ b)).map Token.tok = [.ident (String.ofList w)] :=
  tokenize_ident f w a b h ha hb hc

/-- The eight punctuation tokens `( ) ' ` . , ,@ #'`. -/
theorem punct_roundtrip (f : Nat) (t : Tok) (hp : IsPunct t) (a b : List Char) (ha : Sep a)
    (hb : Sep b) (hc : Compat t b) :
    (tokenize f (a ++ render t ++ b)).map Token.tok = [t] :=
  tokenize_punct f t hp a b ha hb hc

/-- A word that does not start with `-` or a digit is an identifier. -/
theorem identOk_simple (w : List Char) (hw : WordOk w)
    (h : ∀ c ∈ w.head?, c ≠ '-' ∧ c.isDigit = false) : IdentOk w := identOk_of_first w hw h

/-- non-vacuity of the hypotheses -/
example : IdentOk "foo-bar".toList := identOk_of_first _ ⟨by decide, by decide, by decide⟩ (by decide)
example : IdentOk "λx".toList := identOk_of_first _ ⟨by decide, by decide, by decide⟩ (by decide)
example : IdentOk ['-'] := ⟨⟨by simp, by decide, by decide⟩, by decide⟩
example : Compat (.int 7) [')', 'x'] := Or.inr ⟨')', ['x'], rfl, rfl⟩
example : SepWs [' ', ';', 'c', '\n'] :=
  ⟨.ws ' ' rfl (.comment ['c'] (by decide) .nil), ' ', _, rfl, rfl⟩
example : Renderable (.int (-9223372036854775808)) := by show inI64 _ = true; decide

/-! ## A + B. Well-formed text reads as exactly the data it denotes -/

/-- Any text that is a valid layout (arbitrary whitespace and comments between tokens) of the
    tokens of the data `ds` reads as exactly one tree per datum, denoting `ds`. -/
theorem read_wellformed (f : Nat) (sep0 : List Char) (items : List Item) (tr : List Char)
    (ds : List D) (h0 : Sep sep0) (hv : Valid items tr) (ht : Trailer tr)
    (hd : items.map Item.tok = toksAll ds) :
    ∃ ss, (readText f (sep0 ++ layout items tr)).res = .ok ss ∧ ss.map erase = ds := by
  unfold readText
  exact parse_toks ds _ (by rw [tokenize_layout f sep0 items tr h0 hv ht, hd])

/-- non-vacuity: `(foo ; c⏎) ;end` is a valid layout of the tokens of the datum `(foo)` -/
example : ∃ ss, (readText 0 ([] ++ layout [⟨.open, ['('], []⟩,
      ⟨.ident "foo", ['f', 'o', 'o'], [' ', ';', 'c', '\n']⟩, ⟨.close, [')'], [' ']⟩]
      [';', 'e', 'n', 'd'])).res = .ok ss ∧ ss.map erase = [.list [.sym "foo"] none] := by
  refine read_wellformed 0 [] _ _ _ .nil ?_ (.comment ['e', 'n', 'd'] (by decide)) (by decide)
  refine ⟨Renders.open, Sep.nil, trivial, ?_, .ws ' ' rfl (.comment ['c'] (by decide) .nil), ?_,
    Renders.close, .ws ' ' rfl .nil, trivial, trivial⟩
  · exact Renders.word ['f', 'o', 'o'] ⟨by simp, by decide, by decide⟩
  · exact Or.inr ⟨' ', _, rfl, rfl⟩

/-! ## C. Printing and reading back -/

/-- For every data value of the float-free fragment (integers, strings, symbols with readable
    names, `nil`, `t`, proper and dotted lists, the four shorthands), the printed text reads
    back as exactly one tree, and that tree denotes the value: same type and structure,
    spans and allocation identities aside. -/
theorem print_read (c : Ctx) (f : Nat) {v : Val} (h : PVal c v) :
    ∃ str s, printV c v = some str ∧ (readText f str.toList).res = .ok [s] ∧ Denotes c s v := by
  obtain ⟨str, s, h1, h2, _, h4⟩ := print_read_denotes c f h
  exact ⟨str, s, h1, h2, h4⟩

/-- The tree read back is, up to spans, the datum `dOf c v` the value is written as. -/
theorem print_read_datum (c : Ctx) (f : Nat) {v : Val} (h : PVal c v) :
    ∃ str s, printV c v = some str ∧ (readText f str.toList).res = .ok [s] ∧ erase s = dOf c v := by
  obtain ⟨str, s, h1, h2, h3, _⟩ := print_read_denotes c f h
  exact ⟨str, s, h1, h2, h3⟩

/-- The printed text of a data value tokenizes to the tokens of its datum. -/
theorem print_tokens (c : Ctx) (f : Nat) {v : Val} (h : PVal c v) :
    ∃ str, printV c v = some str ∧ (tokenize f str.toList).map Token.tok = toks (dOf c v) := by
  obtain ⟨str, hp, _, hl⟩ := (lay_all h).1
  obtain ⟨items, h1, h2, h3⟩ := hl [] [] Sep.nil (Or.inl rfl)
  simp only [List.append_nil] at h1
  have ht := tokenize_layout f [] items [] Sep.nil h2 Trailer.nil
  rw [List.nil_append, ← h1, h3] at ht
  exact ⟨str, hp, ht⟩

/-- non-vacuity: a context with the symbol `foo`, and the value `(foo -1 ,foo . "a\"b")` -/
def exCtx : Ctx := { syms := #[{ name := "foo" }] }
example : exCtx.symName 0 = "foo" := rfl
theorem exSymOk : SymOk (exCtx.symName 0) :=
  ⟨identOk_of_first _ ⟨by decide, by decide, by decide⟩ (by decide), by decide, by decide, by decide⟩
example : PVal exCtx (.cons 1 (.sym 0) (.cons 2 (.int (-1)) (.cons 3 (.unquote (.sym 0)) (.str 4 "a\"b")))) :=
  .cons 1 (.sym 0 exSymOk) (.cons 2 (.int _ (by decide)) (.cons 3 (.unquote (.sym 0 exSymOk)) (.str 4 _)))

/-- what that value prints as -/
example : printV exCtx (.cons 1 (.sym 0) (.cons 2 (.int (-1)) (.cons 3 (.unquote (.sym 0)) (.str 4 "a\"b"))))
    = some "(foo -1 ,foo . \"a\\\"b\")" := by decide

/-! ## Floats: `1.0` does not read back as an integer -/

/-- An integral finite float is printed as the exact integer value (sign, then all its decimal
    digits: `f64ExactInt`) followed by `.0` — Rust's `{:.1}`. -/
theorem float_display_integral (b : UInt64) (hi : f64IsIntegral b = true) :
    f64DisplayLisp b = (f64ExactInt b).map (· ++ ".0") :=
  f64DisplayLisp_integral hi

/-- Every other float (non-integral, infinite, NaN) is printed by `f64Display` — Rust's `{}`. -/
theorem float_display_nonintegral (b : UInt64) (hi : f64IsIntegral b = false) :
    f64DisplayLisp b = f64Display b :=
  f64DisplayLisp_nonintegral hi

/-- … spelled out: with `(neg, m, e)` the decoding of `b` (value `±m·2^e`), the text is the sign, the
    digits of `m·2^e` (of `m / 2^(-e)` when `e < 0`; the division is exact), and `.0`. -/
theorem float_display_integral_digits (b : UInt64) (neg : Bool) (m : Nat) (e : Int)
    (hd : f64Decode b = some (neg, m, e)) (hi : f64IsIntegral b = true) :
    f64DisplayLisp b = some ((if neg then "-" else "") ++
      natDigits (if e ≥ 0 then m * pow2 e.toNat else m / pow2 (-e).toNat) ++ ".0") :=
  f64DisplayLisp_integral_decode hd hi

/-- non-vacuity: 2^62 prints with all 19 digits of the integer (its shortest round-trip rendering,
    which `{}` gives, is `4611686018427388000`); 0.5 and `inf` go through `f64Display` -/
example : f64IsIntegral 0x43D0000000000000 = true ∧
    f64DisplayLisp 0x43D0000000000000 = some "4611686018427387904.0" ∧
    f64Display 0x43D0000000000000 = some "4611686018427388000" := by decide
example : f64Decode 0x43D0000000000000 = some (false, 0x10000000000000, 10) := by decide
example : f64IsIntegral 0x3FE0000000000000 = false ∧ f64DisplayLisp 0x3FE0000000000000 = some "0.5" := by
  decide
example : f64IsIntegral 0x7FF0000000000000 = false ∧ f64DisplayLisp 0x7FF0000000000000 = some "inf" := by
  decide

/-- The printed form of an integral float ends in `.0`, is one word, and the tokenizer classifies
    that word as a float token carrying exactly that text — never as an integer.  (It holds for every
    integral finite float, however many digits its integer value has, e.g. 2^53, 2^62.) -/
theorem float_prints_as_float (b : UInt64) (s : String) (h : f64DisplayLisp b = some s)
    (hi : f64IsIntegral b = true) :
    (∃ d : String, s = d ++ ".0") ∧ wordTok s.toList = .float s ∧ ∀ n : Int, wordTok s.toList ≠ .int n := by
  obtain ⟨h1, _, h3, h4⟩ := f64DisplayLisp_integral_float b s h hi
  exact ⟨h1, h3, h4⟩

/-- … at the level of the tokenizer: the printed text, between any separators, is the float token. -/
theorem float_reads_as_float (f : Nat) (b : UInt64) (s : String) (h : f64DisplayLisp b = some s)
    (hi : f64IsIntegral b = true) (a z : List Char) (ha : Sep a) (hz : Sep z)
    (hc : Compat (.float s) z) :
    (tokenize f (a ++ s.toList ++ z)).map Token.tok = [.float s] := by
  obtain ⟨_, h2, h3, _⟩ := f64DisplayLisp_integral_float b s h hi
  have hr : Renders (.float s) s.toList := by
    have := Renders.word s.toList h2
    rw [h3] at this; exact this
  exact tokenize_one f _ _ a z hr ha hz hc

example : f64IsIntegral 0x3FF0000000000000 = true ∧ f64DisplayLisp 0x3FF0000000000000 = some "1.0" := by
  decide
/-- non-vacuity beyond 15 digits: 2^53 is outside the exact printer of `{}` and prints as `9007199254740992.0` -/
example : f64IsIntegral 0x4340000000000000 = true ∧ f64ExactDecimal 0x4340000000000000 = none ∧
    f64DisplayLisp 0x4340000000000000 = some "9007199254740992.0" := by decide
example : wordTok "9007199254740992.0".toList = .float "9007199254740992.0" :=
  (float_prints_as_float 0x4340000000000000 _ (by decide) (by decide)).2.1
example : wordTok "4611686018427387904.0".toList = .float "4611686018427387904.0" :=
  (float_prints_as_float 0x43D0000000000000 _ (by decide) (by decide)).2.1

/-! ### shortest printing

  `f64Display` prints a finite float by its exact decimal expansion when that is short
  (`f64ExactDecimal`, at most 15 significant digits) and otherwise by the shortest decimal that reads
  back as the same float (`f64ShortestAbs`).  `readCand sh c` is the float (bits without sign) that
  the decimal `c · 10^(-sh)` reads as under the correctly rounded `ratToF64Abs`; `renderCand sh c` is
  its text in positional notation. -/

/-- A finite float with a short exact decimal expansion is displayed as that expansion (the
    printer extension changes nothing on the old domain). -/
theorem float_display_exact (b : UInt64) (t : Bool × Nat × Int) (hd : f64Decode b = some t) (s : String)
    (h : f64ExactDecimal b = some s) : f64Display b = some s :=
  f64Display_exact hd h

/-- Every other finite float is displayed by the shortest round-trip printer, with `-` in front of
    negative floats. -/
theorem float_display_shortest (b : UInt64) (t : Bool × Nat × Int) (hd : f64Decode b = some t)
    (h : f64ExactDecimal b = none) :
    f64Display b = (f64ShortestAbs b).map fun s => (if f64IsNeg b then "-" else "") ++ s :=
  f64Display_shortest hd h

/-- **Shortest printing round-trips** (the `back` test of `shortestFrom`, extracted): whatever
    `shortestFrom` prints, started at precision `p` with `fuel` steps, is the text of a candidate `c`
    at some precision `q` (`p ≤ q < p + fuel`, scale `sh = q - 1 - t`) which is the one `pickAt`
    takes there, is positive, and reads back as `bits`; at every precision from `p` up to `q` neither
    neighbour of the exact value read back (so `q` is the first, i.e. shortest, precision that works). -/
theorem shortest_roundtrip (bits : UInt64) (num den : Nat) (t : Int) (fuel p : Nat) (s : String)
    (h : shortestFrom bits num den t fuel p = some s) :
    ∃ (q c : Nat), p ≤ q ∧ q < p + fuel ∧
      pickAt bits num den ((q : Int) - 1 - t) = some c ∧
      s = renderCand ((q : Int) - 1 - t) c ∧ 0 < c ∧ readCand ((q : Int) - 1 - t) c = bits ∧
      ∀ q', p ≤ q' → q' < q → pickAt bits num den ((q' : Int) - 1 - t) = none :=
  shortestFrom_roundtrip bits num den t fuel p s h

/-- … for the printer itself: a finite float without a short exact expansion is displayed as its
    sign followed by the text of a positive decimal candidate that reads back as the bits of the
    float (sign removed). -/
theorem float_display_roundtrip (b : UInt64) (t : Bool × Nat × Int) (hd : f64Decode b = some t)
    (hx : f64ExactDecimal b = none) (s : String) (h : f64Display b = some s) :
    ∃ (sh : Int) (c : Nat), s = (if f64IsNeg b then "-" else "") ++ renderCand sh c ∧ 0 < c ∧
      readCand sh c = b &&& ~~~signBit :=
  f64Display_roundtrip hd hx h

/-- Reading is exact on integral floats: the integer value of a non-zero integral float is
    converted back (correctly rounded) to its own bits, sign removed.  (So the all-digits text
    printed for an integral float denotes a number that reads back as the same float; it is also why
    the shortest printer never gives an integral float a fractional part.) -/
theorem integral_float_reads_exactly (b : UInt64) (neg : Bool) (m : Nat) (e : Int)
    (hd : f64Decode b = some (neg, m, e)) (hm : m ≠ 0) (hc : e ≥ 0 ∨ m % pow2 (-e).toNat = 0) :
    ratToF64Abs (if e ≥ 0 then m * pow2 e.toNat else m / pow2 (-e).toNat) 1 = b &&& ~~~signBit :=
  ratToF64Abs_integral hd hm hc

/-- non-vacuity: 0.1 (no short exact expansion) prints as `0.1`, whose candidate `1 · 10^(-1)` reads
    back as the bits of 0.1; -1/3 -/
example : f64Decode 0x3FB999999999999A = some (false, 0x1999999999999A, -56) ∧
    f64ExactDecimal 0x3FB999999999999A = none ∧ f64Display 0x3FB999999999999A = some "0.1" ∧
    renderCand 1 1 = "0.1" ∧ readCand 1 1 = 0x3FB999999999999A := by decide
example : f64Display 0xBFD5555555555555 = some "-0.3333333333333333" := by decide
/-- 1.0 stays on the exact printer -/
example : f64ExactDecimal 0x3FF0000000000000 = some "1" ∧ f64Display 0x3FF0000000000000 = some "1" := by
  decide

/-! ## D. Reading the same identifier twice interns the same symbol -/

/-- (C14) Interning a name twice gives the same symbol and leaves the context alone. -/
theorem intern_same (c : Ctx) (name : String) :
    ((c.intern name).2.intern name) = ((c.intern name).1, (c.intern name).2) :=
  C14.intern_same c name

/-- (C14) … also after any other symbol-table operations in between. -/
theorem intern_same_later (c : Ctx) (name : String) (ops : List C14.SymOp) :
    ((C14.runOps (c.intern name).2 ops).intern name).1 = (c.intern name).1 :=
  C14.intern_same_later c name ops

/-- Turning two occurrences of the same identifier (any spans) into values gives the same
    symbol both times. -/
theorem read_ident_twice (r : Rec) (sp1 sp2 : Span) (name : String) (tab1 tab2 : StrTab) (c : Ctx)
    (h1 : name ≠ "t") (h2 : name ≠ "nil") :
    internSx r (.ident sp1 name) tab1 c = (.ok (.sym (c.intern name).1, tab1), (c.intern name).2) ∧
    internSx r (.ident sp2 name) tab2 (c.intern name).2
      = (.ok (.sym (c.intern name).1, tab2), (c.intern name).2) := by
  have key : ∀ (sp : Span) (tab : StrTab) (c' : Ctx),
      internSx r (.ident sp name) tab c' = (.ok (.sym (c'.intern name).1, tab), (c'.intern name).2) := by
    intro sp tab c'
    simp only [internSx, h1, h2, if_false, bind, pure, M.bind, M.pure, symVal, internM]
  refine ⟨key sp1 tab1 c, ?_⟩
  rw [key sp2 tab2, C14.intern_same]

end Tulisp.C09
