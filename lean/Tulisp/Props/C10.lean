/-
  Props/C10.lean — C10: evaluation never panics.

  In the model every place where the Rust code could panic (`unwrap()` on an absent value, integer
  overflow in a debug build, an out-of-range index …) is an explicit `Res.panic site` outcome.  After
  the "fix:" commits the only remaining producers of `.panic` are the `unwrap()` sites of the reader;
  C08 proves them unreachable.  This file proves, for the *whole* evaluator — every special form,
  every built-in, macro expansion, the loader — that no request ever yields `.panic _`:

      ∀ d text c s, ((evalString d text) c).1 ≠ .panic s                     (`eval_no_panic`)

  for every depth budget, every program text and *every* start state (no well-formedness hypothesis
  is needed for this half of the invariant `SafeH` of Proofs/Safe.lean), and the same for
  `eval_file` (`loadFile_no_panic`) and for evaluating / macro-expanding a single form
  (`form_no_panic`).  Hence the outcome of a request is a value, an error, or the model's give-up
  `fuel` (depth or iteration budget exhausted — reported as SKIP by the harness), nothing else
  (`outcome_classification`).

  Build profiles.  The model has no build-profile parameter: every integer operation of the
  numeric tower goes through the range check `chk`, so an out-of-range result is an *error* in both
  profiles (never a debug-build panic, never a release-build wrap-around): `chk_range`,
  `arith_int_range`, `arith_error_kinds` (`profile_independent`).
-/
import Tulisp.Proofs.SafeLoad
namespace Tulisp.C10
open Tulisp

/-- **C10.**  `eval_string` never panics: whatever the depth budget, the program text and the state
    of the interpreter. -/
theorem eval_no_panic (d : Nat) (text : String) (c : Ctx) :
    ∀ s, ((evalString d text) c).1 ≠ .panic s :=
  ((safe_evalString d text (H := True) (N := 0)).run c).1

/-- `eval_file` never panics. -/
theorem loadFile_no_panic (d : Nat) (name : String) (c : Ctx) :
    ∀ s, ((loadFile (Rec.ofDepth d) name) c).1 ≠ .panic s :=
  ((safe_loadFile (safeRec_ofDepth d) (H := True) (N := 0)).run c).1

/-- Evaluating or macro-expanding a single form (any value whatsoever) never panics. -/
theorem form_no_panic (d : Nat) (e : Val) (c : Ctx) :
    (∀ s, (((Rec.ofDepth d).eval e) c).1 ≠ .panic s) ∧
    (∀ s, (((Rec.ofDepth d).mexp e) c).1 ≠ .panic s) :=
  ⟨(((safeRec_ofDepth d).eval False 0 e False.elim).run c).1,
   (((safeRec_ofDepth d).mexp False 0 e False.elim).run c).1⟩

/-- Calling any built-in on any argument list never panics. -/
theorem builtin_no_panic (d : Nat) (b : Bi) (args : Val) (c : Ctx) :
    ∀ s, ((callBuiltin (Rec.ofDepth d) b args) c).1 ≠ .panic s :=
  ((safe_callBuiltin (safeRec_ofDepth d) b (H := False) (N := 0) (args := args) False.elim).run c).1

/-- Applying any callable value to any arguments never panics. -/
theorem funcall_no_panic (d : Nat) (evaluate : Bool) (f args : Val) (c : Ctx) :
    ∀ s, ((funcallVal (Rec.ofDepth d) evaluate f args) c).1 ≠ .panic s :=
  ((safe_funcallVal (safeRec_ofDepth d) (H := False) (N := 0) (f := f) (args := args)
    (evaluate := evaluate) False.elim).run c).1

/-- The outcome of a request is a value, an error, or the model's give-up; nothing else. -/
theorem outcome_classification (d : Nat) (text : String) (c : Ctx) :
    (∃ v, ((evalString d text) c).1 = .ok v) ∨ (∃ k, ((evalString d text) c).1 = .err k) ∨
      ((evalString d text) c).1 = .fuel := by
  have h := eval_no_panic d text c
  cases hr : ((evalString d text) c).1 with
  | ok v => exact Or.inl ⟨v, rfl⟩
  | err k => exact Or.inr (Or.inl ⟨k, rfl⟩)
  | panic s => exact absurd hr (h s)
  | fuel => exact Or.inr (Or.inr rfl)

theorem loadFile_outcome_classification (d : Nat) (name : String) (c : Ctx) :
    (∃ v, ((loadFile (Rec.ofDepth d) name) c).1 = .ok v) ∨
      (∃ k, ((loadFile (Rec.ofDepth d) name) c).1 = .err k) ∨
      ((loadFile (Rec.ofDepth d) name) c).1 = .fuel := by
  have h := loadFile_no_panic d name c
  cases hr : ((loadFile (Rec.ofDepth d) name) c).1 with
  | ok v => exact Or.inl ⟨v, rfl⟩
  | err k => exact Or.inr (Or.inl ⟨k, rfl⟩)
  | panic s => exact absurd hr (h s)
  | fuel => exact Or.inr (Or.inr rfl)

/-! ## independence of the build profile -/

/-- the range check: an integer result is produced only inside the i64 range -/
theorem chk_range (n : Int) (r : Num) (h : chk n = .ok r) : r = .i n ∧ inI64 n = true := by
  unfold chk at h
  split at h
  · next hi => cases h; exact ⟨rfl, hi⟩
  · cases h

/-- outside the i64 range the range check answers the error `OutOfRange` — in every build -/
theorem chk_out_of_range (n : Int) (h : inI64 n = false) : chk n = .error .range := by
  simp [chk, h]

/-- Every integer produced by the arithmetic of the numeric tower lies in the i64 range: no
    operation can overflow silently (release profile) or panic (debug profile). -/
theorem arith_int_range (op : ArithOp) (a b : Num) (n : Int) (h : arith op a b = .ok (.i n)) :
    inI64 n = true := by
  cases a with
  | i x =>
    cases b with
    | i y =>
      cases op <;> simp only [arith, iop, chk] at h <;> (repeat' split at h) <;> simp_all
    | f y => simp [arith] at h
  | f x => cases b <;> simp [arith] at h

/-- … and the only failures of arithmetic are the two error kinds `TypeMismatch` / `OutOfRange`
    (`NumErr` has no third constructor, in particular no panic). -/
theorem arith_error_kinds (op : ArithOp) (a b : Num) (e : NumErr) (_h : arith op a b = .error e) :
    e = .type ∨ e = .range := by
  cases e
  · exact Or.inl rfl
  · exact Or.inr rfl

/-- **Profile independence.**  The model has no build-profile parameter; the three facts that make
    this sound, bundled: integer results are range-checked, out-of-range results are errors, and
    evaluation as a whole never panics. -/
theorem profile_independent :
    (∀ op a b n, arith op a b = .ok (.i n) → inI64 n = true) ∧
    (∀ n, inI64 n = false → chk n = .error .range) ∧
    (∀ d text c s, ((evalString d text) c).1 ≠ .panic s) :=
  ⟨arith_int_range, chk_out_of_range, eval_no_panic⟩

/-! ## non-vacuity -/

/-- `(car 1)`: a type error, reported as an error value … -/
def exForm : Val := Val.ofList [.builtin .car, .int 1]

example : (match ((Rec.ofDepth 3).eval exForm {}).1 with
    | .err .typeMismatch => true | _ => false) = true := by decide

/-- … `(+ 9223372036854775807 1)`: integer overflow is the error `OutOfRange`, not a panic … -/
def exOverflow : Val := Val.ofList [.builtin .add, .int 9223372036854775807, .int 1]

example : (match ((Rec.ofDepth 3).eval exOverflow {}).1 with
    | .err .outOfRange => true | _ => false) = true := by decide

/-- … and with no depth budget the model gives up with `fuel` (the third possible outcome). -/
example : (match ((Rec.ofDepth 0).eval exForm {}).1 with
    | .fuel => true | _ => false) = true := by decide

/-- the combinator lemmas instantiate: a sequence of safe steps is safe -/
example (N : Nat) : SafeH True N (mkCons .nil .nil >>= fun v => mkListM [v, v]) bq := by
  safe_tac

end Tulisp.C10
