/-
  Driver/Main.lean — the model behind the /verif line protocol: one request per line on
  stdin, exactly one answer line per request on stdout (see DESIGN.md 2.3).
-/
import Tulisp
import Tulisp.Model.Api
open Tulisp

def hexDigit (n : Nat) : Char :=
  if n < 10 then Char.ofNat (48 + n) else Char.ofNat (87 + n)

def hex16 (b : UInt64) : String :=
  let n := b.toNat
  String.ofList ((List.range 16).reverse.map fun i => hexDigit ((n >>> (4 * i)) % 16))

def hexNat (n : Nat) : String :=
  if n < 16 then String.singleton (hexDigit n)
  else hexNat (n / 16) ++ String.singleton (hexDigit (n % 16))

/-- the `escape` of the Rust harness -/
def escapeLine (s : String) : String :=
  String.ofList (s.toList.flatMap fun c =>
    if c = '\n' then ['\\', 'n']
    else if c = '\r' then ['\\', 'r']
    else if c = '\t' then ['\\', 't']
    else if c = '\\' then ['\\', '\\']
    else if c.toNat < 0x20 || c.toNat = 0x7f then ("\\u{" ++ hexNat c.toNat ++ "}").toList
    else [c])

partial def unescapeAux : List Char → List Char → List Char
  | [], acc => acc.reverse
  | '\\' :: 'n' :: r, acc => unescapeAux r ('\n' :: acc)
  | '\\' :: 'r' :: r, acc => unescapeAux r ('\r' :: acc)
  | '\\' :: 't' :: r, acc => unescapeAux r ('\t' :: acc)
  | '\\' :: '\\' :: r, acc => unescapeAux r ('\\' :: acc)
  | '\\' :: 'u' :: '{' :: r, acc =>
    let hex := r.takeWhile (· != '}')
    let rest := (r.dropWhile (· != '}')).drop 1
    let n := hex.foldl (fun n c =>
      let d := if c.isDigit then c.toNat - 48 else if c.toNat ≥ 97 then c.toNat - 87 else c.toNat - 55
      n * 16 + d) 0
    unescapeAux rest (Char.ofNat n :: acc)
  | c :: r, acc => unescapeAux r (c :: acc)

def unescapeLine (s : String) : String := String.ofList (unescapeAux s.toList [])

/-- canonical rendering, the same as `canon` in harness/src/main.rs -/
partial def canon (c : Ctx) : Val → String
  | .nil => "nil"
  | .t => "t"
  | .int n => toString n
  | .float b => if f64IsNaN b then "f:nan" else "f:" ++ hex16 b
  | .str _ s =>
    "s:\"" ++ String.ofList ((escapeLine s).toList.flatMap fun ch =>
      if ch = '"' then ['\\', 'q'] else if ch = ' ' then ['\\', '_'] else [ch]) ++ "\""
  | .sym n =>
    -- y: (eq to) the interned symbol of its name; u: an uninterned symbol
    let interned := match c.obarray[c.symName n]? with
      | some k => symEq c k n
      | none => false
    (if interned then "y:" else "u:") ++ String.ofList ((escapeLine (c.symName n)).toList.flatMap fun ch =>
      if ch = ' ' then ['\\', '_'] else [ch])
  | .cons _ a d => "(" ++ canon c a ++ canonRest c d
  | .quote v => "'" ++ canon c v
  | .backquote v => "`" ++ canon c v
  | .unquote v => "," ++ canon c v
  | .splice v => ",@" ++ canon c v
  | .lambda .. => "#<lambda>"
  | .defmacro .. => "#<defmacro>"
  | .builtin b => if b.isMacro then "#<macro>" else "#<func>"
  | .table _ => "#<any>"
  | .bounce => "#<bounce>"
where
  canonRest (c : Ctx) : Val → String
    | .nil => ")"
    | .cons _ a d => " " ++ canon c a ++ canonRest c d
    | other => " . " ++ canon c other ++ ")"

structure DState where
  ctx : Ctx := Ctx.initial
  depth : Nat := 12000
  /-- the evaluator at depth budget `depth`, built once -/
  ev : Rec := Rec.ofDepth 12000
  /-- directory the harness writes LOADFILE files to (their names as `load` sees them) -/
  scratch : String := "/verif/run/files"
  /-- parked contexts of other live sessions (CTX n) -/
  parked : List (Nat × Ctx) := []
  current : Nat := 0
  /-- the object-API heap of the current session (C20) -/
  api : Api.State := {}

/-- `eval_string` with a prebuilt evaluator -/
def evalStringWith (r : Rec) (text : String) : M Val := do
  let prog ← loadText r 0 text
  evalProgn r prog

def fmtRes (how : String) (r : Res Val) (c : Ctx) : String :=
  match r with
  | .ok v =>
    if how = "print" then
      match printV c v with
      | some s => "OK " ++ escapeLine s
      | none => "SKIP float-fmt"
    else if how = "princ" then
      match princV c v with
      | some s => "OK " ++ escapeLine s
      | none => "SKIP float-fmt"
    else "OK " ++ canon c v
  | .err k => "ERR " ++ k.name
  | .panic s => "PANIC " ++ s
  | .fuel => "SKIP fuel"

def fmtSpan (k : String) (sp : Span) : String :=
  k ++ ":" ++ toString sp.s.line ++ "." ++ toString sp.s.col ++ "-" ++ toString sp.e.line ++ "." ++ toString sp.e.col

partial def sxSpans : Sx → List String
  | .int sp _ | .float sp _ | .str sp _ => [fmtSpan "o" sp]
  | .ident sp _ => [fmtSpan "y" sp]
  | .list sp items tail => fmtSpan "l" sp :: (items.flatMap sxSpans ++ (match tail with | some t => sxSpans t | none => []))
  | .quote sp x | .backquote sp x | .unquote sp x | .splice sp x => fmtSpan "q" sp :: sxSpans x

def splitCmd (line : String) : String × String :=
  let cs := line.toList
  let cmd := cs.takeWhile (· != ' ')
  let rest := (cs.dropWhile (· != ' ')).drop 1
  (String.ofList cmd, String.ofList rest)

def dumpSym (c : Ctx) (name : String) : String × Ctx :=
  let (n, c) := c.intern name
  let s := c.symD n
  let top := match s.items with
    | v :: _ => canon c v
    | [] => "-"
  (name ++ "=" ++ toString s.items.length ++ ":" ++ top, c)


/-! ## object API (C20) -/
namespace ApiDrv
open Tulisp.Api

def canonStr (s : String) : String :=
  "s:\"" ++ String.ofList ((escapeLine s).toList.flatMap fun ch =>
    if ch = '"' then ['\\', 'q'] else if ch = ' ' then ['\\', '_'] else [ch]) ++ "\""

/-- canonical rendering of a heap object as the harness's `canon_api` does it: at most `n` levels of nested
    elements, at most 12 elements per list -/
def canonH (h : Heap) : Nat → Ref → String
  | 0, _ => "#<deep>"
  | n + 1, r =>
    match h.get r with
    | .nil => "nil"
    | .t => "t"
    | .int k => toString k
    | .float b => if f64IsNaN b then "f:nan" else "f:" ++ hex16 b
    | .str s => canonStr s
    | .sym nm => "y:" ++ String.ofList ((escapeLine nm).toList.flatMap fun ch => if ch = ' ' then ['\\', '_'] else [ch])
    | .cons a d => "(" ++ canonH h n a ++ rest h n 1 (h.cells.size + 2) d
where
  rest (h : Heap) (n : Nat) (count : Nat) : Nat → Ref → String
    | 0, _ => ")"
    | fuel + 1, r =>
      match h.get r with
      | .nil => ")"
      | .cons a d =>
        if count == 12 then " ...)"
        else " " ++ canonH h n a ++ rest h n (count + 1) fuel d
      | _ => " . " ++ canonH h n r ++ ")"

def showRef (s : State) (r : Ref) : String := canonH s.heap 4 r

def newHandle (s : State) (r : Ref) : State × String :=
  ({ s with handles := s.handles.push r }, "H " ++ toString s.handles.size)

def allocHandle (s : State) (o : Obj) : State × String :=
  let (r, h) := s.heap.alloc o
  newHandle { s with heap := h } r

def handleOf (s : State) (t : String) : Option Ref :=
  match t.trimAscii.toString.toNat? with
  | some i => s.handles[i]?
  | none => none

def parseHex (t : String) : Option UInt64 :=
  let cs := t.trimAscii.toString.toList
  if cs.isEmpty then none else
  cs.foldl (fun acc c =>
    match acc with
    | none => none
    | some n =>
      if c.isDigit then some (n * 16 + (c.toNat - 48))
      else if c.toNat ≥ 97 && c.toNat ≤ 102 then some (n * 16 + (c.toNat - 87))
      else none) (some 0) |>.map (·.toUInt64)

def parseInt (t : String) : Option Int :=
  let t := t.trimAscii.toString
  match t.toList with
  | '-' :: ds => (String.ofList ds).toNat?.map (fun n => -(n : Int))
  | _ => t.toNat?.map (fun n => (n : Int))

def carR (s : State) (r : Ref) : Except AErr (Ref × State) :=
  match s.heap.car r with
  | .ok (x, h) => .ok (x, { s with heap := h })
  | .error e => .error e

def cdrR (s : State) (r : Ref) : Except AErr (Ref × State) :=
  match s.heap.cdr r with
  | .ok (x, h) => .ok (x, { s with heap := h })
  | .error e => .error e

def path (s : State) (r : Ref) (steps : List Bool) : Except AErr (Ref × State) :=
  -- steps applied left to right: true = car
  steps.foldl (fun acc isA =>
    match acc with
    | .ok (x, st) => if isA then carR st x else cdrR st x
    | .error e => .error e) (.ok (r, s))

def resHandle (s : State) (r : Except AErr (Ref × State)) : State × String :=
  match r with
  | .ok (x, st) => newHandle st x
  | .error _ => (s, "ERR")

def boolStr (b : Bool) : String := if b then "true" else "false"

def asInt (s : State) (r : Ref) : Option Int := match s.heap.get r with | .int n => some n | _ => none
def tryFloat (s : State) (r : Ref) : Option UInt64 :=
  match s.heap.get r with | .float b => some b | .int n => some (intToF64 n) | _ => none
def asString (s : State) (r : Ref) : Option String := match s.heap.get r with | .str x => some x | _ => none
def isNilR (s : State) (r : Ref) : Bool := s.heap.isNil r

/-- `lists::plist_get` on the heap -/
def plistGet (s : State) (prop : Ref) : Nat → Ref → Except AErr (Ref × State)
  | 0, r => .ok (r, s)
  | fuel + 1, r =>
    match s.heap.get r with
    | .cons k rest =>
      if s.heap.eq k prop then path s r [false, true]
      else
        match path s r [false, false] with
        | .ok (nx, st) => plistGet st prop fuel nx
        | .error e => .error e
    | _ => match s.heap.alloc .nil with | (n, h) => .ok (n, { s with heap := h })

/-- the destruct_bind! patterns of the harness -/
def destruct (s : State) (pat : String) (x : Ref) : Except AErr String :=
  let nilRef (st : State) : Ref × State := let (n, h) := st.heap.alloc .nil; (n, { st with heap := h })
  let opt (st : State) (vv : Ref) : Except AErr (Ref × Ref × State) :=
    if isNilR st vv then
      let (a, st1) := nilRef st
      let (b, st2) := nilRef st1
      .ok (a, b, st2)
    else do
      let (a, st1) ← carR st vv
      let (d, st2) ← cdrR st1 vv
      pure (a, d, st2)
  if pat = "1" then do
    let (a, s1) ← carR s x
    let (x1, s2) ← cdrR s1 x
    let (b, s3) ← carR s2 x1
    let (x2, s4) ← cdrR s3 x1
    if isNilR s4 x2 then pure (showRef s4 a ++ " " ++ showRef s4 b) else .error .typeMismatch
  else if pat = "2" then do
    let (a, s1) ← carR s x
    let (x1, s2) ← cdrR s1 x
    let (b, x2, s3) ← opt s2 x1
    let (c, x3, s4) ← opt s3 x2
    if isNilR s4 x3 then pure (showRef s4 a ++ " " ++ showRef s4 b ++ " " ++ showRef s4 c) else .error .typeMismatch
  else if pat = "3" then do
    let (a, s1) ← carR s x
    let (r, s2) ← cdrR s1 x
    pure (showRef s2 a ++ " " ++ showRef s2 r)
  else if pat = "4" then do
    let (a, s1) ← carR s x
    let (x1, s2) ← cdrR s1 x
    let (b, x2, s3) ← opt s2 x1
    pure (showRef s3 a ++ " " ++ showRef s3 b ++ " " ++ showRef s3 x2)
  else .error .undefined

def split3 (rest : String) : String × String × String :=
  let (op, r1) := splitCmd rest
  let (a1, a2) := splitCmd r1
  (op, a1, a2)

end ApiDrv

open ApiDrv Tulisp.Api in
def apiHandle (s : State) (rest : String) : State × String :=
  let (op, a1, a2) := split3 rest
  let hs (t : String) : Option (List Ref) := ((t.splitOn " ").filter (· != "")).mapM (handleOf s)
  if op = "new" then
    if a1 = "int" then (match parseInt a2 with | some n => allocHandle s (.int n) | none => (s, "BADCMD"))
    else if a1 = "float" then (match parseHex a2 with | some b => allocHandle s (.float b) | none => (s, "BADCMD"))
    else if a1 = "str" then allocHandle s (.str (unescapeLine a2))
    else if a1 = "bool" then allocHandle s (if a2.trimAscii.toString = "1" then .t else .nil)
    else if a1 = "nil" then allocHandle s .nil
    else if a1 = "t" then allocHandle s .t
    else if a1 = "sym" then
      -- interned symbols are one object per name: reuse the cell
      let name := a2.trimAscii.toString
      match (List.range s.heap.cells.size).find? (fun i => s.heap.get i == .sym name) with
      | some r => newHandle s r
      | none => allocHandle s (.sym name)
    else (s, "BADCMD")
  else if op = "cons" || op = "push" || op = "append" || op = "eq" || op = "equal" || op = "plist_get" then
    match hs (a1 ++ " " ++ a2) with
    | some [x, y] =>
      if op = "cons" then allocHandle s (.cons x y)
      else if op = "push" then
        (match s.heap.push x y with | .ok h => ({ s with heap := h }, "OK") | .error _ => (s, "ERR"))
      else if op = "append" then
        (match s.heap.append x y with | .ok h => ({ s with heap := h }, "OK") | .error _ => (s, "ERR"))
      else if op = "eq" then (s, "BOOL " ++ boolStr (s.heap.eq x y))
      else if op = "equal" then (s, "BOOL " ++ boolStr (s.heap.equal (s.heap.cells.size + 2) x y))
      else resHandle s (plistGet s y (s.heap.cells.size + 2) x)
    | _ => (s, "BADCMD")
  else if op = "appendtmp" then
    match hs (a1 ++ " " ++ a2) with
    | some [x, y, z] =>
      let (tmp, h0) := s.heap.alloc (.cons y z)
      (match h0.append x tmp with | .ok h => ({ s with heap := h }, "OK") | .error _ => (s, "ERR"))
    | _ => (s, "BADCMD")
  else if op = "list" || op = "fromiter" then
    match hs (a1 ++ " " ++ a2) with
    | some xs =>
      let (l, h0) := s.heap.alloc .nil
      let r := xs.foldl (fun (acc : Except AErr Heap) x =>
        match acc with | .ok h => h.push l x | .error e => .error e) (.ok h0)
      (match r with | .ok h => newHandle { s with heap := h } l | .error _ => (s, "ERR"))
    | none => (s, "BADCMD")
  else if op = "car" || op = "cdr" || op = "cadr" || op = "cddr" || op = "caar" || op = "cdar" || op = "caddr" then
    match handleOf s a1 with
    | some r =>
      let steps : List Bool :=
        if op = "car" then [true] else if op = "cdr" then [false] else if op = "cadr" then [false, true]
        else if op = "cddr" then [false, false] else if op = "caar" then [true, true]
        else if op = "cdar" then [true, false] else [false, false, true]
      resHandle s (path s r steps)
    | none => (s, "BADCMD")
  else if op = "llen" then
    match handleOf s a1 with
    | some r => (s, "N " ++ toString (s.heap.length r))
    | none => (s, "BADCMD")
  else if op = "lnth" || op = "lnthcdr" then
    match parseInt a1, handleOf s a2 with
    | some n, some r =>
      if op = "lnth" then
        (match s.heap.nth n r with | .ok (x, h) => newHandle { s with heap := h } x | .error _ => (s, "ERR"))
      else
        (match s.heap.nthcdr n.toNat r with | .ok x => newHandle s x | .error _ => (s, "ERR"))
    | _, _ => (s, "BADCMD")
  else if op = "llast" then
    match handleOf s a1 with
    | some r =>
      let n : Option (Option Int) := if a2.trimAscii.toString = "" || a2.trimAscii.toString = "none" then some none else (parseInt a2).map some
      (match n with
       | some n => (match s.heap.last r n with | .ok x => newHandle s x | .error _ => (s, "ERR"))
       | none => (s, "BADCMD"))
    | none => (s, "BADCMD")
  else if op = "assoc" || op = "alist_get" then
    match hs (a1 ++ " " ++ a2) with
    | some [k, al] =>
      let r := if op = "assoc" then s.heap.assoc k al else s.heap.alistGet k al none
      (match r with | .ok (x, h) => newHandle { s with heap := h } x | .error _ => (s, "ERR"))
    | some [k, al, d] =>
      if op = "assoc" then (s, "BADCMD") else
      (match s.heap.alistGet k al (some d) with | .ok (x, h) => newHandle { s with heap := h } x | .error _ => (s, "ERR"))
    | _ => (s, "BADCMD")
  else if op = "alist_from" || op = "plist_from" then
    match hs (a1 ++ " " ++ a2) with
    | some xs =>
      let rec pairs : List Ref → Option (List (Ref × Ref))
        | [] => some []
        | k :: v :: rest => (pairs rest).map ((k, v) :: ·)
        | _ => none
      (match pairs xs with
       | some kvs =>
         if kvs.length > 3 then (s, "BADCMD") else
         let r := if op = "alist_from" then s.heap.alistFrom kvs else s.heap.plistFrom kvs
         (match r with | .ok (x, h) => newHandle { s with heap := h } x | .error _ => (s, "ERR"))
       | none => (s, "BADCMD"))
    | none => (s, "BADCMD")
  else if op = "cxrcmp" then
    (match handleOf s a1 with | some _ => (s, "CXR ") | none => (s, "BADCMD"))
  else if op = "bigiter" then
    (match a1.trimAscii.toString.toNat? with
     | some n => (s, "BIG " ++ toString n ++ " " ++ toString (n * (n - 1) / 2) ++ " " ++ (if n = 0 then "nil" else toString (n - 1)) ++ " " ++ toString n)
     | none => (s, "BADCMD"))
  else if op = "deepcopy" then
    match handleOf s a1 with
    | some r => let (c, h) := s.heap.deepCopy r; newHandle { s with heap := h } c
    | none => (s, "BADCMD")
  else if op = "showlast" then
    (match s.handles.back? with
     | some r => (s, "OK " ++ showRef s r)
     | none => (s, "BADCMD"))
  else if op = "show" then
    match handleOf s a1 with
    | some r => (s, "OK " ++ showRef s r)
    | none => (s, "BADCMD")
  else if op = "len" then
    match handleOf s a1 with
    | some r => (s, "N " ++ toString (s.heap.elems r).length)
    | none => (s, "BADCMD")
  else if op = "iter" then
    match handleOf s a1 with
    | some r =>
      let kind := a2.trimAscii.toString
      let items := (s.heap.elems r).map fun x =>
        if kind = "int" then (match asInt s x with | some n => toString n | none => "ERR")
        else if kind = "float" then (match tryFloat s x with | some b => hex16 b | none => "ERR")
        else if kind = "str" then (match asString s x with
          | some t => String.ofList ((escapeLine t).toList.flatMap fun ch => if ch = ' ' then ['\\', '_'] else [ch])
          | none => "ERR")
        else showRef s x
      (s, "ITER " ++ " ".intercalate items)
    | none => (s, "BADCMD")
  else if op = "conv" then
    match handleOf s a1 with
    | some r =>
      let k := a2.trimAscii.toString
      let o := s.heap.get r
      let ans : String :=
        if k = "as_int" || k = "i64" || k = "i64_ref" then (match o with | .int n => "V " ++ toString n | _ => "ERR")
        else if k = "try_int" then (match o with | .int n => "V " ++ toString n | .float b => "V " ++ toString (f64ToI64Trunc b) | _ => "ERR")
        else if k = "as_float" then (match o with | .float b => "V " ++ hex16 b | _ => "ERR")
        else if k = "try_float" || k = "f64" || k = "f64_ref" then (match tryFloat s r with | some b => "V " ++ hex16 b | none => "ERR")
        else if k = "as_string" || k = "string" then (match o with | .str t => "V " ++ escapeLine t | _ => "ERR")
        else if k = "as_symbol" then (match o with | .sym n => "V " ++ escapeLine n | _ => "ERR")
        else if k = "bool" then "V " ++ boolStr (o != .nil)
        else if k = "opt_i64" then (match o with | .nil => "V None" | .int n => "V Some(" ++ toString n ++ ")" | _ => "ERR")
        else if k = "opt_f64" then (match o with | .nil => "V None" | _ => (match tryFloat s r with | some b => "V " ++ hex16 b | none => "ERR"))
        else if k = "opt_string" then (match o with | .nil => "V None" | .str t => "V " ++ escapeLine t | _ => "ERR")
        else if k = "preds" then
          let isC := s.heap.isCons r
          let isN := o == .nil
          let isI := match o with | .int _ => true | _ => false
          let isF := match o with | .float _ => true | _ => false
          let isS := match o with | .str _ => true | _ => false
          let isY := match o with | .sym _ => true | _ => false
          let isK := match o with | .sym n => n.startsWith ":" | _ => false
          "V " ++ " ".intercalate ([isC, isC || isN, isI, isF, isI || isF, isS, isY, isN, isK].map boolStr)
        else "BADCMD"
      (s, ans)
    | none => (s, "BADCMD")
  else if op = "db" then
    match handleOf s a2 with
    | some r => (match destruct s a1 r with | .ok t => (s, "DB " ++ t) | .error _ => (s, "ERR"))
    | none => (s, "BADCMD")
  else if op = "sym" then
    let ps := (a2.splitOn " ").filter (· != "")
    let name := ps.headD ""
    let arg := (ps.drop 1).head?.bind (handleOf s)
    if a1 = "set" || a1 = "setscope" then
      match arg with
      | some v =>
        let r := if a1 = "set" then s.symSet name v else s.symPush name v
        (match r with | .ok s' => (s', "OK") | .error _ => (s, "ERR"))
      | none => (s, "BADCMD")
    else if a1 = "unset" then (match s.symPop name with | .ok s' => (s', "OK") | .error _ => (s, "ERR"))
    else if a1 = "get" then
      match s.symGet name with
      | .ok (some r) => newHandle s r
      | .ok none =>
        (match (List.range s.heap.cells.size).find? (fun i => s.heap.get i == .sym name) with
         | some r => newHandle s r
         | none => allocHandle s (.sym name))
      | .error _ => (s, "ERR")
    else if a1 = "boundp" then (s, "BOOL " ++ boolStr (s.symBoundp name))
    else (s, "BADCMD")
  else (s, "BADCMD")

def handle (st : DState) (line : String) : DState × String :=
  let (cmd, rest) := splitCmd line
  if cmd = "NEW" then ({ st with ctx := Ctx.initial, api := {} }, "OK")
  else if cmd = "API" then
    let (a', ans) := apiHandle st.api rest
    ({ st with api := a' }, ans)
  else if cmd = "#" || cmd = "" then (st, "OK")
  else if cmd = "DEPTH" then (let d := rest.trimAscii.toString.toNat?.getD 12000
                              { st with depth := d, ev := Rec.ofDepth d }, "OK")
  else if cmd = "EVAL" || cmd = "PRINT" || cmd = "PRINC" || cmd = "ERRFMT" then
    let text := unescapeLine rest
    let (r, c') := evalStringWith st.ev text st.ctx
    let how := if cmd = "PRINT" then "print" else if cmd = "PRINC" then "princ" else "canon"
    ({ st with ctx := c' }, fmtRes how r c')
  else if cmd = "PUSHVAR" then
    -- the model has no mutation: it only says whether the push is possible (the target is nil or a proper list);
    -- everything the implementation shows afterwards, except the pushed-onto value itself, must be what it was
    match (rest.splitOn " ").filter (· != "") with
    | [var, path, _] =>
      let (n, c) := st.ctx.intern var
      match (c.symD n).get with
      | none => ({ st with ctx := c }, "ERR")
      | some v0 =>
        let step (acc : Option Val) (ch : Char) : Option Val :=
          match acc with
          | none => none
          | some v =>
            if ch = 'a' then (match v with | .cons _ a _ => some a | .nil => some .nil | _ => none)
            else if ch = 'd' then (match v with | .cons _ _ d => some d | .nil => some .nil | _ => none)
            else some v
        match path.toList.foldl step (some v0) with
        | none => ({ st with ctx := c }, "ERR")
        | some v =>
          let rec proper : Nat → Val → Bool
            | 0, _ => false
            | _, .nil => true
            | f + 1, .cons _ _ d => proper f d
            | _, _ => false
          ({ st with ctx := c }, if proper 1000000 v then "OK" else "ERR")
    | _ => (st, "BADCMD")
  else if cmd = "CTXCALL" then
    -- CTXCALL <funcall|map|filter|reduce> <text>: the text evaluates to a list (FUNC ARG2 [ARG3]); the values are handed to
    -- TulispContext::funcall / map / filter / reduce (FUNC is evaluated once more there, the other values are not)
    let (op, text) := splitCmd rest
    let (r, c1) := evalStringWith st.ev (unescapeLine text) st.ctx
    match r with
    | .ok v =>
      let parts := v.elems
      let m : M Val :=
        match op, parts with
        | "funcall", [fv, args] => do let f ← st.ev.eval fv; funcallVal st.ev false f args
        | "map", [fv, seq] => do let f ← st.ev.eval fv; let rs ← callBuiltin.mapVals st.ev f seq.elems []; mkListM rs
        | "filter", [fv, seq] => do let f ← st.ev.eval fv; let rs ← callBuiltin.filterVals st.ev f seq.elems []; mkListM rs
        | "reduce", [fv, seq, init] => do let f ← st.ev.eval fv; callBuiltin.reduceVals st.ev f init seq.elems
        | _, _ => M.throw .typeMismatch
      let (r2, c2) := m c1
      ({ st with ctx := c2 }, fmtRes "canon" r2 c2)
    | _ => ({ st with ctx := c1 }, fmtRes "canon" r c1)
  else if cmd = "CTX" then
    let n := rest.trimAscii.toString.toNat?.getD 0
    if n = st.current then (st, "OK")
    else
      let parked := (st.current, st.ctx) :: st.parked.filter (·.1 != st.current)
      let ctx := match parked.find? (·.1 == n) with | some (_, c) => c | none => Ctx.initial
      ({ st with ctx := ctx, parked := parked.filter (·.1 != n), current := n }, "OK")
  else if cmd = "EVALBIG" then (st, "SKIP big")      -- implementation-only request (C18 long lists)
  else if cmd = "READ" then
    let text := unescapeLine rest
    let (r, c') := loadText st.ev 0 text st.ctx
    ({ st with ctx := c' }, fmtRes "canon" r c')
  else if cmd = "BODY" then
    let (n, c) := st.ctx.intern rest.trimAscii.toString
    match (c.symD n).get with
    | some (.lambda _ _ body) | some (.defmacro _ _ body) => ({ st with ctx := c }, "OK " ++ canon c body)
    | _ => ({ st with ctx := c }, "ERR nobody")
  else if cmd = "LOADFILE" || cmd = "ERRFMTFILE" || cmd = "WRITEFILE" then
    let (name, text) := splitCmd rest
    let text := unescapeLine text
    let path := st.scratch ++ "/" ++ name
    let c := { st.ctx with files := (path, text) :: st.ctx.files.filter (·.1 != path) }
    if cmd = "WRITEFILE" then ({ st with ctx := c }, "OK")
    else
      let (r, c') := loadFile st.ev path c
      ({ st with ctx := c' }, fmtRes "canon" r c')
  else if cmd = "SPANS" then
    -- the extents of all forms the reader produces for a text: l = list, y = symbol, o = other
    let text := unescapeLine rest
    let rr := readText 0 text.toList
    match rr.res with
    | .ok forms => (st, "SPANS " ++ " ".intercalate (forms.flatMap sxSpans))
    | _ => (st, "SPANS !")
  else if cmd = "FAILAT" then
    let k := rest.trimAscii.toString.toNat?.getD 0
    ({ st with ctx := { st.ctx with tickCount := 0, failAt := k } }, "OK")
  else if cmd = "TICKS" then
    let out := ",".intercalate (st.ctx.ticks.reverse.map toString)
    ({ st with ctx := { st.ctx with ticks := [] } }, "TICKS " ++ out)
  else if cmd = "NTICKS" then (st, "NTICKS " ++ toString st.ctx.tickCount)
  else if cmd = "PROBE" then (st, if rest.startsWith "reset" then "OK" else "PROBE -")
  else if cmd = "DUMP" then
    let names := (rest.splitOn " ").filter (· != "")
    let (parts, c) := names.foldl (fun (acc : List String × Ctx) nm =>
      let (s, c) := dumpSym acc.2 nm
      (s :: acc.1, c)) ([], st.ctx)
    ({ st with ctx := c }, "STATE " ++ "|".intercalate parts.reverse)
  else if cmd = "INVENTORY" then
    -- every interned symbol that is bound, sorted by name (bytewise, as Rust sorts strings)
    let names := (st.ctx.obarray.toList.filter (fun (_, i) =>
      match st.ctx.syms[i]? with | some sy => !sy.items.isEmpty | none => false)).map (·.1)
    let names := names.toArray.qsort (fun a b => a.toUTF8.toList < b.toUTF8.toList) |>.toList
    let (parts, c) := names.foldl (fun (acc : List String × Ctx) nm =>
      let (s, c) := dumpSym acc.2 nm
      (s :: acc.1, c)) ([], st.ctx)
    let parts := parts.reverse
    if rest.trimAscii.toString = "diff" then
      let c0 := Ctx.initial
      let names0 := (c0.obarray.toList.filter (fun (_, i) =>
        match c0.syms[i]? with | some sy => !sy.items.isEmpty | none => false)).map (·.1)
      let names0 := names0.toArray.qsort (fun a b => a.toUTF8.toList < b.toUTF8.toList) |>.toList
      let parts0 := (names0.foldl (fun (acc : List String × Ctx) nm =>
        let (s, c) := dumpSym acc.2 nm
        (s :: acc.1, c)) ([], c0)).1
      let out := parts.filter (fun p => !parts0.contains p)
      let gone := (names0.filter (fun n => !names.contains n)).map ("-" ++ ·)
      ({ st with ctx := c }, "INV " ++ "|".intercalate (out ++ gone))
    else
    ({ st with ctx := c }, "INV " ++ "|".intercalate parts)
  else (st, "BADCMD")

partial def loop (h : IO.FS.Stream) (out : IO.FS.Stream) (st : DState) : IO Unit := do
  let line ← h.getLine
  if line.isEmpty then
    out.flush
    return ()
  let line := (line.dropEndWhile (fun c => c = '\n' || c = '\r')).toString
  let (st', ans) := handle st line
  out.putStrLn ans
  loop h out st'

def main : IO Unit := do
  let stdin ← IO.getStdin
  let stdout ← IO.getStdout
  let scratch := (← IO.getEnv "HARNESS_SCRATCH").getD "/verif/run/files"
  loop stdin stdout { scratch := scratch }
