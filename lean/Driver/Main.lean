/-
  Driver/Main.lean — the model behind the /verif line protocol: one request per line on
  stdin, exactly one answer line per request on stdout (see DESIGN.md 2.3).
-/
import Tulisp
open Tulisp

def hexDigit (n : Nat) : Char :=
  if n < 10 then Char.ofNat (48 + n) else Char.ofNat (87 + n)

def hex16 (b : UInt64) : String :=
  let n := b.toNat
  String.ofList ((List.range 16).reverse.map fun i => hexDigit ((n >>> (4 * i)) % 16))

def hexNat (n : Nat) : String :=
  if n < 16 then String.singleton (hexDigit n)
  else hexNat (n / 16) ++ String.singleton (hexDigit (n % 16))

/-- the `escape` of the Rust harness -/
def escapeLine (s : String) : String :=
  String.ofList (s.toList.flatMap fun c =>
    if c = '\n' then ['\\', 'n']
    else if c = '\r' then ['\\', 'r']
    else if c = '\t' then ['\\', 't']
    else if c = '\\' then ['\\', '\\']
    else if c.toNat < 0x20 || c.toNat = 0x7f then ("\\u{" ++ hexNat c.toNat ++ "}").toList
    else [c])

partial def unescapeAux : List Char → List Char → List Char
  | [], acc => acc.reverse
  | '\\' :: 'n' :: r, acc => unescapeAux r ('\n' :: acc)
  | '\\' :: 'r' :: r, acc => unescapeAux r ('\r' :: acc)
  | '\\' :: 't' :: r, acc => unescapeAux r ('\t' :: acc)
  | '\\' :: '\\' :: r, acc => unescapeAux r ('\\' :: acc)
  | '\\' :: 'u' :: '{' :: r, acc =>
    let hex := r.takeWhile (· != '}')
    let rest := (r.dropWhile (· != '}')).drop 1
    let n := hex.foldl (fun n c =>
      let d := if c.isDigit then c.toNat - 48 else if c.toNat ≥ 97 then c.toNat - 87 else c.toNat - 55
      n * 16 + d) 0
    unescapeAux rest (Char.ofNat n :: acc)
  | c :: r, acc => unescapeAux r (c :: acc)

def unescapeLine (s : String) : String := String.ofList (unescapeAux s.toList [])

/-- canonical rendering, the same as `canon` in harness/src/main.rs -/
partial def canon (c : Ctx) : Val → String
  | .nil => "nil"
  | .t => "t"
  | .int n => toString n
  | .float b => if f64IsNaN b then "f:nan" else "f:" ++ hex16 b
  | .str _ s =>
    "s:\"" ++ String.ofList ((escapeLine s).toList.flatMap fun ch =>
      if ch = '"' then ['\\', 'q'] else if ch = ' ' then ['\\', '_'] else [ch]) ++ "\""
  | .sym n => "y:" ++ String.ofList ((escapeLine (c.symName n)).toList.flatMap fun ch =>
      if ch = ' ' then ['\\', '_'] else [ch])
  | .cons _ a d => "(" ++ canon c a ++ canonRest c d
  | .quote v => "'" ++ canon c v
  | .backquote v => "`" ++ canon c v
  | .unquote v => "," ++ canon c v
  | .splice v => ",@" ++ canon c v
  | .lambda .. => "#<lambda>"
  | .defmacro .. => "#<defmacro>"
  | .builtin b => if b.isMacro then "#<macro>" else "#<func>"
  | .table _ => "#<any>"
  | .bounce => "#<bounce>"
where
  canonRest (c : Ctx) : Val → String
    | .nil => ")"
    | .cons _ a d => " " ++ canon c a ++ canonRest c d
    | other => " . " ++ canon c other ++ ")"

structure DState where
  ctx : Ctx := Ctx.initial
  depth : Nat := 12000
  /-- the evaluator at depth budget `depth`, built once -/
  ev : Rec := Rec.ofDepth 12000
  /-- directory the harness writes LOADFILE files to (their names as `load` sees them) -/
  scratch : String := "/verif/run/files"
  /-- parked contexts of other live sessions (CTX n) -/
  parked : List (Nat × Ctx) := []
  current : Nat := 0

/-- `eval_string` with a prebuilt evaluator -/
def evalStringWith (r : Rec) (text : String) : M Val := do
  let prog ← loadText r 0 text
  evalProgn r prog

def fmtRes (how : String) (r : Res Val) (c : Ctx) : String :=
  match r with
  | .ok v =>
    if how = "print" then
      match printV c v with
      | some s => "OK " ++ escapeLine s
      | none => "SKIP float-fmt"
    else if how = "princ" then
      match princV c v with
      | some s => "OK " ++ escapeLine s
      | none => "SKIP float-fmt"
    else "OK " ++ canon c v
  | .err k => "ERR " ++ k.name
  | .panic s => "PANIC " ++ s
  | .fuel => "SKIP fuel"

def fmtSpan (k : String) (sp : Span) : String :=
  k ++ ":" ++ toString sp.s.line ++ "." ++ toString sp.s.col ++ "-" ++ toString sp.e.line ++ "." ++ toString sp.e.col

partial def sxSpans : Sx → List String
  | .int sp _ | .float sp _ | .str sp _ => [fmtSpan "o" sp]
  | .ident sp _ => [fmtSpan "y" sp]
  | .list sp items tail => fmtSpan "l" sp :: (items.flatMap sxSpans ++ (match tail with | some t => sxSpans t | none => []))
  | .quote sp x | .backquote sp x | .unquote sp x | .splice sp x => fmtSpan "q" sp :: sxSpans x

def splitCmd (line : String) : String × String :=
  let cs := line.toList
  let cmd := cs.takeWhile (· != ' ')
  let rest := (cs.dropWhile (· != ' ')).drop 1
  (String.ofList cmd, String.ofList rest)

def dumpSym (c : Ctx) (name : String) : String × Ctx :=
  let (n, c) := c.intern name
  let s := c.symD n
  let top := match s.items with
    | v :: _ => canon c v
    | [] => "-"
  (name ++ "=" ++ toString s.items.length ++ ":" ++ top, c)

def handle (st : DState) (line : String) : DState × String :=
  let (cmd, rest) := splitCmd line
  if cmd = "NEW" then ({ st with ctx := Ctx.initial }, "OK")
  else if cmd = "#" || cmd = "" then (st, "OK")
  else if cmd = "DEPTH" then (let d := rest.trimAscii.toString.toNat?.getD 12000
                              { st with depth := d, ev := Rec.ofDepth d }, "OK")
  else if cmd = "EVAL" || cmd = "PRINT" || cmd = "PRINC" || cmd = "ERRFMT" then
    let text := unescapeLine rest
    let (r, c') := evalStringWith st.ev text st.ctx
    let how := if cmd = "PRINT" then "print" else if cmd = "PRINC" then "princ" else "canon"
    ({ st with ctx := c' }, fmtRes how r c')
  else if cmd = "CTX" then
    let n := rest.trimAscii.toString.toNat?.getD 0
    if n = st.current then (st, "OK")
    else
      let parked := (st.current, st.ctx) :: st.parked.filter (·.1 != st.current)
      let ctx := match parked.find? (·.1 == n) with | some (_, c) => c | none => Ctx.initial
      ({ st with ctx := ctx, parked := parked.filter (·.1 != n), current := n }, "OK")
  else if cmd = "EVALBIG" then (st, "SKIP big")      -- implementation-only request (C18 long lists)
  else if cmd = "READ" then
    let text := unescapeLine rest
    let (r, c') := loadText st.ev 0 text st.ctx
    ({ st with ctx := c' }, fmtRes "canon" r c')
  else if cmd = "BODY" then
    let (n, c) := st.ctx.intern rest.trimAscii.toString
    match (c.symD n).get with
    | some (.lambda _ _ body) | some (.defmacro _ _ body) => ({ st with ctx := c }, "OK " ++ canon c body)
    | _ => ({ st with ctx := c }, "ERR nobody")
  else if cmd = "LOADFILE" || cmd = "ERRFMTFILE" || cmd = "WRITEFILE" then
    let (name, text) := splitCmd rest
    let text := unescapeLine text
    let path := st.scratch ++ "/" ++ name
    let c := { st.ctx with files := (path, text) :: st.ctx.files.filter (·.1 != path) }
    if cmd = "WRITEFILE" then ({ st with ctx := c }, "OK")
    else
      let (r, c') := loadFile st.ev path c
      ({ st with ctx := c' }, fmtRes "canon" r c')
  else if cmd = "SPANS" then
    -- the extents of all forms the reader produces for a text: l = list, y = symbol, o = other
    let text := unescapeLine rest
    let rr := readText 0 text.toList
    match rr.res with
    | .ok forms => (st, "SPANS " ++ " ".intercalate (forms.flatMap sxSpans))
    | _ => (st, "SPANS !")
  else if cmd = "FAILAT" then
    let k := rest.trimAscii.toString.toNat?.getD 0
    ({ st with ctx := { st.ctx with tickCount := 0, failAt := k } }, "OK")
  else if cmd = "TICKS" then
    let out := ",".intercalate (st.ctx.ticks.reverse.map toString)
    ({ st with ctx := { st.ctx with ticks := [] } }, "TICKS " ++ out)
  else if cmd = "NTICKS" then (st, "NTICKS " ++ toString st.ctx.tickCount)
  else if cmd = "PROBE" then (st, if rest.startsWith "reset" then "OK" else "PROBE -")
  else if cmd = "DUMP" then
    let names := (rest.splitOn " ").filter (· != "")
    let (parts, c) := names.foldl (fun (acc : List String × Ctx) nm =>
      let (s, c) := dumpSym acc.2 nm
      (s :: acc.1, c)) ([], st.ctx)
    ({ st with ctx := c }, "STATE " ++ "|".intercalate parts.reverse)
  else (st, "BADCMD")

partial def loop (h : IO.FS.Stream) (out : IO.FS.Stream) (st : DState) : IO Unit := do
  let line ← h.getLine
  if line.isEmpty then
    out.flush
    return ()
  let line := (line.dropEndWhile (fun c => c = '\n' || c = '\r')).toString
  let (st', ans) := handle st line
  out.putStrLn ans
  loop h out st'

def main : IO Unit := do
  let stdin ← IO.getStdin
  let stdout ← IO.getStdout
  let scratch := (← IO.getEnv "HARNESS_SCRATCH").getD "/verif/run/files"
  loop stdin stdout { scratch := scratch }
